(* Lemmas about Compression/Model.v.  Every statement is for all widths, heights and data (no bound). *)
From PsdV Require Import Base.Prelude Rle.Model Rle.Proofs Compression.Model.
From Coq Require Import ZArith List Bool Lia ZifyBool.
Ltac Zify.zify_post_hook ::= Z.to_euclidean_division_equations.

(* ====================================================================== 0. lists *)
Lemma len_app a b : len (a ++ b) = len a + len b.
Proof. unfold len. rewrite app_length. lia. Qed.

Lemma len_nonneg l : 0 <= len l.
Proof. unfold len. lia. Qed.

Lemma take_firstn c l : take c l = firstn (Z.to_nat c) l.
Proof.
  unfold take, len. destruct (Z.le_ge_cases c (Z.of_nat (length l))).
  - rewrite Z.min_l by lia. reflexivity.
  - rewrite Z.min_r by lia. rewrite Nat2Z.id, firstn_all. symmetry. apply firstn_all2. lia.
Qed.

Lemma drop_skipn c l : drop c l = skipn (Z.to_nat c) l.
Proof.
  unfold drop, len. destruct (Z.le_ge_cases c (Z.of_nat (length l))).
  - rewrite Z.min_l by lia. reflexivity.
  - rewrite Z.min_r by lia. rewrite Nat2Z.id, skipn_all. symmetry. apply skipn_all2. lia.
Qed.

Lemma take_app a b : take (len a) (a ++ b) = a.
Proof.
  rewrite take_firstn. unfold len. rewrite Nat2Z.id.
  rewrite firstn_app, Nat.sub_diag, firstn_all. cbn [firstn]. apply app_nil_r.
Qed.

Lemma drop_app a b : drop (len a) (a ++ b) = b.
Proof.
  rewrite drop_skipn. unfold len. rewrite Nat2Z.id.
  rewrite skipn_app, Nat.sub_diag, skipn_all. reflexivity.
Qed.

Lemma firstn_app_exact {A} (a b : list A) n : length a = n -> firstn n (a ++ b) = a.
Proof. intros <-. rewrite firstn_app, Nat.sub_diag, firstn_all. cbn [firstn]. apply app_nil_r. Qed.

Lemma skipn_app_exact {A} (a b : list A) n : length a = n -> skipn n (a ++ b) = b.
Proof. intros <-. rewrite skipn_app, Nat.sub_diag, skipn_all. reflexivity. Qed.

Lemma bytes_app a b : bytes a -> bytes b -> bytes (a ++ b).
Proof. unfold bytes. intros. apply Forall_app. split; assumption. Qed.

Lemma bytes_app_inv a b : bytes (a ++ b) -> bytes a /\ bytes b.
Proof. unfold bytes. intros H. apply Forall_app in H. exact H. Qed.

(* ====================================================================== 1. read_n / concat *)
Lemma read_n_concat : forall (ps : list (list Z)) k,
  Forall (fun p => length p = k) ps -> read_n (length ps) k (concat ps) = ps.
Proof.
  induction ps as [|p ps IH]; intros k H; [reflexivity|].
  apply Forall_cons_iff in H. destruct H as [Hp H].
  cbn [length read_n concat].
  rewrite (firstn_app_exact p _ k Hp), (skipn_app_exact p _ k Hp), IH by exact H. reflexivity.
Qed.

Lemma read_n_length : forall n k data, length (read_n n k data) = n.
Proof. induction n; intros; cbn [read_n length]; [reflexivity|]. rewrite IHn. reflexivity. Qed.

(* a buffer of exactly n*k bytes is read as n full rows whose concatenation is the buffer *)
Lemma read_n_exact : forall n k data, length data = (n * k)%nat ->
  Forall (fun p => length p = k) (read_n n k data) /\ concat (read_n n k data) = data.
Proof.
  induction n as [|n IH]; intros k data H; cbn [read_n concat].
  - split; [constructor|]. destruct data; [reflexivity|discriminate].
  - destruct (IH k (skipn k data)) as [F C]; [rewrite skipn_length; lia|].
    split.
    + constructor; [|exact F]. apply firstn_length_le. lia.
    + rewrite C. apply firstn_skipn.
Qed.

Lemma read_n_le : forall n k data, Forall (fun p => (length p <= k)%nat) (read_n n k data).
Proof.
  induction n; intros; cbn [read_n]; constructor; [|apply IHn].
  rewrite firstn_length. lia.
Qed.

Lemma read_n_bytes : forall n k data, bytes data -> Forall bytes (read_n n k data).
Proof.
  induction n; intros k data H; cbn [read_n]; constructor.
  - apply bytes_firstn. exact H.
  - apply IHn. apply bytes_skipn. exact H.
Qed.

(* ====================================================================== 2. big-endian fields *)
Lemma be_enc_length : forall k x, length (be_enc k x) = k.
Proof. induction k; intros; cbn [be_enc]; [reflexivity|]. rewrite app_length, IHk. cbn [length]. lia. Qed.

Lemma be_dec_snoc l b : be_dec (l ++ [b]) = be_dec l * 256 + b.
Proof. unfold be_dec. rewrite fold_left_app. reflexivity. Qed.

Lemma be_dec_enc : forall k x, 0 <= x < 256 ^ Z.of_nat k -> be_dec (be_enc k x) = x.
Proof.
  induction k as [|k IH]; intros x H.
  - cbn [be_enc]. unfold be_dec. cbn [fold_left]. change (256 ^ Z.of_nat 0) with 1 in H. lia.
  - cbn [be_enc]. rewrite be_dec_snoc, IH.
    + lia.
    + rewrite Nat2Z.inj_succ, Z.pow_succ_r in H by lia. lia.
Qed.

Lemma be_enc_bytes : forall k x, bytes (be_enc k x).
Proof.
  induction k; intros; cbn [be_enc]; [constructor|].
  apply bytes_app; [apply IHk|]. constructor; [|constructor]. unfold byte. lia.
Qed.

Lemma cmax_pow version : cmax version = 256 ^ Z.of_nat (cw version).
Proof. unfold cmax, cw. destruct (version =? 1); reflexivity. Qed.

Lemma cw_pos version : (0 < cw version)%nat.
Proof. unfold cw. destruct (version =? 1); lia. Qed.

(* ====================================================================== 3. chunks *)
Lemma chunks_go_concat : forall (ls : list (list Z)) k fuel, (0 < k)%nat ->
  Forall (fun l => length l = k) ls -> (length ls <= fuel)%nat ->
  chunks_go fuel k (concat ls) = ls.
Proof.
  induction ls as [|l ls IH]; intros k fuel Hk H Hf.
  - destruct fuel; reflexivity.
  - apply Forall_cons_iff in H. destruct H as [Hl H].
    destruct fuel as [|fuel]; [cbn [length] in Hf; lia|].
    cbn [concat chunks_go].
    destruct (l ++ concat ls) eqn:E.
    + destruct l; [cbn [length] in Hl; lia|discriminate].
    + rewrite <- E. rewrite (firstn_app_exact l _ k Hl), (skipn_app_exact l _ k Hl).
      rewrite IH; [reflexivity|assumption|assumption|cbn [length] in Hf; lia].
Qed.

Lemma length_concat_const : forall (ls : list (list Z)) k,
  Forall (fun l => length l = k) ls -> length (concat ls) = (length ls * k)%nat.
Proof.
  induction ls; intros k H; [reflexivity|].
  apply Forall_cons_iff in H. destruct H as [Hl H].
  cbn [concat length]. rewrite app_length, (IHls k H), Hl. lia.
Qed.

Lemma chunks_concat (ls : list (list Z)) k : (0 < k)%nat ->
  Forall (fun l => length l = k) ls -> chunks k (concat ls) = ls.
Proof.
  intros Hk H. unfold chunks. apply chunks_go_concat; try assumption.
  rewrite (length_concat_const ls k H). nia.
Qed.

(* ====================================================================== 4. the RLE row table *)
Lemma rle_table_concat version rows :
  rle_table version rows = concat (map (fun r => be_enc (cw version) (len r)) rows).
Proof. unfold rle_table. apply flat_map_concat_map. Qed.

Lemma rle_table_length version rows : length (rle_table version rows) = (length rows * cw version)%nat.
Proof.
  rewrite rle_table_concat.
  rewrite (length_concat_const _ (cw version)).
  - rewrite map_length. reflexivity.
  - apply Forall_map. apply Forall_forall. intros. apply be_enc_length.
Qed.

Lemma rle_table_counts version rows : fits version rows = true ->
  map be_dec (chunks (cw version) (rle_table version rows)) = map len rows.
Proof.
  intros F. rewrite rle_table_concat, chunks_concat.
  - rewrite map_map. apply map_ext_in. intros r Hr.
    apply be_dec_enc. unfold fits in F. rewrite forallb_forall in F. specialize (F r Hr).
    rewrite <- cmax_pow. pose proof (len_nonneg r). lia.
  - apply cw_pos.
  - apply Forall_map. apply Forall_forall. intros. apply be_enc_length.
Qed.

Lemma rle_table_bytes version rows : bytes (rle_table version rows).
Proof.
  unfold rle_table. induction rows; cbn [flat_map]; [constructor|].
  apply bytes_app; [apply be_enc_bytes|assumption].
Qed.

(* ====================================================================== 5. decode_rle on any conforming stream *)
Section Rows.
Variable rdec : list Z -> Z -> res (list Z).

Lemma dec_rows_conforming : forall (encs rows : list (list Z)) rs,
  Forall2 (fun e r => rdec e rs = Ok r) encs rows ->
  dec_rows rdec (map len encs) (concat encs) rs = Ok (concat rows).
Proof.
  induction encs as [|e encs IH]; intros rows rs H; inversion H; subst; [reflexivity|].
  cbn [map concat dec_rows]. rewrite take_app, drop_app.
  match goal with HH : rdec e rs = Ok _ |- _ => rewrite HH end. cbn [bind].
  rewrite (IH _ _ H4). reflexivity.
Qed.

(* a stream made of the row table followed by the rows *)
Definition rle_stream (version : Z) (encs : list (list Z)) : list Z :=
  rle_table version encs ++ concat encs.

Lemma decode_rle_stream : forall w h depth version (encs rows : list (list Z)),
  length encs = Z.to_nat h ->
  fits version encs = true ->
  Forall2 (fun e r => rdec e (row_size w depth) = Ok r) encs rows ->
  decode_rle rdec (rle_stream version encs) w h depth version = Ok (concat rows).
Proof.
  intros w h depth version encs rows Hh F H. unfold decode_rle, rle_stream.
  assert (L : length (rle_table version encs) = (Z.to_nat h * cw version)%nat)
    by (rewrite rle_table_length, Hh; reflexivity).
  rewrite (firstn_app_exact _ _ _ L), (skipn_app_exact _ _ _ L), L.
  rewrite Nat.mod_mul by (pose proof (cw_pos version); lia).
  cbn [Nat.eqb negb].
  rewrite (rle_table_counts _ _ F). apply dec_rows_conforming. exact H.
Qed.
End Rows.

(* the two row decoders of the code accept every conforming row (C05), and the empty row of a
   zero-width raster (size 0) *)
Definition conforming_decoder (rdec : list Z -> Z -> res (list Z)) : Prop :=
  forall d n r, bytes d -> expand d = Some r -> len r = n -> (0 < n \/ d = []) -> rdec d n = Ok r.

Lemma py_conforming : conforming_decoder py_decode.
Proof.
  intros d n r Hb HE Hn [Hpos | ->];
    [|cbv in HE; inversion HE; subst r; cbv in Hn; subst n; reflexivity].
  apply decode_conforming; try assumption.
  intros H1. destruct d as [|b [|? ?]]; try discriminate.
  apply expand_single in HE. subst r. unfold len in Hn. cbn [length] in Hn. lia.
Qed.

Lemma cy_conforming : conforming_decoder cy_decode.
Proof.
  intros d n r Hb HE Hn Hpos.
  pose proof (py_conforming d n r Hb HE Hn Hpos) as P.
  destruct (cy_py_agree d n Hb) as [H|(_ & _ & H)]; [pose proof (len_nonneg r); lia|congruence|congruence].
Qed.

Theorem decode_any_conforming : forall rdec, conforming_decoder rdec ->
  forall w h depth version (encs rows : list (list Z)),
  0 < row_size w depth ->
  length encs = Z.to_nat h ->
  Forall bytes encs ->
  Forall2 (fun e r => expand e = Some r) encs rows ->
  Forall (fun r => len r = row_size w depth) rows ->
  fits version encs = true ->
  decode_rle rdec (rle_stream version encs) w h depth version = Ok (concat rows).
Proof.
  intros rdec HC w h depth version encs rows Hrs Hh Hb HE HL F.
  apply decode_rle_stream; try assumption.
  clear Hh F. induction HE; [constructor|].
  apply Forall_cons_iff in Hb. destruct Hb as [Hbx Hb].
  apply Forall_cons_iff in HL. destruct HL as [Hly HL].
  constructor; [|apply IHHE; assumption].
  apply HC; try assumption. left. lia.
Qed.

Lemma conforming_encode rdec : conforming_decoder rdec ->
  forall r, bytes r -> rdec (encode r) (len r) = Ok r.
Proof.
  intros HC r Hb. apply HC; [apply encode_bytes; exact Hb|apply encode_expand|reflexivity|].
  destruct r as [|x r]; [right; reflexivity|left; unfold len; cbn [length]; lia].
Qed.

(* ====================================================================== 6. encode_rle and its round trip *)
Lemma fits_bound : forall version (rows : list (list Z)) rs,
  Forall (fun r => len r <= rs) rows ->
  128 * rs + 126 < 127 * cmax version ->
  fits version (map encode rows) = true.
Proof.
  intros version rows rs H B. unfold fits. rewrite forallb_forall. intros e He.
  apply in_map_iff in He. destruct He as (r & <- & Hr).
  rewrite Forall_forall in H. specialize (H r Hr).
  pose proof (encode_bound r). unfold len in *. lia.
Qed.

Lemma rle_rows_facts data w h depth :
  0 <= h -> 0 <= row_size w depth -> len data = h * row_size w depth ->
  let rows := read_n (Z.to_nat h) (Z.to_nat (row_size w depth)) data in
  Forall (fun r => len r = row_size w depth) rows /\ concat rows = data /\ length rows = Z.to_nat h.
Proof.
  intros Hh Hrs HL rows.
  destruct (read_n_exact (Z.to_nat h) (Z.to_nat (row_size w depth)) data) as [F C].
  - unfold len in HL. nia.
  - split; [|split; [exact C|apply read_n_length]].
    eapply Forall_impl; [|exact F]. intros a Ha. unfold len. cbn beta in Ha. lia.
Qed.

Theorem rle_roundtrip : forall rdec, conforming_decoder rdec ->
  forall data w h depth version e,
  bytes data -> 0 <= h -> 0 <= row_size w depth -> len data = h * row_size w depth ->
  encode_rle data w h depth version = Ok e ->
  decode_rle rdec e w h depth version = Ok data.
Proof.
  intros rdec HC data w h depth version e Hb Hh Hrs HL HE.
  unfold encode_rle in HE. destruct (fits version (rle_rows data w h depth)) eqn:F; [|discriminate].
  inversion HE; subst e; clear HE.
  destruct (rle_rows_facts data w h depth Hh Hrs HL) as (FL & C & LN).
  set (rows := read_n (Z.to_nat h) (Z.to_nat (row_size w depth)) data) in *.
  unfold rle_rows in *. fold rows in F. fold rows.
  change (rle_table version (map encode rows) ++ concat (map encode rows))
    with (rle_stream version (map encode rows)).
  replace (Ok data) with (Ok (concat rows)) by (f_equal; exact C).
  apply decode_rle_stream; try assumption.
  - rewrite map_length. exact LN.
  - assert (RB : Forall bytes rows) by (apply read_n_bytes; exact Hb).
    clear - HC FL RB. induction rows as [|r rows IH]; cbn [map]; constructor.
    + apply Forall_cons_iff in FL. destruct FL as [<- _].
      apply Forall_cons_iff in RB. destruct RB as [Hr _]. apply conforming_encode; assumption.
    + apply Forall_cons_iff in FL. apply Forall_cons_iff in RB. apply IH; tauto.
Qed.

Lemma encode_rle_ok : forall data w h depth version,
  0 <= row_size w depth ->
  128 * row_size w depth + 126 < 127 * cmax version ->
  exists e, encode_rle data w h depth version = Ok e.
Proof.
  intros data w h depth version Hrs B. unfold encode_rle, rle_rows.
  rewrite (fits_bound version _ (row_size w depth)); [eexists; reflexivity| |exact B].
  eapply Forall_impl; [|apply read_n_le]. intros a Ha. cbn beta in Ha. unfold len. lia.
Qed.

(* file version 1: every row of at most 65023 bytes fits the 16-bit count (65024 ramp bytes do not) *)
Lemma v1_safe_row : forall rs, rs <= 65023 -> 128 * rs + 126 < 127 * cmax 1.
Proof. intros. change (cmax 1) with 65536. lia. Qed.
Lemma v2_safe_row : forall rs, rs <= 4261412863 -> 128 * rs + 126 < 127 * cmax 2.
Proof. intros. change (cmax 2) with 4294967296. lia. Qed.
