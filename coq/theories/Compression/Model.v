(* Model of psd_tools/compression/__init__.py and of the three containers that delegate to it
   (ChannelData, ImageData, VirtualMemoryArray).  Definitions only.
   The PackBits row codec is Rle.Model (encode, py_decode, cy_decode); it is imported, not copied.
   zlib is abstract: Section variables [zc zd]; the row decoder [rdec] is a parameter because
   the package binds rle_impl to the compiled _rle when it can be imported and to rle otherwise. *)
From PsdV Require Import Base.Prelude Rle.Model.

Inductive codec := RAW | RLE | ZIP | ZIPP.     (* Compression 0,1,2,3 *)

Definition len (l : list Z) : Z := Z.of_nat (length l).

(* ---------------------------------------------------------------- big-endian unsigned fields *)
Fixpoint be_enc (k : nat) (x : Z) : list Z :=
  match k with O => [] | S k' => be_enc k' (x / 256) ++ [x mod 256] end.
Definition be_dec (l : list Z) : Z := fold_left (fun a b => a * 256 + b) l 0.

(* fp.read(k) repeated n times: each read returns what is left when fewer than k bytes remain *)
Fixpoint read_n (n k : nat) (data : list Z) : list (list Z) :=
  match n with
  | O => []
  | S n' => firstn k data :: read_n n' k (skipn k data)
  end.

(* fp.read(c) / data[:c] with a count that may exceed what is left (kept small for evaluation) *)
Definition take (c : Z) (l : list Z) : list Z := firstn (Z.to_nat (Z.min c (len l))) l.
Definition drop (c : Z) (l : list Z) : list Z := skipn (Z.to_nat (Z.min c (len l))) l.

(* consecutive k-byte items of a buffer (array.frombytes after the length check) *)
Fixpoint chunks_go (fuel k : nat) (l : list Z) : list (list Z) :=
  match fuel with
  | O => []
  | S f => match l with [] => [] | _ => firstn k l :: chunks_go f k (skipn k l) end
  end.
Definition chunks (k : nat) (l : list Z) : list (list Z) := chunks_go (length l) k l.

(* ---------------------------------------------------------------- RLE container  (:105-134) *)
Definition row_size (w depth : Z) : Z := (w * depth + 7) / 8.
(* ("H","I")[version-1] ; versions other than 1 and 2 are not modelled (treated as 2) *)
Definition cw (version : Z) : nat := if version =? 1 then 2%nat else 4%nat.
Definition cmax (version : Z) : Z := if version =? 1 then 65536 else 4294967296.

Definition rle_rows (data : list Z) (w h depth : Z) : list (list Z) :=
  map encode (read_n (Z.to_nat h) (Z.to_nat (row_size w depth)) data).

(* the row table: array.array("H"|"I", map(len, rows)) raises OverflowError on a count that does not fit *)
Definition fits (version : Z) (rows : list (list Z)) : bool :=
  forallb (fun r => len r <? cmax version) rows.

Definition rle_table (version : Z) (rows : list (list Z)) : list Z :=
  flat_map (fun r => be_enc (cw version) (len r)) rows.

Definition encode_rle (data : list Z) (w h depth version : Z) : res (list Z) :=
  let rows := rle_rows data w h depth in
  if fits version rows then Ok (rle_table version rows ++ concat rows)
  else Err OverflowErr.

Section RowDecoder.
Variable rdec : list Z -> Z -> res (list Z).

(* b"".join(decode(fp.read(count), row_size) for count in counts): left to right, first error wins *)
Fixpoint dec_rows (counts : list Z) (data : list Z) (rs : Z) : res (list Z) :=
  match counts with
  | [] => Ok []
  | c :: cs =>
      do r <- rdec (take c data) rs;
      do rest <- dec_rows cs (drop c data) rs;
      Ok (r ++ rest)
  end.

Definition decode_rle (data : list Z) (w h depth version : Z) : res (list Z) :=
  let rs := row_size w depth in
  let k := cw version in
  let n := (Z.to_nat h * k)%nat in
  let raw := firstn n data in
  (* read_be_array: frombytes rejects a byte count that is not a multiple of the item size *)
  if negb (Nat.eqb (length raw mod k) 0) then Err ValueErr
  else dec_rows (map be_dec (chunks k raw)) (skipn n data) rs.
End RowDecoder.

(* ---------------------------------------------------------------- prediction  (:137-228) *)
(* big-endian 16-bit words of a byte string of even length, and back *)
Fixpoint words2 (l : list Z) : list Z :=
  match l with a :: b :: l' => (a * 256 + b) :: words2 l' | _ => [] end.
Definition unwords2 (l : list Z) : list Z := flat_map (fun x => [x / 256; x mod 256]) l.

(* one row, functional form: out[0] = in[0]; out[i+1] = (in[i+1] - in[i]) mod m *)
Fixpoint delta_enc_from (m prev : Z) (l : list Z) : list Z :=
  match l with [] => [] | x :: l' => (x - prev) mod m :: delta_enc_from m x l' end.
Definition delta_enc_row (m : Z) (l : list Z) : list Z :=
  match l with [] => [] | x :: l' => x :: delta_enc_from m x l' end.

(* out[0] = in[0]; out[i+1] = (in[i+1] + out[i]) mod m *)
Fixpoint delta_dec_from (m acc : Z) (l : list Z) : list Z :=
  match l with [] => [] | d :: l' => let v := (d + acc) mod m in v :: delta_dec_from m v l' end.
Definition delta_dec_row (m : Z) (l : list Z) : list Z :=
  match l with [] => [] | x :: l' => x :: delta_dec_from m x l' end.

(* the same two row functions as the in-place loops of the code (one row, offset 0):
   _delta_encode:  for x in reversed(range(w - 1)): arr[x+1] = (arr[x+1] - arr[x]) % mod
   _delta_decode:  for x in range(w - 1):           arr[x+1] = (arr[x+1] + arr[x]) % mod *)
Definition upd (l : list Z) (i : nat) (v : Z) : list Z := firstn i l ++ v :: skipn (S i) l.

Fixpoint enc_loop_desc (m : Z) (x : nat) (arr : list Z) : list Z :=      (* x-1, x-2, ..., 0 *)
  match x with
  | O => arr
  | S x' => enc_loop_desc m x' (upd arr (S x') ((nth (S x') arr 0 - nth x' arr 0) mod m))
  end.
Definition enc_inplace (m : Z) (row : list Z) : list Z := enc_loop_desc m (length row - 1) row.

Fixpoint dec_loop_asc (m : Z) (k x : nat) (arr : list Z) : list Z :=     (* k iterations from x upwards *)
  match k with
  | O => arr
  | S k' => dec_loop_asc m k' (S x) (upd arr (S x) ((nth (S x) arr 0 + nth x arr 0) mod m))
  end.
Definition dec_inplace (m : Z) (row : list Z) : list Z := dec_loop_asc m (length row - 1) 0 row.

(* apply f to each of the first h rows of w items; what follows them is left as it is *)
Fixpoint map_rows (f : list Z -> list Z) (h w : nat) (l : list Z) : list Z :=
  match h with
  | O => l
  | S h' => f (firstn w l) ++ map_rows f h' w (skipn w l)
  end.

(* _delta_encode / _delta_decode on an array of items: arr[pos+1] with pos+1 = h*w-1 is touched
   whenever w >= 2 and h >= 1, so a shorter array raises IndexError; a longer one keeps its tail *)
Definition delta_arr (f : list Z -> list Z) (arr : list Z) (w h : Z) : res (list Z) :=
  if (2 <=? w) && (1 <=? h) && (len arr <? w * h) then Err IndexErr
  else Ok (map_rows f (Z.to_nat h) (Z.to_nat w) arr).

(* 32-bit byte shuffle, one row of 4w bytes, structural form: "1234 1234 1234" -> "111 222 333 444" *)
Fixpoint deal4 (l : list Z) : list Z * list Z * list Z * list Z :=
  match l with
  | a :: b :: c :: d :: l' =>
      let '(p0, p1, p2, p3) := deal4 l' in (a :: p0, b :: p1, c :: p2, d :: p3)
  | _ => ([], [], [], [])
  end.
Definition shuffle_row (l : list Z) : list Z :=
  let '(p0, p1, p2, p3) := deal4 l in p0 ++ p1 ++ p2 ++ p3.

Fixpoint zip4 (p0 p1 p2 p3 : list Z) : list Z :=
  match p0, p1, p2, p3 with
  | a :: p0', b :: p1', c :: p2', d :: p3' => a :: b :: c :: d :: zip4 p0' p1' p2' p3'
  | _, _, _, _ => []
  end.
Definition restore_row (w : nat) (l : list Z) : list Z :=
  zip4 (firstn w l) (firstn w (skipn w l)) (firstn w (skipn (2 * w) l)) (firstn w (skipn (3 * w) l)).

(* _shuffle_byte_order / _restore_byte_order: the index generator yields nothing when w = 0 (copy of the
   array); otherwise it runs over [0, 4wh), so a shorter array raises IndexError, a longer keeps its tail *)
Definition shuffle_arr (f : list Z -> list Z) (arr : list Z) (w h : Z) : res (list Z) :=
  if w =? 0 then Ok arr
  else if len arr <? 4 * w * h then Err IndexErr
  else Ok (map_rows f (Z.to_nat h) (Z.to_nat (4 * w)) arr).

(* the same two functions in the index form the generator _shuffled_order yields:
   the k-th index, k = r*4w + o*4 + b, is r*4w + o + b*w *)
Definition order_row (w : nat) : list nat :=
  flat_map (fun o => map (fun b => (o + b * w)%nat) (seq 0 4)) (seq 0 w).
Definition inv_order_row (w : nat) : list nat :=
  flat_map (fun b => map (fun o => (o * 4 + b)%nat) (seq 0 w)) (seq 0 4).
(* restore: out[k] = in[order k]       shuffle: out[order k] = in[k], i.e. out[j] = in[order^-1 j] *)
Definition restore_row_ix (w : nat) (l : list Z) : list Z := map (fun i => nth i l 0) (order_row w).
Definition shuffle_row_ix (w : nat) (l : list Z) : list Z := map (fun i => nth i l 0) (inv_order_row w).

Definition encode_prediction (data : list Z) (w h depth : Z) : res (list Z) :=
  if depth =? 8 then delta_arr (delta_enc_row 256) data w h
  else if depth =? 16 then
    if negb (Nat.even (length data)) then Err ValueErr      (* array.array("H", data) *)
    else do a <- delta_arr (delta_enc_row 65536) (words2 data) w h; Ok (unwords2 a)
  else if depth =? 32 then
    do a <- shuffle_arr shuffle_row data w h;
    delta_arr (delta_enc_row 256) a (w * 4) h
  else Err ValueErr.

Definition decode_prediction (data : list Z) (w h depth : Z) : res (list Z) :=
  if depth =? 8 then delta_arr (delta_dec_row 256) data w h
  else if depth =? 16 then
    if negb (Nat.even (length data)) then Err ValueErr
    else do a <- delta_arr (delta_dec_row 65536) (words2 data) w h; Ok (unwords2 a)
  else if depth =? 32 then
    do a <- delta_arr (delta_dec_row 256) data (w * 4) h;
    shuffle_arr (restore_row (Z.to_nat w)) a w h
  else Err ValueErr.

(* ---------------------------------------------------------------- compress / decompress  (:31-102) *)
Section Codec.
Variable zc : list Z -> list Z.              (* zlib.compress *)
Variable zd : list Z -> option (list Z).     (* zlib.decompress; None = zlib.error (outside the model) *)
Variable rdec : list Z -> Z -> res (list Z). (* rle_impl.decode *)

Definition compress (c : codec) (data : list Z) (w h depth version : Z) : res (list Z) :=
  match c with
  | RAW => Ok data
  | RLE => encode_rle data w h depth version
  | ZIP => Ok (zc data)
  | ZIPP => do e <- encode_prediction data w h depth; Ok (zc e)
  end.

Definition unzip (data : list Z) : res (list Z) :=
  match zd data with Some x => Ok x | None => Err IOErr end.

Definition decompress (c : codec) (data : list Z) (w h depth version : Z) : res (list Z) :=
  let length := w * h * Z.max 1 (depth / 8) in
  do result <- match c with
               | RAW => Ok (take length data)
               | RLE => decode_rle rdec data w h depth version
               | ZIP => unzip data
               | ZIPP => do x <- unzip data; decode_prediction x w h depth
               end;
  if (8 <=? depth) && negb (len result =? length) then Err AssertErr else Ok result.

(* ---------------------------------------------------------------- containers *)
(* ChannelData (psd/layer_and_mask.py:932-955): the codec is a field, the geometry comes from the caller *)
Record channel_data := { cd_comp : codec; cd_data : list Z }.
Definition cd_set_data (cd : channel_data) (data : list Z) (w h depth version : Z) : res channel_data :=
  do d <- compress (cd_comp cd) data w h depth version;
  Ok {| cd_comp := cd_comp cd; cd_data := d |}.
Definition cd_get_data (cd : channel_data) (w h depth version : Z) : res (list Z) :=
  decompress (cd_comp cd) (cd_data cd) w h depth version.

(* ImageData (psd/image_data.py:59-98): all planes in one raster of height*channels rows *)
Record header := { hd_w : Z; hd_h : Z; hd_channels : Z; hd_depth : Z; hd_version : Z }.
Definition id_set_data (c : codec) (planes : list (list Z)) (hd : header) : res (list Z) :=
  compress c (concat planes) (hd_w hd) (hd_h hd * hd_channels hd) (hd_depth hd) (hd_version hd).
Definition id_get_data (c : codec) (data : list Z) (hd : header) : res (list (list Z)) :=
  do d <- decompress c data (hd_w hd) (hd_h hd * hd_channels hd) (hd_depth hd) (hd_version hd);
  Ok (read_n (Z.to_nat (hd_channels hd)) (Z.to_nat (len d / hd_channels hd)) d).

(* VirtualMemoryArray (psd/patterns.py:223-239): size = (width, height), rectangle = (0,0,height,width),
   always file version 1 *)
Record vma := { vm_written : bool; vm_depth : Z; vm_rect : Z * Z * Z * Z; vm_pixel_depth : Z;
                vm_comp : codec; vm_data : list Z }.
Definition vm_set_data (size : Z * Z) (data : list Z) (depth : Z) (c : codec) : res vma :=
  do d <- compress c data (fst size) (snd size) depth 1;
  Ok {| vm_written := true; vm_depth := depth; vm_rect := (0, 0, snd size, fst size);
        vm_pixel_depth := depth; vm_comp := c; vm_data := d |}.
Definition vm_get_data (v : vma) : option (res (list Z)) :=
  if vm_written v then
    let '(_, _, height, width) := vm_rect v in
    Some (decompress (vm_comp v) (vm_data v) width height (vm_depth v) 1)
  else None.
End Codec.
