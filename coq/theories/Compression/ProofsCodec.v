(* encode_prediction / decode_prediction, compress / decompress and the three containers:
   round trips for all widths, heights, contents. *)
From PsdV Require Import Base.Prelude Rle.Model Compression.Model Compression.Proofs Compression.ProofsPredict.
From Coq Require Import ZArith List Bool Lia ZifyBool.
Ltac Zify.zify_post_hook ::= Z.to_euclidean_division_equations.

(* ====================================================================== 1. delta coding of a whole array *)
Lemma delta_arr_roundtrip m arr w h :
  0 < m -> 0 <= w -> 0 <= h -> inrange m arr -> len arr = w * h ->
  exists e, delta_arr (delta_enc_row m) arr w h = Ok e /\ len e = w * h /\ inrange m e /\
            delta_arr (delta_dec_row m) e w h = Ok arr.
Proof.
  intros Hm Hw Hh HR HL.
  assert (HN : (Z.to_nat h * Z.to_nat w <= length arr)%nat) by (unfold len in HL; nia).
  exists (map_rows (delta_enc_row m) (Z.to_nat h) (Z.to_nat w) arr).
  assert (L : length (map_rows (delta_enc_row m) (Z.to_nat h) (Z.to_nat w) arr) = length arr).
  { apply map_rows_length; [|exact HN]. intros r Hr. rewrite delta_enc_row_length. exact Hr. }
  assert (L' : len (map_rows (delta_enc_row m) (Z.to_nat h) (Z.to_nat w) arr) = w * h)
    by (unfold len in *; rewrite L; exact HL).
  split; [|split; [exact L'|split]].
  - unfold delta_arr. destruct ((2 <=? w) && (1 <=? h) && (len arr <? w * h)) eqn:E; [lia|reflexivity].
  - apply (map_rows_Forall (fun x => 0 <= x < m)); [|exact HN|exact HR].
    intros r _ Hr. apply delta_enc_row_range; assumption.
  - unfold delta_arr. rewrite L'.
    destruct ((2 <=? w) && (1 <=? h) && (w * h <? w * h)) eqn:E; [lia|].
    f_equal. apply (map_rows_inv (fun x => 0 <= x < m)); [|exact HN|exact HR].
    intros r Hr HQ. split; [rewrite delta_enc_row_length; exact Hr|].
    apply delta_dec_enc_row; assumption.
Qed.

Lemma bytes_inrange l : bytes l <-> inrange 256 l.
Proof. reflexivity. Qed.

(* ====================================================================== 2. shuffle of a whole array *)
Lemma shuffle_arr_roundtrip arr w h :
  0 <= w -> 0 <= h -> bytes arr -> len arr = 4 * w * h ->
  exists e, shuffle_arr shuffle_row arr w h = Ok e /\ len e = 4 * w * h /\ bytes e /\
            shuffle_arr (restore_row (Z.to_nat w)) e w h = Ok arr.
Proof.
  intros Hw0 Hh HB HL.
  destruct (Z.eq_dec w 0) as [-> | Hne].
  { exists arr. unfold shuffle_arr. cbn [Z.eqb]. repeat split; assumption. }
  assert (Hw : 0 < w) by lia.
  assert (HN : (Z.to_nat h * Z.to_nat (4 * w) <= length arr)%nat) by (unfold len in HL; nia).
  assert (W4 : Z.to_nat (4 * w) = (4 * Z.to_nat w)%nat) by lia.
  exists (map_rows shuffle_row (Z.to_nat h) (Z.to_nat (4 * w)) arr).
  assert (L : length (map_rows shuffle_row (Z.to_nat h) (Z.to_nat (4 * w)) arr) = length arr).
  { apply map_rows_length; [|exact HN]. intros r Hr. rewrite W4 in *. apply shuffle_row_length. exact Hr. }
  assert (L' : len (map_rows shuffle_row (Z.to_nat h) (Z.to_nat (4 * w)) arr) = 4 * w * h)
    by (unfold len in *; rewrite L; exact HL).
  split; [|split; [exact L'|split]].
  - unfold shuffle_arr. destruct (w =? 0) eqn:E0; [lia|].
    destruct (len arr <? 4 * w * h) eqn:E; [lia|reflexivity].
  - apply (map_rows_Forall byte); [|exact HN|exact HB].
    intros r _ Hr. apply shuffle_row_Forall. exact Hr.
  - unfold shuffle_arr. destruct (w =? 0) eqn:E0; [lia|]. rewrite L'.
    destruct (4 * w * h <? 4 * w * h) eqn:E; [lia|].
    f_equal. apply (map_rows_inv byte); [|exact HN|exact HB].
    intros r Hr _. rewrite W4 in *. split; [apply shuffle_row_length; exact Hr|].
    apply restore_shuffle_row. exact Hr.
Qed.

(* ====================================================================== 3. prediction round trip *)
Theorem prediction_roundtrip : forall data w h depth,
  (depth = 8 \/ depth = 16 \/ depth = 32) -> 0 <= w -> 0 <= h ->
  bytes data -> len data = w * h * (depth / 8) ->
  exists e, encode_prediction data w h depth = Ok e /\ len e = len data /\
            decode_prediction e w h depth = Ok data.
Proof.
  intros data w h depth Hd Hw Hh HB HL.
  destruct Hd as [-> | [-> | ->]].
  - (* 8 bits *)
    change (8 / 8) with 1 in HL.
    destruct (delta_arr_roundtrip 256 data w h) as (e & E1 & L1 & R1 & D1); try lia; [exact HB|].
    exists e. unfold encode_prediction, decode_prediction. cbn [Z.eqb Pos.eqb].
    repeat split; [exact E1|lia|exact D1].
  - (* 16 bits *)
    change (16 / 8) with 2 in HL.
    assert (EV : Nat.even (length data) = true).
    { apply (even_double _ (Z.to_nat (w * h))). unfold len in HL. lia. }
    pose proof (words2_length data EV) as WL.
    destruct (delta_arr_roundtrip 65536 (words2 data) w h) as (e & E1 & L1 & R1 & D1); try lia.
    + apply words2_range. exact HB.
    + unfold len in *. lia.
    + exists (unwords2 e). unfold encode_prediction, decode_prediction. cbn [Z.eqb Pos.eqb].
      rewrite EV. cbn [negb]. rewrite E1. cbn [bind].
      assert (EV2 : Nat.even (length (unwords2 e)) = true)
        by (apply (even_double _ (length e)); apply unwords2_length).
      rewrite EV2. cbn [negb]. rewrite words2_unwords2 by exact R1. rewrite D1. cbn [bind].
      rewrite unwords2_words2 by assumption.
      repeat split. unfold len in *. rewrite unwords2_length. lia.
  - (* 32 bits *)
    change (32 / 8) with 4 in HL.
    destruct (shuffle_arr_roundtrip data w h) as (a & E1 & L1 & B1 & D1); try lia; [exact HB|].
    destruct (delta_arr_roundtrip 256 a (w * 4) h) as (e & E2 & L2 & R2 & D2); try lia; [exact B1|].
    exists e. unfold encode_prediction, decode_prediction. cbn [Z.eqb Pos.eqb].
    rewrite E1. cbn [bind]. rewrite E2.
    repeat split; [lia|]. rewrite D2. cbn [bind]. exact D1.
Qed.

(* the decoder is also injective the other way: re-encoding what was decoded gives the stream back,
   so the stream of ANY encoder that follows the description is the one function [encode_prediction] *)
Lemma delta_arr_roundtrip' m arr w h :
  0 < m -> 0 <= w -> 0 <= h -> inrange m arr -> len arr = w * h ->
  exists e, delta_arr (delta_dec_row m) arr w h = Ok e /\ delta_arr (delta_enc_row m) e w h = Ok arr.
Proof.
  intros Hm Hw Hh HR HL.
  assert (HN : (Z.to_nat h * Z.to_nat w <= length arr)%nat) by (unfold len in HL; nia).
  exists (map_rows (delta_dec_row m) (Z.to_nat h) (Z.to_nat w) arr).
  assert (L : length (map_rows (delta_dec_row m) (Z.to_nat h) (Z.to_nat w) arr) = length arr).
  { apply map_rows_length; [|exact HN]. intros r Hr. rewrite delta_dec_row_length. exact Hr. }
  split.
  - unfold delta_arr. destruct ((2 <=? w) && (1 <=? h) && (len arr <? w * h)) eqn:E; [lia|reflexivity].
  - unfold delta_arr. unfold len in *. rewrite L.
    destruct ((2 <=? w) && (1 <=? h) && (Z.of_nat (length arr) <? w * h)) eqn:E; [lia|].
    f_equal. apply (map_rows_inv (fun x => 0 <= x < m)); [|exact HN|exact HR].
    intros r Hr HQ. split; [rewrite delta_dec_row_length; exact Hr|].
    apply delta_enc_dec_row; assumption.
Qed.

(* ====================================================================== 4. compress / decompress *)
Definition depth_ok (depth : Z) : Prop := depth = 1 \/ depth = 8 \/ depth = 16 \/ depth = 32.

Lemma row_size_bytes w depth : depth = 8 \/ depth = 16 \/ depth = 32 -> row_size w depth = w * (depth / 8).
Proof.
  unfold row_size.
  intros [-> | [-> | ->]]; [change (8 / 8) with 1|change (16 / 8) with 2|change (32 / 8) with 4]; lia.
Qed.

(* the length decompress asserts on (depth >= 8) is the length of a raster of h rows of row_size bytes *)
Lemma assert_length w h depth : depth = 8 \/ depth = 16 \/ depth = 32 ->
  w * h * Z.max 1 (depth / 8) = h * row_size w depth.
Proof.
  intros H. rewrite (row_size_bytes w depth H).
  destruct H as [-> | [-> | ->]]; [change (8 / 8) with 1|change (16 / 8) with 2|change (32 / 8) with 4]; lia.
Qed.

Lemma row_size_1bit w : 0 <= w -> row_size w 1 <= w /\ 0 <= row_size w 1.
Proof. unfold row_size. lia. Qed.

Section Codec.
Variable zc : list Z -> list Z.
Variable zd : list Z -> option (list Z).
Hypothesis zlib_inverse : forall x, zd (zc x) = Some x.
Variable rdec : list Z -> Z -> res (list Z).
Hypothesis rdec_conforming : conforming_decoder rdec.

(* what the final check of decompress does to a result of the right length *)
Lemma final_check data w h depth : depth_ok depth -> len data = h * row_size w depth ->
  (if (8 <=? depth) && negb (len data =? w * h * Z.max 1 (depth / 8)) then Err AssertErr else Ok data)
  = Ok data.
Proof.
  intros Hd HL. destruct Hd as [-> | Hd]; [reflexivity|].
  rewrite (assert_length w h depth Hd), HL, Z.eqb_refl. rewrite andb_false_r. reflexivity.
Qed.

(* the guard of the round trip: a raster of h rows of row_size w depth bytes *)
Definition raster (data : list Z) (w h depth : Z) : Prop :=
  depth_ok depth /\ 0 <= w /\ 0 <= h /\ bytes data /\ len data = h * row_size w depth.

Theorem roundtrip_raw : forall data w h depth version,
  raster data w h depth ->
  decompress zd rdec RAW data w h depth version = Ok data.
Proof.
  intros data w h depth version (Hd & Hw & Hh & HB & HL). unfold decompress.
  assert (T : take (w * h * Z.max 1 (depth / 8)) data = data).
  { rewrite take_firstn. apply firstn_all2.
    destruct Hd as [-> | Hd].
    - pose proof (row_size_1bit w Hw). unfold len in HL. change (1 / 8) with 0. nia.
    - rewrite (assert_length w h depth Hd). unfold len in HL. lia. }
  rewrite T. cbn [bind]. apply final_check; assumption.
Qed.

Theorem roundtrip_zip : forall data w h depth version,
  raster data w h depth ->
  decompress zd rdec ZIP (zc data) w h depth version = Ok data.
Proof.
  intros data w h depth version (Hd & Hw & Hh & HB & HL). unfold decompress, unzip.
  rewrite zlib_inverse. cbn [bind]. apply final_check; assumption.
Qed.

Theorem roundtrip_rle : forall data w h depth version e,
  raster data w h depth ->
  compress zc RLE data w h depth version = Ok e ->
  decompress zd rdec RLE e w h depth version = Ok data.
Proof.
  intros data w h depth version e (Hd & Hw & Hh & HB & HL) HE. unfold decompress.
  cbn [compress] in HE.
  rewrite (rle_roundtrip rdec rdec_conforming data w h depth version e); try assumption.
  - cbn [bind]. apply final_check; assumption.
  - unfold row_size. destruct Hd as [-> | [-> | [-> | ->]]]; lia.
Qed.

Theorem roundtrip_zipp : forall data w h depth version,
  raster data w h depth -> depth <> 1 ->
  exists e, compress zc ZIPP data w h depth version = Ok e /\
            decompress zd rdec ZIPP e w h depth version = Ok data.
Proof.
  intros data w h depth version (Hd & Hw & Hh & HB & HL) H1.
  destruct Hd as [-> | Hd]; [congruence|].
  destruct (prediction_roundtrip data w h depth Hd Hw Hh HB) as (e & E & L & D).
  { rewrite HL, (row_size_bytes w depth Hd). lia. }
  exists (zc e). cbn [compress]. rewrite E. cbn [bind]. split; [reflexivity|].
  unfold decompress, unzip. rewrite zlib_inverse. cbn [bind]. rewrite D. cbn [bind].
  apply final_check; [right; exact Hd|exact HL].
Qed.

(* ZIP with prediction has no 1-bit form: the code rejects it with ValueError, for every raster *)
Theorem zipp_1bit_rejected : forall data w h version,
  compress zc ZIPP data w h 1 version = Err ValueErr.
Proof. reflexivity. Qed.

(* one statement for the four codecs: the only guard left is that ZIP with prediction has no 1-bit form *)
Definition codec_guard (c : codec) (depth : Z) : Prop :=
  match c with
  | RAW | ZIP | RLE => True
  | ZIPP => depth <> 1
  end.

Theorem roundtrip : forall c data w h depth version e,
  raster data w h depth -> codec_guard c depth ->
  compress zc c data w h depth version = Ok e ->
  decompress zd rdec c e w h depth version = Ok data.
Proof.
  intros c data w h depth version e R G HE. destruct c.
  - cbn [compress] in HE. inversion HE; subst e. apply roundtrip_raw. exact R.
  - apply roundtrip_rle; assumption.
  - cbn [compress] in HE. inversion HE; subst e. apply roundtrip_zip. exact R.
  - destruct (roundtrip_zipp data w h depth version R G) as (e' & C & D).
    rewrite C in HE. inversion HE; subst e. exact D.
Qed.

(* ====================================================================== 5. containers *)
Theorem channel_data_roundtrip : forall cd cd' data w h depth version,
  raster data w h depth -> codec_guard (cd_comp cd) depth ->
  cd_set_data zc cd data w h depth version = Ok cd' ->
  cd_get_data zd rdec cd' w h depth version = Ok data.
Proof.
  intros cd cd' data w h depth version R G HS. unfold cd_set_data in HS.
  destruct (compress zc (cd_comp cd) data w h depth version) as [e|] eqn:E; [|discriminate].
  cbn [bind] in HS. inversion HS; subst cd'; clear HS.
  unfold cd_get_data. cbn [cd_comp cd_data]. apply (roundtrip _ _ _ _ _ _ _ R G E).
Qed.

Lemma len_concat_const (ps : list (list Z)) k :
  Forall (fun p => len p = k) ps -> len (concat ps) = Z.of_nat (length ps) * k.
Proof.
  induction ps as [|p ps IH]; intros H; [reflexivity|].
  apply Forall_cons_iff in H. destruct H as [Hp H].
  cbn [concat length]. rewrite len_app, (IH H), Hp. lia.
Qed.

Lemma bytes_concat (ps : list (list Z)) : Forall bytes ps -> bytes (concat ps).
Proof.
  induction ps; intros H; [constructor|]. apply Forall_cons_iff in H. destruct H.
  cbn [concat]. apply bytes_app; auto.
Qed.

(* merged image: [channels] planes of h rows each, stored as one raster of h*channels rows *)
Theorem image_data_roundtrip : forall c planes hd e,
  let w := hd_w hd in let h := hd_h hd in let ch := hd_channels hd in let depth := hd_depth hd in
  depth_ok depth -> 0 <= w -> 0 <= h -> 0 < ch ->
  Z.of_nat (length planes) = ch ->
  Forall bytes planes -> Forall (fun p => len p = h * row_size w depth) planes ->
  codec_guard c depth ->
  id_set_data zc c planes hd = Ok e ->
  id_get_data zd rdec c e hd = Ok planes.
Proof.
  intros c planes hd e w h ch depth Hd Hw Hh Hch HN HB HL G HS.
  unfold id_set_data in HS. unfold id_get_data. fold w h ch depth in HS |- *.
  assert (LC : len (concat planes) = ch * (h * row_size w depth))
    by (rewrite (len_concat_const _ _ HL), HN; reflexivity).
  assert (R : raster (concat planes) w (h * ch) depth).
  { repeat split; try assumption; [nia|apply bytes_concat; exact HB|lia]. }
  rewrite (roundtrip _ _ _ _ _ _ _ R G HS). cbn [bind]. f_equal.
  rewrite LC. replace (ch * (h * row_size w depth) / ch) with (h * row_size w depth) by nia.
  replace (Z.to_nat ch) with (length planes) by lia.
  apply read_n_concat. eapply Forall_impl; [|exact HL]. intros p Hp. cbn beta in Hp. unfold len in Hp.
  assert (0 <= row_size w depth) by (unfold row_size; destruct Hd as [-> | [-> | [-> | ->]]]; lia).
  nia.
Qed.

(* pattern channel: geometry stored in the rectangle, always file version 1 *)
Theorem vma_roundtrip : forall c data w h depth v,
  raster data w h depth -> codec_guard c depth ->
  vm_set_data zc (w, h) data depth c = Ok v ->
  vm_get_data zd rdec v = Some (Ok data).
Proof.
  intros c data w h depth v R G HS. unfold vm_set_data in HS. cbn [fst snd] in HS.
  destruct (compress zc c data w h depth 1) as [e|] eqn:E; [|discriminate].
  cbn [bind] in HS. inversion HS; subst v; clear HS.
  unfold vm_get_data. cbn [vm_written vm_rect vm_comp vm_data vm_depth]. f_equal.
  apply (roundtrip _ _ _ _ _ _ _ R G E).
Qed.
End Codec.

(* ====================================================================== 6. compress succeeds *)
Theorem compress_rle_ok : forall zc data w h depth version,
  0 <= w -> 0 <= depth -> 128 * row_size w depth + 126 < 127 * cmax version ->
  exists e, compress zc RLE data w h depth version = Ok e.
Proof.
  intros. cbn [compress]. apply encode_rle_ok; [|assumption]. unfold row_size. nia.
Qed.


(* ... and compress does succeed, unless an RLE row cannot be counted in the table *)
Theorem compress_ok : forall zc c data w h depth version,
  raster data w h depth -> codec_guard c depth ->
  (c = RLE -> 128 * row_size w depth + 126 < 127 * cmax version) ->
  exists e, compress zc c data w h depth version = Ok e.
Proof.
  intros zc c data w h depth version R G F. destruct c.
  - eexists; reflexivity.
  - destruct R as (Hd & Hw & Hh & HB & HL).
    apply compress_rle_ok; [exact Hw| |apply F; reflexivity].
    destruct Hd as [-> | [-> | [-> | ->]]]; lia.
  - eexists; reflexivity.
  - destruct R as (Hd & Hw & Hh & HB & HL). cbn [codec_guard] in G.
    destruct Hd as [-> | Hd]; [congruence|].
    destruct (prediction_roundtrip data w h depth Hd Hw Hh HB) as (e & E & _).
    { rewrite HL, (row_size_bytes w depth Hd). lia. }
    exists (zc e). cbn [compress]. rewrite E. reflexivity.
Qed.

