(* The structural forms of Compression/Model.v are the loops of the code:
   - the in-place delta loops (descending for encode, ascending for decode) equal the functional rows;
   - the index form of the 32-bit shuffle (what _shuffled_order yields) equals the structural form. *)
From PsdV Require Import Base.Prelude Rle.Model Compression.Model Compression.Proofs Compression.ProofsPredict.
From Coq Require Import ZArith List Bool Lia ZifyBool.

(* ====================================================================== 0. indices *)
Lemma firstn_S_nth : forall n (l : list Z), (n < length l)%nat -> firstn (S n) l = firstn n l ++ [nth n l 0].
Proof.
  induction n as [|n IH]; intros [|x l] H; cbn [length] in H; try lia; [reflexivity|].
  cbn [firstn nth app]. f_equal. apply IH. lia.
Qed.

Lemma skipn_nth_cons : forall n (l : list Z), (n < length l)%nat -> skipn n l = nth n l 0 :: skipn (S n) l.
Proof.
  induction n as [|n IH]; intros [|x l] H; cbn [length] in H; try lia; [reflexivity|].
  cbn [skipn nth]. rewrite (IH l) by lia. reflexivity.
Qed.

Lemma upd_length l i v : (i < length l)%nat -> length (upd l i v) = length l.
Proof.
  intros H. unfold upd. rewrite app_length. cbn [length]. rewrite firstn_length, skipn_length. lia.
Qed.

Lemma upd_firstn l i v k : (k <= i)%nat -> (i < length l)%nat -> firstn k (upd l i v) = firstn k l.
Proof.
  intros Hk Hi. unfold upd. rewrite firstn_app, firstn_firstn, firstn_length.
  replace (Nat.min k i) with k by lia. replace (k - Nat.min i (length l))%nat with 0%nat by lia.
  cbn [firstn]. apply app_nil_r.
Qed.

Lemma upd_skipn l i v : (i < length l)%nat -> skipn i (upd l i v) = v :: skipn (S i) l.
Proof. intros Hi. unfold upd. apply skipn_app_exact. apply firstn_length_le. lia. Qed.

Lemma upd_skipn_S l i v : (i < length l)%nat -> skipn (S i) (upd l i v) = skipn (S i) l.
Proof.
  intros Hi. unfold upd.
  replace (firstn i l ++ v :: skipn (S i) l) with ((firstn i l ++ [v]) ++ skipn (S i) l)
    by (rewrite <- app_assoc; reflexivity).
  apply skipn_app_exact. rewrite app_length, firstn_length_le by lia. cbn [length]. lia.
Qed.

Lemma upd_nth_same l i v : (i < length l)%nat -> nth i (upd l i v) 0 = v.
Proof.
  intros Hi. unfold upd. rewrite app_nth2; rewrite firstn_length_le by lia; [|lia].
  rewrite Nat.sub_diag. reflexivity.
Qed.

Lemma upd_nth_before l i v k : (k < i)%nat -> (i < length l)%nat -> nth k (upd l i v) 0 = nth k l 0.
Proof.
  intros Hk Hi. unfold upd. rewrite app_nth1 by (rewrite firstn_length_le; lia).
  rewrite <- (firstn_skipn i l) at 2. rewrite app_nth1 by (rewrite firstn_length_le; lia). reflexivity.
Qed.

(* ====================================================================== 1. the descending encode loop *)
Lemma last_default_irrelevant : forall (l : list Z) x d d', last (x :: l) d = last (x :: l) d'.
Proof.
  induction l as [|y l IH]; intros; [reflexivity|].
  change (last (x :: y :: l) d) with (last (y :: l) d).
  change (last (x :: y :: l) d') with (last (y :: l) d'). apply IH.
Qed.

Lemma delta_enc_from_snoc m : forall l p y,
  delta_enc_from m p (l ++ [y]) = delta_enc_from m p l ++ [(y - last l p) mod m].
Proof.
  induction l as [|x l IH]; intros p y; [reflexivity|].
  cbn [app delta_enc_from]. rewrite IH.
  replace (last (x :: l) p) with (last l x); [reflexivity|].
  destruct l as [|z l]; [reflexivity|].
  change (last (x :: z :: l) p) with (last (z :: l) p). apply last_default_irrelevant.
Qed.

Lemma enc_loop_desc_spec m : forall x arr, (x < length arr)%nat ->
  enc_loop_desc m x arr = delta_enc_row m (firstn (S x) arr) ++ skipn (S x) arr.
Proof.
  induction x as [|x IH]; intros arr H.
  - destruct arr as [|a arr]; [cbn [length] in H; lia|]. reflexivity.
  - cbn [enc_loop_desc].
    set (v := (nth (S x) arr 0 - nth x arr 0) mod m).
    rewrite IH by (rewrite upd_length; lia).
    rewrite upd_firstn by lia. rewrite upd_skipn by lia.
    rewrite (firstn_S_nth (S x) arr) by lia.
    destruct (firstn (S x) arr) as [|a t] eqn:E.
    + destruct arr; [cbn [length] in H; lia|discriminate].
    + cbn [app delta_enc_row]. rewrite delta_enc_from_snoc.
      assert (EL : last t a = nth x arr 0).
      { rewrite (firstn_S_nth x arr) in E by lia.
        transitivity (last (a :: t) 0).
        - destruct t; [reflexivity|]. change (last (a :: z :: t) 0) with (last (z :: t) 0).
          apply last_default_irrelevant.
        - rewrite <- E. apply last_last. }
      rewrite EL. fold v. rewrite <- !app_assoc. reflexivity.
Qed.

Theorem delta_encode_loop_form m row : enc_inplace m row = delta_enc_row m row.
Proof.
  unfold enc_inplace. destruct row as [|a row]; [reflexivity|].
  rewrite enc_loop_desc_spec by (cbn [length]; lia).
  replace (S (length (a :: row) - 1)) with (length (a :: row)) by (cbn [length]; lia).
  rewrite firstn_all, skipn_all. apply app_nil_r.
Qed.

(* ====================================================================== 2. the ascending decode loop *)
Lemma dec_loop_asc_spec m : forall k x arr, (x + k < length arr)%nat ->
  dec_loop_asc m k x arr =
  firstn x arr ++ (nth x arr 0 :: delta_dec_from m (nth x arr 0) (firstn k (skipn (S x) arr)))
  ++ skipn (S x + k) arr.
Proof.
  induction k as [|k IH]; intros x arr H.
  - cbn [dec_loop_asc firstn delta_dec_from app]. rewrite Nat.add_0_r.
    rewrite <- (skipn_nth_cons x arr) by lia. symmetry. apply firstn_skipn.
  - cbn [dec_loop_asc].
    set (v := (nth (S x) arr 0 + nth x arr 0) mod m).
    rewrite IH by (rewrite upd_length; lia).
    rewrite upd_firstn by lia. rewrite upd_nth_same by lia.
    rewrite upd_skipn_S by lia.
    assert (ES : skipn (S (S x) + k) (upd arr (S x) v) = skipn (S x + S k) arr).
    { rewrite <- (skipn_skipn' (S (S x)) k). rewrite upd_skipn_S by lia.
      rewrite skipn_skipn'. f_equal. lia. }
    rewrite ES.
    rewrite (firstn_S_nth x arr) by lia.
    rewrite (skipn_nth_cons (S x) arr) by lia.
    cbn [firstn delta_dec_from]. fold v.
    rewrite <- !app_assoc. reflexivity.
Qed.

Theorem delta_decode_loop_form m row : dec_inplace m row = delta_dec_row m row.
Proof.
  unfold dec_inplace. destruct row as [|a row]; [reflexivity|].
  rewrite dec_loop_asc_spec by (cbn [length]; lia).
  cbn [firstn app nth skipn length delta_dec_row].
  rewrite Nat.sub_succ, Nat.sub_0_r.
  rewrite firstn_all. rewrite skipn_all2 by (cbn [length]; lia). rewrite app_nil_r. reflexivity.
Qed.

(* ====================================================================== 3. index form of the shuffle *)
Lemma flat_map_map {A B C} (f : B -> list C) (g : A -> B) l :
  flat_map f (map g l) = flat_map (fun x => f (g x)) l.
Proof. induction l; [reflexivity|]. cbn [map flat_map]. rewrite IHl. reflexivity. Qed.

Lemma map_flat_map' {A B C} (g : B -> C) (f : A -> list B) l :
  map g (flat_map f l) = flat_map (fun x => map g (f x)) l.
Proof. induction l; [reflexivity|]. cbn [flat_map]. rewrite map_app, IHl. reflexivity. Qed.

Lemma flat_map_ext_in' {A B} (f g : A -> list B) l :
  (forall x, In x l -> f x = g x) -> flat_map f l = flat_map g l.
Proof.
  induction l; intros H; [reflexivity|]. cbn [flat_map].
  rewrite (H a) by (left; reflexivity). rewrite IHl; [reflexivity|].
  intros x Hx. apply H. right. exact Hx.
Qed.

Lemma deal4_nth : forall l n p0 p1 p2 p3, length l = (4 * n)%nat -> deal4 l = (p0, p1, p2, p3) ->
  p0 = map (fun o => nth (o * 4 + 0) l 0) (seq 0 n) /\ p1 = map (fun o => nth (o * 4 + 1) l 0) (seq 0 n) /\
  p2 = map (fun o => nth (o * 4 + 2) l 0) (seq 0 n) /\ p3 = map (fun o => nth (o * 4 + 3) l 0) (seq 0 n).
Proof.
  induction l as [| a | a b | a b c | a b c d l IH] using list_ind4; intros n p0 p1 p2 p3 L E;
    cbn [length] in L; try lia.
  - destruct n; [|lia]. cbn [deal4] in E. inversion E; subst. repeat split; reflexivity.
  - cbn [deal4] in E. destruct (deal4 l) as [[[q0 q1] q2] q3] eqn:D. inversion E; subst; clear E.
    destruct n as [|n]; [lia|].
    destruct (IH n q0 q1 q2 q3 ltac:(lia) eq_refl) as (E0 & E1 & E2 & E3).
    rewrite <- cons_seq, <- seq_shift. cbn [map]. rewrite !map_map.
    repeat split; [rewrite E0|rewrite E1|rewrite E2|rewrite E3]; reflexivity.
Qed.

Theorem shuffle_row_index_form w l : length l = (4 * w)%nat -> shuffle_row_ix w l = shuffle_row l.
Proof.
  intros L. unfold shuffle_row_ix, inv_order_row, shuffle_row.
  destruct (deal4 l) as [[[p0 p1] p2] p3] eqn:D.
  destruct (deal4_nth l w p0 p1 p2 p3 L D) as (E0 & E1 & E2 & E3).
  cbn [seq flat_map]. rewrite app_nil_r, !map_app, !map_map. subst. reflexivity.
Qed.

Lemma nth_skipn' : forall k (l : list Z) o, nth o (skipn k l) 0 = nth (k + o) l 0.
Proof.
  induction k as [|k IH]; intros l o; [reflexivity|].
  destruct l as [|x l]; [destruct o; reflexivity|]. cbn [skipn Nat.add nth]. apply IH.
Qed.

Lemma nth_firstn' : forall w (l : list Z) o, (o < w)%nat -> nth o (firstn w l) 0 = nth o l 0.
Proof.
  induction w as [|w IH]; intros l o H; [lia|].
  destruct l as [|x l]; [reflexivity|]. destruct o; [reflexivity|]. cbn [firstn nth]. apply IH. lia.
Qed.

Lemma zip4_flat : forall n p0 p1 p2 p3, length p0 = n -> length p1 = n -> length p2 = n -> length p3 = n ->
  zip4 p0 p1 p2 p3 = flat_map (fun o => [nth o p0 0; nth o p1 0; nth o p2 0; nth o p3 0]) (seq 0 n).
Proof.
  induction n as [|n IH]; intros [|a p0] [|b p1] [|c p2] [|d p3] L0 L1 L2 L3; cbn [length] in *; try lia;
    [reflexivity|].
  rewrite <- cons_seq, <- seq_shift. cbn [zip4 flat_map nth app]. rewrite flat_map_map.
  cbn [nth]. rewrite (IH p0 p1 p2 p3) by lia. reflexivity.
Qed.

Theorem restore_row_index_form w l : length l = (4 * w)%nat -> restore_row_ix w l = restore_row w l.
Proof.
  intros L. unfold restore_row_ix, order_row, restore_row.
  rewrite (zip4_flat w) by (rewrite firstn_length, ?skipn_length; lia).
  rewrite map_flat_map'. apply flat_map_ext_in'. intros o Ho. apply in_seq in Ho.
  cbn [seq map]. rewrite !nth_firstn', !nth_skipn' by lia.
  repeat (f_equal; try lia).
Qed.
