(* The RLE row table is truthful (C03 clause), and decode_rle is bounded on ANY input (C06 clause). *)
From PsdV Require Import Base.Prelude Rle.Model Rle.Proofs Compression.Model Compression.Proofs.
From Coq Require Import ZArith List Bool Lia ZifyBool.

(* ====================================================================== 1. rle_table_truthful *)
Definition zsum (l : list Z) : Z := fold_right Z.add 0 l.

Lemma zsum_len_concat (rows : list (list Z)) : zsum (map len rows) = len (concat rows).
Proof.
  induction rows as [|r rows IH]; [reflexivity|].
  cbn [map zsum fold_right concat]. fold (zsum (map len rows)). rewrite IH, len_app. reflexivity.
Qed.

(* what a reader finds at the head of the stream encode_rle wrote: exactly h counts of the width the
   version prescribes (2 bytes PSD, 4 bytes PSB), each the length of its row, summing to the size of
   the row data that follows the table *)
Theorem rle_table_truthful : forall data w h depth version e,
  encode_rle data w h depth version = Ok e ->
  let k := cw version in
  let table := firstn (Z.to_nat h * k) e in
  let body := skipn (Z.to_nat h * k) e in
  let counts := map be_dec (chunks k table) in
  length table = (Z.to_nat h * k)%nat /\
  length counts = Z.to_nat h /\
  counts = map len (rle_rows data w h depth) /\
  Forall (fun c => 0 <= c < cmax version) counts /\
  body = concat (rle_rows data w h depth) /\
  zsum counts = len body /\
  len e = Z.of_nat (Z.to_nat h * k) + zsum counts.
Proof.
  intros data w h depth version e HE k table body counts.
  unfold encode_rle in HE. destruct (fits version (rle_rows data w h depth)) eqn:F; [|discriminate].
  inversion HE; subst e; clear HE.
  set (rows := rle_rows data w h depth) in *.
  assert (LR : length rows = Z.to_nat h)
    by (unfold rows, rle_rows; rewrite map_length; apply read_n_length).
  assert (LT : length (rle_table version rows) = (Z.to_nat h * k)%nat)
    by (rewrite rle_table_length, LR; reflexivity).
  assert (ET : table = rle_table version rows) by (apply firstn_app_exact; exact LT).
  assert (EB : body = concat rows) by (apply skipn_app_exact; exact LT).
  assert (EC : counts = map len rows) by (unfold counts; rewrite ET; apply rle_table_counts; exact F).
  split; [rewrite ET; exact LT|]. split; [rewrite EC, map_length; exact LR|]. split; [exact EC|].
  split.
  { rewrite EC. apply Forall_map. apply Forall_forall. intros r Hr.
    unfold fits in F. rewrite forallb_forall in F. specialize (F r Hr).
    pose proof (len_nonneg r). lia. }
  split; [exact EB|]. split; [rewrite EC, EB; apply zsum_len_concat|].
  rewrite len_app, EC, zsum_len_concat. unfold len at 1. rewrite LT. reflexivity.
Qed.

(* ====================================================================== 2. decode_rle reads a prefix *)
(* the byte strings handed to the row decoder, in order *)
Fixpoint rows_read (counts : list Z) (data : list Z) : list (list Z) :=
  match counts with
  | [] => []
  | c :: cs => take c data :: rows_read cs (drop c data)
  end.

Fixpoint dec_list (rdec : list Z -> Z -> res (list Z)) (rows : list (list Z)) (rs : Z) : res (list Z) :=
  match rows with
  | [] => Ok []
  | d :: ds => do r <- rdec d rs; do rest <- dec_list rdec ds rs; Ok (r ++ rest)
  end.

Lemma dec_rows_reads rdec : forall counts data rs,
  dec_rows rdec counts data rs = dec_list rdec (rows_read counts data) rs.
Proof.
  induction counts as [|c cs IH]; intros; [reflexivity|].
  cbn [dec_rows rows_read dec_list]. destruct (rdec (take c data) rs); [|reflexivity].
  cbn [bind]. rewrite IH. reflexivity.
Qed.

Lemma take_drop c l : take c l ++ drop c l = l.
Proof. unfold take, drop. apply firstn_skipn. Qed.

(* consecutive, non-overlapping pieces of the stream, never beyond its end *)
Theorem rows_read_prefix : forall counts data, exists rest, concat (rows_read counts data) ++ rest = data.
Proof.
  induction counts as [|c cs IH]; intros data; [exists data; reflexivity|].
  destruct (IH (drop c data)) as [rest E]. exists rest.
  cbn [rows_read concat]. rewrite <- app_assoc, E. apply take_drop.
Qed.

(* the whole of decode_rle in that form: table = first h*k bytes (or fewer), rows = a prefix of what follows *)
Theorem decode_rle_reads : forall rdec data w h depth version,
  let k := cw version in
  let n := (Z.to_nat h * k)%nat in
  decode_rle rdec data w h depth version =
  if negb (Nat.eqb (length (firstn n data) mod k) 0) then Err ValueErr
  else dec_list rdec (rows_read (map be_dec (chunks k (firstn n data))) (skipn n data)) (row_size w depth).
Proof. intros. unfold decode_rle. fold k n. rewrite dec_rows_reads. reflexivity. Qed.

(* ====================================================================== 3. decode_rle_bounded *)
Definition bounded_decoder (rdec : list Z -> Z -> res (list Z)) : Prop :=
  forall d n r, bytes d -> 0 <= n -> rdec d n = Ok r -> len r <= n.

Lemma py_bounded : bounded_decoder py_decode.
Proof.
  intros d n r Hb Hn H. destruct (py_decode_exact d n r Hb H) as [E | [_ ->]]; unfold len; [lia|].
  cbn [length]. lia.
Qed.

Lemma cy_bounded : bounded_decoder cy_decode.
Proof.
  intros d n r Hb Hn H. destruct (cy_py_agree d n Hb Hn) as [E | (_ & E & _)]; [|congruence].
  apply (py_bounded d n r Hb Hn). congruence.
Qed.

Lemma bytes_take c l : bytes l -> bytes (take c l).
Proof. intros H. unfold take. apply bytes_firstn. exact H. Qed.
Lemma bytes_drop c l : bytes l -> bytes (drop c l).
Proof. intros H. unfold drop. apply bytes_skipn. exact H. Qed.

Lemma dec_rows_bound rdec : bounded_decoder rdec -> forall counts data rs r,
  bytes data -> 0 <= rs -> dec_rows rdec counts data rs = Ok r ->
  len r <= Z.of_nat (length counts) * rs.
Proof.
  intros HB. induction counts as [|c cs IH]; intros data rs r Hb Hrs H.
  - cbn [dec_rows] in H. inversion H; subst. unfold len. cbn [length]. lia.
  - cbn [dec_rows] in H.
    destruct (rdec (take c data) rs) as [r1|] eqn:E1; [|discriminate]. cbn [bind] in H.
    destruct (dec_rows rdec cs (drop c data) rs) as [r2|] eqn:E2; [|discriminate]. cbn [bind] in H.
    inversion H; subst r; clear H.
    pose proof (HB _ _ _ (bytes_take c data Hb) Hrs E1).
    pose proof (IH _ _ _ (bytes_drop c data Hb) Hrs E2).
    rewrite len_app. cbn [length]. lia.
Qed.

Lemma chunks_go_length k : (0 < k)%nat -> forall q l fuel,
  length l = (q * k)%nat -> (length l <= fuel)%nat -> length (chunks_go fuel k l) = q.
Proof.
  intros Hk. induction q as [|q IH]; intros l fuel HL Hf.
  - destruct l; [|cbn [length] in HL; lia]. destruct fuel; reflexivity.
  - destruct fuel as [|f]; [lia|]. cbn [chunks_go].
    destruct l as [|x l'] eqn:El; [cbn [length] in HL; lia|]. rewrite <- El in *.
    cbn [length]. f_equal. apply IH.
    + rewrite skipn_length. lia.
    + rewrite skipn_length. lia.
Qed.

(* for ANY stream (malformed tables and rows included): whatever is returned has at most h * row_size bytes *)
Theorem decode_rle_bounded : forall rdec, bounded_decoder rdec ->
  forall data w h depth version r,
  bytes data -> 0 <= h -> 0 <= row_size w depth ->
  decode_rle rdec data w h depth version = Ok r ->
  len r <= h * row_size w depth.
Proof.
  intros rdec HB data w h depth version r Hb Hh Hrs H. unfold decode_rle in H.
  set (k := cw version) in *. set (n := (Z.to_nat h * k)%nat) in *.
  assert (Hk : (0 < k)%nat) by apply cw_pos.
  destruct (Nat.eqb (length (firstn n data) mod k) 0) eqn:EM; [|discriminate]. cbn [negb] in H.
  apply Nat.eqb_eq in EM.
  apply (dec_rows_bound rdec HB) in H; [|apply bytes_skipn; exact Hb|exact Hrs].
  rewrite map_length in H.
  assert (EQ : length (firstn n data) = (length (firstn n data) / k * k)%nat).
  { rewrite Nat.mul_comm. apply Nat.div_exact; lia. }
  unfold chunks in H. rewrite (chunks_go_length k Hk _ _ _ EQ (le_n _)) in H.
  assert (LQ : (length (firstn n data) / k <= Z.to_nat h)%nat).
  { assert (length (firstn n data) <= n)%nat by (rewrite firstn_length; lia).
    unfold n in *. apply Nat.div_le_upper_bound; lia. }
  nia.
Qed.
