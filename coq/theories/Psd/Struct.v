(* Fixed-layout records: one struct format string of the code (read_fmt / write_fmt with several fields)
   as a list of field specifications, with the generic round trip.  Used by the stage-3 payload models
   (adjustments, resources, ...): a class whose read()/write() is "one or a few struct formats" is its layout.
     FU n  unsigned integer of n bytes (B H I Q; 4s codes; f / d as their bit patterns)
     FS n  signed integer of n bytes (b h i q)
     FX n  n pad bytes ('x'): written as zeros, skipped on read, carry no value
     FB    '?': written from the truth value (0 -> 0, anything else -> 1), read back as 0 / 1
   A value list shorter or longer than the layout is a struct.error (wrong number of arguments). *)
From PsdV Require Import Base.Prelude Psd.Codec Psd.Model Psd.Proofs.
From Coq Require Import ZArith List Bool Lia ZifyBool.
Import ListNotations.
Open Scope Z_scope.

Inductive fspec := FU (n : nat) | FS (n : nat) | FX (n : nat) | FB.

Fixpoint pack_fields (sp : list fspec) (vs : list Z) : res (list Z) :=
  match sp with
  | [] => match vs with [] => Ok [] | _ => Err StructErr end
  | FX n :: sp' => do b <- pack_fields sp' vs; Ok (zeros n ++ b)
  | f :: sp' =>
      match vs with
      | [] => Err StructErr
      | v :: vs' =>
          do a <- match f with
                  | FU n => pack_u n v
                  | FS n => pack_s n v
                  | _ => pack_u 1 (if v =? 0 then 0 else 1)
                  end;
          do b <- pack_fields sp' vs'; Ok (a ++ b)
      end
  end.

Fixpoint unpack_fields (sp : list fspec) (s : stream) : res (list Z * stream) :=
  match sp with
  | [] => Ok ([], s)
  | FX n :: sp' => do (_, s1) <- take (Z.of_nat n) s; unpack_fields sp' s1
  | FU n :: sp' => do (v, s1) <- read_u n s; do (vs, s2) <- unpack_fields sp' s1; Ok (v :: vs, s2)
  | FS n :: sp' => do (v, s1) <- read_s n s; do (vs, s2) <- unpack_fields sp' s1; Ok (v :: vs, s2)
  | FB :: sp' => do (v, s1) <- read_u 1 s; do (vs, s2) <- unpack_fields sp' s1; Ok ((if v =? 0 then 0 else 1) :: vs, s2)
  end.

(* what the symmetric reading needs: '?' fields hold 0 or 1; signed fields have a width *)
Fixpoint wf_fields (sp : list fspec) (vs : list Z) : bool :=
  match sp, vs with
  | [], _ => true
  | FX _ :: sp', _ => wf_fields sp' vs
  | FB :: sp', v :: vs' => ((v =? 0) || (v =? 1)) && wf_fields sp' vs'
  | FS n :: sp', _ :: vs' => negb (n =? 0)%nat && wf_fields sp' vs'
  | _ :: sp', _ :: vs' => wf_fields sp' vs'
  | _ :: _, [] => true
  end.

Lemma fields_rt sp : forall vs b rest,
  wf_fields sp vs = true -> pack_fields sp vs = Ok b -> unpack_fields sp (b ++ rest) = Ok (vs, rest).
Proof.
  induction sp as [|f sp IH]; intros vs b rest Hwf H.
  - destruct vs; [|discriminate]. inversion H. reflexivity.
  - destruct f as [n|n|n|]; cbn [pack_fields unpack_fields wf_fields] in *.
    + destruct vs as [|v vs]; [discriminate|].
      destruct (pack_u n v) as [a|] eqn:Ea; [|discriminate]. cbn [bind] in H.
      destruct (pack_fields sp vs) as [c|] eqn:Ec; [|discriminate]. inversion H; subst.
      rewrite <- app_assoc. rewrite (read_u_pack _ _ _ _ Ea). cbn [bind]. rewrite (IH vs c rest Hwf Ec). reflexivity.
    + destruct vs as [|v vs]; [discriminate|]. apply andb_prop in Hwf as [Hn Hwf].
      assert (Hn' : (0 < n)%nat) by (destruct n; [discriminate|lia]).
      destruct (pack_s n v) as [a|] eqn:Ea; [|discriminate]. cbn [bind] in H.
      destruct (pack_fields sp vs) as [c|] eqn:Ec; [|discriminate]. inversion H; subst.
      rewrite <- app_assoc. rewrite (read_s_pack n v a _ Hn' Ea). cbn [bind]. rewrite (IH vs c rest Hwf Ec). reflexivity.
    + destruct (pack_fields sp vs) as [c|] eqn:Ec; [|discriminate]. inversion H; subst.
      rewrite <- app_assoc. rewrite (take_app_n _ (zeros n)) by apply len_zeros. cbn [bind]. apply (IH vs c rest Hwf Ec).
    + destruct vs as [|v vs]; [discriminate|]. apply andb_prop in Hwf as [Hv Hwf].
      destruct (pack_u 1 (if v =? 0 then 0 else 1)) as [a|] eqn:Ea; [|discriminate]. cbn [bind] in H.
      destruct (pack_fields sp vs) as [c|] eqn:Ec; [|discriminate]. inversion H; subst.
      rewrite <- app_assoc. rewrite (read_u_pack _ _ _ _ Ea). cbn [bind]. rewrite (IH vs c rest Hwf Ec).
      assert (Hv' : v = 0 \/ v = 1) by lia. destruct Hv' as [-> | ->]; reflexivity.
Qed.

(* rows: a list of records of the same layout, one after the other (sum(item.write(fp) for item in ...)) *)
Fixpoint pack_rows (sp : list fspec) (rows : list (list Z)) : res (list Z) :=
  match rows with
  | [] => Ok []
  | r :: rows' => do a <- pack_fields sp r; do b <- pack_rows sp rows'; Ok (a ++ b)
  end.
Fixpoint unpack_rows (sp : list fspec) (n : nat) (s : stream) : res (list (list Z) * stream) :=
  match n with
  | O => Ok ([], s)
  | S n' => do (r, s1) <- unpack_fields sp s; do (rs, s2) <- unpack_rows sp n' s1; Ok (r :: rs, s2)
  end.
Lemma rows_rt sp rows : forall b rest,
  forallb (wf_fields sp) rows = true -> pack_rows sp rows = Ok b ->
  unpack_rows sp (length rows) (b ++ rest) = Ok (rows, rest).
Proof.
  induction rows as [|r rows IH]; intros b rest Hwf H.
  - inversion H. reflexivity.
  - cbn [pack_rows forallb] in *. apply andb_prop in Hwf as [Hr Hwf].
    destruct (pack_fields sp r) as [a|] eqn:Ea; [|discriminate]. cbn [bind] in H.
    destruct (pack_rows sp rows) as [c|] eqn:Ec; [|discriminate]. inversion H; subst.
    cbn [length unpack_rows]. rewrite <- app_assoc. rewrite (fields_rt sp r a _ Hr Ea). cbn [bind].
    rewrite (IH c rest Hwf eq_refl). reflexivity.
Qed.

(* byte size of a layout; every packed record has it *)
Fixpoint fields_size (sp : list fspec) : Z :=
  match sp with
  | [] => 0
  | FU n :: sp' | FS n :: sp' | FX n :: sp' => Z.of_nat n + fields_size sp'
  | FB :: sp' => 1 + fields_size sp'
  end.
Lemma fields_len sp : forall vs b, pack_fields sp vs = Ok b -> len b = fields_size sp.
Proof.
  induction sp as [|f sp IH]; intros vs b H.
  - destruct vs; [|discriminate]. inversion H. reflexivity.
  - destruct f as [n|n|n|]; cbn [pack_fields fields_size] in *.
    + destruct vs as [|v vs]; [discriminate|]. destruct (pack_u n v) as [a|] eqn:Ea; [|discriminate]. cbn [bind] in H.
      destruct (pack_fields sp vs) as [c|] eqn:Ec; [|discriminate]. inversion H; subst.
      rewrite len_app, (IH _ _ Ec), (pack_u_len _ _ _ Ea). reflexivity.
    + destruct vs as [|v vs]; [discriminate|]. destruct (pack_s n v) as [a|] eqn:Ea; [|discriminate]. cbn [bind] in H.
      destruct (pack_fields sp vs) as [c|] eqn:Ec; [|discriminate]. inversion H; subst.
      rewrite len_app, (IH _ _ Ec), (pack_s_len _ _ _ Ea). reflexivity.
    + destruct (pack_fields sp vs) as [c|] eqn:Ec; [|discriminate]. inversion H; subst.
      rewrite len_app, len_zeros, (IH _ _ Ec). reflexivity.
    + destruct vs as [|v vs]; [discriminate|]. destruct (pack_u 1 _) as [a|] eqn:Ea; [|discriminate]. cbn [bind] in H.
      destruct (pack_fields sp vs) as [c|] eqn:Ec; [|discriminate]. inversion H; subst.
      rewrite len_app, (IH _ _ Ec), (pack_u_len _ _ _ Ea). reflexivity.
Qed.
Lemma rows_len sp rows : forall b, pack_rows sp rows = Ok b -> len b = len rows * fields_size sp.
Proof.
  induction rows as [|r rows IH]; intros b H.
  - inversion H. reflexivity.
  - cbn [pack_rows] in H. destruct (pack_fields sp r) as [a|] eqn:Ea; [|discriminate]. cbn [bind] in H.
    destruct (pack_rows sp rows) as [c|] eqn:Ec; [|discriminate]. inversion H; subst.
    rewrite len_app, len_cons, (fields_len _ _ _ Ea), (IH _ eq_refl). lia.
Qed.

Definition rep {A} (n : nat) (x : A) : list A := repeat x n.

(* layouts without '?' fields whose signed fields have a width: every value list is well-formed for them *)
Definition layout_plain (sp : list fspec) : bool :=
  forallb (fun f => match f with FB => false | FS n => negb (n =? 0)%nat | _ => true end) sp.
Lemma wf_fields_plain sp : layout_plain sp = true -> forall vs, wf_fields sp vs = true.
Proof.
  induction sp as [|f sp IH]; intros H vs; [reflexivity|]. cbn [layout_plain forallb] in H. apply andb_prop in H as [Hf Hs].
  destruct f; cbn [wf_fields]; try discriminate.
  - destruct vs; [reflexivity|]. now apply IH.
  - destruct vs; [reflexivity|]. rewrite Hf. now apply IH.
  - now apply IH.
Qed.
Lemma wf_rows_plain sp rows : layout_plain sp = true -> forallb (wf_fields sp) rows = true.
Proof. intros H. induction rows; [reflexivity|]. cbn [forallb]. now rewrite (wf_fields_plain sp H), IHrows. Qed.
