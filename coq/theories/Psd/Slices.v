(* Stage 3 (5): psd_tools.psd.image_resources - Slices (resource 1050), SlicesV6, SliceV6.
   Versions 7 and 8 hold a DescriptorBlock; version 6 holds a bounding box, a name and the slices, each of which may
   be followed by a DescriptorBlock.  The format does not say whether one follows: the reader PROBES - when at least
   4 bytes remain and they read as 16 (the version of a descriptor block) it tries to read a block there; a ValueError
   or a block with the class id 00 00 00 00 sends it back.  The model mirrors the probe as it is (finding F-C01-4:
   any other exception escapes, so a slice without a block followed by a slice whose id is 16 may be unreadable).
   Definitions only. *)
From PsdV Require Import Base.Prelude Psd.Codec Psd.Model Psd.Descriptor Psd.Struct Psd.Linked.
From Coq Require Import ZArith List Bool Lia.
Import ListNotations.
Open Scope Z_scope.

Record slice6 := mkSlice {
  sl_id : Z; sl_group : Z; sl_origin : Z; sl_assoc : option Z; sl_name : list Z; sl_type : Z; sl_bbox : list Z;
  sl_url : list Z; sl_target : list Z; sl_message : list Z; sl_alt : list Z; sl_html : Z; sl_text : list Z;
  sl_halign : Z; sl_valign : Z; sl_argb : list Z; sl_data : option dblock }.

Definition L_4I : list fspec := [FU 4; FU 4; FU 4; FU 4].
Definition L_4B : list fspec := [FU 1; FU 1; FU 1; FU 1].

Definition write_slice6 (t : terms) (x : slice6) : W :=
  w_fmt (pk_cat [pack_u 4 (sl_id x); pack_u 4 (sl_group x); pack_u 4 (sl_origin x)]) +++
  (if sl_origin x =? 1 then w_opt (sl_assoc x) (fun a => w_fmt (pack_u 4 a)) else w_nil) +++
  w_unicode (sl_name x) 1 +++ w_fmt (pack_u 4 (sl_type x)) +++ w_fmt (pack_fields L_4I (sl_bbox x)) +++
  w_unicode (sl_url x) 1 +++ w_unicode (sl_target x) 1 +++ w_unicode (sl_message x) 1 +++ w_unicode (sl_alt x) 1 +++
  w_fmt (pack_fields [FB] [sl_html x]) +++ w_unicode (sl_text x) 1 +++
  w_fmt (pk_cat [pack_u 4 (sl_halign x); pack_u 4 (sl_valign x)]) +++ w_fmt (pack_fields L_4B (sl_argb x)) +++
  w_opt (sl_data x) (write_dblock t 1).

Definition class_id_of (b : dblock) : list Z :=
  match b with DBlock _ (DDesc _ _ cid _) => cid | _ => [] end.
(* the probe after the fixed part of a slice *)
Definition probe_block (units : list Z) (t : terms) (s : stream) : res (option dblock * terms * stream) :=
  if is_readable 4 s then
    do (version, _) <- read_u 4 s;
    if version =? 16 then
      match read_dblock_s units t s with
      | Ok (b, t', s') => if list_eqb (class_id_of b) [0; 0; 0; 0] then Ok (None, t', s) else Ok (Some b, t', s')
      | Err ValueErr => Ok (None, t, s)
      | Err e => Err e
      end
    else Ok (None, t, s)
  else Ok (None, t, s).

Definition read_slice6 (units : list Z) (t : terms) (s : stream) : res (slice6 * terms * stream) :=
  do (id, s1) <- read_u 4 s; do (group, s2) <- read_u 4 s1; do (origin, s3) <- read_u 4 s2;
  do (assoc, s4) <- r_opt (origin =? 1) (read_u 4) s3;
  do (name, s5) <- r_unicode 1 s4;
  do (ty, s6) <- read_u 4 s5;
  do (bbox, s7) <- unpack_fields L_4I s6;
  do (url, s8) <- r_unicode 1 s7; do (target, s9) <- r_unicode 1 s8;
  do (message, s10) <- r_unicode 1 s9; do (alt, s11) <- r_unicode 1 s10;
  do (html, s12) <- unpack_fields [FB] s11;
  do (text, s13) <- r_unicode 1 s12;
  do (halign, s14) <- read_u 4 s13; do (valign, s15) <- read_u 4 s14;
  do (argb, s16) <- unpack_fields L_4B s15;
  do (p, s17) <- probe_block units t s16;
  Ok (mkSlice id group origin assoc name ty bbox url target message alt (nth 0 html 0) text halign valign argb (fst p), snd p, s17).

Fixpoint read_slices6 (n : nat) (units : list Z) (t : terms) (s : stream) : res (list slice6 * terms * stream) :=
  match n with
  | O => Ok ([], t, s)
  | S n' => do (x, s1) <- read_slice6 units t s;
            do (r, s2) <- read_slices6 n' units (snd x) s1;
            Ok (fst x :: fst r, snd r, s2)
  end.

Inductive slices :=
| SlicesV6 (bbox : list Z) (name : list Z) (items : list slice6)
| SlicesDesc (version : Z) (b : dblock).

Definition write_slices (t : terms) (x : slices) : W :=
  match x with
  | SlicesV6 bbox name items =>
      w_fmt (pack_u 4 6) +++ w_fmt (pack_fields L_4I bbox) +++ w_unicode name 1 +++ w_fmt (pack_u 4 (len items)) +++
      w_concat (map (write_slice6 t) items)
  | SlicesDesc v b => if memz v [7; 8] then w_fmt (pack_u 4 v) +++ write_dblock t 1 b else Err ValueErr   (* validator *)
  end.
Definition read_slices (units : list Z) (t : terms) (s : stream) : res (slices * terms) :=
  do (version, s1) <- read_u 4 s;
  if negb (memz version [6; 7; 8]) then Err AssertErr else
  if version =? 6 then
    do (bbox, s2) <- unpack_fields L_4I s1;
    do (name, s3) <- r_unicode 1 s2;
    do (count, s4) <- read_u 4 s3;
    do (r, _) <- read_slices6 (Z.to_nat (Z.min count (len s4 + 1))) units t s4;
    Ok (SlicesV6 bbox name (fst r), snd r)
  else
    do (r, _) <- read_dblock_s units t s1; Ok (SlicesDesc version (fst r), snd r).

(* what the symmetric reading needs *)
Definition wf_slice6 (units : list Z) (x : slice6) : bool :=
  Bool.eqb (is_some (sl_assoc x)) (sl_origin x =? 1) && ((sl_html x =? 0) || (sl_html x =? 1)) &&
  match sl_data x with
  | None => true
  | Some b => wf_opt_dblock units (Some b) && negb (list_eqb (class_id_of b) [0; 0; 0; 0])
  end.
(* the guard of F-C01-4: the probe of a slice without a block must not see a 16, i.e. the next slice's id is not 16 *)
Fixpoint probe_guard (l : list slice6) : bool :=
  match l with
  | x :: ((y :: _) as l') => (is_some (sl_data x) || negb (sl_id y =? 16)) && probe_guard l'
  | _ => true
  end.
Definition wf_slices (units : list Z) (x : slices) : bool :=
  match x with
  | SlicesV6 _ _ items => forallb (wf_slice6 units) items && probe_guard items
  | SlicesDesc v b => memz v [7; 8] && wf_opt_dblock units (Some b)
  end.
