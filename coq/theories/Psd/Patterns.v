(* Stage 2: psd_tools.psd.patterns - Patterns ('Patt' / 'Pat2' / 'Pat3'), Pattern, VirtualMemoryArrayList,
   VirtualMemoryArray.  Names are UTF-16 code unit lists; the pattern id is a pascal string in ASCII whose
   charset step is the Section codec as for layer names.  Pixel data is opaque bytes.  Definitions only. *)
From PsdV Require Import Base.Prelude Psd.Codec Psd.Model.
From Coq Require Import ZArith List Bool Lia.
Import ListNotations.
Open Scope Z_scope.

Definition model_indexed_mode : Z := 2.          (* ColorMode.INDEXED *)

(* is_written = 0 | is_written <> 0 without a depth (length 0) | the full record *)
Inductive vma :=
| VmaSkipped                                                    (* is_written = 0 *)
| VmaEmpty (is_written : Z)                                     (* depth None: a zero length follows *)
| VmaFull (is_written depth : Z) (rect : list Z) (pixel_depth compression : Z) (data : list Z).

Record vmal := mkVMAL { vl_version : Z; vl_rect : list Z; vl_channels : list vma }.
Record pattern := mkPattern {
  pt_version : Z; pt_mode : Z; pt_point : Z * Z; pt_name : list Z; pt_id : list Z;
  pt_table : option (list (Z * Z * Z)); pt_data : vmal }.

Definition w_u32s (l : list Z) (n : nat) : W :=
  w_fmt (if (length l =? n)%nat then pk_cat (map (pack_u 4) l) else Err StructErr).

Definition write_vma (a : vma) : W :=
  match a with
  | VmaSkipped => w_fmt (pack_u 4 0)
  | VmaEmpty w => if w =? 0 then w_fmt (pack_u 4 0) else w_fmt (pack_u 4 w) +++ w_fmt (pack_u 4 0)
  | VmaFull w depth rect pd comp data =>
      if w =? 0 then w_fmt (pack_u 4 0)
      else w_fmt (pack_u 4 w) +++
           w_length_block 0 4 1
             (w_fmt (pack_u 4 depth) +++ w_u32s rect 4 +++ w_fmt (pk_cat [pack_u 2 pd; pack_u 1 comp]) +++ w_bytes data)
  end.
Definition read_vma (s : stream) : res (vma * stream) :=
  do (w, s1) <- read_u 4 s;
  if w =? 0 then Ok (VmaSkipped, s1)
  else
    do (length, s2) <- read_u 4 s1;
    if length =? 0 then Ok (VmaEmpty w, s2)
    else
      do (depth, s3) <- read_u 4 s2;
      do (rect, s4) <- read_n 4 (read_u 4) s3;
      do (pd, s5) <- read_u 2 s4;
      do (comp, s6) <- read_u 1 s5;
      let d := read_upto (length - 23) s6 in
      if memz comp model_compressions then Ok (VmaFull w depth rect pd comp (fst d), snd d) else Err ValueErr.

Definition write_vmal (l : vmal) : W :=
  w_fmt (pack_u 4 (vl_version l)) +++
  w_length_block 0 4 1
    (w_u32s (vl_rect l) 4 +++ w_fmt (pack_u 4 (len (vl_channels l) - 2)) +++ w_concat (map write_vma (vl_channels l))).
Definition read_vmal (s : stream) : res (vmal * stream) :=
  do (version, s1) <- read_u 4 s;
  if negb (version =? 3) then Err AssertErr else
  do (data, s2) <- read_length_block 0 4 1 s1;
  do (rect, f1) <- read_n 4 (read_u 4) data;
  do (n, f2) <- read_u 4 f1;
  do (chs, _) <- read_n (Z.to_nat (Z.min (n + 2) (len f2 + 1))) read_vma f2;
  if len chs =? n + 2 then Ok (mkVMAL version rect chs, s2) else Err IOErr.

Section Patt.
  Variable enc_s : list Z -> res (list Z).
  Variable dec_s : list Z -> res (list Z).

  Definition w_rgb (c : Z * Z * Z) : W :=
    let '(r, g, b) := c in w_fmt (pk_cat [pack_u 1 r; pack_u 1 g; pack_u 1 b]).
  Definition write_pattern (p : pattern) : W :=
    w_fmt (pk_cat [pack_u 4 (pt_version p); pack_u 4 (pt_mode p)]) +++
    w_fmt (pk_cat [pack_s 2 (fst (pt_point p)); pack_s 2 (snd (pt_point p))]) +++
    w_unicode (pt_name p) 1 +++ w_pascal enc_s (pt_id p) 1 +++
    (if truthy (pt_table p) then opt_w (pt_table p) (fun t => w_concat (map w_rgb t) +++ w_bytes (zeros 4)) else w_nil) +++
    write_vmal (pt_data p).
  Definition r_rgb (s : stream) : res (Z * Z * Z * stream) :=
    do (r, s1) <- read_u 1 s; do (g, s2) <- read_u 1 s1; do (b, s3) <- read_u 1 s2; Ok (r, g, b, s3).
  Definition r_rgb3 (s : stream) : res ((Z * Z * Z) * stream) :=
    do x <- r_rgb s; let '(r, g, b, s') := x in Ok ((r, g, b), s').
  Definition read_pattern (s : stream) : res pattern :=
    do (version, s1) <- read_u 4 s;
    if negb (version =? 1) then Err AssertErr else
    do (mode, s2) <- read_u 4 s1;
    if negb (memz mode model_color_modes) then Err ValueErr else
    do (px, s3) <- read_s 2 s2; do (py, s4) <- read_s 2 s3;
    do (name, s5) <- r_unicode 1 s4;
    do (pid, s6) <- r_pascal dec_s 1 s5;
    do (tbl, s7) <- r_opt (mode =? model_indexed_mode)
                      (fun s => do (t, a) <- read_n 256 r_rgb3 s;
                                do (_, a2) <- take 4 a; Ok (t, a2)) s6;
    do (data, _) <- read_vmal s7;
    Ok (mkPattern version mode (px, py) name pid tbl data).

  Definition write_patterns (l : list pattern) : W :=
    w_concat (map (fun p => w_length_block 0 4 4 (write_pattern p)) l).
  Fixpoint read_patterns (fuel : nat) (s : stream) : res (list pattern) :=
    match fuel with
    | O => Err OutOfFuel
    | S f =>
        if is_readable 4 s then
          do (data, s1) <- read_length_block 0 4 4 s;
          do p <- read_pattern data;
          do r <- read_patterns f s1;
          Ok (p :: r)
        else Ok []
    end.

  (* ---- well-formedness *)
  Definition wf_vma (a : vma) : bool :=
    match a with
    | VmaSkipped => true
    | VmaEmpty w => negb (w =? 0)
    | VmaFull w _ _ _ comp _ => negb (w =? 0) && memz comp model_compressions
    end.
  Definition wf_vmal (l : vmal) : bool :=
    (vl_version l =? 3) && (2 <=? len (vl_channels l)) && forallb wf_vma (vl_channels l).
  Definition wf_pattern (p : pattern) : bool :=
    (pt_version p =? 1) && memz (pt_mode p) model_color_modes && wf_name enc_s dec_s (pt_id p) &&
    match pt_table p with
    | Some t => (pt_mode p =? model_indexed_mode) && (length t =? 256)%nat
    | None => negb (pt_mode p =? model_indexed_mode)
    end && wf_vmal (pt_data p).
End Patt.
