(* Stage 3 (6): round trips of MetadataSettings and Annotations (Psd/Meta.v) *)
From PsdV Require Import Base.Prelude Psd.Codec Psd.Model Psd.Proofs Psd.Leaf Psd.LeafProofs Psd.Descriptor Psd.DescriptorProofs
  Psd.Struct Psd.Linked Psd.LinkedProofs Psd.RsrcProofs Psd.MiscProofs Psd.Meta.
From Coq Require Import ZArith List Bool Lia ZifyBool.
Import ListNotations.
Open Scope Z_scope.

Lemma wtruth_msetting t m : wtruth (write_msetting t m).
Proof.
  unfold write_msetting. apply wtruth_seq; [apply wtruth_fmt|]. apply wtruth_length_block.
  destruct (ms_data m); [apply wtruth_fmt|apply wtruth_dblock|apply wtruth_bytes].
Qed.
Lemma wtruth_msettings t l : wtruth (write_msettings t l).
Proof. unfold write_msettings. apply wtruth_seq; [apply wtruth_fmt|]. apply wtruth_concat_map, wtruth_msetting. Qed.

Theorem msetting_rt units t m bs n rest :
  wf_terms t = true -> wf_msetting units m = true -> write_msetting t m = Ok (bs, n) ->
  read_msetting units t (bs ++ rest) = Ok (m, t, rest) /\ 1 <= len bs.
Proof.
  unfold wf_msetting, write_msetting. intros Hw Hwf H.
  destruct m as [sg key cp data]. cbn [ms_sig ms_key ms_copy ms_data] in *.
  apply andb_prop in Hwf as [Hwf Hdata]. apply andb_prop in Hwf as [Hsig Hcp].
  apply w_seq_inv in H as (a & na & b & nb & Ha & Hb & -> & ->). apply w_fmt_inv in Ha as [Ha _].
  pose proof (fields_len _ _ _ Ha) as Hla. change (fields_size [FU 4; FU 4; FB; FX 3]) with 12 in Hla.
  split; [|len_lia].
  pose proof (fields_rt [FU 4; FU 4; FB; FX 3] [sg; key; cp] a (b ++ rest) ltac:(cbn [wf_fields]; now rewrite Hcp) Ha) as Hf.
  change (unpack_fields [FU 4; FU 4; FB; FX 3] (a ++ b ++ rest))
    with (do (v, s1) <- read_u 4 (a ++ b ++ rest); do (vs, s2) <- unpack_fields [FU 4; FB; FX 3] s1; Ok (v :: vs, s2)) in Hf.
  unfold read_msetting. rewrite <- !app_assoc.
  destruct (read_u 4 (a ++ b ++ rest)) as [[v0 s1]|]; [|discriminate]. cbn [bind] in Hf |- *.
  destruct (unpack_fields [FU 4; FB; FX 3] s1) as [[vs s2]|]; [|discriminate]. cbn [bind] in Hf. inversion Hf; subst v0 vs s2. clear Hf.
  rewrite Hsig. cbn [negb bind nth].
  block_inv Hb rest body Hbody Hr; [lia|reflexivity|destruct data; [apply wtruth_fmt|apply wtruth_dblock|apply wtruth_bytes]|].
  rewrite Hr. cbn [bind].
  destruct data as [v|blk|d].
  - rewrite Hdata. apply w_fmt_inv in Hbody as [Hbody _]. rewrite <- (app_nil_r body). rewrite (read_u_pack _ _ _ _ Hbody). reflexivity.
  - apply andb_prop in Hdata as [Hk Hblk]. apply andb_prop in Hk as [Hni Hd]. apply negb_true_iff in Hni. rewrite Hni, Hd.
    destruct blk as [bv dd|]; [|discriminate]. cbn [wf_opt_dblock] in Hblk.
    (* written with padding 4: the block read ignores what follows the descriptor *)
    cbn [write_dblock] in Hbody. apply w_then_pad_inv in Hbody as (y & ny & Hy & Ebody & _).
    assert (Hy1 : write_dblock t 1 (DBlock bv dd) = Ok (y, ny)).
    { cbn [write_dblock]. unfold w_then_pad, w_pad. rewrite Hy. cbn [bind fst snd]. rewrite pad_count_1. cbn [Z.to_nat zeros repeat w_bytes bind fst snd len length Z.of_nat].
      rewrite app_nil_r, Z.add_0_r. reflexivity. }
    rewrite Ebody. rewrite (dblock_s_rt units t bv dd y ny _ Hw Hblk Hy1). reflexivity.
  - apply andb_prop in Hdata as [Hni Hnd]. apply negb_true_iff in Hni, Hnd. rewrite Hni, Hnd.
    apply w_bytes_inv in Hbody as [-> _]. reflexivity.
Qed.

Lemma msettings_n_rt units t : wf_terms t = true -> forall l bs n rest,
  forallb (wf_msetting units) l = true -> w_concat (map (write_msetting t) l) = Ok (bs, n) ->
  read_msettings_n (length l) units t (bs ++ rest) = Ok (l, t, rest).
Proof.
  intros Hw. induction l as [|m l IH]; intros bs n rest Hwf H.
  - apply w_concat_nil_inv in H as [-> _]. reflexivity.
  - apply w_concat_cons_inv in H as (b1 & n1 & b2 & n2 & Hm & Hl & -> & ->).
    cbn [forallb] in Hwf. apply andb_prop in Hwf as [Hwm Hwl].
    cbn [length read_msettings_n]. rewrite <- app_assoc.
    rewrite (proj1 (msetting_rt units t m b1 n1 _ Hw Hwm Hm)). cbn [bind fst snd].
    rewrite (IH b2 n2 rest Hwl Hl). reflexivity.
Qed.
Theorem msettings_rt units t l bs n :
  wf_terms t = true -> forallb (wf_msetting units) l = true -> write_msettings t l = Ok (bs, n) ->
  read_msettings units t bs = Ok (l, t).
Proof.
  unfold write_msettings. intros Hw Hwf H.
  apply w_seq_inv in H as (a & na & b & nb & Ha & Hb & -> & ->). apply w_fmt_inv in Ha as [Ha _].
  unfold read_msettings. steps.
  assert (Hlen : len l <= len b).
  { clear Ha. revert b nb Hb Hwf. induction l as [|m l IH]; intros b nb Hb Hwf.
    - apply w_concat_nil_inv in Hb as [-> _]. reflexivity.
    - apply w_concat_cons_inv in Hb as (b1 & n1 & b2 & n2 & Hm & Hl & -> & ->).
      cbn [forallb] in Hwf. apply andb_prop in Hwf as [Hwm Hwl]. specialize (IH _ _ Hl Hwl).
      pose proof (proj2 (msetting_rt units t m b1 n1 [] Hw Hwm Hm)). rewrite len_app. unfold len in *. cbn [length]. lia. }
  replace (Z.to_nat (Z.min (len l) (len b + 1))) with (length l) by (unfold len in *; lia).
  rewrite <- (app_nil_r b). rewrite (msettings_n_rt units t Hw l b nb [] Hwf Hb). reflexivity.
Qed.

Section MetaProofs.
  Variable enc_s : list Z -> res (list Z).
  Variable dec_s : list Z -> res (list Z).

  Lemma wtruth_annotation a : wtruth (write_annotation enc_s a).
  Proof.
    unfold write_annotation. repeat apply wtruth_seq; try apply wtruth_fmt; try apply wtruth_pascal; try apply wtruth_color.
    apply wtruth_length_block, wtruth_bytes.
  Qed.
  Lemma wtruth_annotations major minor l : wtruth (write_annotations enc_s major minor l).
  Proof.
    unfold write_annotations. apply wtruth_then_pad, wtruth_seq; [apply wtruth_fmt|]. apply wtruth_concat_map. intros a.
    destruct (write_annotation enc_s a) as [[x nx]|]; cbn [bind fst]; [|apply wtruth_err].
    apply wtruth_seq; [apply wtruth_fmt|apply wtruth_bytes].
  Qed.

  Theorem annotation_rt a bs n : wf_annotation enc_s dec_s a = true -> write_annotation enc_s a = Ok (bs, n) ->
    read_annotation dec_s bs = Ok a /\ 1 <= len bs.
  Proof.
    unfold wf_annotation, write_annotation. intros Hwf H.
    destruct a as [head icon popup [cid cvals] author name date marker data].
    cbn [an_head an_icon an_popup an_color an_author an_name an_date an_marker an_data fst snd] in *.
    apply andb_prop in Hwf as [Hwf Hdate]. apply andb_prop in Hwf as [Hwf Hname]. apply andb_prop in Hwf as [Hwf Hauthor].
    apply andb_prop in Hwf as [Hkind Hmarker].
    apply w_seq_inv in H as (x8 & n8 & b9 & n9 & H & H9 & -> & ->).
    apply w_seq_inv in H as (x7 & n7 & b8 & n8' & H & H8 & -> & ->).
    apply w_seq_inv in H as (x6 & n6 & b7 & n7' & H & H7 & -> & ->).
    apply w_seq_inv in H as (x5 & n5 & b6 & n6' & H & H6 & -> & ->).
    apply w_seq_inv in H as (x4 & n4 & b5 & n5' & H & H5 & -> & ->).
    apply w_seq_inv in H as (x3 & n3 & b4 & n4' & H & H4 & -> & ->).
    apply w_seq_inv in H as (x2 & n2 & b3 & n3' & H & H3 & -> & ->).
    apply w_seq_inv in H as (b1 & n1 & b2 & n2' & H1 & H2 & -> & ->).
    apply w_fmt_inv in H1 as [H1 _]. apply w_fmt_inv in H2 as [H2 _]. apply w_fmt_inv in H3 as [H3 _]. apply w_fmt_inv in H8 as [H8 _].
    open_pk H8.
    pose proof (fields_len _ _ _ H1) as Hl1. change (fields_size L_anno) with 8 in Hl1.
    split; [|len_lia].
    unfold read_annotation. rewrite <- !app_assoc.
    rewrite (fields_rt L_anno head b1 _ (wf_fields_plain L_anno eq_refl head) H1). cbn [bind].
    rewrite (fields_rt L_4i' icon b2 _ (wf_fields_plain L_4i' eq_refl icon) H2). cbn [bind].
    rewrite (fields_rt L_4i' popup b3 _ (wf_fields_plain L_4i' eq_refl popup) H3). cbn [bind].
    rewrite (color_rt cid cvals b4 n4' _ H4). cbn [bind fst snd].
    rewrite (pascal_rt enc_s dec_s author 2 b5 n5' _ ltac:(lia) (wf_name_inv enc_s dec_s author Hauthor) H5). cbn [bind].
    rewrite (pascal_rt enc_s dec_s name 2 b6 n6' _ ltac:(lia) (wf_name_inv enc_s dec_s name Hname) H6). cbn [bind].
    rewrite (pascal_rt enc_s dec_s date 2 b7 n7' _ ltac:(lia) (wf_name_inv enc_s dec_s date Hdate) H7). cbn [bind].
    rewrite <- ?app_assoc. steps.
    block_inv H9 (@nil Z) body Hbody Hr; [lia|reflexivity|apply wtruth_bytes|].
    rewrite app_nil_r in Hr. rewrite Hr. cbn [bind]. apply w_bytes_inv in Hbody as [-> _].
    rewrite Hkind, Hmarker. reflexivity.
  Qed.

  Lemma anno_items_rt : forall l bs n tail,
    forallb (wf_annotation enc_s dec_s) l = true ->
    w_concat (map (fun a => do x <- write_annotation enc_s a; w_fmt (pack_u 4 (len (fst x) + 4)) +++ w_bytes (fst x)) l) = Ok (bs, n) ->
    read_anno_items dec_s (length l) (bs ++ tail) = Ok l /\ len l <= len bs.
  Proof.
    induction l as [|a l IH]; intros bs n tail Hwf H.
    - apply w_concat_nil_inv in H as [-> _]. split; reflexivity.
    - apply w_concat_cons_inv in H as (b1 & n1 & b2 & n2 & Ha & Hl & -> & ->).
      cbn [forallb] in Hwf. apply andb_prop in Hwf as [Hwa Hwl].
      destruct (write_annotation enc_s a) as [[x nx]|] eqn:Ea; [|discriminate]. cbn [bind fst] in Ha.
      apply w_seq_inv in Ha as (c & nc & d & nd & Hc & Hd & -> & ->). apply w_fmt_inv in Hc as [Hc _]. apply w_bytes_inv in Hd as [-> _].
      destruct (annotation_rt a x nx Hwa Ea) as [Hrd Hlx]. destruct (IH b2 n2 tail Hwl Hl) as [IH1 IH2].
      split.
      + cbn [length read_anno_items]. rewrite <- !app_assoc. steps.
        replace (0 <? len x + 4 - 4) with true by lia. replace (len x + 4 - 4) with (len x) by lia.
        rewrite read_upto_app. cbn [fst snd]. rewrite Hrd. cbn [bind]. rewrite IH1. reflexivity.
      + rewrite !len_app. unfold len in *. cbn [length]. pose_lens. lia.
  Qed.
  Theorem annotations_rt major minor l bs n :
    forallb (wf_annotation enc_s dec_s) l = true -> write_annotations enc_s major minor l = Ok (bs, n) ->
    read_annotations dec_s bs = Ok (major, minor, l).
  Proof.
    unfold write_annotations. intros Hwf H. apply w_then_pad_inv in H as (x & nx & Hx & -> & _).
    apply w_seq_inv in Hx as (a & na & b & nb & Ha & Hb & -> & ->). apply w_fmt_inv in Ha as [Ha _]. open_pk Ha.
    unfold read_annotations. rewrite <- !app_assoc. steps.
    match goal with |- context [read_anno_items dec_s _ (b ++ ?tl)] =>
      destruct (anno_items_rt l b nb tl Hwf Hb) as [Hrd Hlen];
      replace (Z.to_nat (Z.min (len l) (len (b ++ tl) + 1))) with (length l) by (rewrite len_app; pose_nonneg; unfold len in *; lia)
    end.
    rewrite Hrd.
    reflexivity.
  Qed.
End MetaProofs.
