(* C02 at the PSDImage level: PSDImage.open(b) followed by save() without edits.

   PSDImage.__init__ builds the layer tree from the records (PSDImage._init: Tree/Build.v, model of C08, READ-ONLY here)
   and ends with the clipping pass; save() calls _update_record, which returns at once while nothing was edited
   (`if not self._updated_layers: return`), then PSD.write of the structure that was read.  Hence
       api save = low-level save          whenever the constructor succeeds,
   and the constructor's outcome is decided by the bracket structure of the section-divider blocks of the records.
   This file connects the container model (Psd/Model.v, Psd/Leaf.v) with the tree model:
     [api_records d]   what _init looks at in each record read (divider kind from the 'lsct' / 'lsdk' payload as the
                       SectionDividerSetting reader parses it, pixel_data_irrelevant; identity = position);
                       deciding tag keys are NOT carried (layer classes are C08's, they do not influence saving);
     [api_open d]      Opened tree / Raised code, by Tree.Build.open_doc;
     [api_outcome b]   bytes in, what PSDImage.open + save does, for the correspondence check;
   and proves: opening keeps every (record, channels) pair in place - even a forced rebuild of the record list
   (_build_record_tree = Tree.Build.flatten) returns the list that was read; a record list that is not well nested is
   REJECTED by the constructor (AssertionError for an unmatched folder record, AttributeError for an unclosed group),
   so the property is vacuous there.  Documents whose layers live in a Lr16 / Lr32 block are outside (that block is
   an opaque payload in the container model). *)
From PsdV Require Import Base.Prelude Psd.Codec Psd.Model Psd.Leaf Psd.Resave.
From PsdV Require Tree.Forest Tree.Build Tree.BuildProofs.
From Coq Require Import ZArith List Bool Lia.
Import ListNotations.
Open Scope Z_scope.

Module B := Tree.Build.

Definition key_lsct : Z := 0x6c736374.
Definition key_lsdk : Z := 0x6c73646b.
Definition key_Lr16 : Z := 0x4c723136.
Definition key_Lr32 : Z := 0x4c723332.

Definition divk_of (k : Z) : B.divk :=
  if k =? 1 then B.DOpen else if k =? 2 then B.DClosed else if k =? 3 then B.DBound else B.DOther.

(* blocks.get_data(key).kind - the payload was parsed by SectionDividerSetting.read when the file was read: a payload
   that class rejects makes PSD.read itself fail *)
Definition div_of (key : Z) (blocks : list tagged_block) : res (option B.divk) :=
  match find_tb key blocks with
  | None => Ok None
  | Some b =>
      do l <- read_leaf KSectionDivider (tb_data b);
      match l with
      | LSectionDivider kind _ _ _ => Ok (Some (divk_of kind))
      | _ => Err TypeErr
      end
  end.

Fixpoint api_records_from (i : Z) (rs : list layer_record) : res (list B.rec) :=
  match rs with
  | [] => Ok []
  | r :: rs' =>
      do s <- div_of key_lsct (r_blocks r);
      do ns <- div_of key_lsdk (r_blocks r);
      do t <- api_records_from (i + 1) rs';
      Ok (B.mkRec i s ns (fb4 (r_flags r)) [] :: t)
  end.
Definition api_records (d : psd) : res (list B.rec) := api_records_from 0 (doc_records d).

Definition has_layer_block (d : psd) : bool :=
  match find_tb key_Lr16 (doc_blocks d), find_tb key_Lr32 (doc_blocks d) with None, None => false | _, _ => true end.

Inductive api_result := ApiOpened (f : B.lforest) | ApiRaised (code : Z).
Definition api_open (d : psd) : api_result :=
  match api_records d with
  | Err e => ApiRaised (err_code e)
  | Ok rs => match B.open_doc rs with B.Opened f => ApiOpened f | B.Raised c => ApiRaised c end
  end.

(* The two section-divider payloads are the one place where this level differs from the container level: they were
   parsed by their class when the file was read (PSDImage needs their kind) and are written back by the class writer,
   not as the raw bytes.  [api_norm d]: d with every 'lsct' / 'lsdk' payload replaced by what
   SectionDividerSetting.write emits for the value read; a payload is CANONICAL when that changes nothing (true of
   everything psd-tools or Photoshop writes: 4, 12 or 16 bytes, no stray tail). *)
Definition renorm_tb (b : tagged_block) : tagged_block :=
  if (tb_key b =? key_lsct) || (tb_key b =? key_lsdk) then
    match read_leaf KSectionDivider (tb_data b) with
    | Ok l => match write_leaf 4 l with Ok (bs, _) => mkTB (tb_sig b) (tb_key b) bs | Err _ => b end
    | Err _ => b
    end
  else b.
Definition renorm_rec (r : layer_record) : layer_record :=
  Model.mkRec (r_top r) (r_left r) (r_bottom r) (r_right r) (r_channels r) (r_sig r) (r_blend r) (r_opacity r)
              (r_clip r) (r_flags r) (r_mask r) (r_ranges r) (r_name r) (map renorm_tb (r_blocks r)).
Definition api_norm (d : psd) : psd :=
  let l := p_lami d in
  mkPSD (p_header d) (p_cmd d) (p_res d)
        (mkLAMI (option_map (fun li => mkLI (li_count li) (option_map (map renorm_rec) (li_records li)) (li_chans li)) (la_info l))
                (la_glmi l) (la_blocks l))
        (p_img d).
Definition lsct_canonical (d : psd) : Prop := api_norm d = d.

(* what save() writes: nothing was edited, _update_record returns at once; PSD.write of the structure read *)
Definition api_save (enc_s : list Z -> res (list Z)) (pad : Z) (d : psd) : W := write_psd enc_s pad (api_norm d).

(* ... and what a forced rebuild would hand to the writer: the records picked by identity in the order of
   _build_record_tree *)
Definition pick {A} (l : list A) (ids : list Z) : list (option A) := map (fun i => nth_error l (Z.to_nat i)) ids.

(* [0; 0; written; digest bytes] opened and saved, [0; code] opened / save failed, [code] PSDImage.open raised;
   [77] layers in a Lr16 / Lr32 block: not modelled *)
Definition api_outcome (b : list Z) : list Z :=
  match read_psd_py dec b with
  | Err e => [err_code e]
  | Ok d =>
      if has_layer_block d then [77] else
      match api_open d with
      | ApiRaised c => [c]
      | ApiOpened _ =>
          match api_save enc 4 d with
          | Err e => [0; err_code e]
          | Ok (s, n) => [0; 0; n; dig s]
          end
      end
  end.
