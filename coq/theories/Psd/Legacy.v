(* The reader of LayerAndMaskInformation as it was BEFORE /repo commit f3a2729 (finding F-C01-2, fixed):
   a global layer mask info was read only if 17 bytes were readable in the rest of the whole FILE
   (`is_readable(fp, 17) and fp.tell() < end_pos`).  Kept as documentation of the refuted class
   (Properties/C01.v psd_roundtrip_refuted_before_f3a2729); not used by any check of the current tree. *)
From PsdV Require Import Base.Prelude Psd.Codec Psd.Model Psd.Leaf.
From Coq Require Import ZArith List Bool.
Import ListNotations.
Open Scope Z_scope.

Section Legacy.
  Variable dec_s : list Z -> res (list Z).
  Definition read_lami_body_v0 (v : Z) (s : stream) (length : Z) : res lami :=
    do (li, s2) <- read_layer_info dec_s v s;
    do (g, s3) <- r_opt (is_readable glmi_probe_v0 s2 && (len s - len s2 <? length)) read_glmi s2;
    do tb <- (if is_readable 1 s3 then
                do (bs, _) <- read_tagged_blocks v 4 (Some (length - (len s - len s3))) s3; Ok (Some bs)
              else Ok None);
    Ok (mkLAMI (Some li) g tb).
  Definition read_lami_v0 (v : Z) (s : stream) : res (lami * stream) :=
    do nb <- len_bytes v;
    do (length, s1) <- read_u nb s;
    if length =? 0 then Ok (mkLAMI None None None, s1)
    else do l <- read_lami_body_v0 v s1 length; Ok (l, skipz length s1).
  Definition read_psd_v0 (s : stream) : res psd :=
    do (h, s1) <- read_header s;
    do (cmd, s2) <- read_cmd s1;
    do (rs, s3) <- read_resources dec_s s2;
    do (l, s4) <- read_lami_v0 (h_version h) s3;
    do img <- read_image_data s4;
    Ok (mkPSD h cmd rs l img).
End Legacy.

(* SectionDividerSetting.read as it was BEFORE /repo commit de58475 (finding F-C02-6, fixed): a sub type was read
   whenever 4 bytes were left, also straight after the kind (4..7 stray bytes) where write() never puts one. *)
Definition read_section_divider_v0 (s : stream) : res leaf :=
  do (kind, s1) <- read_u 4 s;
  if negb (memz kind model_section_dividers) then Err ValueErr else
  do (sb, s2) <- (if is_readable 8 s1 then
                    do (sg, a) <- read_u 4 s1;
                    if negb (sg =? sig_8BIM) then Err AssertErr else
                    do (b, a2) <- read_u 4 a;
                    if negb (memz b model_blend_modes) then Err ValueErr else Ok (Some (sg, b), a2)
                  else Ok (None, s1));
  do (sub, _) <- r_opt (is_readable 4 s2) (read_u 4) s2;
  Ok (LSectionDivider kind (option_map fst sb) (option_map snd sb) sub).

(* ---- descriptor.read_length_and_key before /repo 708c13e: whatever fp.read returned was the key, so a key cut short
   by the end of the data (1-3 bytes read with a zero length field) became a term of the process-wide set *)
From PsdV Require Import Psd.Descriptor.
Definition read_key_v0 (t : terms) (s : stream) : res (key * terms * stream) :=
  do (n, s1) <- read_u 4 s;
  let d := read_upto (if n =? 0 then 4 else n) s1 in
  let k := fst d in
  Ok (k, if (n =? 0) && negb (key_in k t) then k :: t else t, snd d).
