(* Binary-format foundations shared by C01/C02/C03/C06 (model of psd_tools/utils.py).

   - bytes are [Z] in [0,256) ([Base.Prelude.byte]); a 4-character code ("8BIM", keys,
     blend modes) is its big-endian value, a [Z] in [0,2^32);
   - struct.pack/unpack, big-endian, formats B H I Q (pack_u 1/2/4/8) and b h i q (pack_s);
     an out-of-range value is [Err StructErr] (struct.error);
   - the READER state is the remaining input (a file object [(data,pos)] is
     [skipn pos data]; every read of the modelled code moves forward, the few absolute
     seeks are modelled where they occur, in Model.v);  a short read of a fixed-size
     field is [Err IOErr] (utils.read_fmt / read_length_block);
   - a WRITER returns [(bytes, written)]; [written] is accumulated the way the code
     accumulates it (sum of the sub-results), it is NOT recomputed from the bytes:
     "reported count = bytes emitted" is the theorem [wtruth], not a definition;
   - write_length_block (reserve_position / writer / write_position / write_padding) is
     modelled as "emit the inner bytes, then prefix the packed *reported* count"
     (the equivalence with seek-and-patch on a buffer with a cursor is [patch_equiv]).

   Only definitions and the lemmas about them; no property theorem here. *)
From PsdV Require Import Base.Prelude.
From Coq Require Import ZArith List Bool Lia ZifyBool.
Import ListNotations.
Open Scope Z_scope.

Definition len {A} (l : list A) : Z := Z.of_nat (length l).
Definition stream := list Z.

Lemma len_app {A} (a b : list A) : len (a ++ b) = len a + len b.
Proof. unfold len. rewrite app_length. lia. Qed.
Lemma len_nonneg {A} (a : list A) : 0 <= len a.
Proof. unfold len. lia. Qed.
Lemma len_nil {A} : len (@nil A) = 0.
Proof. reflexivity. Qed.
Lemma len_cons {A} (x : A) l : len (x :: l) = 1 + len l.
Proof. unfold len. simpl length. lia. Qed.
Lemma len_repeat {A} (x : A) n : len (repeat x n) = Z.of_nat n.
Proof. unfold len. now rewrite repeat_length. Qed.
Lemma len_zero_nil {A} (l : list A) : len l = 0 -> l = [].
Proof. destruct l; [reflexivity|]. rewrite len_cons. pose proof (len_nonneg l). lia. Qed.

(* ------------------------------------------------------------------ big endian *)
Fixpoint le_bytes (n : nat) (v : Z) : list Z :=
  match n with O => [] | S n' => (v mod 256) :: le_bytes n' (v / 256) end.
Fixpoint le_val (l : list Z) : Z :=
  match l with [] => 0 | b :: l' => b + 256 * le_val l' end.
Definition be_bytes (n : nat) (v : Z) : list Z := rev (le_bytes n v).
Definition be_val (l : list Z) : Z := le_val (rev l).

Lemma le_bytes_length n v : length (le_bytes n v) = n.
Proof. revert v; induction n; intros; simpl; auto. Qed.
Lemma be_bytes_length n v : length (be_bytes n v) = n.
Proof. unfold be_bytes. now rewrite rev_length, le_bytes_length. Qed.
Lemma len_be_bytes n v : len (be_bytes n v) = Z.of_nat n.
Proof. unfold len. now rewrite be_bytes_length. Qed.

Lemma le_val_bytes n v : le_val (le_bytes n v) = v mod 256 ^ Z.of_nat n.
Proof.
  revert v; induction n; intros v.
  - simpl. now rewrite Z.mod_1_r.
  - cbn [le_bytes le_val]. rewrite IHn.
    rewrite Nat2Z.inj_succ, Z.pow_succ_r by lia.
    rewrite Z.rem_mul_r by lia. lia.
Qed.
Lemma be_val_bytes n v : be_val (be_bytes n v) = v mod 256 ^ Z.of_nat n.
Proof. unfold be_val, be_bytes. rewrite rev_involutive. apply le_val_bytes. Qed.

Lemma le_bytes_byte n v : Forall byte (le_bytes n v).
Proof.
  revert v; induction n; intros; simpl; constructor; auto.
  unfold byte. apply Z.mod_pos_bound. lia.
Qed.
Lemma be_bytes_byte n v : Forall byte (be_bytes n v).
Proof.
  unfold be_bytes. apply Forall_forall. intros x Hx. apply in_rev in Hx.
  pose proof (le_bytes_byte n v) as H. rewrite Forall_forall in H. auto.
Qed.

Lemma le_val_bound l : Forall byte l -> 0 <= le_val l < 256 ^ len l.
Proof.
  induction 1 as [|x l Hx Hl IH].
  - cbn. lia.
  - cbn [le_val]. rewrite len_cons, Z.pow_add_r by (pose proof (len_nonneg l); lia).
    unfold byte in Hx. change (256 ^ 1) with 256. nia.
Qed.
Lemma le_bytes_val l : Forall byte l -> le_bytes (length l) (le_val l) = l.
Proof.
  induction 1 as [|x l Hx Hl IH]; [reflexivity|].
  cbn [length le_bytes le_val]. unfold byte in Hx.
  replace (x + 256 * le_val l) with (x + le_val l * 256) by lia.
  rewrite Z_mod_plus_full, Z.div_add by lia.
  rewrite Z.mod_small, Z.div_small by lia. cbn [Z.add].
  now rewrite IH.
Qed.
Lemma be_bytes_val l : Forall byte l -> be_bytes (length l) (be_val l) = l.
Proof.
  intros H. unfold be_bytes, be_val. rewrite <- (rev_length l).
  rewrite le_bytes_val. apply rev_involutive.
  apply Forall_forall. intros x Hx. apply in_rev in Hx. rewrite Forall_forall in H. auto.
Qed.

(* struct.pack *)
Definition pow256 (n : nat) : Z := 256 ^ Z.of_nat n.
Definition in_u (n : nat) (v : Z) : bool := (0 <=? v) && (v <? pow256 n).
Definition in_s (n : nat) (v : Z) : bool := (- (pow256 n / 2) <=? v) && (v <? pow256 n / 2).
Definition pack_u (n : nat) (v : Z) : res (list Z) :=
  if in_u n v then Ok (be_bytes n v) else Err StructErr.
Definition pack_s (n : nat) (v : Z) : res (list Z) :=
  if in_s n v then Ok (be_bytes n (v mod pow256 n)) else Err StructErr.
Definition unsign (n : nat) (u : Z) : Z := if u <? pow256 n / 2 then u else u - pow256 n.

Lemma pow256_pos n : 0 < pow256 n.
Proof. unfold pow256. apply Z.pow_pos_nonneg; lia. Qed.
Lemma pow256_S n : pow256 (S n) = 256 * pow256 n.
Proof. unfold pow256. rewrite Nat2Z.inj_succ, Z.pow_succ_r; lia. Qed.
Lemma pow256_even n : (0 < n)%nat -> pow256 n = 2 * (pow256 n / 2).
Proof. destruct n; [lia|]. intros _. rewrite pow256_S. replace (256 * pow256 n) with (128 * pow256 n * 2) by lia. rewrite Z.div_mul by lia. lia. Qed.

Lemma pack_u_len n v b : pack_u n v = Ok b -> len b = Z.of_nat n.
Proof. unfold pack_u. destruct (in_u n v); intros H; inversion H. apply len_be_bytes. Qed.
Lemma pack_s_len n v b : pack_s n v = Ok b -> len b = Z.of_nat n.
Proof. unfold pack_s. destruct (in_s n v); intros H; inversion H. apply len_be_bytes. Qed.
Lemma pack_u_val n v b : pack_u n v = Ok b -> be_val b = v.
Proof.
  unfold pack_u, in_u. destruct (_ && _) eqn:E; intros H; inversion H; subst.
  apply andb_prop in E as [E1 E2]. rewrite be_val_bytes. apply Z.mod_small. unfold pow256 in *. lia.
Qed.
Lemma pack_s_val n v b : (0 < n)%nat -> pack_s n v = Ok b -> unsign n (be_val b) = v.
Proof.
  intros Hn. unfold pack_s, in_s. destruct (_ && _) eqn:E; intros H; inversion H; subst.
  apply andb_prop in E as [E1 E2]. rewrite be_val_bytes. fold (pow256 n).
  rewrite Z.mod_mod by (pose proof (pow256_pos n); lia).
  unfold unsign. pose proof (pow256_even n Hn) as He. pose proof (pow256_pos n) as Hp.
  destruct (Z_lt_le_dec v 0) as [Hneg|Hpos].
  - replace (v mod pow256 n) with (v + pow256 n).
    2:{ symmetry. rewrite <- (Z_mod_plus_full v 1 (pow256 n)). rewrite Z.mul_1_l. apply Z.mod_small. lia. }
    destruct (v + pow256 n <? pow256 n / 2) eqn:F; lia.
  - rewrite Z.mod_small by lia. destruct (v <? pow256 n / 2) eqn:F; lia.
Qed.
Lemma pack_u_ok n v : in_u n v = true -> pack_u n v = Ok (be_bytes n v).
Proof. unfold pack_u. now intros ->. Qed.
Lemma pack_s_ok n v : in_s n v = true -> pack_s n v = Ok (be_bytes n (v mod pow256 n)).
Proof. unfold pack_s. now intros ->. Qed.

(* several fields of one struct.pack: the first failing field fails the call *)
Fixpoint pk_cat (l : list (res (list Z))) : res (list Z) :=
  match l with
  | [] => Ok []
  | r :: l' => do a <- r; do b <- pk_cat l'; Ok (a ++ b)
  end.
Definition zeros (n : nat) : list Z := repeat 0 n.
Lemma len_zeros n : len (zeros n) = Z.of_nat n.
Proof. apply len_repeat. Qed.

(* ------------------------------------------------------------------ reader *)
Definition is_readable (n : Z) (s : stream) : bool := n <=? len s.

(* exact read of n >= 0 bytes; fewer available = IOError *)
Definition take (n : Z) (s : stream) : res (list Z * stream) :=
  if (0 <=? n) && (n <=? len s) then Ok (firstn (Z.to_nat n) s, skipn (Z.to_nat n) s)
  else Err IOErr.
(* fp.read(n): as many as there are; a negative n reads everything *)
Definition read_upto (n : Z) (s : stream) : list Z * stream :=
  if n <? 0 then (s, []) else
  let k := Z.to_nat (Z.min n (len s)) in (firstn k s, skipn k s).   (* min: no huge unary numbers *)
(* fp.seek(pos + n) for n >= 0, then reading on: the rest after n bytes (nothing if beyond the end) *)
Definition skipz (n : Z) (s : stream) : stream := skipn (Z.to_nat (Z.min n (len s))) s.

Definition read_u (n : nat) (s : stream) : res (Z * stream) :=
  do x <- take (Z.of_nat n) s; Ok (be_val (fst x), snd x).
Definition read_s (n : nat) (s : stream) : res (Z * stream) :=
  do x <- read_u n s; Ok (unsign n (fst x), snd x).

Lemma firstn_len_app {A} (a r : list A) : firstn (Z.to_nat (len a)) (a ++ r) = a.
Proof. unfold len. rewrite Nat2Z.id. rewrite firstn_app, Nat.sub_diag, firstn_all. simpl. apply app_nil_r. Qed.
Lemma skipn_len_app {A} (a r : list A) : skipn (Z.to_nat (len a)) (a ++ r) = r.
Proof. unfold len. rewrite Nat2Z.id. rewrite skipn_app, Nat.sub_diag, skipn_all. reflexivity. Qed.

Lemma take_app a r : take (len a) (a ++ r) = Ok (a, r).
Proof.
  unfold take. rewrite len_app. pose proof (len_nonneg a). pose proof (len_nonneg r).
  replace ((0 <=? len a) && (len a <=? len a + len r)) with true.
  2:{ symmetry. apply andb_true_intro. split; apply Z.leb_le; lia. }
  now rewrite firstn_len_app, skipn_len_app.
Qed.
Lemma take_app_n n a r : len a = n -> take n (a ++ r) = Ok (a, r).
Proof. intros <-. apply take_app. Qed.
Lemma read_upto_app a r : read_upto (len a) (a ++ r) = (a, r).
Proof.
  unfold read_upto. pose proof (len_nonneg a). pose proof (len_nonneg r).
  destruct (len a <? 0) eqn:E; [lia|].
  rewrite Z.min_l by (rewrite len_app; lia).
  now rewrite firstn_len_app, skipn_len_app.
Qed.
Lemma read_upto_all n s : len s <= n -> read_upto n s = (s, []).
Proof.
  intros H. unfold read_upto. pose proof (len_nonneg s). destruct (n <? 0) eqn:E; [lia|].
  rewrite Z.min_r by lia. unfold len. rewrite Nat2Z.id, firstn_all, skipn_all. reflexivity.
Qed.
Lemma skipz_app a r : skipz (len a) (a ++ r) = r.
Proof.
  unfold skipz. pose proof (len_nonneg r). rewrite Z.min_l by (rewrite len_app; lia).
  apply skipn_len_app.
Qed.

Lemma read_u_pack n v b r : pack_u n v = Ok b -> read_u n (b ++ r) = Ok (v, r).
Proof.
  intros H. unfold read_u. rewrite (take_app_n _ b r (pack_u_len _ _ _ H)).
  cbn [bind fst snd]. now rewrite (pack_u_val _ _ _ H).
Qed.
Lemma read_s_pack n v b r : (0 < n)%nat -> pack_s n v = Ok b -> read_s n (b ++ r) = Ok (v, r).
Proof.
  intros Hn H. unfold read_s, read_u. rewrite (take_app_n _ b r (pack_s_len _ _ _ H)).
  cbn [bind fst snd]. now rewrite (pack_s_val _ _ _ Hn H).
Qed.

Lemma take_len n s a r : take n s = Ok (a, r) -> s = a ++ r /\ len a = n.
Proof.
  unfold take. destruct (_ && _) eqn:E; intros H; inversion H; subst. clear H.
  apply andb_prop in E as [E1 E2]. apply Z.leb_le in E1, E2. split.
  - symmetry. apply firstn_skipn.
  - unfold len in *. rewrite firstn_length. lia.
Qed.

(* ------------------------------------------------------------------ writer *)
Definition W := res (list Z * Z).
Definition w_nil : W := Ok ([], 0).
Definition w_bytes (b : list Z) : W := Ok (b, len b).                 (* utils.write_bytes *)
Definition w_fmt (r : res (list Z)) : W := do b <- r; w_bytes b.      (* utils.write_fmt *)
Definition w_seq (a b : W) : W :=                                      (* written = a(); written += b() *)
  do x <- a; do y <- b; Ok (fst x ++ fst y, snd x + snd y).
Infix "+++" := w_seq (at level 61, left associativity).
Fixpoint w_concat (l : list W) : W :=                                  (* sum(item.write(fp) for item in ...) *)
  match l with [] => w_nil | w :: l' => w +++ w_concat l' end.

Definition pad_count (size d : Z) : Z :=
  let r := size mod d in if r =? 0 then 0 else d - r.
Definition w_pad (size d : Z) : W := w_bytes (zeros (Z.to_nat (pad_count size d)))%Z.  (* utils.write_padding *)
(* written += write_padding(fp, written, d) *)
Definition w_then_pad (w : W) (d : Z) : W :=
  do x <- w; do p <- w_pad (snd x) d; Ok (fst x ++ fst p, snd x + snd p).
(* fp.read(d - size % d) if size % d: lenient, never fails *)
Definition r_pad (size d : Z) (s : stream) : stream := skipn (Z.to_nat (pad_count size d)) s.

(* utils.write_length_block(fp, writer, fmt, padding); fmt = [pre] pad bytes ('x') + an unsigned
   field of nb bytes.  The value written is the count REPORTED by the inner writer. *)
Definition w_length_block (pre nb : nat) (pad : Z) (w : W) : W :=
  do x <- w;
  do lb <- pack_u nb (snd x);
  let hdr := zeros pre ++ lb in
  let written := snd x + len hdr in
  do p <- w_pad written pad;
  Ok (hdr ++ fst x ++ fst p, written + snd p).

(* utils.read_length_block *)
Definition read_length_block (pre nb : nat) (pad : Z) (s : stream) : res (list Z * stream) :=
  do h <- take (Z.of_nat (pre + nb)) s;
  let n := be_val (skipn pre (fst h)) in
  do d <- take n (snd h);
  Ok (fst d, r_pad n pad (snd d)).

Definition wtruth (w : W) : Prop := forall b n, w = Ok (b, n) -> n = len b.

Lemma wtruth_nil : wtruth w_nil.
Proof. intros b n H. inversion H. reflexivity. Qed.
Lemma wtruth_bytes b : wtruth (w_bytes b).
Proof. intros b' n H. inversion H. reflexivity. Qed.
Lemma wtruth_fmt r : wtruth (w_fmt r).
Proof. unfold w_fmt. destruct r; simpl; [apply wtruth_bytes|]. intros b n H; discriminate. Qed.
Lemma wtruth_err e : wtruth (Err e).
Proof. intros b n H; discriminate. Qed.
Lemma wtruth_seq a b : wtruth a -> wtruth b -> wtruth (a +++ b).
Proof.
  intros Ha Hb bs n. unfold w_seq. destruct a as [[x nx]|]; [|discriminate].
  destruct b as [[y ny]|]; [|discriminate]. cbn. intros H; inversion H; subst.
  rewrite len_app, <- (Ha x nx eq_refl), <- (Hb y ny eq_refl). reflexivity.
Qed.
Lemma wtruth_concat l : Forall wtruth l -> wtruth (w_concat l).
Proof. induction 1; simpl; [apply wtruth_nil|]. now apply wtruth_seq. Qed.
Lemma wtruth_concat_map {A} (f : A -> W) l : (forall a, wtruth (f a)) -> wtruth (w_concat (map f l)).
Proof. intros H. apply wtruth_concat. apply Forall_forall. intros w Hw. apply in_map_iff in Hw as [a [<- _]]. apply H. Qed.
Lemma wtruth_then_pad w d : wtruth w -> wtruth (w_then_pad w d).
Proof.
  intros Hw b n. unfold w_then_pad. destruct w as [[x nx]|]; [|discriminate]. cbn.
  intros H; inversion H; subst. rewrite len_app, <- (Hw x nx eq_refl). reflexivity.
Qed.
Lemma wtruth_length_block pre nb pad w : wtruth w -> wtruth (w_length_block pre nb pad w).
Proof.
  intros Hw b n. unfold w_length_block. destruct w as [[x nx]|]; [|discriminate]. cbn.
  destruct (pack_u nb nx) as [lb|]; [|discriminate]. cbn.
  intros H; inversion H; subst. rewrite !len_app, <- (Hw x nx eq_refl). lia.
Qed.
Lemma wtruth_if (c : bool) a b : wtruth a -> wtruth b -> wtruth (if c then a else b).
Proof. destruct c; auto. Qed.

(* inversion of the combinators *)
Lemma w_seq_inv a b bs n : a +++ b = Ok (bs, n) ->
  exists x nx y ny, a = Ok (x, nx) /\ b = Ok (y, ny) /\ bs = x ++ y /\ n = nx + ny.
Proof.
  unfold w_seq. destruct a as [[x nx]|]; [|discriminate]. destruct b as [[y ny]|]; [|discriminate].
  cbn. intros H; inversion H; subst. now exists x, nx, y, ny.
Qed.
Lemma w_fmt_inv r bs n : w_fmt r = Ok (bs, n) -> r = Ok bs /\ n = len bs.
Proof. unfold w_fmt. destruct r; cbn; [|discriminate]. unfold w_bytes. intros H; inversion H; subst. auto. Qed.
Lemma w_bytes_inv b bs n : w_bytes b = Ok (bs, n) -> bs = b /\ n = len b.
Proof. unfold w_bytes. intros H; inversion H; subst. auto. Qed.
Lemma w_then_pad_inv w d bs n : w_then_pad w d = Ok (bs, n) ->
  exists x nx, w = Ok (x, nx) /\ bs = x ++ zeros (Z.to_nat (pad_count nx d)) /\
               n = nx + Z.of_nat (Z.to_nat (pad_count nx d)).
Proof.
  unfold w_then_pad. destruct w as [[x nx]|]; [|discriminate]. cbn.
  intros H; inversion H; subst. exists x, nx. rewrite len_zeros. auto.
Qed.
Lemma pk_cat_cons_inv r l b : pk_cat (r :: l) = Ok b ->
  exists x y, r = Ok x /\ pk_cat l = Ok y /\ b = x ++ y.
Proof.
  cbn. destruct r as [x|]; [|discriminate]. cbn. destruct (pk_cat l) as [y|]; [|discriminate].
  cbn. intros H; inversion H. now exists x, y.
Qed.
Lemma pk_cat_nil_inv b : pk_cat [] = Ok b -> b = [].
Proof. cbn. intros H; now inversion H. Qed.

Lemma pad_count_range size d : 0 < d -> 0 <= pad_count size d < d.
Proof.
  intros Hd. unfold pad_count. pose proof (Z.mod_pos_bound size d Hd).
  destruct (_ =? _) eqn:E; [lia|]. apply Z.eqb_neq in E. lia.
Qed.
Lemma pad_count_add size k d : 0 < d -> k mod d = 0 -> pad_count (size + k) d = pad_count size d.
Proof.
  intros Hd Hk. unfold pad_count.
  rewrite Z.add_mod, Hk, Z.add_0_r, Z.mod_mod by lia. reflexivity.
Qed.
Lemma pad_count_1 size : pad_count size 1 = 0.
Proof. unfold pad_count. now rewrite Z.mod_1_r. Qed.
Lemma pad_count_aligned size d : 0 < d -> (size + pad_count size d) mod d = 0.
Proof.
  intros Hd. unfold pad_count. destruct (_ =? _) eqn:E.
  - apply Z.eqb_eq in E. now rewrite Z.add_0_r.
  - replace (size + (d - size mod d)) with (size - size mod d + 1 * d) by lia.
    rewrite Z_mod_plus_full. rewrite Zminus_mod_idemp_r. now rewrite Z.sub_diag, Z.mod_0_l by lia.
Qed.
Lemma r_pad_zeros size d r : r_pad size d (zeros (Z.to_nat (pad_count size d)) ++ r) = r.
Proof.
  unfold r_pad. set (k := Z.to_nat (pad_count size d)).
  replace k with (length (zeros k)) at 1 by apply repeat_length.
  rewrite skipn_app, Nat.sub_diag, skipn_all. reflexivity.
Qed.
Lemma r_pad_0 size d s : pad_count size d = 0 -> r_pad size d s = s.
Proof. unfold r_pad. now intros ->. Qed.

(* The central lemma of length-prefixed blocks: reading back what write_length_block wrote
   yields the inner bytes - PROVIDED the inner writer's reported count is truthful and the
   size of the length field is a multiple of the padding divisor (the writer pads on
   written+header, the reader on the length alone). *)
Lemma length_block_rt pre nb pad w bs n rest :
  0 < pad -> Z.of_nat (pre + nb) mod pad = 0 -> wtruth w ->
  w_length_block pre nb pad w = Ok (bs, n) ->
  exists body, w = Ok (body, len body) /\
               read_length_block pre nb pad (bs ++ rest) = Ok (body, rest).
Proof.
  intros Hpad Hdiv Hw. unfold w_length_block.
  destruct w as [[x nx]|] eqn:Ew; [|discriminate]. cbn.
  destruct (pack_u nb nx) as [lb|] eqn:Elb; [|discriminate]. cbn.
  intros H; inversion H; subst; clear H.
  pose proof (Hw x nx eq_refl) as ->. exists x. split; [reflexivity|].
  unfold read_length_block.
  pose proof (pack_u_len _ _ _ Elb) as Hlb.
  rewrite <- !app_assoc.
  assert (Hh : len (zeros pre ++ lb) = Z.of_nat (pre + nb)).
  { rewrite len_app, len_zeros, Hlb. lia. }
  rewrite (app_assoc (zeros pre) lb). rewrite (take_app_n _ (zeros pre ++ lb) _ Hh). cbn [bind fst snd].
  replace (skipn pre (zeros pre ++ lb)) with lb.
  2:{ replace pre with (length (zeros pre)) at 1 by apply repeat_length.
      now rewrite skipn_app, Nat.sub_diag, skipn_all. }
  rewrite (pack_u_val _ _ _ Elb). rewrite take_app. cbn [bind fst snd].
  rewrite Hh, pad_count_add by assumption. now rewrite r_pad_zeros.
Qed.

(* ------------------------------------------------------------------ strings *)
(* utils.read/write_pascal_string.  The charset step (str.encode / bytes.decode of the
   `encoding` argument) is abstract: strings are lists of code points, [enc_s]/[dec_s] are
   Section variables; the round-trip theorems assume the inverse law for the strings
   present (part of wf), the harness tests it on the Python codecs it uses. *)
Section Charset.
  Variable enc_s : list Z -> res (list Z).
  Variable dec_s : list Z -> res (list Z).

  Definition w_pascal (name : list Z) (pad : Z) : W :=
    do data <- enc_s name;
    w_then_pad (w_fmt (pack_u 1 (len data)) +++ w_bytes data) pad.

  Definition r_pascal (pad : Z) (s : stream) : res (list Z * stream) :=
    do x <- read_u 1 s;
    let n := fst x in
    let d := read_upto n (snd x) in
    if len (fst d) =? n then
      do name <- dec_s (fst d); Ok (name, r_pad (1 + n) pad (snd d))
    else Err AssertErr.

  Lemma wtruth_pascal name pad : wtruth (w_pascal name pad).
  Proof.
    unfold w_pascal. destruct (enc_s name); cbn; [|apply wtruth_err].
    apply wtruth_then_pad, wtruth_seq; [apply wtruth_fmt|apply wtruth_bytes].
  Qed.

  Lemma pascal_rt name pad bs n rest :
    0 < pad ->
    (forall d, enc_s name = Ok d -> dec_s d = Ok name) ->
    w_pascal name pad = Ok (bs, n) -> r_pascal pad (bs ++ rest) = Ok (name, rest).
  Proof.
    intros Hpad Hinv. unfold w_pascal. destruct (enc_s name) as [data|] eqn:Ed; [|discriminate]. cbn [bind].
    intros H. apply w_then_pad_inv in H as (x & nx & Hx & -> & ->).
    apply w_seq_inv in Hx as (a & na & b & nb & Ha & Hb & -> & ->).
    apply w_fmt_inv in Ha as [Ha ->]. apply w_bytes_inv in Hb as [-> ->].
    unfold r_pascal. rewrite <- !app_assoc. rewrite (read_u_pack _ _ _ _ Ha). cbn [bind fst snd].
    rewrite read_upto_app. cbn [fst snd]. rewrite Z.eqb_refl. rewrite (Hinv _ eq_refl). cbn [bind].
    rewrite (pack_u_len _ _ _ Ha). change (Z.of_nat 1) with 1. now rewrite r_pad_zeros.
  Qed.
End Charset.

(* utils.read/write_unicode_string on UTF-16 code units (the str <-> code unit step is C19's) *)
Definition w_unicode (units : list Z) (pad : Z) : W :=
  w_then_pad (w_fmt (pack_u 4 (len units)) +++ w_fmt (pk_cat (map (pack_u 2) units))) pad.
Fixpoint units_of (l : list Z) : res (list Z) :=
  match l with
  | [] => Ok []
  | [_] => Err ValueErr                     (* UnicodeDecodeError: truncated data *)
  | a :: b :: l' => do r <- units_of l'; Ok ((a * 256 + b) :: r)
  end.
Definition r_unicode (pad : Z) (s : stream) : res (list Z * stream) :=
  do x <- read_u 4 s;
  let n := fst x in
  let d := read_upto (n * 2) (snd x) in
  do u <- units_of (fst d);
  Ok (u, r_pad (4 + n * 2) pad (snd d)).

(* ------------------------------------------------------------------ seek-and-patch = prefix *)
(* A buffer with a cursor, as io.BytesIO: writing at the cursor overwrites / extends,
   seeking past the end and writing fills the gap with zeros. *)
Definition buf_write (buf : list Z) (pos : nat) (data : list Z) : list Z :=
  firstn pos buf ++ zeros (pos - length buf) ++ data ++ skipn (pos + length data) buf.

Lemma buf_write_end buf k data : buf_write buf (length buf + k) data = buf ++ zeros k ++ data.
Proof.
  unfold buf_write. rewrite firstn_all2 by lia.
  replace (length buf + k - length buf)%nat with k by lia.
  rewrite skipn_all2 by lia. now rewrite app_nil_r.
Qed.
Lemma buf_write_mid a h t data : length h = length data ->
  buf_write (a ++ h ++ t) (length a) data = a ++ data ++ t.
Proof.
  intros Hh. unfold buf_write.
  rewrite firstn_app, Nat.sub_diag, firstn_all. cbn [firstn]. rewrite app_nil_r.
  replace (length a - length (a ++ h ++ t))%nat with O by (rewrite app_length; lia).
  cbn [zeros repeat app].
  rewrite skipn_app. rewrite skipn_all2 by lia. cbn [app].
  replace (length a + length data - length a)%nat with (length h) by lia.
  rewrite skipn_app, skipn_all, Nat.sub_diag. reflexivity.
Qed.

(* reserve_position at the end of [buf]; the inner writer appends [body] after the hole;
   write_position patches the hole with [lb]; the cursor returns to the end. *)
Lemma patch_equiv buf lb body :
  let pos := length buf in
  let after_reserve := (pos + length lb)%nat in
  let b1 := buf_write buf after_reserve body in
  buf_write b1 pos lb = buf ++ lb ++ body.
Proof.
  cbn zeta. rewrite buf_write_end. apply buf_write_mid. unfold zeros. apply repeat_length.
Qed.
