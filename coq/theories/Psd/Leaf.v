(* Stage 2: leaf payload classes of tagged blocks / image resources, modelled (not opaque).
   base.py: ByteElement ("B3x"), IntegerElement ("I"), ShortIntegerElement ("H2x"), BooleanElement
   ("?3x"), StringElement (unicode string), EmptyElement; tagged_blocks.py: Bytes,
   SectionDividerSetting, SheetColorSetting, ProtectedSetting (an IntegerElement), ReferencePoint ("2d"),
   ChannelBlendingRestrictionsSetting, FilterMask; color.py: Color; image_resources.py: Byte ("B"),
   Integer ("i"), ShortInteger ("H").  A payload is read from the whole byte string of its block
   (kls.frombytes(raw_data, version=...)): the reader gets the block content, no rest.
   Strings are lists of UTF-16 code units (the str <-> code unit step is C19's); doubles are 64-bit
   patterns.  Definitions only. *)
From PsdV Require Import Base.Prelude Psd.Codec Psd.Model.
From Coq Require Import ZArith List Bool Lia.
Import ListNotations.
Open Scope Z_scope.

Definition model_section_dividers : list Z := [0; 1; 2; 3].
Definition model_sheet_colors : list Z := [0; 1; 2; 3; 4; 5; 6; 7; 8; 9; 10; 11].
Definition model_colorspace_lab : Z := 7.

Inductive leaf :=
| LByte (v : Z)
| LInteger (v : Z)                       (* IntegerElement, ProtectedSetting *)
| LShort (v : Z)
| LBool (b : bool)
| LString (units : list Z)
| LEmpty
| LBytes (b : list Z)
| LSectionDivider (kind : Z) (sig : option Z) (blend : option Z) (sub : option Z)
| LSheetColor (v : Z)
| LReferencePoint (items : list Z)
| LRestrictions (items : list Z)         (* ChannelBlendingRestrictionsSetting *)
| LColor (id : Z) (values : list Z)
| LFilterMask (id : Z) (values : list Z) (opacity : Z)
| LResByte (v : Z)
| LResInteger (v : Z)
| LResShort (v : Z).

(* the class, without the content: what the key of the block selects (TYPES) *)
Inductive lkind :=
| KByte | KInteger | KShort | KBool | KString | KEmpty | KBytes | KSectionDivider | KSheetColor
| KReferencePoint | KRestrictions | KColor | KFilterMask | KResByte | KResInteger | KResShort.

Definition kind_of (l : leaf) : lkind :=
  match l with
  | LByte _ => KByte | LInteger _ => KInteger | LShort _ => KShort | LBool _ => KBool
  | LString _ => KString | LEmpty => KEmpty | LBytes _ => KBytes
  | LSectionDivider _ _ _ _ => KSectionDivider | LSheetColor _ => KSheetColor
  | LReferencePoint _ => KReferencePoint | LRestrictions _ => KRestrictions
  | LColor _ _ => KColor | LFilterMask _ _ _ => KFilterMask
  | LResByte _ => KResByte | LResInteger _ => KResInteger | LResShort _ => KResShort
  end.

(* Color.write: "H" then "4H" ("4h" for Lab) *)
Definition write_color (id : Z) (values : list Z) : W :=
  w_fmt (pack_u 2 id) +++
  w_fmt (if (length values =? 4)%nat
         then pk_cat (map (if id =? model_colorspace_lab then pack_s 2 else pack_u 2) values)
         else Err StructErr).
Definition read_color (s : stream) : res (Z * list Z * stream) :=
  do (id, s1) <- read_u 2 s;
  do (vs, s2) <- read_n 4 (if id =? model_colorspace_lab then read_s 2 else read_u 2) s1;
  Ok (id, vs, s2).

(* write(fp, padding=..., version=...) of the payload object *)
Definition write_leaf (padding : Z) (l : leaf) : W :=
  match l with
  | LByte v => w_fmt (pk_cat [pack_u 1 v; Ok (zeros 3)])
  | LInteger v => w_fmt (pack_u 4 v)
  | LShort v => w_fmt (pk_cat [pack_u 2 v; Ok (zeros 2)])
  | LBool b => w_fmt (pk_cat [pack_u 1 (if b then 1 else 0); Ok (zeros 3)])
  | LString units => w_unicode units padding
  | LEmpty => w_nil
  | LBytes b => w_bytes b
  | LSectionDivider kind sg blend sub =>
      w_fmt (pack_u 4 kind) +++
      match sg, blend with
      | Some s, Some b =>
          w_fmt (pk_cat [pack_u 4 s; pack_u 4 b]) +++
          match sub with Some t => w_fmt (pack_u 4 t) | None => w_nil end
      | _, _ => w_nil
      end
  | LSheetColor v => w_fmt (pk_cat [pack_u 2 v; Ok (zeros 6)])
  | LReferencePoint items =>
      w_fmt (if (length items =? 2)%nat then pk_cat (map (pack_u 8) items) else Err StructErr)
  | LRestrictions items => w_fmt (pk_cat (map (pack_u 4) items))
  | LColor id values => write_color id values
  | LFilterMask id values op => write_color id values +++ w_fmt (pack_u 2 op)
  | LResByte v => w_fmt (pack_u 1 v)
  | LResInteger v => w_fmt (pack_s 4 v)
  | LResShort v => w_fmt (pack_u 2 v)
  end.

(* ByteElement / ShortIntegerElement / BooleanElement.read: the padded format, and on IOError
   (read_fmt restores the position) the bare one *)
Definition read_padded (n : nat) (padn : Z) (s : stream) : res Z :=
  match take (Z.of_nat n + padn) s with
  | Ok (b, _) => Ok (be_val (firstn n b))
  | Err _ => do (v, _) <- read_u n s; Ok v
  end.

Fixpoint read_u32_list (fuel : nat) (s : stream) : res (list Z) :=
  match fuel with
  | O => Err OutOfFuel
  | S f => if is_readable 4 s then do (v, s1) <- read_u 4 s; do r <- read_u32_list f s1; Ok (v :: r) else Ok []
  end.

(* kls.frombytes(raw_data): StringElement.read takes padding = 1 (the kwarg is not passed on read) *)
Definition read_leaf (k : lkind) (s : stream) : res leaf :=
  match k with
  | KByte => do v <- read_padded 1 3 s; Ok (LByte v)
  | KInteger => do (v, _) <- read_u 4 s; Ok (LInteger v)
  | KShort => do v <- read_padded 2 2 s; Ok (LShort v)
  | KBool => do v <- read_padded 1 3 s; Ok (LBool (negb (v =? 0)))
  | KString => do (u, _) <- r_unicode 1 s; Ok (LString u)
  | KEmpty => Ok LEmpty
  | KBytes => Ok (LBytes (fst (read_upto 4 s)))
  | KSectionDivider =>
      do (kind, s1) <- read_u 4 s;
      if negb (memz kind model_section_dividers) then Err ValueErr else
      do (sb, s2) <- (if is_readable 8 s1 then
                        do (sg, a) <- read_u 4 s1;
                        if negb (sg =? sig_8BIM) then Err AssertErr else
                        do (b, a2) <- read_u 4 a;
                        if negb (memz b model_blend_modes) then Err ValueErr else Ok (Some (sg, b), a2)
                      else Ok (None, s1));
      (* since /repo de58475: `if signature is not None and is_readable(fp, 4)` (before: is_readable alone, Psd/Legacy.v) *)
      do (sub, _) <- r_opt (is_some sb && is_readable 4 s2) (read_u 4) s2;
      Ok (LSectionDivider kind (option_map fst sb) (option_map snd sb) sub)
  | KSheetColor =>
      do (v, s1) <- read_u 2 s; do (_, _) <- take 6 s1;
      if memz v model_sheet_colors then Ok (LSheetColor v) else Err ValueErr
  | KReferencePoint => do (l, _) <- read_n 2 (read_u 8) s; Ok (LReferencePoint l)
  | KRestrictions => do l <- read_u32_list (S (length s)) s; Ok (LRestrictions l)
  | KColor => do (c, _) <- read_color s; Ok (LColor (fst c) (snd c))
  | KFilterMask => do (c, s1) <- read_color s; do (op, _) <- read_u 2 s1; Ok (LFilterMask (fst c) (snd c) op)
  | KResByte => do (v, _) <- read_u 1 s; Ok (LResByte v)
  | KResInteger => do (v, _) <- read_s 4 s; Ok (LResInteger v)
  | KResShort => do (v, _) <- read_u 2 s; Ok (LResShort v)
  end.

(* what the symmetric reading needs: enum members, option coherence, sizes that the reader assumes *)
Definition wf_leaf (l : leaf) : bool :=
  match l with
  | LBytes b => len b <=? 4
  | LSectionDivider kind sg blend sub =>
      memz kind model_section_dividers &&
      match sg, blend with
      | Some s, Some b => (s =? sig_8BIM) && memz b model_blend_modes
      | None, None => negb (is_some sub)
      | _, _ => false
      end
  | LSheetColor v => memz v model_sheet_colors
  | _ => true
  end.

(* A tagged block whose payload is a modelled leaf: TaggedBlock.write / TaggedBlock.read with TYPES *)
Definition inner_padding (padding : Z) : Z := if padding =? 4 then 1 else 4.
Definition write_typed_block (v padding sg key : Z) (l : leaf) : W :=
  w_fmt (pk_cat [pack_u 4 sg; pack_u 4 key]) +++
  w_length_block 0 (tb_len_bytes v key) padding (write_leaf (inner_padding padding) l).
Definition read_typed_block (k : lkind) (v padding : Z) (s : stream) : res (option (Z * Z * leaf * stream)) :=
  do r <- read_tagged_block v padding s;
  match r with
  | None => Ok None
  | Some (b, s1) => do l <- read_leaf k (tb_data b); Ok (Some (tb_sig b, tb_key b, l, s1))
  end.

(* TYPES restricted to the modelled classes: key (4CC) -> class, compared with the live dict on every run *)
Definition kind_code (k : lkind) : Z :=
  match k with
  | KByte => 1 | KInteger => 2 | KShort => 3 | KBool => 4 | KString => 5 | KEmpty => 6 | KBytes => 7
  | KSectionDivider => 8 | KSheetColor => 9 | KReferencePoint => 10 | KRestrictions => 11 | KColor => 12
  | KFilterMask => 13 | KResByte => 14 | KResInteger => 15 | KResShort => 16
  end.

(* tagged_blocks.TYPES / image_resources.TYPES restricted to the modelled classes: (key, kind_code) *)
Definition model_leaf_keys : list (Z * Z) :=
  [(1179480939, 13); (1299460406, 6); (1299460914, 6); (1299477102, 6); (1651667828, 11); (1668047468, 1); (1717991529, 7); (1719169648, 10); (1766813793, 1); (1768842872, 1); (1802398575, 1); (1818455154, 9); (1819109229, 1); (1819177842, 7); (1819501428, 8); (1819501675, 8); (1819504742, 2); (1819635305, 5); (1819896164, 2); (1819899506, 2); (1853256308, 6); (1885434996, 6); (1886352244, 3); (1936601680, 2); (1953002099, 3); (1953721465, 1); (1986881389, 1); (1987016566, 2)].
Definition model_leaf_resources : list (Z * Z) :=
  [(1010, 12); (1024, 16); (1034, 14); (1037, 15); (1040, 14); (1041, 14); (1042, 14); (1044, 15); (1046, 16); (1047, 16); (1049, 15); (1051, 5); (1086, 5); (1087, 5)].
