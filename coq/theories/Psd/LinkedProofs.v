(* Stage 3 (3): round trip of LinkedLayer / LinkedLayers (Psd/Linked.v) *)
From PsdV Require Import Base.Prelude Psd.Codec Psd.Model Psd.Proofs Psd.Descriptor Psd.DescriptorProofs Psd.Struct Psd.Linked.
From Coq Require Import ZArith List Bool Lia ZifyBool.
Import ListNotations.
Open Scope Z_scope.

Lemma dblock_s_rt units t v d bs n rest :
  wf_terms t = true -> wf_dblock units (DBlock v d) = true -> write_dblock t 1 (DBlock v d) = Ok (bs, n) ->
  read_dblock_s units t (bs ++ rest) = Ok (DBlock v d, t, rest).
Proof.
  intros Hw Hwf H. cbn [write_dblock wf_dblock] in *.
  apply andb_prop in Hwf as [Hwf Hd]. apply andb_prop in Hwf as [Hver Hos].
  destruct d; try discriminate. apply Z.eqb_eq in Hos. subst os.
  apply w_then_pad_inv in H as (x & nx & Hx & -> & _). rewrite pad_count_1. cbn [Z.to_nat zeros repeat]. rewrite app_nil_r.
  apply w_seq_inv in Hx as (a & na & b & nb & Ha & Hb & -> & ->). apply w_fmt_inv in Ha as [Ha ->].
  unfold read_dblock_s. rewrite <- !app_assoc. rewrite (read_u_pack _ _ _ _ Ha). cbn [bind].
  pose proof (dsize_le t _ _ _ Hb) as Hsz.
  rewrite (dval_rt units t Hw _ Hd b nb _ _ Hb) by (rewrite app_length; lia).
  cbn [bind fst snd]. now rewrite Hver.
Qed.

Lemma opt_rt {A} (o : option A) (w : A -> W) (r : stream -> res (A * stream)) c bs n rest :
  is_some o = c -> (forall a b m rs, o = Some a -> w a = Ok (b, m) -> r (b ++ rs) = Ok (a, rs)) ->
  w_opt o w = Ok (bs, n) -> r_opt c r (bs ++ rest) = Ok (o, rest).
Proof.
  intros <- Hr H. destruct o as [a|]; cbn [w_opt is_some r_opt] in *.
  - now rewrite (Hr a bs n rest eq_refl H).
  - inversion H. reflexivity.
Qed.
Lemma req_rt {A} e (o : option A) (w : A -> W) (r : stream -> res (A * stream)) (c : bool) bs n rest :
  (forall a b m rs, o = Some a -> w a = Ok (b, m) -> r (b ++ rs) = Ok (a, rs)) ->
  (if c then w_req e o w else w_nil) = Ok (bs, n) -> r_opt c r (bs ++ rest) = Ok (if c then o else None, rest).
Proof.
  intros Hr H. destruct c; cbn [r_opt].
  - destruct o as [a|]; [|discriminate]. cbn [w_req] in H. now rewrite (Hr a bs n rest eq_refl H).
  - inversion H. reflexivity.
Qed.
Lemma read_data_app d rest : len d < 2 ^ 63 -> read_data (len d) (d ++ rest) = Ok (d, rest).
Proof. intros H. unfold read_data. replace (2 ^ 63 <=? len d) with false by lia. now rewrite read_upto_app. Qed.
Lemma u8_rt x b m rs : w_fmt (pack_u 8 x) = Ok (b, m) -> read_u 8 (b ++ rs) = Ok (x, rs).
Proof. intros H. apply w_fmt_inv in H as [H _]. now apply read_u_pack. Qed.
Lemma u1_rt x b m rs : w_fmt (pack_u 1 x) = Ok (b, m) -> read_u 1 (b ++ rs) = Ok (x, rs).
Proof. intros H. apply w_fmt_inv in H as [H _]. now apply read_u_pack. Qed.

Section LinkedProofs.
  Variable enc_s : list Z -> res (list Z).
  Variable dec_s : list Z -> res (list Z).

  Lemma tail_rt l bs n rest :
    is_some (ll_child l) = (5 <=? ll_version l) -> is_some (ll_mod l) = (6 <=? ll_version l) ->
    is_some (ll_lock l) = (7 <=? ll_version l) -> w_tail l = Ok (bs, n) ->
    r_tail (ll_version l) (bs ++ rest) = Ok (ll_child l, ll_mod l, ll_lock l, rest).
  Proof.
    intros Hc Hm Hk H. unfold w_tail in H.
    apply w_seq_inv in H as (ab & nab & c & nc & H & Hl & -> & ->).
    apply w_seq_inv in H as (a & na & b & nb & Hch & Hmd & -> & ->).
    unfold r_tail. rewrite <- !app_assoc.
    rewrite (opt_rt _ _ (r_unicode 1) _ a na _ Hc (fun u b0 m rs _ Hw => unicode1_rt u b0 m rs Hw) Hch). cbn [bind].
    rewrite (opt_rt _ _ (read_u 8) _ b nb _ Hm (fun x b0 m rs _ Hw => u8_rt x b0 m rs Hw) Hmd). cbn [bind].
    rewrite (opt_rt _ _ (read_u 1) _ c nc _ Hk (fun x b0 m rs _ Hw => u1_rt x b0 m rs Hw) Hl). reflexivity.
  Qed.

  Lemma ext_rt units t l v d fsz bs n rest :
    wf_terms t = true -> ll_linked l = Some (DBlock v d) -> wf_dblock units (DBlock v d) = true ->
    ll_filesize l = Some fsz ->
    (match ll_data l with Some x => len x <? 2 ^ 63 | None => true end) = true ->
    w_ext t l = Ok (bs, n) ->
    r_ext units t (ll_version l) (match ll_data l with Some x => len x | None => 0 end) (bs ++ rest)
    = Ok (DBlock v d, (if 3 <? ll_version l then ll_timestamp l else None), fsz,
          (if 2 <? ll_version l then ll_data l else None), t, rest).
  Proof.
    intros Hw Hlf Hwf Hfs Hlen H. unfold w_ext in H. rewrite Hlf, Hfs in H. cbn [w_req] in H.
    apply w_seq_inv in H as (abc & nabc & e & ne & H & He & -> & ->).
    apply w_seq_inv in H as (ab & nab & c & nc & H & Hc & -> & ->).
    apply w_seq_inv in H as (a & na & b & nb & Ha & Hb & -> & ->).
    unfold r_ext. rewrite <- !app_assoc.
    rewrite (dblock_s_rt units t v d a na _ Hw Hwf Ha). cbn [bind fst snd].
    rewrite (req_rt TypeErr (ll_timestamp l) _ (unpack_fields L_timestamp) _ b nb _
               (fun ts b0 m rs _ Hx => fields_rt L_timestamp ts b0 rs (wf_fields_plain L_timestamp eq_refl ts) (proj1 (w_fmt_inv _ _ _ Hx))) Hb).
    cbn [bind]. rewrite (u8_rt fsz c nc _ Hc). cbn [bind].
    rewrite (req_rt TypeErr (ll_data l) w_bytes (read_data (match ll_data l with Some x => len x | None => 0 end)) _ e ne rest); [reflexivity| |exact He].
    intros x b0 m rs Hx Hwb. apply w_bytes_inv in Hwb as [-> _]. rewrite Hx in *. apply read_data_app. lia.
  Qed.

  Theorem linked_rt units t pad l bs n tail :
    wf_terms t = true -> wf_linked enc_s dec_s units l = true -> write_linked enc_s t pad l = Ok (bs, n) ->
    exists rest', read_linked dec_s units t (bs ++ tail) = Ok (l, t, rest').
  Proof.
    intros Hw Hwf H. unfold write_linked in H. unfold wf_linked in Hwf.
    destruct l as [kind version uuid fname ftype creator fsz op lf ts data child md lk].
    cbn [ll_kind ll_version ll_uuid ll_filename ll_filetype ll_creator ll_filesize ll_open ll_linked ll_timestamp ll_data
         ll_child ll_mod ll_lock] in *.
    apply andb_prop in Hwf as [Hwf Hlk]. apply andb_prop in Hwf as [Hwf Hmd]. apply andb_prop in Hwf as [Hwf Hch].
    apply andb_prop in Hwf as [Hwf Hdl]. apply andb_prop in Hwf as [Hwf Hkind]. apply andb_prop in Hwf as [Hwf Hop].
    apply andb_prop in Hwf as [Hwf Huuid]. apply andb_prop in Hwf as [Hwf Hv7]. apply andb_prop in Hwf as [Hk Hv1].
    apply eqb_prop in Hlk, Hmd, Hch.
    rewrite Hk in H. cbn [negb] in H.
    apply w_then_pad_inv in H as (x & nx & Hx & -> & _).
    set (w_last := if (kind =? K_liFE) && (version =? 2) then w_req TypeErr data w_bytes else w_nil) in Hx.
    set (w_dat := if kind =? K_liFD then w_req TypeErr data w_bytes else w_nil) in Hx.
    set (w_mid := if kind =? K_liFE then _ else _) in Hx.
    apply w_seq_inv in Hx as (x8 & n8 & b9 & n9 & Hx & H9 & -> & ->).
    apply w_seq_inv in Hx as (x7 & n7 & b8 & n8' & Hx & H8 & -> & ->).
    apply w_seq_inv in Hx as (x6 & n6 & b7 & n7' & Hx & H7 & -> & ->).
    apply w_seq_inv in Hx as (x5 & n5 & b6 & n6' & Hx & H6 & -> & ->).
    apply w_seq_inv in Hx as (x4 & n4 & b5 & n5' & Hx & H5 & -> & ->).
    apply w_seq_inv in Hx as (x3 & n3 & b4 & n4' & Hx & H4 & -> & ->).
    apply w_seq_inv in Hx as (x2 & n2 & b3 & n3' & Hx & H3 & -> & ->).
    apply w_seq_inv in Hx as (b1 & n1 & b2 & n2' & H1 & H2 & -> & ->).
    apply w_fmt_inv in H1 as [H1 _]. open_pk H1. apply w_fmt_inv in H4 as [H4 _]. open_pk H4.
    unfold read_linked. rewrite <- !app_assoc. steps. rewrite Hk. cbn [negb]. steps.
    rewrite Hv1, Hv7. cbn [andb negb].
    rewrite (pascal_rt enc_s dec_s uuid 1 b2 n2' _ ltac:(lia) (wf_name_inv enc_s dec_s uuid Huuid) H2). cbn [bind].
    rewrite (unicode1_rt fname b3 n3' _ H3). cbn [bind]. steps.
    (* open_file *)
    assert (Hopen : exists s9, forall rs,
      (if (if is_some op then 1 else 0) =? 0 then Ok (None, t, b5 ++ rs)
       else do (b, sa) <- read_dblock_s units t (b5 ++ rs); Ok (Some (fst b), snd b, sa)) = Ok (op, t, rs) /\ s9 = b5).
    { exists b5. intros rs. split; [|reflexivity]. destruct op as [[v d|]|]; cbn [is_some w_opt wf_opt_dblock] in *; try discriminate.
      - change (1 =? 0) with false. cbv iota. rewrite (dblock_s_rt units t v d b5 n5' rs Hw Hop H5). reflexivity.
      - inversion H5. reflexivity. }
    destruct Hopen as (s9 & Hopen). rewrite (proj1 (Hopen _)). cbn [bind fst snd]. clear Hopen s9.
    pose proof (fun rs => tail_rt (mkLinked kind version uuid fname ftype creator fsz op lf ts data child md lk) b8 n8' rs Hch Hmd Hlk H8) as Htail.
    cbn [ll_child ll_mod ll_lock ll_version] in Htail.
    (* the three kinds *)
    assert (Hkk : kind = K_liFD \/ kind = K_liFE \/ kind = K_liFA).
    { unfold memz, model_linked_kinds in Hk. cbn [existsb] in Hk. lia. }
    destruct Hkk as [-> | [-> | ->]].
    - (* data *)
      change (K_liFD =? K_liFE) with false in *. change (K_liFD =? K_liFA) with false in *. change (K_liFD =? K_liFD) with true in *.
      cbn [andb] in *. subst w_mid w_dat w_last. cbv iota in *.
      inversion H6; subst b6 n6'. inversion H9; subst b9 n9. cbn [app].
      split_andb. destruct lf; [discriminate|]. destruct ts; [discriminate|]. destruct fsz; [discriminate|].
      destruct data as [dat|]; [|discriminate]. cbn [w_req] in H7. apply w_bytes_inv in H7 as [-> _].
      cbn [bind]. rewrite read_data_app by lia. cbn [bind]. rewrite Z.eqb_refl. cbn [bind].
      rewrite Htail. cbn [bind]. eexists. reflexivity.
    - (* external *)
      change (K_liFE =? K_liFE) with true in *. change (K_liFE =? K_liFD) with false in *.
      subst w_mid w_dat w_last. cbv iota in *. cbn [andb] in *.
      inversion H7; subst b7 n7'. cbn [app].
      split_andb. destruct lf as [[v d|]|]; try discriminate. destruct fsz as [fs|]; [|discriminate].
      cbn [wf_opt_dblock is_some] in *.
      pose proof (ext_rt units t (mkLinked K_liFE version uuid fname ftype creator (Some fs) op (Some (DBlock v d)) ts data child md lk)
                         v d fs b6 n6' (b8 ++ b9 ++ zeros (Z.to_nat (pad_count (n1 + n2' + n3' + n4' + n5' + n6' + 0 + n8' + n9) pad)) ++ tail)
                         Hw eq_refl ltac:(assumption) eq_refl ltac:(assumption) H6) as Hext.
      cbn [ll_version ll_data ll_timestamp] in Hext. rewrite Hext. cbn [bind]. clear Hext.
      rewrite Htail. cbn [bind].
      match goal with Hts : Bool.eqb (is_some ts) (3 <? version) = true |- _ => apply eqb_prop in Hts; rename Hts into Hts' end.
      match goal with Hd : Bool.eqb (is_some data) (2 <=? version) = true |- _ => apply eqb_prop in Hd; rename Hd into Hd' end.
      assert (Ets : (if 3 <? version then ts else None) = ts).
      { destruct (3 <? version); [reflexivity|]. destruct ts; [discriminate|reflexivity]. }
      rewrite Ets.
      destruct (version =? 2) eqn:E2.
      + assert (version = 2) by lia. subst version. change (2 <? 2) with false. cbv iota.
        destruct data as [dat|]; [|discriminate]. cbn [w_req] in H9. apply w_bytes_inv in H9 as [-> _].
        rewrite read_data_app by lia. cbn [bind]. eexists. reflexivity.
      + inversion H9; subst b9 n9. cbn [app].
        assert (Edt : (if 2 <? version then data else None) = data).
        { destruct (2 <? version) eqn:E3; [reflexivity|]. destruct data; [|reflexivity]. cbn [is_some] in Hd'. lia. }
        rewrite Edt. eexists. reflexivity.
    - (* alias *)
      change (K_liFA =? K_liFE) with false in *. change (K_liFA =? K_liFA) with true in *. change (K_liFA =? K_liFD) with false in *.
      cbn [andb] in *. subst w_mid w_dat w_last. cbv iota in *.
      inversion H7; subst b7 n7'. inversion H9; subst b9 n9. apply w_bytes_inv in H6 as [-> _]. cbn [app].
      split_andb. destruct lf; [discriminate|]. destruct ts; [discriminate|]. destruct fsz; [discriminate|].
      destruct data; [discriminate|].
      rewrite (take_app_n 8 (zeros 8) _ eq_refl). cbn [bind].
      rewrite Htail. cbn [bind]. eexists. reflexivity.
  Qed.

  Lemma wtruth_opt {A} (o : option A) (w : A -> W) : (forall a, wtruth (w a)) -> wtruth (w_opt o w).
  Proof. intros H. destruct o; [apply H|apply wtruth_nil]. Qed.
  Lemma wtruth_req {A} e (o : option A) (w : A -> W) : (forall a, wtruth (w a)) -> wtruth (w_req e o w).
  Proof. intros H. destruct o; [apply H|apply wtruth_err]. Qed.
  Lemma wtruth_linked t pad l : wtruth (write_linked enc_s t pad l).
  Proof.
    unfold write_linked, w_ext, w_tail.
    repeat first [ apply wtruth_then_pad | apply wtruth_seq | apply wtruth_fmt | apply wtruth_pascal | apply wtruth_unicode
                 | apply wtruth_bytes | apply wtruth_nil | apply wtruth_err | apply wtruth_dblock
                 | (apply wtruth_opt; intros ?) | (apply wtruth_req; intros ?)
                 | match goal with |- wtruth (if ?c then _ else _) => destruct c end ].
  Qed.
  Lemma wtruth_linked_layers t l : wtruth (write_linked_layers enc_s t l).
  Proof. unfold write_linked_layers. apply wtruth_concat_map. intros a. apply wtruth_length_block, wtruth_linked. Qed.

  Lemma rlb_len pre nb pad s x : read_length_block pre nb pad s = Ok x -> Z.of_nat (pre + nb) <= len s.
  Proof.
    unfold read_length_block, take. destruct ((0 <=? Z.of_nat (pre + nb)) && (Z.of_nat (pre + nb) <=? len s)) eqn:E; [|discriminate].
    intros _. lia.
  Qed.

  Theorem linked_layers_rt units t : wf_terms t = true -> forall l bs n tail fuel,
    forallb (wf_linked enc_s dec_s units) l = true -> write_linked_layers enc_s t l = Ok (bs, n) ->
    len tail < 8 -> (length bs < fuel)%nat ->
    read_linked_layers dec_s fuel units t (bs ++ tail) = Ok (l, t).
  Proof.
    intros Hw. unfold write_linked_layers. induction l as [|x l IH]; intros bs n tail fuel Hwf H Ht Hf.
    - apply w_concat_nil_inv in H as [-> _]. destruct fuel; [cbn in Hf; lia|]. cbn [read_linked_layers app].
      unfold is_readable. replace (8 <=? len tail) with false by lia. reflexivity.
    - apply w_concat_cons_inv in H as (b1 & n1 & b2 & n2 & Hx & Hl & -> & ->).
      cbn [forallb] in Hwf. apply andb_prop in Hwf as [Hwx Hwl].
      destruct fuel as [|f]; [cbn in Hf; lia|]. cbn [read_linked_layers].
      pose proof (fun rest => length_block_rt 0 8 4 _ b1 n1 rest ltac:(lia) eq_refl (wtruth_linked t 1 x) Hx) as Hb.
      destruct (Hb []) as (body & Hbody & Hr0). apply rlb_len in Hr0. rewrite app_nil_r in Hr0. change (Z.of_nat (0 + 8)) with 8 in Hr0.
      destruct (Hb (b2 ++ tail)) as (body' & Hbody' & Hr). rewrite Hbody in Hbody'. inversion Hbody'; subst body'. clear Hbody'.
      rewrite <- app_assoc. unfold is_readable. replace (8 <=? len (b1 ++ b2 ++ tail)) with true by (rewrite len_app; pose_nonneg; lia).
      rewrite Hr. cbn [bind].
      destruct (linked_rt units t 1 x body (len body) [] Hw Hwx Hbody) as (rest' & Hrd). rewrite app_nil_r in Hrd.
      rewrite Hrd. cbn [bind fst snd].
      rewrite (IH b2 n2 tail f Hwl Hl Ht). { reflexivity. }
      rewrite app_length in Hf. unfold len in Hr0. lia.
  Qed.
End LinkedProofs.
