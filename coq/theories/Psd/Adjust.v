(* Stage 3 (1): psd_tools.psd.adjustments - BrightnessContrast, ColorBalance, Exposure, HueSaturation,
   SelectiveColor, PhotoFilter (versions 2 / 3), ChannelMixer, Levels (with the 'Lvls' extra levels), Curves
   (point and 256-entry map forms, the 'Crv ' extra marker of version 1), GradientMap (versions 1 / 3),
   ColorLookup (descriptor based).  Threshold / Posterize / Invert are value elements (Psd/Leaf.v), Vibrance /
   BlackAndWhite / ... are DescriptorBlocks (Psd/Descriptor.v).
   Struct-like classes are their layout (Psd/Struct.v) and the list of their field values in on-disk order; list
   valued attributes of fixed length (6 hue ranges, 10 plates, 5 mixer values, ...) are part of that list: an
   instance whose lists have another length is outside the model's domain.  Floats are bit patterns.
   Payloads are read from the whole content of their block (frombytes): no rest.  Definitions only. *)
From PsdV Require Import Base.Prelude Psd.Codec Psd.Model Psd.Struct Psd.Descriptor.
From Coq Require Import ZArith List Bool Lia.
Import ListNotations.
Open Scope Z_scope.

Inductive astruct := SBrit | SBlnc | SExpA | SHue | SSelc | SPhfl.

Definition L_brit : list fspec := [FU 2; FU 2; FU 2; FU 1; FX 1].                 (* "3HBx" *)
Definition L_blnc : list fspec := rep 9 (FS 2) ++ [FU 1].                          (* "3h" x 3, "B" *)
Definition L_expA : list fspec := [FU 2; FU 4; FU 4; FU 4].                        (* "H3f" *)
Definition L_hue_head : list fspec := [FU 2; FU 1; FX 1].                          (* "HBx" *)
Definition L_hue_tail : list fspec := rep 48 (FS 2).                               (* "3h" "3h" ("4h" "3h") x 6 *)
Definition L_selc : list fspec := [FU 2; FU 2] ++ rep 40 (FS 2).                   (* "2H" ("4h") x 10 *)
Definition L_phfl3 : list fspec := [FU 4; FU 4; FU 4; FU 4; FU 1].                 (* "3I" "IB" *)
Definition L_phfl2 : list fspec := [FU 2; FU 2; FU 2; FU 2; FU 2; FU 4; FU 1].     (* "H4H" "IB" *)

(* (head layout read before the checks, tail layout) *)
Definition astruct_layout (k : astruct) (vals : list Z) : list fspec * list fspec :=
  match k with
  | SBrit => (L_brit, [])
  | SBlnc => (L_blnc, [])
  | SExpA => (L_expA, [])
  | SHue => (L_hue_head, L_hue_tail)
  | SSelc => (L_selc, [])
  | SPhfl => ([FU 2], if hd 0 vals =? 3 then L_phfl3 else L_phfl2)
  end.
(* written += write_padding(fp, written, d) at the end of write() *)
Definition astruct_pad (k : astruct) (padding : Z) : Z :=
  match k with SBrit | SSelc => 1 | SExpA => padding | _ => 4 end.

Definition write_astruct (padding : Z) (k : astruct) (vals : list Z) : W :=
  let (h, t) := astruct_layout k vals in
  w_then_pad (w_fmt (pack_fields (h ++ t) vals)) (astruct_pad k padding).

Definition read_astruct (k : astruct) (s : stream) : res (list Z) :=
  do (hv, s1) <- unpack_fields (fst (astruct_layout k [])) s;
  let ver := hd 0 hv in
  do _ <- match k with
          | SHue => if ver =? 2 then Ok tt else Err AssertErr
          | SPhfl => if (ver =? 2) || (ver =? 3) then Ok tt else Err AssertErr
          | _ => Ok tt
          end;
  do (tl, _) <- unpack_fields (snd (astruct_layout k hv)) s1;
  match k with
  | SSelc => if ver =? 1 then Ok (hv ++ tl) else Err ValueErr          (* validator in_((1,)) of the constructor *)
  | _ => Ok (hv ++ tl)
  end.

Definition wf_astruct (k : astruct) (vals : list Z) : bool :=
  let (h, t) := astruct_layout k vals in
  wf_fields (h ++ t) vals &&
  match k with
  | SHue => hd 0 vals =? 2
  | SPhfl => (hd 0 vals =? 2) || (hd 0 vals =? 3)
  | SSelc => hd 0 vals =? 1
  | _ => true
  end.

(* ------------------------------------------------------------------ ChannelMixer: "2H" "5h" and whatever follows *)
Definition L_mixr : list fspec := [FU 2; FU 2] ++ rep 5 (FS 2).
Definition write_mixer (vals tail : list Z) : W := w_fmt (pack_fields L_mixr vals) +++ w_bytes tail.
Definition read_mixer (s : stream) : res (list Z * list Z) :=
  do (vals, s1) <- unpack_fields L_mixr s;
  if hd 0 vals =? 1 then Ok (vals, s1) else Err ValueErr.

(* ------------------------------------------------------------------ Levels *)
Definition L_level : list fspec := rep 5 (FU 2).                                   (* LevelRecord "5H" *)
Definition sig_Lvls : Z := 0x4c766c73.
Definition write_levels (version : Z) (recs : list (list Z)) (extra : option Z) : W :=
  w_then_pad
    (w_fmt (pack_u 2 version) +++
     (if 29 <=? len recs then w_fmt (pack_rows L_level (firstn 29 recs)) else Err IndexErr) +++
     match extra with
     | None => w_nil
     | Some ev => w_fmt (pk_cat [pack_u 4 sig_Lvls; pack_u 2 ev]) +++ w_fmt (pack_u 2 (len recs)) +++
                  w_fmt (pack_rows L_level (skipn 29 recs))
     end) 4.
Definition read_levels (s : stream) : res (Z * list (list Z) * option Z) :=
  do (version, s1) <- read_u 2 s;
  if negb (version =? 2) then Err AssertErr else
  do (recs, s2) <- unpack_rows L_level 29 s1;
  if is_readable 6 s2 then
    do (sg, s3) <- read_u 4 s2; do (ev, s4) <- read_u 2 s3;
    if negb (sg =? sig_Lvls) then Err AssertErr else
    if negb (ev =? 3) then Err AssertErr else
    do (count, s5) <- read_u 2 s4;
    do (more, _) <- unpack_rows L_level (Z.to_nat (count - 29)) s5;
    Ok (version, recs ++ more, Some ev)
  else Ok (version, recs, None).
Definition wf_levels (version : Z) (recs : list (list Z)) (extra : option Z) : bool :=
  (version =? 2) && (29 <=? len recs) &&
  match extra with None => len recs =? 29 | Some ev => ev =? 3 end.

(* ------------------------------------------------------------------ Curves *)
Definition sig_Crv : Z := 0x43727620.
Fixpoint popcount (n : nat) (z : Z) : Z :=                                         (* bin(count_map).count("1") *)
  match n with O => 0 | S n' => (if Z.testbit z (Z.of_nat n') then 1 else 0) + popcount n' z end.
(* a curve is the flat list x0 y0 x1 y1 ... of its points ("H" count, "2H" per point); a map is 256 bytes *)
Definition w_points (c : list Z) : W := w_fmt (pack_u 2 (len c / 2)) +++ w_fmt (pk_cat (map (pack_u 2) c)).
Definition w_map256 (m : list Z) : W := w_fmt (if (length m =? 256)%nat then pk_cat (map (pack_u 1) m) else Err StructErr).
Definition r_points (s : stream) : res (list Z * stream) :=
  do (pc, s1) <- read_u 2 s; read_n (Z.to_nat (2 * pc)) (read_u 2) s1.
Definition r_map256 (s : stream) : res (list Z * stream) := read_n 256 (read_u 1) s.

(* CurvesExtraItem: (channel id, written in map form ?, values) *)
Definition extra_item := (Z * bool * list Z)%type.
Definition w_extra_item (it : extra_item) : W :=
  let '(ch, as_map, vals) := it in
  w_fmt (pack_u 2 ch) +++ (if as_map then w_map256 vals else w_points vals).
Definition r_extra_item (is_map : bool) (s : stream) : res (extra_item * stream) :=
  do (ch, s1) <- read_u 2 s;
  do (vals, s2) <- (if is_map then r_map256 s1 else r_points s1);
  Ok ((ch, is_map, vals), s2).

Record curves := mkCurves {
  cv_is_map : bool; cv_version : Z; cv_count_map : Z; cv_data : list (list Z);
  cv_extra : option (Z * list extra_item) }.

Definition write_curves (c : curves) : W :=
  w_then_pad
    (w_fmt (pk_cat [pack_u 1 (if cv_is_map c then 1 else 0); pack_u 2 (cv_version c); pack_u 4 (cv_count_map c)]) +++
     w_concat (map (if cv_is_map c then w_map256 else w_points) (cv_data c)) +++
     match cv_extra c with
     | None => w_nil
     | Some (mv, items) =>
         w_fmt (pk_cat [pack_u 4 sig_Crv; pack_u 2 mv; pack_u 4 (len items)]) +++ w_concat (map w_extra_item items)
     end) 4.

Fixpoint read_curve_list (n : nat) (is_map : bool) (s : stream) : res (list (list Z) * stream) :=
  match n with
  | O => Ok ([], s)
  | S n' =>
      do (c, s1) <- (if is_map then r_map256 s
                     else do (pc, a) <- read_u 2 s;
                          if (2 <=? pc) && (pc <=? 19) then read_n (Z.to_nat (2 * pc)) (read_u 2) a
                          else Err AssertErr);                      (* "Curves point count not in [2, 19]" *)
      do (cs, s2) <- read_curve_list n' is_map s1;
      Ok (c :: cs, s2)
  end.
Definition read_marker (is_map : bool) (s : stream) : res (Z * list extra_item) :=
  do (sg, s1) <- read_u 4 s; do (mv, s2) <- read_u 2 s1; do (count, s3) <- read_u 4 s2;
  if negb (sg =? sig_Crv) then Err AssertErr else
  do (items, _) <- read_n (Z.to_nat (Z.min count (len s3 + 1))) (r_extra_item is_map) s3;
  if negb (len items =? count) then Err IOErr else
  if (mv =? 3) || (mv =? 4) then Ok (mv, items) else Err ValueErr.
Definition read_curves (s : stream) : res curves :=
  do (im, s1) <- read_u 1 s; do (version, s2) <- read_u 2 s1; do (cm, s3) <- read_u 4 s2;
  let is_map := negb (im =? 0) in
  if negb ((version =? 1) || (version =? 4)) then Err AssertErr else
  let count := if version =? 1 then popcount 32 cm else cm in
  do (data, s4) <- read_curve_list (Z.to_nat (Z.min count (len s3 + 1))) is_map s3;
  if negb (len data =? count) then Err IOErr else
  do extra <- (if version =? 1 then
                 match read_marker is_map s4 with
                 | Ok m => Ok (Some m)
                 | Err IOErr => Ok None                              (* except IOError: no extra marker *)
                 | Err e => Err e
                 end
               else Ok None);
  Ok (mkCurves is_map version cm data extra).

Definition even_len (l : list Z) : bool := (len l mod 2 =? 0).
Definition wf_curves (c : curves) : bool :=
  ((cv_version c =? 1) || (cv_version c =? 4)) &&
  (len (cv_data c) =? (if cv_version c =? 1 then popcount 32 (cv_count_map c) else cv_count_map c)) &&
  forallb (fun x => if cv_is_map c then (length x =? 256)%nat
                    else even_len x && (2 <=? len x / 2) && (len x / 2 <=? 19)) (cv_data c) &&
  match cv_extra c with
  | None => true
  | Some (mv, items) =>
      (cv_version c =? 1) && ((mv =? 3) || (mv =? 4)) &&
      forallb (fun it : extra_item => let '(_, as_map, vals) := it in
                 Bool.eqb as_map (cv_is_map c) && (if as_map then (length vals =? 256)%nat else even_len vals)) items
  end.

(* ------------------------------------------------------------------ GradientMap *)
Definition L_cstop : list fspec := [FU 4; FU 4; FU 2; FU 2; FU 2; FU 2; FU 2; FX 2].   (* "2I5H2x" *)
Definition L_tstop : list fspec := [FU 4; FU 4; FU 2].                                 (* "2IH" *)
Definition L_gtail : list fspec :=                                                     (* "4HI2HIH" "4H" "4H" "2x" *)
  [FU 2; FU 2; FU 2; FU 2; FU 4; FU 2; FU 2; FU 4; FU 2] ++ rep 8 (FU 2) ++ [FX 2].
Definition sig_Gcls : Z := 0x47636c73.
Definition model_gradient_methods : list Z := [0x47636c73; 0x4c6e7220; 0x50657263; 0x536d6f6f].  (* Gcls, "Lnr ", Perc, Smoo *)
Record gradient := mkGrad {
  gm_head : list Z;                 (* version, is_reversed, is_dithered *)
  gm_method : Z; gm_name : list Z;
  gm_cstops : list (list Z); gm_tstops : list (list Z);
  gm_tail : list Z }.               (* expansion interpolation length mode random_seed show_transparency use_vector_color
                                       roughness color_model, minimum colour (4), maximum colour (4) *)
Definition write_gradient (g : gradient) : W :=
  w_then_pad
    (w_fmt (pack_fields [FU 2; FU 1; FU 1] (gm_head g)) +++
     (if hd 0 (gm_head g) =? 3 then w_fmt (pack_u 4 (gm_method g)) else w_nil) +++
     w_unicode (gm_name g) 1 +++
     w_fmt (pack_u 2 (len (gm_cstops g))) +++ w_fmt (pack_rows L_cstop (gm_cstops g)) +++
     w_fmt (pack_u 2 (len (gm_tstops g))) +++ w_fmt (pack_rows L_tstop (gm_tstops g)) +++
     w_fmt (pack_fields L_gtail (gm_tail g))) 4.
Definition read_gradient (s : stream) : res gradient :=
  do (head, s1) <- unpack_fields [FU 2; FU 1; FU 1] s;
  let version := hd 0 head in
  if negb ((version =? 1) || (version =? 3)) then Err AssertErr else
  do (method, s2) <- (if version =? 3 then read_u 4 s1 else Ok (sig_Gcls, s1));
  do (name, s3) <- r_unicode 1 s2;
  do (nc, s4) <- read_u 2 s3; do (cst, s5) <- unpack_rows L_cstop (Z.to_nat nc) s4;
  do (nt, s6) <- read_u 2 s5; do (tst, s7) <- unpack_rows L_tstop (Z.to_nat nt) s6;
  do (t1, s8) <- unpack_fields [FU 2; FU 2; FU 2; FU 2] s7;
  if negb (hd 0 t1 =? 2) then Err AssertErr else                      (* expansion *)
  do (t2, _) <- unpack_fields (skipn 4 L_gtail) s8;
  let tail := t1 ++ t2 in
  if memz method model_gradient_methods && (nth 2 tail 0 =? 32) then Ok (mkGrad head method name cst tst tail)
  else Err ValueErr.                                                  (* validators of method / length *)
Definition wf_gradient (g : gradient) : bool :=
  let version := hd 0 (gm_head g) in
  ((version =? 1) || (version =? 3)) && memz (gm_method g) model_gradient_methods &&
  ((version =? 3) || (gm_method g =? sig_Gcls)) &&
  (hd 0 (gm_tail g) =? 2) && (nth 2 (gm_tail g) 0 =? 32).

(* ------------------------------------------------------------------ ColorLookup: "HI" + descriptor body + padding *)
Definition write_color_lookup (t : terms) (padding : Z) (ver dv : Z) (d : dval) : W :=
  w_then_pad (w_fmt (pk_cat [pack_u 2 ver; pack_u 4 dv]) +++ write_dval t d) padding.
Definition read_color_lookup (units : list Z) (t : terms) (s : stream) : res (Z * Z * dval * terms) :=
  do (ver, s1) <- read_u 2 s; do (dv, s2) <- read_u 4 s1;
  do (r, _) <- read_dval units (S (length s2)) t OS_Objc s2;
  if dv =? 16 then Ok (ver, dv, fst r, snd r) else Err ValueErr.

(* ------------------------------------------------------------------ one sum type for the correspondence *)
Inductive adj :=
| AStruct (k : astruct) (vals : list Z)
| AMixer (vals tail : list Z)
| ALevels (version : Z) (recs : list (list Z)) (extra : option Z)
| ACurves (c : curves)
| AGradient (g : gradient).
Definition write_adj (padding : Z) (a : adj) : W :=
  match a with
  | AStruct k vals => write_astruct padding k vals
  | AMixer vals tail => write_mixer vals tail
  | ALevels v recs ex => write_levels v recs ex
  | ACurves c => write_curves c
  | AGradient g => write_gradient g
  end.
Definition wf_adj (a : adj) : bool :=
  match a with
  | AStruct k vals => wf_astruct k vals
  | AMixer vals _ => wf_fields L_mixr vals && (hd 0 vals =? 1)
  | ALevels v recs ex => wf_levels v recs ex
  | ACurves c => wf_curves c
  | AGradient g => wf_gradient g
  end.
(* re-read with the class of [a] (the key of the block selects it) *)
Definition reread_adj (a : adj) (s : stream) : res adj :=
  match a with
  | AStruct k _ => do v <- read_astruct k s; Ok (AStruct k v)
  | AMixer _ _ => do x <- read_mixer s; Ok (AMixer (fst x) (snd x))
  | ALevels _ _ _ => do x <- read_levels s; let '(v, recs, ex) := x in Ok (ALevels v recs ex)
  | ACurves _ => do c <- read_curves s; Ok (ACurves c)
  | AGradient _ => do g <- read_gradient s; Ok (AGradient g)
  end.

(* ADJUSTMENT_TYPES restricted to the classes of this file: (key, class code)  1 BrightnessContrast 2 ColorBalance
   3 Exposure 4 HueSaturation 5 SelectiveColor 6 PhotoFilter 7 ChannelMixer 8 Levels 9 Curves 10 GradientMap 11 ColorLookup *)
Definition model_adjust_keys : list (Z * Z) :=
  [(1651273315, 2); (1651665268, 1); (1668051532, 11); (1668641398, 9); (1702391873, 3); (1735550061, 10);
   (1752524064, 4); (1752524082, 4); (1818588780, 8); (1835628658, 7); (1885890156, 6); (1936026723, 5)].
