(* Glue for the correspondence checks of C01/C03 (mirrored in harness/vh/format_common.py):
   compact byte literals, the canonical flattening of structures, digests of model outputs. *)
From PsdV Require Import Base.Prelude Psd.Codec Psd.Model.
From Coq Require Import ZArith List Bool Uint63.
Import ListNotations.
Open Scope Z_scope.

(* ---- byte strings as 7 bytes per 63-bit literal (big lists of Z literals parse ~20x slower) *)
Definition wb (w : int) (k : Z) : Z := to_Z (Uint63.land (Uint63.lsr w (of_Z k)) (of_Z 255)).
Definition word_bytes (w : int) : list Z := [wb w 48; wb w 40; wb w 32; wb w 24; wb w 16; wb w 8; wb w 0].
(* [bw n ws]: the first n bytes of the words; the last word is left-aligned like the others *)
Definition bw (n : Z) (ws : list int) : list Z := firstn (Z.to_nat n) (flat_map word_bytes ws).

(* ---- canonical flattening (twin: the canon_ functions of format_common.py) *)
Definition c_z (x : Z) : list Z := [x].
Definition c_bytes (b : list Z) : list Z := len b :: b.
Definition c_opt {A} (f : A -> list Z) (o : option A) : list Z :=
  match o with None => [0] | Some a => 1 :: f a end.
Definition c_list {A} (f : A -> list Z) (l : list A) : list Z := len l :: flat_map f l.

Definition c_header (h : header) : list Z :=
  [h_sig h; h_version h; h_channels h; h_height h; h_width h; h_depth h; h_mode h].
Definition c_res (r : image_resource) : list Z :=
  [ir_sig r; ir_key r] ++ c_bytes (ir_name r) ++ c_bytes (ir_data r).
Definition c_tb (b : tagged_block) : list Z := [tb_sig b; tb_key b] ++ c_bytes (tb_data b).
Definition c_flags (f : flags8) : list Z := [flags_byte f].
Definition c_mp (p : mask_params) : list Z :=
  c_opt c_z (mp_user_density p) ++ c_opt c_z (mp_user_feather p) ++
  c_opt c_z (mp_vector_density p) ++ c_opt c_z (mp_vector_feather p).
Definition c_mr (r : mask_real) : list Z :=
  c_flags (mr_flags r) ++ [mr_bg r; mr_top r; mr_left r; mr_bottom r; mr_right r].
Definition c_mask (m : mask_data) : list Z :=
  [m_top m; m_left m; m_bottom m; m_right m; m_bg m] ++ c_flags (m_flags m) ++
  c_opt c_mp (m_params m) ++ c_opt c_mr (m_real m).
Definition c_pair (x : Z * Z) : list Z := [fst x; snd x].
Definition c_br (r : blending_ranges) : list Z :=
  c_opt (c_list c_pair) (br_comp r) ++ c_opt (c_list (c_list c_pair)) (br_chan r).
Definition c_ci (c : channel_info) : list Z := [ci_id c; ci_len c].
Definition c_rec (r : layer_record) : list Z :=
  [r_top r; r_left r; r_bottom r; r_right r] ++ c_list c_ci (r_channels r) ++
  [r_sig r; r_blend r; r_opacity r; r_clip r] ++ c_flags (r_flags r) ++
  c_opt c_mask (r_mask r) ++ c_br (r_ranges r) ++ c_bytes (r_name r) ++ c_list c_tb (r_blocks r).
Definition c_cd (c : channel_data) : list Z := cd_comp c :: c_bytes (cd_data c).
Definition c_li (l : layer_info) : list Z :=
  li_count l :: c_opt (c_list c_rec) (li_records l) ++ c_opt (c_list (c_list c_cd)) (li_chans l).
Definition c_glmi (g : glmi) : list Z := c_opt (c_list c_z) (g_overlay g) ++ [g_opacity g; g_kind g].
Definition c_lami (l : lami) : list Z :=
  c_opt c_li (la_info l) ++ c_opt c_glmi (la_glmi l) ++ c_opt (c_list c_tb) (la_blocks l).
Definition c_psd (d : psd) : list Z :=
  c_header (p_header d) ++ c_bytes (p_cmd d) ++ c_list c_res (p_res d) ++ c_lami (p_lami d) ++ c_cd (p_img d).

(* ---- elements under test: X.tobytes(...) and X.frombytes(X.tobytes(...), ...) *)
Inductive elem :=
| EHeader (h : header)
| ECmd (v : list Z)
| ERes (r : image_resource)
| EResources (l : list image_resource)
| ETB (v pad : Z) (b : tagged_block)
| ETBs (v pad : Z) (l : list tagged_block)
| EMask (m : mask_data)
| ERanges (r : blending_ranges)
| ERecord (v : Z) (r : layer_record)
| ELayerInfo (v pad : Z) (l : layer_info)
| EGlmi (g : glmi)
| ELami (v pad : Z) (l : lami)
| EImg (c : channel_data)
| EPsd (pad : Z) (d : psd).

Definition enc := raw_codec.
Definition dec := raw_codec.

Definition elem_write (e : elem) : W :=
  match e with
  | EHeader h => write_header h
  | ECmd v => write_cmd v
  | ERes r => write_resource enc r
  | EResources l => write_resources enc l
  | ETB v pad b => write_tagged_block v pad b
  | ETBs v pad l => write_tagged_blocks v pad l
  | EMask m => write_mask m
  | ERanges r => write_ranges r
  | ERecord v r => write_record enc v r
  | ELayerInfo v pad l => write_layer_info enc v pad l
  | EGlmi g => write_glmi g
  | ELami v pad l => write_lami enc v pad l
  | EImg c => write_image_data c
  | EPsd pad d => write_psd enc pad d
  end.

Definition fst_map {A B} (f : A -> list Z) (r : res (A * B)) : res (list Z) :=
  do x <- r; Ok (f (fst x)).

(* canonical form of X.frombytes(bytes, ...) for the element kind of [e] *)
Definition elem_read (e : elem) (b : list Z) : res (list Z) :=
  match e with
  | EHeader _ => fst_map c_header (read_header b)
  | ECmd _ => fst_map c_bytes (read_cmd b)
  | ERes _ => fst_map c_res (read_resource dec b)
  | EResources _ => fst_map (c_list c_res) (read_resources dec b)
  | ETB v pad _ => do r <- read_tagged_block v pad b;
                   Ok (match r with None => [0] | Some (t, _) => 1 :: c_tb t end)
  | ETBs v pad _ => fst_map (c_list c_tb) (read_tagged_blocks v pad None b)
  | EMask _ => fst_map (c_opt c_mask) (read_mask b)
  | ERanges _ => fst_map c_br (read_ranges b)
  | ERecord v _ => fst_map c_rec (read_record dec v b)
  | ELayerInfo v _ _ => fst_map c_li (read_layer_info dec v b)
  | EGlmi _ => fst_map c_glmi (read_glmi b)
  | ELami v _ _ => fst_map c_lami (read_lami dec v b)
  | EImg _ => do c <- read_image_data b; Ok (c_cd c)
  | EPsd _ d => do d' <- read_psd dec b; Ok (c_psd d')
  end.

Definition dig (l : list Z) : Z := to_Z (h63_list 0%uint63 l).

Definition elem_wf (e : elem) : bool :=
  match e with
  | EHeader h => header_valid h
  | ECmd _ => true
  | ERes r => wf_resource enc dec r
  | EResources l => wf_resources enc dec l
  | ETB _ _ b => wf_tb b
  | ETBs _ _ l => wf_tbs l
  | EMask m => wf_mask m
  | ERanges r => wf_ranges r
  | ERecord _ r => wf_record enc dec r
  | ELayerInfo _ _ l => wf_li enc dec l
  | EGlmi g => wf_glmi g
  | ELami v _ l => wf_lami enc dec v l 0
  | EImg c => wf_cd c
  | EPsd _ d => wf_psd enc dec d
  end.

(* canonical form of the element as it is after write() ran (write refreshes channel lengths) *)
Definition elem_canon_after (e : elem) : list Z :=
  match e with
  | EHeader h => c_header h
  | ECmd v => c_bytes v
  | ERes r => c_res r
  | EResources l => c_list c_res l
  | ETB _ _ b => 1 :: c_tb b
  | ETBs _ _ l => c_list c_tb l
  | EMask m => c_opt c_mask (Some m)
  | ERanges r => c_br r
  | ERecord _ r => c_rec r
  | ELayerInfo _ _ l => c_li (li_after_write l)
  | EGlmi g => c_glmi g
  | ELami _ _ l => c_lami (lami_after_write l)
  | EImg c => c_cd c
  | EPsd _ d => c_psd (psd_after_write d)
  end.

(* what the harness compares:
   [0; written; digest bytes; 0; digest canon(reread); reread = original ?; wf ?]  (or error codes) *)
Definition elem_outcome (e : elem) : list Z :=
  match elem_write e with
  | Err er => [err_code er]
  | Ok (b, n) =>
      [0; n; dig b] ++
      match elem_read e b with
      | Err er => [err_code er]
      | Ok c => [0; dig c; if list_eqb c (elem_canon_after e) then 1 else 0]
      end ++ [if elem_wf e then 1 else 0]
  end.

(* a file: canonical structure digest, then the digests of the re-written bytes for padding 1,2,4 *)
Definition rewrite_dig (pad : Z) (d : psd) : list Z :=
  match write_psd enc pad d with Ok (b, n) => [0; n; dig b] | Err er => [err_code er] end.
Definition file_outcome (b : list Z) : list Z :=
  match read_psd dec b with
  | Err er => [err_code er]
  | Ok d => [0; dig (c_psd d)] ++ rewrite_dig 1 d ++ rewrite_dig 2 d ++ rewrite_dig 4 d
  end.
(* bytes in, canonical structure out (debugging aid of the harness) *)
Definition file_canon (b : list Z) : list Z :=
  match read_psd dec b with Err er => [err_code er] | Ok d => 0 :: c_psd d end.

(* ---- the independent walker (Psd/Walk.v) on bytes: 0 :: kind1 :: size1 :: ... , or [1] when it rejects *)
From PsdV Require Import Psd.Walk.
Definition walk_outcome (b : list Z) : list Z :=
  match walk b with
  | Ok l => 0 :: flat_map (fun e => [fst e; snd e]) l
  | Err _ => [1]
  end.
Definition walk_digest (b : list Z) : list Z :=
  match walk b with
  | Ok l => [0; len l; dig (flat_map (fun e => [fst e; snd e]) l)]
  | Err _ => [1]
  end.
(* the walker on what the model writes for a document *)
Definition doc_walk_outcome (pad : Z) (d : psd) : list Z :=
  match write_psd enc pad d with
  | Ok (b, _) => walk_digest b
  | Err e => [2; err_code e]
  end.

(* ---- Stage 2: modelled leaf payloads (Psd/Leaf.v) *)
From PsdV Require Import Psd.Leaf.
Definition c_leaf (l : leaf) : list Z :=
  match l with
  | LByte v => [1; v] | LInteger v => [2; v] | LShort v => [3; v]
  | LBool b => [4; if b then 1 else 0]
  | LString u => 5 :: c_list c_z u
  | LEmpty => [6]
  | LBytes b => 7 :: c_bytes b
  | LSectionDivider k s b t => [8; k] ++ c_opt c_z s ++ c_opt c_z b ++ c_opt c_z t
  | LSheetColor v => [9; v]
  | LReferencePoint l => 10 :: c_list c_z l
  | LRestrictions l => 11 :: c_list c_z l
  | LColor i v => [12; i] ++ c_list c_z v
  | LFilterMask i v o => [13; i] ++ c_list c_z v ++ [o]
  | LResByte v => [14; v] | LResInteger v => [15; v] | LResShort v => [16; v]
  end.
(* [0; written; digest bytes; 0; digest canon(reread); reread = original ?; wf ?] *)
Definition leaf_outcome (a : Z * leaf) : list Z :=
  let '(pad, l) := a in
  match write_leaf pad l with
  | Err e => [err_code e]
  | Ok (b, n) =>
      [0; n; dig b] ++
      match read_leaf (kind_of l) b with
      | Err e => [err_code e]
      | Ok l' => [0; dig (c_leaf l'); if list_eqb (c_leaf l') (c_leaf l) then 1 else 0]
      end ++ [if wf_leaf l then 1 else 0]
  end.
(* the same payload inside a TaggedBlock(signature, key, data).write(fp, version, padding) *)
Definition typed_outcome (a : Z * Z * Z * Z * leaf) : list Z :=
  let '(v, pad, sg, key, l) := a in
  match write_typed_block v pad sg key l with
  | Err e => [err_code e]
  | Ok (b, n) =>
      [0; n; dig b] ++
      match read_typed_block (kind_of l) v pad b with
      | Err e => [err_code e]
      | Ok None => [0; 0]
      | Ok (Some (sg', key', l', _)) =>
          [0; dig ([sg'; key'] ++ c_leaf l'); if list_eqb ([sg'; key'] ++ c_leaf l') ([sg; key] ++ c_leaf l) then 1 else 0]
      end
  end.

(* ---- Stage 2: the descriptor family (Psd/Descriptor.v) *)
From PsdV Require Import Psd.Descriptor.
Fixpoint c_dval (d : dval) : list Z :=
  let c_items (items : list (key * dval)) :=
    len items :: flat_map (fun kv : key * dval => let (k, v) := kv in c_bytes k ++ c_dval v) items in
  ostype_of d ::
  match d with
  | DDesc _ name cid items => c_list c_z name ++ c_bytes cid ++ c_items items
  | DObjArr count name cid items => count :: c_list c_z name ++ c_bytes cid ++ c_items items
  | DList _ items => len items :: flat_map c_dval items
  | DProperty name cid kid => c_list c_z name ++ c_bytes cid ++ c_bytes kid
  | DUnitFloat u v => [u; v]
  | DUnitFloats u vs => u :: c_list c_z vs
  | DDouble v => [v]
  | DClass _ name cid => c_list c_z name ++ c_bytes cid
  | DString u => c_list c_z u
  | DEnumRef name cid tid en => c_list c_z name ++ c_bytes cid ++ c_bytes tid ++ c_bytes en
  | DOffset name cid v => c_list c_z name ++ c_bytes cid ++ [v]
  | DBool b => [if b then 1 else 0]
  | DLargeInt v => [v]
  | DInt _ v => [v]
  | DEnum tid en => c_bytes tid ++ c_bytes en
  | DRaw _ b => c_bytes b
  | DName name cid v => c_list c_z name ++ c_bytes cid ++ c_list c_z v
  end.
(* X.frombytes(x.tobytes()):  [0; written; digest bytes; 0; digest canon; equal ?; #terms added; wf ?] *)
Definition dval_outcome (units : list Z) (t : terms) (d : dval) : list Z :=
  match write_dval t d with
  | Err e => [err_code e]
  | Ok (b, n) =>
      [0; n; dig b] ++
      match read_dval units (S (length b)) t (ostype_of d) b with
      | Err e => [err_code e]
      | Ok (d', t', _) => [0; dig (c_dval d'); if list_eqb (c_dval d') (c_dval d) then 1 else 0; len t' - len t]
      end ++ [if wf_dval units d then 1 else 0]
  end.
Definition c_dblock (b : dblock) : list Z :=
  match b with DBlock v d => 1 :: v :: c_dval d | DBlock2 v dv d => 2 :: v :: dv :: c_dval d end.
Definition dblock_outcome (units : list Z) (t : terms) (a : Z * dblock) : list Z :=
  let '(pad, blk) := a in
  match write_dblock t pad blk with
  | Err e => [err_code e]
  | Ok (b, n) =>
      [0; n; dig b] ++
      match read_dblock units (match blk with DBlock _ _ => false | DBlock2 _ _ _ => true end) t b with
      | Err e => [err_code e]
      | Ok (b', t') => [0; dig (c_dblock b'); if list_eqb (c_dblock b') (c_dblock blk) then 1 else 0; len t' - len t]
      end ++ [if wf_dblock units blk then 1 else 0]
  end.

(* ---- Stage 2: EffectsLayer (Psd/Effects.v) *)
From PsdV Require Import Psd.Effects.
Definition c_col (c : color) : list Z := fst c :: c_list c_z (snd c).
Definition c_effect (e : effect) : list Z :=
  effect_kind e ::
  match e with
  | FxCommon v vis => [v; vis]
  | FxShadow v bl i a d col b en ug op nat => [v; bl; i; a; d] ++ c_col col ++ [b; en; ug; op] ++ c_col nat
  | FxOuterGlow v bl i col b en op nat => [v; bl; i] ++ c_col col ++ [b; en; op] ++ c_opt c_col nat
  | FxInnerGlow v bl i col b en op inv nat => [v; bl; i] ++ c_col col ++ [b; en; op] ++ c_opt c_z inv ++ c_opt c_col nat
  | FxBevel v a d bl hb sb hc sc st ho so en ug dir real =>
      [v; a; d; bl; hb; sb] ++ c_col hc ++ c_col sc ++ [st; ho; so; en; ug; dir] ++
      c_opt (fun p : color * color => c_col (fst p) ++ c_col (snd p)) real
  | FxSolidFill v b col op en nat => [v; b] ++ c_col col ++ [op; en] ++ c_col nat
  end.
Definition c_effects (l : effects_layer) : list Z :=
  fx_version l :: c_list (fun ke : Z * effect => fst ke :: c_effect (snd ke)) (fx_items l).
Definition effects_outcome (l : effects_layer) : list Z :=
  match write_effects l with
  | Err e => [err_code e]
  | Ok (b, n) =>
      [0; n; dig b] ++
      match read_effects b with
      | Err e => [err_code e]
      | Ok l' => [0; dig (c_effects l'); if list_eqb (c_effects l') (c_effects l) then 1 else 0]
      end ++ [if wf_effects l then 1 else 0]
  end.

(* ---- Stage 2: Patterns (Psd/Patterns.v) *)
From PsdV Require Import Psd.Patterns.
Definition c_vma (a : vma) : list Z :=
  match a with
  | VmaSkipped => [0]
  | VmaEmpty w => [1; w]
  | VmaFull w depth rect pd comp data => [2; w; depth] ++ c_list c_z rect ++ [pd; comp] ++ c_bytes data
  end.
Definition c_pattern (p : pattern) : list Z :=
  [pt_version p; pt_mode p; fst (pt_point p); snd (pt_point p)] ++ c_list c_z (pt_name p) ++ c_bytes (pt_id p) ++
  c_opt (c_list (fun c : Z * Z * Z => let '(r, g, b) := c in [r; g; b])) (pt_table p) ++
  [vl_version (pt_data p)] ++ c_list c_z (vl_rect (pt_data p)) ++ c_list c_vma (vl_channels (pt_data p)).
Definition patterns_outcome (l : list pattern) : list Z :=
  match write_patterns enc l with
  | Err e => [err_code e]
  | Ok (b, n) =>
      [0; n; dig b] ++
      match read_patterns dec (S (length b)) b with
      | Err e => [err_code e]
      | Ok l' => [0; dig (c_list c_pattern l'); if list_eqb (c_list c_pattern l') (c_list c_pattern l) then 1 else 0]
      end ++ [if forallb (wf_pattern enc dec) l then 1 else 0]
  end.

(* ---- Stage 3 (1): adjustments (Psd/Adjust.v) *)
From PsdV Require Import Psd.Struct Psd.Adjust.
Definition astruct_code (k : astruct) : Z :=
  match k with SBrit => 1 | SBlnc => 2 | SExpA => 3 | SHue => 4 | SSelc => 5 | SPhfl => 6 end.
Definition c_rows (rows : list (list Z)) : list Z := c_list (c_list c_z) rows.
Definition c_adj (a : adj) : list Z :=
  match a with
  | AStruct k vals => [1; astruct_code k] ++ c_list c_z vals
  | AMixer vals tail => [2] ++ c_list c_z vals ++ c_bytes tail
  | ALevels v recs ex => [3; v] ++ c_rows recs ++ c_opt c_z ex
  | ACurves c =>
      [4; if cv_is_map c then 1 else 0; cv_version c; cv_count_map c] ++ c_rows (cv_data c) ++
      c_opt (fun m : Z * list extra_item =>
               fst m :: c_list (fun it : extra_item => let '(ch, am, vals) := it in
                                  [ch; if am then 1 else 0] ++ c_list c_z vals) (snd m)) (cv_extra c)
  | AGradient g =>
      [5] ++ c_list c_z (gm_head g) ++ [gm_method g] ++ c_list c_z (gm_name g) ++ c_rows (gm_cstops g) ++
      c_rows (gm_tstops g) ++ c_list c_z (gm_tail g)
  end.
Definition adj_outcome (a : Z * adj) : list Z :=
  let '(pad, x) := a in
  match write_adj pad x with
  | Err e => [err_code e]
  | Ok (b, n) =>
      [0; n; dig b] ++
      match reread_adj x b with
      | Err e => [err_code e]
      | Ok y => [0; dig (c_adj y); if list_eqb (c_adj y) (c_adj x) then 1 else 0]
      end ++ [if wf_adj x then 1 else 0]
  end.
Definition color_lookup_outcome (units : list Z) (t : terms) (a : Z * Z * Z * dval) : list Z :=
  let '(pad, ver, dv, d) := a in
  match write_color_lookup t pad ver dv d with
  | Err e => [err_code e]
  | Ok (b, n) =>
      [0; n; dig b] ++
      match read_color_lookup units t b with
      | Err e => [err_code e]
      | Ok (ver', dv', d', t') =>
          [0; dig ([ver'; dv'] ++ c_dval d'); if list_eqb ([ver'; dv'] ++ c_dval d') ([ver; dv] ++ c_dval d) then 1 else 0; len t' - len t]
      end
  end.

(* ---- Stage 3 (2): vector paths (Psd/Vector.v) *)
From PsdV Require Import Psd.Vector.
Definition c_prec (r : prec) : list Z :=
  match r with
  | PRec sel vals => [1; sel] ++ c_list c_z vals
  | PSub sel hdr knots => [2; sel] ++ c_list c_z hdr ++ c_list (fun k : Z * list Z => fst k :: c_list c_z (snd k)) knots
  end.
Definition vmask_outcome (a : Z * Z * list prec) : list Z :=
  let '(version, flags, p) := a in
  match write_vmask version flags p with
  | Err e => [err_code e]
  | Ok (b, n) =>
      [0; n; dig b] ++
      match read_vmask b with
      | Err e => [err_code e]
      | Ok (v', f', p') =>
          let c' := [v'; f'] ++ c_list c_prec p' in
          [0; dig c'; if list_eqb c' ([version; flags] ++ c_list c_prec p) then 1 else 0]
      end ++ [if (version =? 3) && forallb wf_prec p then 1 else 0]
  end.
Definition vscg_outcome (units : list Z) (t : terms) (a : Z * Z * Z * dval) : list Z :=
  let '(pad, key, ver, d) := a in
  match write_vscg t pad key ver d with
  | Err e => [err_code e]
  | Ok (b, n) =>
      [0; n; dig b] ++
      match read_vscg units t b with
      | Err e => [err_code e]
      | Ok (key', ver', d', t') =>
          [0; dig ([key'; ver'] ++ c_dval d'); if list_eqb ([key'; ver'] ++ c_dval d') ([key; ver] ++ c_dval d) then 1 else 0; len t' - len t]
      end
  end.

(* ---- Stage 3 (3): linked layers (Psd/Linked.v) *)
From PsdV Require Import Psd.Linked.
Definition c_linked (l : linked) : list Z :=
  [ll_kind l; ll_version l] ++ c_bytes (ll_uuid l) ++ c_list c_z (ll_filename l) ++ [ll_filetype l; ll_creator l] ++
  c_opt c_z (ll_filesize l) ++ c_opt c_dblock (ll_open l) ++ c_opt c_dblock (ll_linked l) ++
  c_opt (c_list c_z) (ll_timestamp l) ++ c_opt c_bytes (ll_data l) ++ c_opt (c_list c_z) (ll_child l) ++
  c_opt c_z (ll_mod l) ++ c_opt c_z (ll_lock l).
Definition linked_outcome (units : list Z) (t : terms) (l : list linked) : list Z :=
  match write_linked_layers enc t l with
  | Err e => [err_code e]
  | Ok (b, n) =>
      [0; n; dig b] ++
      match read_linked_layers dec (S (length b)) units t b with
      | Err e => [err_code e]
      | Ok (l', t') => [0; dig (c_list c_linked l'); if list_eqb (c_list c_linked l') (c_list c_linked l) then 1 else 0; len t' - len t]
      end ++ [if forallb (wf_linked enc dec units) l then 1 else 0]
  end.

(* ---- Stage 3 (4): filter effects (Psd/FilterFx.v) *)
From PsdV Require Import Psd.FilterFx.
Definition c_fchannel (c : fchannel) : list Z := [fc_written c] ++ c_opt c_z (fc_comp c) ++ c_bytes (fc_data c).
Definition c_fextra (x : fextra) : list Z := [fx_written x] ++ c_list c_z (fx_rect x) ++ [fx_comp x] ++ c_bytes (fx_data x).
Definition c_feffect (e : feffect) : list Z :=
  c_bytes (fe_uuid e) ++ [fe_version e] ++ c_list c_z (fe_rect e) ++ [fe_depth e; fe_maxch e] ++
  c_list c_fchannel (fe_channels e) ++ c_opt c_fextra (fe_extra e).
Definition feffects_outcome (a : Z * list feffect) : list Z :=
  let '(v, l) := a in
  match write_feffects enc v l with
  | Err e => [err_code e]
  | Ok (b, n) =>
      [0; n; dig b] ++
      match read_feffects dec b with
      | Err e => [err_code e]
      | Ok (v', l') =>
          let c' := v' :: c_list c_feffect l' in
          [0; dig c'; if list_eqb c' (v :: c_list c_feffect l) then 1 else 0]
      end ++ [if wf_feffects enc dec v l then 1 else 0]
  end.

(* ---- Stage 3 (5): typed image resources (Psd/Rsrc.v) *)
From PsdV Require Import Psd.Rsrc.
Definition rtable_code (k : rtable) : Z :=
  match k with
  | TAlphaIds => 1 | TGroupEnabled => 2 | TGroupInfo => 3 | THalftone => 4 | TTransfer => 5 | TDisplayInfo => 6
  | TLayerSel => 7 | TGridGuides => 8 | TPrintFlagsInfo => 9 | TResolution => 10 | TPixelAspect => 11 | TPrintScale => 12
  | TNumeric => 13
  end.
Definition c_rsrc (a : rpayload) : list Z :=
  match a with
  | RTable k head rows => [1; rtable_code k] ++ c_list c_z head ++ c_list (c_list c_z) rows
  | RPrintFlags flags pf => [2] ++ c_list c_z flags ++ c_opt c_z pf
  | RThumb vals data => [3] ++ c_list c_z vals ++ c_bytes data
  | RVersionInfo v hc w r fv => [4; v; hc] ++ c_list c_z w ++ c_list c_z r ++ [fv]
  | RUrlList l => [5] ++ c_list (fun u : Z * Z * list Z => let '(n, i, nm) := u in [n; i] ++ c_list c_z nm) l
  | RUnicodes l => [6] ++ c_list (c_list c_z) l
  | RPascals l => [7] ++ c_list c_bytes l
  | RPascalStr n => [8] ++ c_bytes n
  end.
Definition rsrc_outcome (a : rpayload) : list Z :=
  match write_rsrc enc a with
  | Err e => [err_code e]
  | Ok (b, n) =>
      [0; n; dig b] ++
      match reread_rsrc dec a b with
      | Err e => [err_code e]
      | Ok a' => [0; dig (c_rsrc a'); if list_eqb (c_rsrc a') (c_rsrc a) then 1 else 0]
      end ++ [if wf_rsrc enc dec a then 1 else 0]
  end.

(* ---- Stage 3 (5): Slices (Psd/Slices.v) *)
From PsdV Require Import Psd.Slices.
Definition c_slice6 (x : slice6) : list Z :=
  [sl_id x; sl_group x; sl_origin x] ++ c_opt c_z (sl_assoc x) ++ c_list c_z (sl_name x) ++ [sl_type x] ++ c_list c_z (sl_bbox x) ++
  c_list c_z (sl_url x) ++ c_list c_z (sl_target x) ++ c_list c_z (sl_message x) ++ c_list c_z (sl_alt x) ++ [sl_html x] ++
  c_list c_z (sl_text x) ++ [sl_halign x; sl_valign x] ++ c_list c_z (sl_argb x) ++ c_opt c_dblock (sl_data x).
Definition c_slices (x : slices) : list Z :=
  match x with
  | SlicesV6 bbox name items => [6] ++ c_list c_z bbox ++ c_list c_z name ++ c_list c_slice6 items
  | SlicesDesc v b => [v] ++ c_dblock b
  end.
Definition slices_outcome (units : list Z) (t : terms) (x : slices) : list Z :=
  match write_slices t x with
  | Err e => [err_code e]
  | Ok (b, n) =>
      [0; n; dig b] ++
      match read_slices units t b with
      | Err e => [err_code e]
      | Ok (x', _) => [0; dig (c_slices x'); if list_eqb (c_slices x') (c_slices x) then 1 else 0]
      end ++ [if wf_slices units x then 1 else 0]
  end.

(* ---- Stage 3 (6): UserMask, SmartObjectLayerData, PlacedLayerData, TypeToolObjectSetting, PixelSourceData2,
        MetadataSettings, Annotations (Psd/Misc.v, Psd/Meta.v) *)
From PsdV Require Import Psd.Misc Psd.Meta.
Inductive blk6 :=
| BUserMask (cid : Z) (vals : list Z) (opacity flag : Z)
| BSold (pad kind version : Z) (b : dblock)
| BPlaced (pad : Z) (x : placed)
| BTypeTool (pad : Z) (x : typetool)
| BPixel (pad : Z) (l : list (list Z))
| BMeta (l : list msetting)
| BAnno (major minor : Z) (l : list annotation).
Definition c_mdata (d : mdata) : list Z :=
  match d with MInt v => [1; v] | MDesc b => 2 :: c_dblock b | MRaw x => 3 :: c_bytes x end.
Definition c_anno (a : annotation) : list Z :=
  c_list c_z (an_head a) ++ c_list c_z (an_icon a) ++ c_list c_z (an_popup a) ++ [fst (an_color a)] ++ c_list c_z (snd (an_color a)) ++
  c_bytes (an_author a) ++ c_bytes (an_name a) ++ c_bytes (an_date a) ++ [an_marker a] ++ c_bytes (an_data a).
Definition c_blk6 (a : blk6) : list Z :=
  match a with
  | BUserMask cid vals op fl => [1; cid] ++ c_list c_z vals ++ [op; fl]
  | BSold _ kind version b => [2; kind; version] ++ c_dblock b
  | BPlaced _ x => [3; pl_kind x; pl_version x] ++ c_bytes (pl_uuid x) ++ c_list c_z (pl_info x) ++ c_list c_z (pl_transform x) ++ c_dblock (pl_warp x)
  | BTypeTool _ x => [4; ty_version x] ++ c_list c_z (ty_transform x) ++ [ty_text_version x] ++ c_dblock (ty_text x) ++
                     [ty_warp_version x] ++ c_dblock (ty_warp x) ++ c_list c_z (ty_box x)
  | BPixel _ l => [5] ++ c_list c_bytes l
  | BMeta l => [6] ++ c_list (fun m => [ms_sig m; ms_key m; ms_copy m] ++ c_mdata (ms_data m)) l
  | BAnno major minor l => [7; major; minor] ++ c_list c_anno l
  end.
Definition blk6_write (t : terms) (a : blk6) : W :=
  match a with
  | BUserMask cid vals op fl => write_user_mask cid vals op fl
  | BSold pad kind version b => write_sold t pad kind version b
  | BPlaced pad x => write_placed enc t pad x
  | BTypeTool pad x => write_typetool t pad x
  | BPixel pad l => write_pixel_sources pad l
  | BMeta l => write_msettings t l
  | BAnno major minor l => write_annotations enc major minor l
  end.
Definition blk6_reread (units : list Z) (t : terms) (a : blk6) (s : stream) : res blk6 :=
  match a with
  | BUserMask _ _ _ _ => do x <- read_user_mask s; let '(cid, vals, op, fl) := x in Ok (BUserMask cid vals op fl)
  | BSold pad _ _ _ => do x <- read_sold units t s; let '(kind, version, b, _) := x in Ok (BSold pad kind version b)
  | BPlaced pad _ => do x <- read_placed dec units t s; Ok (BPlaced pad (fst x))
  | BTypeTool pad _ => do x <- read_typetool units t s; Ok (BTypeTool pad (fst x))
  | BPixel pad _ => do l <- read_pixel_sources (S (length s)) s; Ok (BPixel pad l)
  | BMeta _ => do x <- read_msettings units t s; Ok (BMeta (fst x))
  | BAnno _ _ _ => do x <- read_annotations dec s; let '(major, minor, l) := x in Ok (BAnno major minor l)
  end.
Definition blk6_wf (units : list Z) (a : blk6) : bool :=
  match a with
  | BUserMask _ _ _ _ => true
  | BSold _ kind version b => wf_sold units kind version b
  | BPlaced _ x => wf_placed enc dec units x
  | BTypeTool _ x => wf_typetool units x
  | BPixel _ _ => true
  | BMeta l => forallb (wf_msetting units) l
  | BAnno _ _ l => forallb (wf_annotation enc dec) l
  end.
Definition blk6_outcome (units : list Z) (t : terms) (a : blk6) : list Z :=
  match blk6_write t a with
  | Err e => [err_code e]
  | Ok (b, n) =>
      [0; n; dig b] ++
      match blk6_reread units t a b with
      | Err e => [err_code e]
      | Ok a' => [0; dig (c_blk6 a'); if list_eqb (c_blk6 a') (c_blk6 a) then 1 else 0]
      end ++ [if blk6_wf units a then 1 else 0]
  end.

(* ---- Stage 3: LayerInfoBlock ('Lr16' / 'Lr32'), the body of a LayerInfo (Psd/LrBlockProofs.v) *)
From PsdV Require Import Psd.LrBlockProofs.
Definition lrblock_outcome (a : Z * Z * layer_info) : list Z :=
  let '(v, pad, li) := a in
  match write_lr_block enc v pad li with
  | Err e => [err_code e]
  | Ok (b, n) =>
      [0; n; dig b] ++
      match read_lr_block dec v b with
      | Err e => [err_code e]
      | Ok li' => [0; dig (c_li li'); if list_eqb (c_li li') (c_li (li_update li)) then 1 else 0]
      end ++ [if wf_lr_block enc dec li then 1 else 0]
  end.
