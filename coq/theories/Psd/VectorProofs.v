(* Round trips of the vector path payloads (Psd/Vector.v). *)
From PsdV Require Import Base.Prelude Psd.Codec Psd.Model Psd.Proofs Psd.Leaf Psd.LeafProofs Psd.Descriptor
  Psd.DescriptorProofs Psd.WalkProofs Psd.Struct Psd.Vector.
From Coq Require Import ZArith List Bool Lia ZifyBool.
Import ListNotations.
Open Scope Z_scope.

Lemma sel_valid_knot sel : is_knot_sel sel = true -> memz sel model_path_selectors = true.
Proof. unfold is_knot_sel, memz, model_path_selectors. cbn [existsb]. lia. Qed.
Lemma sel_valid_sub sel : is_sub_sel sel = true -> memz sel model_path_selectors = true.
Proof. unfold is_sub_sel, memz, model_path_selectors. cbn [existsb]. lia. Qed.
Lemma sel_valid_plain sel sp : plain_layout sel = Some sp -> memz sel model_path_selectors = true /\ is_sub_sel sel = false.
Proof.
  unfold plain_layout, is_knot_sel, is_sub_sel, memz, model_path_selectors. cbn [existsb].
  destruct (sel =? 6) eqn:E6; [lia|]. destruct (sel =? 8) eqn:E8; [lia|]. destruct (sel =? 7) eqn:E7; [lia|].
  destruct ((sel =? 1) || ((sel =? 2) || ((sel =? 4) || ((sel =? 5) || false)))) eqn:Ek; [lia|discriminate].
Qed.
Lemma plain_layout_size sel sp : plain_layout sel = Some sp -> fields_size sp = 24.
Proof.
  unfold plain_layout. destruct (sel =? 6); [intros H; inversion H; reflexivity|].
  destruct (sel =? 8); [intros H; inversion H; reflexivity|]. destruct (sel =? 7); [intros H; inversion H; reflexivity|].
  destruct (is_knot_sel sel); [intros H; inversion H; reflexivity|discriminate].
Qed.

Lemma knot_rt k bs n rest : is_knot_sel (fst k) = true -> w_knot k = Ok (bs, n) ->
  r_knot (bs ++ rest) = Ok (k, rest) /\ len bs = 26.
Proof.
  destruct k as [sel vals]. cbn [fst]. intros Hk H. unfold w_knot in H. cbn [fst snd] in H.
  apply w_seq_inv in H as (a & na & b & nb & Ha & Hb & -> & ->). apply w_fmt_inv in Ha as [Ha _]. apply w_fmt_inv in Hb as [Hb _].
  split.
  - unfold r_knot. rewrite <- app_assoc. steps. rewrite (sel_valid_knot _ Hk), Hk. cbn [negb].
    rewrite (fields_rt L_knot vals b rest (wf_fields_plain L_knot eq_refl vals) Hb). reflexivity.
  - rewrite len_app, (fields_len _ _ _ Hb). pose_lens. change (fields_size L_knot) with 24. lia.
Qed.
Lemma knots_rt knots : forall bs n rest,
  forallb (fun k : Z * list Z => is_knot_sel (fst k)) knots = true -> w_concat (map w_knot knots) = Ok (bs, n) ->
  read_n (length knots) r_knot (bs ++ rest) = Ok (knots, rest) /\ len bs = 26 * len knots.
Proof.
  induction knots as [|k knots IH]; intros bs n rest Hwf H.
  - apply w_concat_nil_inv in H as [-> _]. split; reflexivity.
  - apply w_concat_cons_inv in H as (b1 & n1 & b2 & n2 & Hk & Hl & -> & ->).
    cbn [forallb] in Hwf. apply andb_prop in Hwf as [Hk1 Hwl].
    destruct (knot_rt k b1 n1 (b2 ++ rest) Hk1 Hk) as [Hr Hl1]. destruct (IH b2 n2 rest Hwl Hl) as [Hrs Hl2].
    split; [|rewrite len_app, len_cons; lia].
    cbn [length read_n]. rewrite <- app_assoc. rewrite Hr. cbn [bind]. rewrite Hrs. reflexivity.
Qed.

Lemma wtruth_prec r : wtruth (write_prec r).
Proof.
  destruct r; cbn [write_prec]; repeat apply wtruth_seq; try apply wtruth_fmt.
  apply wtruth_concat_map. intros k. apply wtruth_seq; apply wtruth_fmt.
Qed.

Lemma prec_rt r bs n rest : wf_prec r = true -> write_prec r = Ok (bs, n) ->
  read_prec (bs ++ rest) = Ok (r, rest) /\ 26 <= len bs /\ len bs mod 26 = 0.
Proof.
  intros Hwf H. destruct r as [sel vals|sel hdr knots]; cbn [write_prec wf_prec] in *.
  - destruct (plain_layout sel) as [sp|] eqn:El; [|discriminate].
    destruct (sel_valid_plain sel sp El) as [Hv Hs].
    apply w_seq_inv in H as (a & na & b & nb & Ha & Hb & -> & ->). apply w_fmt_inv in Ha as [Ha _]. apply w_fmt_inv in Hb as [Hb _].
    assert (Hlen : len (a ++ b) = 26) by (rewrite len_app, (fields_len _ _ _ Hb), (plain_layout_size _ _ El); pose_lens; lia).
    split; [|rewrite Hlen; split; [lia|reflexivity]].
    unfold read_prec. rewrite <- app_assoc. steps. rewrite Hv, Hs, El. cbn [negb].
    rewrite (fields_rt sp vals b rest Hwf Hb). reflexivity.
  - apply andb_prop in Hwf as [Hs Hk].
    apply w_seq_inv in H as (ab & nab & c & nc & H & Hc & -> & ->).
    apply w_seq_inv in H as (a & na & b & nb & Ha & Hb & -> & ->). apply w_fmt_inv in Ha as [Ha _]. apply w_fmt_inv in Hb as [Hb _].
    destruct (knots_rt knots c nc rest Hk Hc) as [Hr Hlc].
    assert (Hlen : len ((a ++ b) ++ c) = 26 * (1 + len knots)).
    { rewrite !len_app, (fields_len _ _ _ Hb), Hlc. pose_lens. change (fields_size L_subhdr) with 24. lia. }
    split.
    + unfold read_prec. rewrite <- !app_assoc. steps. rewrite (sel_valid_sub _ Hs), Hs. cbn [negb].
      rewrite (fields_rt L_subhdr (len knots :: hdr) b _ (wf_fields_plain L_subhdr eq_refl _) Hb). cbn [bind hd tl].
      rewrite to_nat_len, Hr. reflexivity.
    + rewrite Hlen. pose_nonneg. split; [lia|]. rewrite Z.mul_comm. apply Z_mod_mult.
Qed.

Lemma path_items_rt p : forall bs n tail fuel,
  forallb wf_prec p = true -> w_concat (map write_prec p) = Ok (bs, n) -> len tail < 26 -> (length bs < fuel)%nat ->
  read_path fuel (bs ++ tail) = Ok p /\ len bs mod 26 = 0.
Proof.
  induction p as [|r p IH]; intros bs n tail fuel Hwf H Ht Hf.
  - apply w_concat_nil_inv in H as [-> _]. destruct fuel; [cbn in Hf; lia|]. split; [|reflexivity].
    cbn [read_path app]. unfold is_readable. replace (26 <=? len tail) with false by lia. reflexivity.
  - apply w_concat_cons_inv in H as (b1 & n1 & b2 & n2 & Hr & Hl & -> & ->).
    cbn [forallb] in Hwf. apply andb_prop in Hwf as [Hw1 Hwl].
    destruct (prec_rt r b1 n1 (b2 ++ tail) Hw1 Hr) as (Hrr & Hl1 & Hm1).
    destruct fuel; [lia|].
    destruct (IH b2 n2 tail fuel Hwl Hl Ht) as [Hrs Hm2]; [rewrite app_length in Hf; unfold len in Hl1; lia|].
    split.
    + cbn [read_path]. unfold is_readable. rewrite !len_app. pose_nonneg.
      replace (26 <=? len b1 + len b2 + len tail) with true by lia. rewrite <- app_assoc, Hrr. cbn [bind]. rewrite Hrs. reflexivity.
    + rewrite len_app, Z.add_mod, Hm1, Hm2 by lia. reflexivity.
Qed.

Lemma wtruth_vmask version flags p : wtruth (write_vmask version flags p).
Proof.
  unfold write_vmask, write_path. apply wtruth_seq; [apply wtruth_fmt|]. apply wtruth_then_pad, wtruth_concat_map, wtruth_prec.
Qed.
Theorem vmask_rt version flags p bs n :
  version = 3 -> forallb wf_prec p = true -> write_vmask version flags p = Ok (bs, n) ->
  read_vmask bs = Ok (version, flags, p).
Proof.
  intros Hv Hwf H. unfold write_vmask, write_path in H.
  apply w_seq_inv in H as (a & na & b & nb & Ha & Hb & -> & ->). apply w_fmt_inv in Ha as [Ha _]. open_pk Ha.
  apply w_then_pad_inv in Hb as (x1 & nx & Hx & -> & _).
  unfold read_vmask. rewrite <- !app_assoc. steps. subst version. cbn [Z.eqb Pos.eqb negb].
  destruct (path_items_rt p x1 nx (zeros (Z.to_nat (pad_count nx 4))) (S (length (x1 ++ zeros (Z.to_nat (pad_count nx 4))))) Hwf Hx) as [Hr _].
  - rewrite len_zeros. pose proof (pad_count_range nx 4 ltac:(lia)). lia.
  - rewrite app_length. lia.
  - rewrite Hr. reflexivity.
Qed.

Lemma wtruth_vscg t pad key version d : wtruth (write_vscg t pad key version d).
Proof. unfold write_vscg. apply wtruth_then_pad, wtruth_seq; [apply wtruth_fmt|apply wtruth_dval]. Qed.
Theorem vscg_rt units t pad key version d bs n :
  wf_terms t = true -> wf_dval units d = true -> ostype_of d = OS_Objc ->
  write_vscg t pad key version d = Ok (bs, n) -> read_vscg units t bs = Ok (key, version, d, t).
Proof.
  intros Hw Hd Hos H. unfold write_vscg in H. apply w_then_pad_inv in H as (x & nx & Hx & -> & _).
  apply w_seq_inv in Hx as (a & na & b & nb & Ha & Hb & -> & ->). apply w_fmt_inv in Ha as [Ha _]. open_pk Ha.
  unfold read_vscg. rewrite <- !app_assoc. steps.
  pose proof (dsize_le t _ _ _ Hb) as Hsz. rewrite <- Hos.
  rewrite (dval_rt units t Hw d Hd b nb _ _ Hb) by (rewrite app_length; lia). reflexivity.
Qed.
