(* Executable model of the container classes of psd_tools.psd (definitions only).

   Mirrors read()/write() of: FileHeader, ColorModeData, ImageResources/ImageResource,
   LayerAndMaskInformation, LayerInfo (+ _update_channel_length, the layer_count == 0 short
   form), LayerRecords/LayerRecord, ChannelInfo, LayerFlags, MaskData/MaskFlags/
   MaskParameters, LayerBlendingRanges, ChannelImageData/ChannelDataList/ChannelData,
   GlobalLayerMaskInfo, TaggedBlocks/TaggedBlock, ImageData, PSD.
   Payloads of image resources and tagged blocks are OPAQUE bytes here (the container
   theorems hold for any payload); channel / merged image data are opaque bytes as in the code.

   Conventions: 4-character codes are big-endian [Z] values; doubles ('d') are their 64-bit
   patterns; pascal-string names are lists of code points, the charset step is the Section
   codec [enc_s]/[dec_s]; dict-like elements (ImageResources, TaggedBlocks) are the list of
   their values in insertion order, built with [od_build] (OrderedDict semantics: a repeated
   key replaces the value and keeps the first position).
   Readers are total: every failure of the code is an explicit [Err] (IOErr short read,
   ValueErr failed enum conversion / attrs validator, AssertErr, StructErr); recursion over
   the input uses fuel bounded by the input length ([Err OutOfFuel] is unreachable with the
   fuel the entry points pass, see Properties/C01.v). *)
From PsdV Require Import Base.Prelude Psd.Codec.
From Coq Require Import ZArith List Bool Lia.
Import ListNotations.
Open Scope Z_scope.

Definition memz (x : Z) (l : list Z) : bool := existsb (Z.eqb x) l.

(* ------------------------------------------------------------------ tables
   Each [model_*] constant is compared on every run with the value extracted from the
   imported live objects of /repo/src (build/C01/Gen_Tables.v, lemma gen_tables_agree). *)
Definition sig_8BPS : Z := 0x38425053.
Definition sig_8BIM : Z := 0x3842494d.
Definition sig_8B64 : Z := 0x38423634.
Definition model_versions : list Z := [1; 2].
Definition model_channels_range : Z * Z := (1, 56).
Definition model_dim_range : Z * Z := (1, 300000).
Definition model_depths : list Z := [1; 8; 16; 32].
Definition model_color_modes : list Z := [0; 1; 2; 3; 4; 7; 8; 9].
Definition model_res_sigs : list Z := [0x3842494d; 0x41674867; 0x44435352; 0x4d655361; 0x50485554].
Definition model_tb_sigs : list Z := [0x38423634; 0x3842494d].
Definition model_record_sigs : list Z := [0x3842494d].
Definition model_channel_ids : list Z := [-3; -2; -1; 0; 1; 2; 3; 4; 5; 6; 7; 8; 9].
Definition model_clippings : list Z := [0; 1].
Definition model_compressions : list Z := [0; 1; 2; 3].
Definition model_glmi_kinds : list Z := [0; 1; 128].
Definition model_glmi_default_kind : Z := 128.
Definition model_blend_modes : list Z :=
  [1668246642; 1684107883; 1684629094; 1684632435; 1684633120; 1684751212; 1717856630;
   1718842722; 1749838196; 1749903736; 1752524064; 1768188278; 1816947060; 1818391150;
   1818518631; 1818706796; 1818850405; 1819634976; 1836411936; 1852797549; 1870030194;
   1884055924; 1885434739; 1934387572; 1935766560; 1935897198; 1936553316; 1984719220].
(* TaggedBlock._BIG_KEYS *)
Definition model_big_keys : list Z :=
  [1097625704; 1178946643; 1178954084; 1179480939; 1180199268; 1280144235; 1281456498;
   1282552118; 1282552626; 1299460406; 1299460914; 1299477102; 1350062916; 1634890852;
   1667853926; 1702392932; 1702392942; 1819175730; 1819175731; 1819175749; 1886677107].

(* ------------------------------------------------------------------ structures *)
Record header := mkHeader {
  h_sig : Z; h_version : Z; h_channels : Z; h_height : Z; h_width : Z; h_depth : Z; h_mode : Z }.

Record image_resource := mkRes { ir_sig : Z; ir_key : Z; ir_name : list Z; ir_data : list Z }.

Record tagged_block := mkTB { tb_sig : Z; tb_key : Z; tb_data : list Z }.

(* LayerFlags / MaskFlags: eight booleans in bit order.  For LayerFlags fb1 is the
   attribute `visible`, stored inverted (bit 1 set = hidden). *)
Record flags8 := mkFlags { fb0 : bool; fb1 : bool; fb2 : bool; fb3 : bool;
                           fb4 : bool; fb5 : bool; fb6 : bool; fb7 : bool }.

Record mask_params := mkMP {
  mp_user_density : option Z; mp_user_feather : option Z;
  mp_vector_density : option Z; mp_vector_feather : option Z }.

(* real_flags, real_background_color, real_top .. real_right: present together or not at all *)
Record mask_real := mkMR {
  mr_flags : flags8; mr_bg : Z; mr_top : Z; mr_left : Z; mr_bottom : Z; mr_right : Z }.

Record mask_data := mkMask {
  m_top : Z; m_left : Z; m_bottom : Z; m_right : Z; m_bg : Z; m_flags : flags8;
  m_params : option mask_params; m_real : option mask_real }.

Record blending_ranges := mkBR {
  br_comp : option (list (Z * Z)); br_chan : option (list (list (Z * Z))) }.

Record channel_info := mkCI { ci_id : Z; ci_len : Z }.

Record layer_record := mkRec {
  r_top : Z; r_left : Z; r_bottom : Z; r_right : Z;
  r_channels : list channel_info;
  r_sig : Z; r_blend : Z; r_opacity : Z; r_clip : Z; r_flags : flags8;
  r_mask : option mask_data; r_ranges : blending_ranges; r_name : list Z;
  r_blocks : list tagged_block }.

Record channel_data := mkCD { cd_comp : Z; cd_data : list Z }.

Record layer_info := mkLI {
  li_count : Z;
  li_records : option (list layer_record);
  li_chans : option (list (list channel_data)) }.

Record glmi := mkGLMI { g_overlay : option (list Z); g_opacity : Z; g_kind : Z }.

Record lami := mkLAMI {
  la_info : option layer_info; la_glmi : option glmi; la_blocks : option (list tagged_block) }.

Record psd := mkPSD {
  p_header : header; p_cmd : list Z; p_res : list image_resource; p_lami : lami;
  p_img : channel_data }.

(* ------------------------------------------------------------------ helpers *)
Definition opt_w {A} (o : option A) (f : A -> W) : W :=
  match o with Some a => f a | None => w_nil end.
Definition r_opt {A} (c : bool) (r : stream -> res (A * stream)) (s : stream) : res (option A * stream) :=
  if c then do (a, s1) <- r s; Ok (Some a, s1) else Ok (None, s).
Definition is_some {A} (o : option A) : bool := match o with Some _ => true | None => false end.
Definition nonempty {A} (l : list A) : bool := match l with [] => false | _ => true end.
(* truthiness of an Optional[ListElement]: None and the empty list are both falsy *)
Definition truthy {A} (o : option (list A)) : bool := match o with Some (_ :: _) => true | _ => false end.
Definition b2z (b : bool) (w : Z) : Z := if b then w else 0.

(* OrderedDict(items) for items that carry their key *)
Fixpoint od_insert {A} (key : A -> Z) (x : A) (d : list A) : list A :=
  match d with
  | [] => [x]
  | y :: t => if key x =? key y then x :: t else y :: od_insert key x t
  end.
Definition od_build {A} (key : A -> Z) (items : list A) : list A :=
  fold_left (fun d x => od_insert key x d) items [].
Fixpoint nodupz (l : list Z) : bool :=
  match l with [] => true | x :: t => negb (memz x t) && nodupz t end.

(* ("I","Q")[version - 1] and ("hI","hQ")[version - 1]: Python indexing, negative indices wrap *)
Definition len_bytes (v : Z) : res nat :=
  if v =? 1 then Ok 4%nat else if v =? 2 then Ok 8%nat
  else if v =? 0 then Ok 8%nat else if v =? -1 then Ok 4%nat else Err IndexErr.
(* TaggedBlock._length_format: ("I","Q")[int(version == 2 and key in _BIG_KEYS)] *)
Definition tb_len_bytes (v key : Z) : nat :=
  if (v =? 2) && memz key model_big_keys then 8%nat else 4%nat.

Definition flags_byte (f : flags8) : Z :=
  b2z (fb0 f) 1 + b2z (fb1 f) 2 + b2z (fb2 f) 4 + b2z (fb3 f) 8 +
  b2z (fb4 f) 16 + b2z (fb5 f) 32 + b2z (fb6 f) 64 + b2z (fb7 f) 128.
Definition flags_of (b : Z) : flags8 :=
  mkFlags (Z.testbit b 0) (Z.testbit b 1) (Z.testbit b 2) (Z.testbit b 3)
          (Z.testbit b 4) (Z.testbit b 5) (Z.testbit b 6) (Z.testbit b 7).
Definition flip1 (f : flags8) : flags8 :=
  mkFlags (fb0 f) (negb (fb1 f)) (fb2 f) (fb3 f) (fb4 f) (fb5 f) (fb6 f) (fb7 f).
(* LayerFlags: ((not self.visible) * 2) on write, `not bool(flags & 2)` on read *)
Definition lflags_byte (f : flags8) : Z := flags_byte (flip1 f).
Definition lflags_of (b : Z) : flags8 := flip1 (flags_of b).

(* ------------------------------------------------------------------ FileHeader *)
Definition header_valid (h : header) : bool :=
  (h_sig h =? sig_8BPS) && memz (h_version h) model_versions &&
  (fst model_channels_range <=? h_channels h) && (h_channels h <=? snd model_channels_range) &&
  (fst model_dim_range <=? h_height h) && (h_height h <=? snd model_dim_range) &&
  (fst model_dim_range <=? h_width h) && (h_width h <=? snd model_dim_range) &&
  memz (h_depth h) model_depths && memz (h_mode h) model_color_modes.

(* write_fmt(fp, "4sH6xHIIHH", *attr.astuple(self)) *)
Definition write_header (h : header) : W :=
  w_fmt (pk_cat [pack_u 4 (h_sig h); pack_u 2 (h_version h); Ok (zeros 6); pack_u 2 (h_channels h);
                 pack_u 4 (h_height h); pack_u 4 (h_width h); pack_u 2 (h_depth h); pack_u 2 (h_mode h)]).

(* cls( *read_fmt(...) ): one 26-byte read, then converters and validators (ValueError) *)
Definition read_header (s : stream) : res (header * stream) :=
  do (sg, s1) <- read_u 4 s;
  do (ver, s2) <- read_u 2 s1;
  do (_, s3) <- take 6 s2;
  do (ch, s4) <- read_u 2 s3;
  do (hh, s5) <- read_u 4 s4;
  do (ww, s6) <- read_u 4 s5;
  do (dp, s7) <- read_u 2 s6;
  do (md, s8) <- read_u 2 s7;
  let h := mkHeader sg ver ch hh ww dp md in
  if header_valid h then Ok (h, s8) else Err ValueErr.

(* ------------------------------------------------------------------ ColorModeData *)
Definition write_cmd (v : list Z) : W := w_length_block 0 4 1 (w_bytes v).
Definition read_cmd (s : stream) : res (list Z * stream) := read_length_block 0 4 1 s.

(* ------------------------------------------------------------------ TaggedBlock(s) *)
Definition write_tagged_block (v padding : Z) (b : tagged_block) : W :=
  w_fmt (pk_cat [pack_u 4 (tb_sig b); pack_u 4 (tb_key b)]) +++
  w_length_block 0 (tb_len_bytes v (tb_key b)) padding (w_bytes (tb_data b)).
Definition write_tagged_blocks (v padding : Z) (l : list tagged_block) : W :=
  w_concat (map (write_tagged_block v padding) l).

(* None = invalid signature: the position is restored and the caller stops *)
Definition read_tagged_block (v padding : Z) (s : stream) : res (option (tagged_block * stream)) :=
  do (sg, s1) <- read_u 4 s;
  if negb (memz sg model_tb_sigs) then Ok None
  else
    do (key, s2) <- read_u 4 s1;
    do (data, s3) <- read_length_block 0 (tb_len_bytes v key) padding s2;
    Ok (Some (mkTB sg key data, s3)).

(* TaggedBlocks.read: while is_readable(fp, 8): [if end_pos is not None and tell >= end_pos: break] ...
   [budget] = end_pos - tell when an end position is given. Returns the items and the position. *)
Fixpoint read_tagged_items (fuel : nat) (v padding : Z) (budget : option Z) (s : stream)
  : res (list tagged_block * stream) :=
  match fuel with
  | O => Err OutOfFuel
  | S f =>
      if negb (is_readable 8 s) then Ok ([], s)
      else if match budget with Some b => b <=? 0 | None => false end then Ok ([], s)
      else
        do r <- read_tagged_block v padding s;
        match r with
        | None => Ok ([], s)
        | Some (b, s1) =>
            let budget' := match budget with Some x => Some (x - (len s - len s1)) | None => None end in
            do (bs, s2) <- read_tagged_items f v padding budget' s1;
            Ok (b :: bs, s2)
        end
  end.
Definition read_tagged_blocks (v padding : Z) (budget : option Z) (s : stream)
  : res (list tagged_block * stream) :=
  do (items, s1) <- read_tagged_items (S (length s)) v padding budget s;
  Ok (od_build tb_key items, s1).

(* ------------------------------------------------------------------ ChannelInfo, ChannelData *)
Definition write_channel_info (v : Z) (c : channel_info) : W :=
  do nb <- len_bytes v;
  w_fmt (pk_cat [pack_s 2 (ci_id c); pack_u nb (ci_len c)]).
Definition read_channel_info (v : Z) (s : stream) : res (channel_info * stream) :=
  do nb <- len_bytes v;
  do (id, s1) <- read_s 2 s;
  do (n, s2) <- read_u nb s1;
  if memz id model_channel_ids then Ok (mkCI id n, s2) else Err ValueErr.

Definition write_channel_data (c : channel_data) : W :=
  w_fmt (pack_u 2 (cd_comp c)) +++ w_bytes (cd_data c).
(* ChannelData.read(fp, length): fp.read(length) is lenient; a negative length reads the rest *)
Definition read_channel_data (length : Z) (s : stream) : res (channel_data * stream) :=
  do (c, s1) <- read_u 2 s;
  if memz c model_compressions then
    let d := read_upto length s1 in Ok (mkCD c (fst d), snd d)
  else Err ValueErr.

(* ------------------------------------------------------------------ MaskParameters, MaskData *)
Definition write_mask_params (p : mask_params) : W :=
  w_fmt (pack_u 1 (b2z (is_some (mp_user_density p)) 1 + b2z (is_some (mp_user_feather p)) 2 +
                   b2z (is_some (mp_vector_density p)) 4 + b2z (is_some (mp_vector_feather p)) 8)) +++
  opt_w (mp_user_density p) (fun x => w_fmt (pack_u 1 x)) +++
  opt_w (mp_user_feather p) (fun x => w_fmt (pack_u 8 x)) +++
  opt_w (mp_vector_density p) (fun x => w_fmt (pack_u 1 x)) +++
  opt_w (mp_vector_feather p) (fun x => w_fmt (pack_u 8 x)).
Definition read_mask_params (s : stream) : res (mask_params * stream) :=
  do (p, s0) <- read_u 1 s;
  do (a, s1) <- r_opt (Z.testbit p 0) (read_u 1) s0;
  do (b, s2) <- r_opt (Z.testbit p 1) (read_u 8) s1;
  do (c, s3) <- r_opt (Z.testbit p 2) (read_u 1) s2;
  do (d, s4) <- r_opt (Z.testbit p 3) (read_u 8) s3;
  Ok (mkMP a b c d, s4).

Definition write_mask_real (r : mask_real) : W :=
  w_fmt (pack_u 1 (flags_byte (mr_flags r))) +++
  w_fmt (pk_cat [pack_u 1 (mr_bg r); pack_s 4 (mr_top r); pack_s 4 (mr_left r);
                 pack_s 4 (mr_bottom r); pack_s 4 (mr_right r)]).
Definition read_mask_real (s : stream) : res (mask_real * stream) :=
  do (f, s1) <- read_u 1 s;
  do (bg, s2) <- read_u 1 s1;
  do (t, s3) <- read_s 4 s2;
  do (l, s4) <- read_s 4 s3;
  do (b, s5) <- read_s 4 s4;
  do (r, s6) <- read_s 4 s5;
  Ok (mkMR (flags_of f) bg t l b r, s6).

Definition write_mask_body (m : mask_data) : W :=
  w_then_pad
    (w_fmt (pk_cat [pack_s 4 (m_top m); pack_s 4 (m_left m); pack_s 4 (m_bottom m);
                    pack_s 4 (m_right m); pack_u 1 (m_bg m)]) +++
     w_fmt (pack_u 1 (flags_byte (m_flags m))) +++
     opt_w (m_real m) write_mask_real +++
     (if fb4 (m_flags m) then opt_w (m_params m) write_mask_params else w_nil)) 4.
Definition write_mask (m : mask_data) : W := w_length_block 0 4 1 (write_mask_body m).

(* MaskData._read_body(fp, length) on the sub-stream of the block *)
Definition read_mask_body (f : stream) : res mask_data :=
  let length := len f in
  do (t, s1) <- read_s 4 f;
  do (l, s2) <- read_s 4 s1;
  do (b, s3) <- read_s 4 s2;
  do (r, s4) <- read_s 4 s3;
  do (bg, s5) <- read_u 1 s4;
  do (fl, s6) <- read_u 1 s5;
  let flags := flags_of fl in
  do (real, s7) <- r_opt (36 <=? length) read_mask_real s6;
  do (params, s8) <- r_opt (fb4 flags) read_mask_params s7;
  Ok (mkMask t l b r bg flags params real).
Definition read_mask (s : stream) : res (option mask_data * stream) :=
  do (data, s1) <- read_length_block 0 4 1 s;
  if len data =? 0 then Ok (None, s1)
  else do m <- read_mask_body data; Ok (Some m, s1).

(* ------------------------------------------------------------------ LayerBlendingRanges *)
Definition w_pair (x : Z * Z) : W := w_fmt (pk_cat [pack_u 2 (fst x); pack_u 2 (snd x)]).
Definition w_range (l : list (Z * Z)) : W := w_concat (map w_pair l).
Definition write_ranges (r : blending_ranges) : W :=
  w_length_block 0 4 1
    (opt_w (br_comp r) w_range +++ opt_w (br_chan r) (fun ll => w_concat (map w_range ll))).

Definition read_range (s : stream) : res (list (Z * Z) * stream) :=
  do (a, s1) <- read_u 2 s;
  do (b, s2) <- read_u 2 s1;
  do (c, s3) <- read_u 2 s2;
  do (d, s4) <- read_u 2 s3;
  Ok ([(a, b); (c, d)], s4).
Fixpoint read_range_list (fuel : nat) (s : stream) : res (list (list (Z * Z))) :=
  match fuel with
  | O => Err OutOfFuel
  | S f =>
      if is_readable 8 s then
        do (r, s1) <- read_range s; do rs <- read_range_list f s1; Ok (r :: rs)
      else Ok []
  end.
Definition read_ranges (s : stream) : res (blending_ranges * stream) :=
  do (data, s1) <- read_length_block 0 4 1 s;
  if len data =? 0 then Ok (mkBR None None, s1)
  else
    do (c, f1) <- read_range data;
    do ch <- read_range_list (S (length f1)) f1;
    Ok (mkBR (Some c) (Some ch), s1).

Fixpoint read_n {A} (n : nat) (rd : stream -> res (A * stream)) (s : stream) : res (list A * stream) :=
  match n with
  | O => Ok ([], s)
  | S n' => do (a, s1) <- rd s; do (l, s2) <- read_n n' rd s1; Ok (a :: l, s2)
  end.


Section Model.
  Variable enc_s : list Z -> res (list Z).
  Variable dec_s : list Z -> res (list Z).

  (* ---------------------------------------------------------------- ImageResource(s) *)
  Definition write_resource (r : image_resource) : W :=
    w_fmt (pk_cat [pack_u 4 (ir_sig r); pack_u 2 (ir_key r)]) +++
    w_pascal enc_s (ir_name r) 2 +++
    w_length_block 0 4 2 (w_bytes (ir_data r)).
  Definition read_resource (s : stream) : res (image_resource * stream) :=
    do (sg, s1) <- read_u 4 s;
    do (key, s2) <- read_u 2 s1;
    do (name, s3) <- r_pascal dec_s 2 s2;
    do (data, s4) <- read_length_block 0 4 2 s3;
    if memz sg model_res_sigs then Ok (mkRes sg key name data, s4) else Err ValueErr.

  Definition write_resources (l : list image_resource) : W :=
    w_length_block 0 4 1 (w_concat (map write_resource l)).
  Fixpoint read_resource_items (fuel : nat) (s : stream) : res (list image_resource) :=
    match fuel with
    | O => Err OutOfFuel
    | S f =>
        if is_readable 4 s then
          do (r, s1) <- read_resource s; do rs <- read_resource_items f s1; Ok (r :: rs)
        else Ok []
    end.
  Definition read_resources (s : stream) : res (list image_resource * stream) :=
    do (data, s1) <- read_length_block 0 4 1 s;
    do items <- read_resource_items (S (length data)) data;
    Ok (od_build ir_key items, s1).

  (* ---------------------------------------------------------------- LayerRecord *)
  Definition write_record_extra (v : Z) (r : layer_record) : W :=
    w_then_pad
      (match r_mask r with Some m => write_mask m | None => w_fmt (pack_u 4 0) end +++
       write_ranges (r_ranges r) +++
       w_pascal enc_s (r_name r) 4 +++
       write_tagged_blocks v 1 (r_blocks r)) 2.
  Definition write_record (v : Z) (r : layer_record) : W :=
    w_fmt (pk_cat [pack_s 4 (r_top r); pack_s 4 (r_left r); pack_s 4 (r_bottom r); pack_s 4 (r_right r);
                   pack_u 2 (len (r_channels r))]) +++
    w_concat (map (write_channel_info v) (r_channels r)) +++
    w_fmt (pk_cat [pack_u 4 (r_sig r); pack_u 4 (r_blend r); pack_u 1 (r_opacity r); pack_u 1 (r_clip r)]) +++
    w_fmt (pack_u 1 (lflags_byte (r_flags r))) +++
    w_length_block 1 4 1 (write_record_extra v r).

  Definition read_record (v : Z) (s : stream) : res (layer_record * stream) :=
    do (top, s1) <- read_s 4 s;
    do (lft, s2) <- read_s 4 s1;
    do (bottom, s3) <- read_s 4 s2;
    do (rgt, s4) <- read_s 4 s3;
    do (nch, s5) <- read_u 2 s4;
    do (chans, s6) <- read_n (Z.to_nat nch) (read_channel_info v) s5;
    do (sg, s7) <- read_u 4 s6;
    do (blend, s8) <- read_u 4 s7;
    do (opacity, s9) <- read_u 1 s8;
    do (clip, s10) <- read_u 1 s9;
    do (fl, s11) <- read_u 1 s10;
    do (data, s12) <- read_length_block 1 4 1 s11;
    (* _read_extra on the sub-stream *)
    do (mask, f1) <- read_mask data;
    do (ranges, f2) <- read_ranges f1;
    do (name, f3) <- r_pascal dec_s 4 f2;
    do (blocks, _) <- read_tagged_blocks v 1 None f3;
    (* converters / validators of the constructor *)
    if memz sg model_record_sigs && memz blend model_blend_modes && memz clip model_clippings then
      Ok (mkRec top lft bottom rgt chans sg blend opacity clip (lflags_of fl) mask ranges name blocks, s12)
    else Err ValueErr.

  (* ---------------------------------------------------------------- LayerInfo *)
  (* _update_channel_length: zip semantics, items beyond the shorter list are left alone *)
  Fixpoint upd_ci (cis : list channel_info) (cds : list channel_data) : list channel_info :=
    match cis, cds with
    | ci :: cis', cd :: cds' => mkCI (ci_id ci) (2 + len (cd_data cd)) :: upd_ci cis' cds'
    | _, _ => cis
    end.
  Definition set_channels (r : layer_record) (c : list channel_info) : layer_record :=
    mkRec (r_top r) (r_left r) (r_bottom r) (r_right r) c (r_sig r) (r_blend r) (r_opacity r)
          (r_clip r) (r_flags r) (r_mask r) (r_ranges r) (r_name r) (r_blocks r).
  Fixpoint upd_recs (rs : list layer_record) (cs : list (list channel_data)) : list layer_record :=
    match rs, cs with
    | r :: rs', c :: cs' => set_channels r (upd_ci (r_channels r) c) :: upd_recs rs' cs'
    | _, _ => rs
    end.
  (* _update_channel_length as a function: the LayerInfo after _write_body ran (write mutates
     the records) *)
  Definition li_update (li : layer_info) : layer_info :=
    match li_records li, li_chans li with
    | Some (r :: rs), Some (c :: cs) => mkLI (li_count li) (Some (upd_recs (r :: rs) (c :: cs))) (li_chans li)
    | _, _ => li
    end.
  (* ... after write(): the short form (layer_count == 0) returns before _write_body *)
  Definition li_after_write (li : layer_info) : layer_info :=
    if li_count li =? 0 then li else li_update li.

  Definition write_channel_list (l : list channel_data) : W := w_concat (map write_channel_data l).
  Definition write_li_body (v padding : Z) (li0 : layer_info) : W :=
    let li := li_update li0 in
    w_then_pad
      (w_fmt (pack_s 2 (li_count li)) +++
       (if truthy (li_records li) then opt_w (li_records li) (fun rs => w_concat (map (write_record v) rs)) else w_nil) +++
       (if truthy (li_chans li) then opt_w (li_chans li) (fun cs => w_concat (map write_channel_list cs)) else w_nil))
      padding.
  Definition write_layer_info (v padding : Z) (li : layer_info) : W :=
    do nb <- len_bytes v;
    if li_count li =? 0 then w_fmt (pack_u nb 0)
    else w_length_block 0 nb 1 (write_li_body v padding li).

  Fixpoint read_channel_list (cis : list channel_info) (s : stream) : res (list channel_data * stream) :=
    match cis with
    | [] => Ok ([], s)
    | ci :: cis' => do (c, s1) <- read_channel_data (ci_len ci - 2) s;
                    do (l, s2) <- read_channel_list cis' s1; Ok (c :: l, s2)
    end.
  Fixpoint read_channel_lists (rs : list layer_record) (s : stream) : res (list (list channel_data) * stream) :=
    match rs with
    | [] => Ok ([], s)
    | r :: rs' =>
        do (l, s1) <- read_channel_list (r_channels r) s;
        do (ls, s2) <- read_channel_lists rs' s1;
        Ok (l :: ls, s2)
    end.

  Definition read_li_body (v : Z) (s : stream) : res (layer_info * stream) :=
    do (count, s1) <- read_s 2 s;
    do (recs, s2) <- read_n (Z.to_nat (Z.abs count)) (read_record v) s1;
    do (chans, s3) <- read_channel_lists recs s2;
    Ok (mkLI count (Some recs) (Some chans), s3).
  Definition read_layer_info (v : Z) (s : stream) : res (layer_info * stream) :=
    do nb <- len_bytes v;
    do (length, s1) <- read_u nb s;
    if length =? 0 then Ok (mkLI 0 None None, s1)
    else
      do (li, s2) <- read_li_body v s1;
      (* assert fp.tell() <= end_pos ; fp.seek(end_pos) *)
      if len s1 - len s2 <=? length then Ok (li, skipz length s1) else Err AssertErr.

  (* ---------------------------------------------------------------- GlobalLayerMaskInfo *)
  Definition write_glmi (g : glmi) : W :=
    w_length_block 0 4 1
      (match g_overlay g with
       | None => w_nil
       | Some ov =>
           w_then_pad
             (w_fmt (if (length ov =? 5)%nat then pk_cat (map (pack_u 2) ov) else Err StructErr) +++
              w_fmt (pk_cat [pack_u 2 (g_opacity g); pack_u 1 (g_kind g)])) 4
       end).
  Definition glmi_empty : glmi := mkGLMI None 0 model_glmi_default_kind.
  Definition read_glmi_body (f : stream) : res glmi :=
    do (ov, f1) <- read_n 5 (read_u 2) f;
    do (op, f2) <- read_u 2 f1;
    do (k, f3) <- read_u 1 f2;
    if memz k model_glmi_kinds then Ok (mkGLMI (Some ov) op k) else Err ValueErr.
  Definition read_glmi (s : stream) : res (glmi * stream) :=
    do (data, s1) <- read_length_block 0 4 1 s;
    if len data =? 0 then Ok (glmi_empty, s1)
    else if len data <? 13 then Ok (glmi_empty, s)          (* fp.seek(pos): the block is left unread *)
    else do g <- read_glmi_body data; Ok (g, s1).

  (* ---------------------------------------------------------------- LayerAndMaskInformation *)
  Definition write_lami_body (v padding : Z) (l : lami) : W :=
    opt_w (la_info l) (write_layer_info v padding) +++
    opt_w (la_glmi l) write_glmi +++
    (if truthy (la_blocks l) then opt_w (la_blocks l) (write_tagged_blocks v 4) else w_nil).
  Definition write_lami (v padding : Z) (l : lami) : W :=
    do nb <- len_bytes v;
    w_length_block 0 nb 1 (write_lami_body v padding l).
  (* the lami after write(): only the layer info is mutated *)
  Definition lami_after_write (l : lami) : lami :=
    mkLAMI (option_map li_after_write (la_info l)) (la_glmi l) (la_blocks l).

  (* a global layer mask info is at least its 4-byte length field; the reader looks for those bytes inside
     the section: is_readable(fp, 4) and fp.tell() + 4 <= end_pos   (since f3a2729; before that it asked for
     [glmi_probe_v0] = 17 readable bytes anywhere in the rest of the FILE: finding F-C01-2, Psd/Legacy.v) *)
  Definition glmi_probe : Z := 4.
  Definition glmi_probe_v0 : Z := 17.

  (* _read_body(fp, end_pos, ...): [s] is the rest of the whole file after the length field,
     [length] the section length; end_pos - tell = length - (len s - len current) *)
  Definition read_lami_body (v : Z) (s : stream) (length : Z) : res lami :=
    do (li, s2) <- read_layer_info v s;
    do (g, s3) <- r_opt (is_readable glmi_probe s2 && (len s - len s2 + glmi_probe <=? length)) read_glmi s2;
    do tb <- (if is_readable 1 s3 then
                do (bs, _) <- read_tagged_blocks v 4 (Some (length - (len s - len s3))) s3; Ok (Some bs)
              else Ok None);
    Ok (mkLAMI (Some li) g tb).
  Definition read_lami (v : Z) (s : stream) : res (lami * stream) :=
    do nb <- len_bytes v;
    do (length, s1) <- read_u nb s;
    if length =? 0 then Ok (mkLAMI None None None, s1)
    else do l <- read_lami_body v s1 length; Ok (l, skipz length s1).   (* fp.seek(end_pos) *)

  (* ---------------------------------------------------------------- ImageData, PSD *)
  Definition write_image_data (c : channel_data) : W := write_channel_data c.
  Definition read_image_data (s : stream) : res channel_data :=
    do (c, s1) <- read_u 2 s;
    if memz c model_compressions then Ok (mkCD c s1) else Err ValueErr.   (* fp.read(): everything *)

  (* PSD.write(fp, encoding, padding=...) ; the version comes from the header *)
  Definition write_psd (padding : Z) (d : psd) : W :=
    write_header (p_header d) +++ write_cmd (p_cmd d) +++ write_resources (p_res d) +++
    write_lami (h_version (p_header d)) padding (p_lami d) +++ write_image_data (p_img d).
  Definition read_psd (s : stream) : res psd :=
    do (h, s1) <- read_header s;
    do (cmd, s2) <- read_cmd s1;
    do (rs, s3) <- read_resources s2;
    do (l, s4) <- read_lami (h_version h) s3;
    do img <- read_image_data s4;
    Ok (mkPSD h cmd rs l img).
  Definition psd_after_write (d : psd) : psd :=
    mkPSD (p_header d) (p_cmd d) (p_res d) (lami_after_write (p_lami d)) (p_img d).

  (* ---------------------------------------------------------------- well-formedness
     Boolean, executable (the harness compares it case by case with the generator's own label).
     It says ONLY what the symmetric reading of a written structure needs: enum members valid
     (the attrs validators/converters the constructors run), presence flags coherent with the
     optional parts, counts equal to list lengths, dict keys distinct, names inside the domain
     on which the charset codec is invertible, and the guards of the two refuted classes
     (Properties/C01.v).  Value ranges are NOT part of wf: an out-of-range field makes write
     fail with struct.error, and every theorem is about writes that succeed. *)
  Definition wf_name (name : list Z) : bool :=
    match enc_s name with
    | Ok d => match dec_s d with Ok n => list_eqb n name | Err _ => false end
    | Err _ => false
    end.
  Definition wf_resource (r : image_resource) : bool :=
    memz (ir_sig r) model_res_sigs && wf_name (ir_name r).
  Definition wf_resources (l : list image_resource) : bool :=
    forallb wf_resource l && nodupz (map ir_key l).
  Definition wf_tb (b : tagged_block) : bool := memz (tb_sig b) model_tb_sigs.
  Definition wf_tbs (l : list tagged_block) : bool := forallb wf_tb l && nodupz (map tb_key l).
  (* MaskData: the parameters_applied flag is the presence bit of the parameters; the reader decides
     whether the "real" fields are there from the block length (>= 36) alone *)
  Definition mask_len_guard (m : mask_data) : bool :=
    match write_mask_body m with
    | Ok (b, _) => Bool.eqb (36 <=? len b) (is_some (m_real m))
    | Err _ => true
    end.
  Definition wf_mask (m : mask_data) : bool :=
    Bool.eqb (fb4 (m_flags m)) (is_some (m_params m)) && mask_len_guard m.
  Definition wf_ranges (r : blending_ranges) : bool :=
    match br_comp r, br_chan r with
    | None, None => true
    | Some c, Some ch => (length c =? 2)%nat && forallb (fun l => (length l =? 2)%nat) ch
    | _, _ => false
    end.
  Definition wf_ci (c : channel_info) : bool := memz (ci_id c) model_channel_ids.
  Definition wf_record (r : layer_record) : bool :=
    forallb wf_ci (r_channels r) && memz (r_sig r) model_record_sigs &&
    memz (r_blend r) model_blend_modes && memz (r_clip r) model_clippings &&
    match r_mask r with Some m => wf_mask m | None => true end &&
    wf_ranges (r_ranges r) && wf_name (r_name r) && wf_tbs (r_blocks r).
  Definition wf_cd (c : channel_data) : bool := memz (cd_comp c) model_compressions.
  Fixpoint same_shape (rs : list layer_record) (cs : list (list channel_data)) : bool :=
    match rs, cs with
    | [], [] => true
    | r :: rs', c :: cs' => (length (r_channels r) =? length c)%nat && same_shape rs' cs'
    | _, _ => false
    end.
  Definition wf_li (li : layer_info) : bool :=
    if li_count li =? 0 then negb (is_some (li_records li)) && negb (is_some (li_chans li))
    else match li_records li, li_chans li with
         | Some rs, Some cs =>
             (len rs =? Z.abs (li_count li)) && same_shape rs cs &&
             forallb wf_record rs && forallb (forallb wf_cd) cs
         | _, _ => false
         end.
  Definition wf_glmi (g : glmi) : bool :=
    match g_overlay g with
    | None => (g_opacity g =? 0) && (g_kind g =? model_glmi_default_kind)
    | Some _ => memz (g_kind g) model_glmi_kinds
    end.
  (* LEGACY (reader before f3a2729, finding F-C01-2, fixed): it looked for glmi_probe_v0 readable bytes in the rest
     of the FILE, so an empty global layer mask info (4 bytes) followed by fewer than 13 bytes (tagged
     blocks + whatever follows the section) was not seen again.  No longer part of wf_lami. *)
  Definition glmi_guard (v : Z) (l : lami) (restlen : Z) : bool :=
    match la_glmi l with
    | Some g =>
        match g_overlay g with
        | Some _ => true
        | None =>
            match write_tagged_blocks v 4 (match la_blocks l with Some bs => bs | None => [] end) with
            | Ok (b, _) => glmi_probe_v0 <=? 4 + len b + restlen
            | Err _ => true
            end
        end
    | None => true
    end.
  (* [restlen]: how many bytes follow the section in the stream it is read from *)
  Definition wf_lami (v : Z) (l : lami) (restlen : Z) : bool :=
    match la_info l with
    | None => negb (is_some (la_glmi l)) && negb (is_some (la_blocks l))
    | Some li =>
        wf_li li &&
        match la_glmi l with Some g => wf_glmi g | None => true end &&
        match la_blocks l with
        | Some bs => wf_tbs bs && (is_some (la_glmi l) || negb (nonempty bs)) &&
                     (nonempty bs || (0 <? restlen))
        | None => restlen =? 0
        end
    end.
  Definition wf_psd (d : psd) : bool :=
    header_valid (p_header d) && wf_resources (p_res d) &&
    wf_lami (h_version (p_header d)) (p_lami d) (2 + len (cd_data (p_img d))) &&
    wf_cd (p_img d).
End Model.

(* The charset used when the model is EVALUATED (correspondence check): names are carried as the
   bytes of their encoded form, so the codec is the identity on byte strings. *)
Definition raw_codec (l : list Z) : res (list Z) :=
  if forallb byteb l then Ok l else Err ValueErr.
