(* Round-trip and truthfulness lemmas for the container model (used by Properties/C01.v, C03.v). *)
From PsdV Require Import Base.Prelude Psd.Codec Psd.Model.
From Coq Require Import ZArith List Bool Lia ZifyBool.
Import ListNotations.
Open Scope Z_scope.

(* ------------------------------------------------------------------ tactics *)
Ltac inv_ok :=
  repeat match goal with
         | H : Ok _ = Ok _ |- _ => inversion H; subst; clear H
         end.

(* open a [pk_cat [f1; ...; fn] = Ok b] hypothesis into one hypothesis per field *)
Ltac open_pk H :=
  repeat (let x := fresh "x" in let y := fresh "y" in let Hp := fresh "Hp" in
          apply pk_cat_cons_inv in H as (x & y & Hp & H & ->));
  apply pk_cat_nil_inv in H as ->.

(* consume the field at the head of the stream with the matching pack hypothesis *)
Ltac step :=
  match goal with
  | H : pack_u ?n ?v = Ok ?b |- context [read_u ?n (?b ++ ?r)] =>
      rewrite (read_u_pack n v b r H); cbn [bind fst snd]
  | H : pack_s ?n ?v = Ok ?b |- context [read_s ?n (?b ++ ?r)] =>
      rewrite (read_s_pack n v b r ltac:(lia) H); cbn [bind fst snd]
  end.
Ltac steps := repeat first [step | progress cbn [app]].

(* facts for lia: lengths of packed fields, non-negativity of every [len _] in the goal *)
Ltac pose_lens :=
  repeat match goal with
         | H : pack_u ?n ?v = Ok ?b |- _ =>
             lazymatch goal with
             | _ : len b = Z.of_nat n |- _ => fail
             | _ => pose proof (pack_u_len n v b H)
             end
         | H : pack_s ?n ?v = Ok ?b |- _ =>
             lazymatch goal with
             | _ : len b = Z.of_nat n |- _ => fail
             | _ => pose proof (pack_s_len n v b H)
             end
         end.
Ltac pose_nonneg :=
  repeat match goal with
         | |- context [len ?l] =>
             lazymatch goal with
             | _ : 0 <= len l |- _ => fail
             | _ => pose proof (len_nonneg l)
             end
         end.
Ltac len_lia := rewrite ?len_app; pose_lens; pose_nonneg; change (len (@nil Z)) with 0 in *; lia.

(* invert a [w_length_block ... = Ok (bs, n)] hypothesis: the inner writer's bytes [body] and what
   reading the block back from [bs ++ rest] gives; leaves the three side conditions *)
Ltac block_inv H rest body Hb Hr :=
  match type of H with
  | w_length_block ?pre ?nb ?pad ?w = Ok (?bs, ?n) =>
      let X := fresh "X" in
      pose proof (fun h1 h2 h3 => length_block_rt pre nb pad w bs n rest h1 h2 h3 H) as X;
      destruct X as (body & Hb & Hr)
  end.

Ltac split_andb :=
  repeat match goal with
         | H : _ && _ = true |- _ => apply andb_prop in H; destruct H
         end.

(* ------------------------------------------------------------------ flags *)
Lemma flags_rt f : flags_of (flags_byte f) = f.
Proof. destruct f as [[] [] [] [] [] [] [] []]; reflexivity. Qed.
Lemma lflags_rt f : lflags_of (lflags_byte f) = f.
Proof. destruct f as [[] [] [] [] [] [] [] []]; reflexivity. Qed.
Lemma flags_byte_range f : 0 <= flags_byte f < 256.
Proof. destruct f as [[] [] [] [] [] [] [] []]; cbv; split; congruence. Qed.

(* ------------------------------------------------------------------ dict semantics *)
Lemma memz_false_in x l : memz x l = false -> ~ In x l.
Proof.
  unfold memz. intros H Hin. assert (existsb (Z.eqb x) l = true).
  { apply existsb_exists. exists x. split; [assumption|apply Z.eqb_refl]. }
  congruence.
Qed.
Lemma od_insert_fresh {A} (key : A -> Z) x d :
  ~ In (key x) (map key d) -> od_insert key x d = d ++ [x].
Proof.
  induction d as [|y t IH]; intros H; [reflexivity|]. cbn [od_insert].
  destruct (key x =? key y) eqn:E.
  - exfalso. apply H. left. lia.
  - cbn [app]. rewrite IH; [reflexivity|]. intros Hin. apply H. right. assumption.
Qed.
Lemma od_build_nodup_aux {A} (key : A -> Z) l : forall d,
  nodupz (map key (d ++ l)) = true ->
  fold_left (fun d x => od_insert key x d) l d = d ++ l.
Proof.
  induction l as [|x l IH]; intros d H; cbn [fold_left].
  - now rewrite app_nil_r.
  - rewrite od_insert_fresh.
    + rewrite IH; rewrite <- app_assoc; [reflexivity|assumption].
    + clear IH. induction d as [|y d IHd]; [intros []|].
      cbn [app map nodupz] in H. apply andb_prop in H as [H1 H2].
      intros [Hy|Hin].
      * apply negb_true_iff in H1. apply memz_false_in in H1. apply H1.
        rewrite map_app. apply in_or_app. right. left. congruence.
      * apply IHd; assumption.
Qed.
Lemma od_build_nodup {A} (key : A -> Z) l : nodupz (map key l) = true -> od_build key l = l.
Proof. intros H. unfold od_build. now rewrite (od_build_nodup_aux key l []). Qed.

(* ------------------------------------------------------------------ counted lists *)
Lemma w_concat_cons_inv {A} (wr : A -> W) a l bs n :
  w_concat (map wr (a :: l)) = Ok (bs, n) ->
  exists b1 n1 b2 n2, wr a = Ok (b1, n1) /\ w_concat (map wr l) = Ok (b2, n2) /\ bs = b1 ++ b2 /\ n = n1 + n2.
Proof. cbn [map w_concat]. apply w_seq_inv. Qed.
Lemma w_concat_nil_inv bs n : w_concat [] = Ok (bs, n) -> bs = [] /\ n = 0.
Proof. cbn. intros H; inversion H; auto. Qed.

Lemma read_n_rt {A} (wr : A -> W) (rd : stream -> res (A * stream)) (P : A -> Prop) :
  (forall a bs n rest, P a -> wr a = Ok (bs, n) -> rd (bs ++ rest) = Ok (a, rest)) ->
  forall l bs n rest, Forall P l -> w_concat (map wr l) = Ok (bs, n) ->
    read_n (length l) rd (bs ++ rest) = Ok (l, rest).
Proof.
  intros Hrt. induction l as [|a l IH]; intros bs n rest HP H.
  - apply w_concat_nil_inv in H as [-> _]. reflexivity.
  - apply w_concat_cons_inv in H as (b1 & n1 & b2 & n2 & Ha & Hl & -> & ->).
    inversion HP; subst. cbn [length read_n]. rewrite <- app_assoc.
    rewrite (Hrt _ _ _ _ H1 Ha). cbn [bind]. rewrite (IH _ _ _ H2 Hl). reflexivity.
Qed.

Lemma forallb_Forall {A} (f : A -> bool) l : forallb f l = true -> Forall (fun a => f a = true) l.
Proof. intros H. apply Forall_forall. now apply forallb_forall. Qed.

(* ------------------------------------------------------------------ FileHeader, ColorModeData *)
Lemma header_rt h bs n rest :
  header_valid h = true -> write_header h = Ok (bs, n) -> read_header (bs ++ rest) = Ok (h, rest).
Proof.
  intros Hv H. destruct h as [sg ver ch hh ww dp md]. unfold write_header in H. cbn [h_sig h_version h_channels h_height h_width h_depth h_mode] in H.
  apply w_fmt_inv in H as [H ->]. open_pk H. inv_ok.
  unfold read_header. rewrite <- !app_assoc. steps.
  rewrite (take_app_n 6 (zeros 6)) by reflexivity. cbn [bind fst snd]. steps.
  cbn [app]. now rewrite Hv.
Qed.

Lemma cmd_rt v bs n rest : write_cmd v = Ok (bs, n) -> read_cmd (bs ++ rest) = Ok (v, rest).
Proof.
  intros H. unfold write_cmd in H.
  destruct (length_block_rt 0 4 1 (w_bytes v) bs n rest) as (body & Hb & Hr);
    [lia|reflexivity|apply wtruth_bytes|assumption|].
  apply w_bytes_inv in Hb as [-> _]. exact Hr.
Qed.

(* ------------------------------------------------------------------ TaggedBlock(s) *)
Lemma tb_len_bytes_cases v k : tb_len_bytes v k = 4%nat \/ tb_len_bytes v k = 8%nat.
Proof. unfold tb_len_bytes. destruct (_ && _); auto. Qed.

Lemma tagged_block_rt v pad b bs n rest :
  (pad = 1 \/ pad = 2 \/ pad = 4) -> wf_tb b = true ->
  write_tagged_block v pad b = Ok (bs, n) ->
  read_tagged_block v pad (bs ++ rest) = Ok (Some (b, rest)).
Proof.
  intros Hpad Hwf H. destruct b as [sg key data]. unfold write_tagged_block in H.
  cbn [tb_sig tb_key tb_data] in H.
  apply w_seq_inv in H as (b1 & n1 & b2 & n2 & H1 & H2 & -> & ->).
  apply w_fmt_inv in H1 as [H1 ->]. open_pk H1.
  destruct (length_block_rt 0 (tb_len_bytes v key) pad (w_bytes data) b2 n2 rest) as (body & Hb & Hr);
    [lia| |apply wtruth_bytes|assumption|].
  { destruct (tb_len_bytes_cases v key) as [-> | ->]; destruct Hpad as [-> | [-> | ->]]; reflexivity. }
  apply w_bytes_inv in Hb as [-> _].
  unfold read_tagged_block. rewrite <- !app_assoc. steps.
  unfold wf_tb in Hwf. cbn [tb_sig] in Hwf. rewrite Hwf. cbn [negb]. steps.
  cbn [app]. rewrite Hr. reflexivity.
Qed.

Lemma length_block_len pre nb pad w bs n :
  w_length_block pre nb pad w = Ok (bs, n) -> Z.of_nat (pre + nb) <= len bs.
Proof.
  unfold w_length_block. destruct w as [[x nx]|]; [|discriminate]. cbn [bind fst snd].
  destruct (pack_u nb nx) as [lb|] eqn:E; [|discriminate]. cbn [bind w_pad w_bytes fst snd].
  intros H; inversion H; subst. apply pack_u_len in E.
  rewrite !len_app, len_zeros, E.
  pose proof (len_nonneg x). pose proof (len_nonneg (zeros (Z.to_nat (pad_count (nx + (Z.of_nat pre + Z.of_nat nb)) pad)))).
  lia.
Qed.

Lemma tagged_block_len v pad b bs n : write_tagged_block v pad b = Ok (bs, n) -> 12 <= len bs.
Proof.
  intros H. unfold write_tagged_block in H.
  apply w_seq_inv in H as (b1 & n1 & b2 & n2 & H1 & H2 & -> & ->).
  apply w_fmt_inv in H1 as [H1 ->]. open_pk H1.
  apply pack_u_len in Hp, Hp0. apply length_block_len in H2.
  rewrite !len_app, Hp, Hp0.
  destruct (tb_len_bytes_cases v (tb_key b)) as [E | E]; rewrite E in H2; change (len (@nil Z)) with 0; lia.
Qed.

(* no end position: the loop runs until fewer than 8 bytes remain (layer record extras) *)
Lemma tagged_items_rt v pad : (pad = 1 \/ pad = 2 \/ pad = 4) ->
  forall l bs n tail fuel,
    forallb wf_tb l = true -> write_tagged_blocks v pad l = Ok (bs, n) ->
    len tail < 8 -> (length bs < fuel)%nat ->
    read_tagged_items fuel v pad None (bs ++ tail) = Ok (l, tail).
Proof.
  intros Hpad. induction l as [|b l IH]; intros bs n tail fuel Hwf H Ht Hf.
  - apply w_concat_nil_inv in H as [-> _]. destruct fuel; [cbn in Hf; lia|].
    cbn [read_tagged_items app]. unfold is_readable.
    destruct (8 <=? len tail) eqn:E; [lia|]. reflexivity.
  - unfold write_tagged_blocks in H.
    apply w_concat_cons_inv in H as (b1 & n1 & b2 & n2 & Hb & Hl & -> & ->).
    cbn [forallb] in Hwf. apply andb_prop in Hwf as [Hwb Hwl].
    pose proof (tagged_block_len _ _ _ _ _ Hb) as Hlen.
    destruct fuel; [lia|]. cbn [read_tagged_items].
    unfold is_readable. rewrite !len_app. pose proof (len_nonneg b2). pose proof (len_nonneg tail).
    destruct (8 <=? len b1 + len b2 + len tail) eqn:E; [|lia]. cbn [negb].
    rewrite <- app_assoc. rewrite (tagged_block_rt _ _ _ _ _ _ Hpad Hwb Hb). cbn [bind].
    rewrite (IH b2 n2 tail fuel Hwl Hl Ht).
    + reflexivity.
    + rewrite app_length in Hf. unfold len in Hlen. lia.
Qed.

(* with an end position that the blocks fill exactly (the global blocks of the section) *)
Lemma tagged_items_budget_rt v pad : (pad = 1 \/ pad = 2 \/ pad = 4) ->
  forall l bs n rest fuel,
    forallb wf_tb l = true -> write_tagged_blocks v pad l = Ok (bs, n) ->
    (length bs < fuel)%nat ->
    read_tagged_items fuel v pad (Some (len bs)) (bs ++ rest) = Ok (l, rest).
Proof.
  intros Hpad. induction l as [|b l IH]; intros bs n rest fuel Hwf H Hf.
  - apply w_concat_nil_inv in H as [-> _]. destruct fuel; [cbn in Hf; lia|].
    cbn [read_tagged_items app]. destruct (negb (is_readable 8 rest)); reflexivity.
  - unfold write_tagged_blocks in H.
    apply w_concat_cons_inv in H as (b1 & n1 & b2 & n2 & Hb & Hl & -> & ->).
    cbn [forallb] in Hwf. apply andb_prop in Hwf as [Hwb Hwl].
    pose proof (tagged_block_len _ _ _ _ _ Hb) as Hlen.
    destruct fuel; [lia|]. cbn [read_tagged_items].
    unfold is_readable. rewrite !len_app. pose proof (len_nonneg b2). pose proof (len_nonneg rest).
    destruct (8 <=? len b1 + len b2 + len rest) eqn:E; [|lia]. cbn [negb].
    destruct (len b1 + len b2 <=? 0) eqn:E2; [lia|].
    rewrite <- app_assoc. rewrite (tagged_block_rt _ _ _ _ _ _ Hpad Hwb Hb). cbn [bind].
    replace (len b1 + len b2 - (len b1 + len b2 + len rest - len (b2 ++ rest))) with (len b2)
      by (rewrite !len_app; lia).
    rewrite (IH b2 n2 rest fuel Hwl Hl).
    + reflexivity.
    + rewrite app_length in Hf. unfold len in Hlen. lia.
Qed.

Lemma tagged_blocks_rt v pad l bs n tail :
  (pad = 1 \/ pad = 2 \/ pad = 4) -> wf_tbs l = true ->
  write_tagged_blocks v pad l = Ok (bs, n) -> len tail < 8 ->
  read_tagged_blocks v pad None (bs ++ tail) = Ok (l, tail).
Proof.
  intros Hpad Hwf H Ht. unfold wf_tbs in Hwf. apply andb_prop in Hwf as [Hw Hn].
  unfold read_tagged_blocks. rewrite (tagged_items_rt v pad Hpad l bs n tail _ Hw H Ht).
  - cbn [bind]. now rewrite od_build_nodup.
  - rewrite app_length. lia.
Qed.
Lemma tagged_blocks_budget_rt v pad l bs n rest :
  (pad = 1 \/ pad = 2 \/ pad = 4) -> wf_tbs l = true ->
  write_tagged_blocks v pad l = Ok (bs, n) ->
  read_tagged_blocks v pad (Some (len bs)) (bs ++ rest) = Ok (l, rest).
Proof.
  intros Hpad Hwf H. unfold wf_tbs in Hwf. apply andb_prop in Hwf as [Hw Hn].
  unfold read_tagged_blocks. rewrite (tagged_items_budget_rt v pad Hpad l bs n rest _ Hw H).
  - cbn [bind]. now rewrite od_build_nodup.
  - rewrite app_length. lia.
Qed.

(* ------------------------------------------------------------------ small facts used below *)
Lemma zero_block_rt nb pad b rest : pack_u nb 0 = Ok b -> 0 < pad ->
  read_length_block 0 nb pad (b ++ rest) = Ok ([], rest).
Proof.
  intros H Hpad. unfold read_length_block. pose proof (pack_u_len _ _ _ H) as Hl.
  rewrite (take_app_n _ b rest) by (cbn [plus]; exact Hl). cbn [bind fst snd skipn].
  rewrite (pack_u_val _ _ _ H). unfold take. cbn [Z.leb Z.compare andb]. pose proof (len_nonneg rest).
  destruct (0 <=? len rest) eqn:E; [|lia]. cbn [Z.to_nat firstn skipn bind fst snd].
  unfold r_pad, pad_count. rewrite Z.mod_0_l by lia. reflexivity.
Qed.
Lemma to_nat_len {A} (l : list A) : Z.to_nat (len l) = length l.
Proof. unfold len. apply Nat2Z.id. Qed.

(* ------------------------------------------------------------------ MaskParameters / MaskData *)
Ltac eval_testbits :=
  repeat match goal with
         | |- context [Z.testbit ?a ?b] =>
             let v := eval vm_compute in (Z.testbit a b) in change (Z.testbit a b) with v
         end.

Lemma mask_params_rt p bs n rest :
  write_mask_params p = Ok (bs, n) -> read_mask_params (bs ++ rest) = Ok (p, rest).
Proof.
  destruct p as [a b c d]. unfold write_mask_params.
  cbn [mp_user_density mp_user_feather mp_vector_density mp_vector_feather].
  intros H.
  apply w_seq_inv in H as (b4 & n4 & bd & nd & H & Hd & -> & ->).
  apply w_seq_inv in H as (b3 & n3 & bc & nc & H & Hc & -> & ->).
  apply w_seq_inv in H as (b2 & n2 & bb & nb & H & Hb & -> & ->).
  apply w_seq_inv in H as (b1 & n1 & ba & na & H & Ha & -> & ->).
  apply w_fmt_inv in H as [H ->].
  unfold read_mask_params. rewrite <- !app_assoc. step.
  destruct a, b, c, d; cbn [opt_w] in Ha, Hb, Hc, Hd;
    repeat match goal with
           | H : w_fmt _ = Ok _ |- _ => apply w_fmt_inv in H as [H ->]
           | H : w_nil = Ok _ |- _ => inversion H; subst; clear H
           end;
    cbn [is_some]; eval_testbits; unfold r_opt; cbn [app bind]; steps; reflexivity.
Qed.

Lemma mask_real_rt r bs n rest :
  write_mask_real r = Ok (bs, n) -> read_mask_real (bs ++ rest) = Ok (r, rest).
Proof.
  destruct r as [f bg t l b rr]. unfold write_mask_real. cbn [mr_flags mr_bg mr_top mr_left mr_bottom mr_right].
  intros H. apply w_seq_inv in H as (b1 & n1 & b2 & n2 & H1 & H2 & -> & ->).
  apply w_fmt_inv in H1 as [H1 ->]. apply w_fmt_inv in H2 as [H2 ->]. open_pk H2.
  unfold read_mask_real. rewrite <- !app_assoc. steps. cbn [app]. now rewrite flags_rt.
Qed.

Lemma mask_rt m bs n rest :
  wf_mask m = true -> write_mask m = Ok (bs, n) -> read_mask (bs ++ rest) = Ok (Some m, rest).
Proof.
  intros Hwf H. unfold write_mask in H.
  destruct (length_block_rt 0 4 1 (write_mask_body m) bs n rest) as (body & Hb & Hr);
    [lia|reflexivity| |assumption|].
  { unfold write_mask_body. apply wtruth_then_pad. repeat apply wtruth_seq; try apply wtruth_fmt.
    - destruct (m_real m); cbn [opt_w]; [|apply wtruth_nil].
      unfold write_mask_real. apply wtruth_seq; apply wtruth_fmt.
    - destruct (fb4 (m_flags m)); [|apply wtruth_nil].
      destruct (m_params m); cbn [opt_w]; [|apply wtruth_nil].
      unfold write_mask_params. repeat apply wtruth_seq; try apply wtruth_fmt;
        match goal with |- wtruth (opt_w ?o _) => destruct o; cbn [opt_w]; [apply wtruth_fmt|apply wtruth_nil] end. }
  unfold read_mask. rewrite Hr. cbn [bind].
  unfold wf_mask in Hwf. apply andb_prop in Hwf as [Hflag Hguard].
  unfold mask_len_guard in Hguard. rewrite Hb in Hguard. apply eqb_prop in Hguard. apply eqb_prop in Hflag.
  destruct m as [t l b r bg fl params real].
  cbn [m_top m_left m_bottom m_right m_bg m_flags m_params m_real] in *.
  unfold write_mask_body in Hb. cbn [m_top m_left m_bottom m_right m_bg m_flags m_params m_real] in Hb.
  apply w_then_pad_inv in Hb as (x & nx & Hx & Hbody & _).
  apply w_seq_inv in Hx as (b3 & n3 & bp & np & Hx & Hp & -> & ->).
  apply w_seq_inv in Hx as (b2 & n2 & br & nr & Hx & Hreal & -> & ->).
  apply w_seq_inv in Hx as (b1 & n1 & bf & nf & Hx & Hf & -> & ->).
  apply w_fmt_inv in Hx as [Hx ->]. apply w_fmt_inv in Hf as [Hf ->]. open_pk Hx.
  assert (Hne : (len body =? 0) = false).
  { rewrite Hbody. len_lia. }
  rewrite Hne. unfold read_mask_body. rewrite Hguard.
  rewrite Hbody. rewrite <- !app_assoc. steps. rewrite flags_rt.
  destruct real as [rl|]; cbn [opt_w is_some r_opt] in *.
  - rewrite (mask_real_rt _ _ _ _ Hreal). cbn [bind]. rewrite Hflag.
    destruct params as [p|]; cbn [is_some r_opt opt_w] in *; rewrite Hflag in Hp; cbn [opt_w] in Hp.
    + rewrite (mask_params_rt _ _ _ _ Hp). reflexivity.
    + reflexivity.
  - inversion Hreal; subst. cbn [app bind]. rewrite Hflag.
    destruct params as [p|]; cbn [is_some r_opt opt_w] in *; rewrite Hflag in Hp; cbn [opt_w] in Hp.
    + cbn [bind]. rewrite (mask_params_rt _ _ _ _ Hp). reflexivity.
    + reflexivity.
Qed.

(* ------------------------------------------------------------------ LayerBlendingRanges *)
Lemma wtruth_range l : wtruth (w_range l).
Proof. unfold w_range. apply wtruth_concat_map. intros a. apply wtruth_fmt. Qed.

Lemma range_rt p q bs n rest :
  w_range [p; q] = Ok (bs, n) -> read_range (bs ++ rest) = Ok ([p; q], rest) /\ len bs = 8.
Proof.
  destruct p as [a b], q as [c d]. unfold w_range. cbn [map w_concat]. intros H.
  apply w_seq_inv in H as (b1 & n1 & b2 & n2 & H1 & H2 & -> & ->).
  apply w_seq_inv in H2 as (b3 & n3 & b4 & n4 & H3 & H4 & -> & ->).
  inversion H4; subst. unfold w_pair in H1, H3. cbn [fst snd] in H1, H3.
  apply w_fmt_inv in H1 as [H1 ->]. apply w_fmt_inv in H3 as [H3 ->]. open_pk H1. open_pk H3.
  split.
  - unfold read_range. rewrite <- !app_assoc. steps. reflexivity.
  - len_lia.
Qed.

Lemma range_list_rt ch : forall bs n fuel,
  forallb (fun l => (length l =? 2)%nat) ch = true ->
  w_concat (map w_range ch) = Ok (bs, n) -> (length bs < fuel)%nat ->
  read_range_list fuel bs = Ok ch.
Proof.
  induction ch as [|c ch IH]; intros bs n fuel Hwf H Hf.
  - apply w_concat_nil_inv in H as [-> _]. destruct fuel; [cbn in Hf; lia|]. reflexivity.
  - apply w_concat_cons_inv in H as (b1 & n1 & b2 & n2 & Hc & Hl & -> & ->).
    cbn [forallb] in Hwf. apply andb_prop in Hwf as [Hc2 Hwl].
    destruct c as [|p [|q [|]]]; try discriminate.
    destruct (range_rt p q b1 n1 b2 Hc) as [Hr Hlen].
    destruct fuel; [lia|]. cbn [read_range_list]. unfold is_readable. rewrite len_app.
    pose proof (len_nonneg b2). destruct (8 <=? len b1 + len b2) eqn:E; [|lia].
    rewrite Hr. cbn [bind]. rewrite (IH b2 n2 fuel Hwl Hl); [reflexivity|].
    rewrite app_length in Hf. unfold len in Hlen. lia.
Qed.

Lemma ranges_rt r bs n rest :
  wf_ranges r = true -> write_ranges r = Ok (bs, n) -> read_ranges (bs ++ rest) = Ok (r, rest).
Proof.
  intros Hwf H. unfold write_ranges in H.
  block_inv H rest body Hb Hr; [lia|reflexivity| |].
  { apply wtruth_seq.
    - destruct (br_comp r); cbn [opt_w]; [apply wtruth_range|apply wtruth_nil].
    - destruct (br_chan r); cbn [opt_w]; [|apply wtruth_nil]. apply wtruth_concat_map, wtruth_range. }
  unfold read_ranges. rewrite Hr. cbn [bind]. clear H Hr.
  destruct r as [comp chan]. unfold wf_ranges in Hwf. cbn [br_comp br_chan] in *.
  destruct comp as [c|], chan as [ch|]; try discriminate; cbn [opt_w] in Hb.
  - apply andb_prop in Hwf as [Hc Hch].
    apply w_seq_inv in Hb as (b1 & n1 & b2 & n2 & H1 & H2 & -> & _).
    destruct c as [|p [|q [|]]]; try discriminate.
    destruct (range_rt p q b1 n1 b2 H1) as [Hr Hlen].
    assert (Hne : (len (b1 ++ b2) =? 0) = false) by len_lia.
    rewrite Hne, Hr. cbn [bind]. rewrite (range_list_rt ch b2 n2 _ Hch H2); [reflexivity|lia].
  - inversion Hb; subst. reflexivity.
Qed.

(* ------------------------------------------------------------------ ChannelInfo / ChannelData *)
Lemma channel_info_rt v c bs n rest :
  wf_ci c = true -> write_channel_info v c = Ok (bs, n) -> read_channel_info v (bs ++ rest) = Ok (c, rest).
Proof.
  intros Hwf H. destruct c as [id ln]. unfold write_channel_info in H. unfold read_channel_info.
  destruct (len_bytes v) as [nb|]; [|discriminate]. cbn [bind ci_id ci_len] in *.
  apply w_fmt_inv in H as [H ->]. open_pk H. rewrite <- !app_assoc. steps.
  unfold wf_ci in Hwf. cbn [ci_id] in Hwf. now rewrite Hwf.
Qed.

Lemma channel_data_rt c bs n rest :
  wf_cd c = true -> write_channel_data c = Ok (bs, n) ->
  read_channel_data (len (cd_data c)) (bs ++ rest) = Ok (c, rest).
Proof.
  intros Hwf H. destruct c as [comp data]. unfold write_channel_data in H. cbn [cd_comp cd_data] in *.
  apply w_seq_inv in H as (b1 & n1 & b2 & n2 & H1 & H2 & -> & ->).
  apply w_fmt_inv in H1 as [H1 ->]. apply w_bytes_inv in H2 as [-> ->].
  unfold read_channel_data. rewrite <- !app_assoc. steps.
  unfold wf_cd in Hwf. cbn [cd_comp] in Hwf. rewrite Hwf. rewrite read_upto_app. reflexivity.
Qed.

Lemma channel_list_rt cds : forall cis bs n rest,
  length cis = length cds -> forallb wf_cd cds = true ->
  write_channel_list cds = Ok (bs, n) ->
  read_channel_list (upd_ci cis cds) (bs ++ rest) = Ok (cds, rest).
Proof.
  induction cds as [|c cds IH]; intros cis bs n rest Hlen Hwf H.
  - destruct cis; [|discriminate]. apply w_concat_nil_inv in H as [-> _]. reflexivity.
  - destruct cis as [|ci cis]; [discriminate|]. unfold write_channel_list in H.
    apply w_concat_cons_inv in H as (b1 & n1 & b2 & n2 & Hc & Hl & -> & ->).
    cbn [forallb] in Hwf. apply andb_prop in Hwf as [Hwc Hwl].
    cbn [upd_ci read_channel_list ci_len]. replace (2 + len (cd_data c) - 2) with (len (cd_data c)) by lia.
    rewrite <- app_assoc. rewrite (channel_data_rt _ _ _ _ Hwc Hc). cbn [bind].
    rewrite (IH cis b2 n2 rest); [reflexivity|cbn in Hlen; lia|assumption|exact Hl].
Qed.

Section WithCodec.
  Variable enc_s : list Z -> res (list Z).
  Variable dec_s : list Z -> res (list Z).

  Lemma wf_name_inv name :
    wf_name enc_s dec_s name = true -> forall d, enc_s name = Ok d -> dec_s d = Ok name.
  Proof.
    unfold wf_name. intros H d Hd. rewrite Hd in H. destruct (dec_s d) as [n|]; [|discriminate].
    apply list_eqb_eq in H. now subst.
  Qed.

  (* ---------------------------------------------------------------- ImageResource(s) *)
  Lemma resource_rt r bs n rest :
    wf_resource enc_s dec_s r = true -> write_resource enc_s r = Ok (bs, n) ->
    read_resource dec_s (bs ++ rest) = Ok (r, rest) /\ 6 <= len bs.
  Proof.
    intros Hwf H. destruct r as [sg key name data]. unfold write_resource in H. unfold wf_resource in Hwf.
    cbn [ir_sig ir_key ir_name ir_data] in *. apply andb_prop in Hwf as [Hsig Hname].
    apply w_seq_inv in H as (b12 & n12 & b3 & n3 & H & H3 & -> & ->).
    apply w_seq_inv in H as (b1 & n1 & b2 & n2 & H1 & H2 & -> & ->).
    apply w_fmt_inv in H1 as [H1 ->]. open_pk H1.
    destruct (length_block_rt 0 4 2 (w_bytes data) b3 n3 rest) as (body & Hb & Hr);
      [lia|reflexivity|apply wtruth_bytes|assumption|].
    apply w_bytes_inv in Hb as [-> _].
    split; [|len_lia].
    unfold read_resource. rewrite <- !app_assoc. steps.
    rewrite (pascal_rt enc_s dec_s name 2 b2 n2 (b3 ++ rest)); [|lia|apply wf_name_inv; assumption|assumption].
    cbn [bind]. rewrite Hr. cbn [bind]. now rewrite Hsig.
  Qed.

  Lemma resource_items_rt l : forall bs n fuel,
    forallb (wf_resource enc_s dec_s) l = true ->
    w_concat (map (write_resource enc_s) l) = Ok (bs, n) -> (length bs < fuel)%nat ->
    read_resource_items dec_s fuel bs = Ok l.
  Proof.
    induction l as [|r l IH]; intros bs n fuel Hwf H Hf.
    - apply w_concat_nil_inv in H as [-> _]. destruct fuel; [cbn in Hf; lia|]. reflexivity.
    - apply w_concat_cons_inv in H as (b1 & n1 & b2 & n2 & Hr & Hl & -> & ->).
      cbn [forallb] in Hwf. apply andb_prop in Hwf as [Hwr Hwl].
      destruct (resource_rt r b1 n1 b2 Hwr Hr) as [Hrt Hlen].
      destruct fuel; [lia|]. cbn [read_resource_items]. unfold is_readable. rewrite len_app.
      pose proof (len_nonneg b2). destruct (4 <=? len b1 + len b2) eqn:E; [|lia].
      rewrite Hrt. cbn [bind]. rewrite (IH b2 n2 fuel Hwl Hl); [reflexivity|].
      rewrite app_length in Hf. unfold len in Hlen. lia.
  Qed.

  Lemma wtruth_resource r : wtruth (write_resource enc_s r).
  Proof.
    unfold write_resource. repeat apply wtruth_seq; [apply wtruth_fmt|apply wtruth_pascal|].
    apply wtruth_length_block, wtruth_bytes.
  Qed.

  Lemma resources_rt l bs n rest :
    wf_resources enc_s dec_s l = true -> write_resources enc_s l = Ok (bs, n) ->
    read_resources dec_s (bs ++ rest) = Ok (l, rest).
  Proof.
    intros Hwf H. unfold wf_resources in Hwf. apply andb_prop in Hwf as [Hw Hn].
    unfold write_resources in H.
    block_inv H rest body Hb Hr; [lia|reflexivity| |].
    { apply wtruth_concat_map, wtruth_resource. }
    unfold read_resources. rewrite Hr. cbn [bind].
    rewrite (resource_items_rt l body _ _ Hw Hb); [|lia]. cbn [bind]. now rewrite od_build_nodup.
  Qed.
End WithCodec.

(* ------------------------------------------------------------------ truthfulness of every writer *)
Lemma wtruth_tagged_block v pad b : wtruth (write_tagged_block v pad b).
Proof. unfold write_tagged_block. apply wtruth_seq; [apply wtruth_fmt|apply wtruth_length_block, wtruth_bytes]. Qed.
Lemma wtruth_tagged_blocks v pad l : wtruth (write_tagged_blocks v pad l).
Proof. apply wtruth_concat_map, wtruth_tagged_block. Qed.
Lemma wtruth_opt {A} (o : option A) f : (forall a, wtruth (f a)) -> wtruth (opt_w o f).
Proof. destruct o; cbn [opt_w]; auto using wtruth_nil. Qed.
Lemma wtruth_mask_params p : wtruth (write_mask_params p).
Proof. unfold write_mask_params. repeat apply wtruth_seq; try apply wtruth_fmt; apply wtruth_opt; intros; apply wtruth_fmt. Qed.
Lemma wtruth_mask_body m : wtruth (write_mask_body m).
Proof.
  unfold write_mask_body. apply wtruth_then_pad. repeat apply wtruth_seq; try apply wtruth_fmt.
  - apply wtruth_opt. intros. unfold write_mask_real. apply wtruth_seq; apply wtruth_fmt.
  - apply wtruth_if; [|apply wtruth_nil]. apply wtruth_opt, wtruth_mask_params.
Qed.
Lemma wtruth_mask m : wtruth (write_mask m).
Proof. apply wtruth_length_block, wtruth_mask_body. Qed.
Lemma wtruth_ranges r : wtruth (write_ranges r).
Proof.
  apply wtruth_length_block, wtruth_seq; apply wtruth_opt; [apply wtruth_range|].
  intros. apply wtruth_concat_map, wtruth_range.
Qed.
Lemma wtruth_channel_info v c : wtruth (write_channel_info v c).
Proof. unfold write_channel_info. destruct (len_bytes v); cbn [bind]; [apply wtruth_fmt|apply wtruth_err]. Qed.
Lemma wtruth_channel_data c : wtruth (write_channel_data c).
Proof. apply wtruth_seq; [apply wtruth_fmt|apply wtruth_bytes]. Qed.
Lemma wtruth_channel_list l : wtruth (write_channel_list l).
Proof. apply wtruth_concat_map, wtruth_channel_data. Qed.
Lemma wtruth_header h : wtruth (write_header h).
Proof. apply wtruth_fmt. Qed.
Lemma wtruth_cmd v : wtruth (write_cmd v).
Proof. apply wtruth_length_block, wtruth_bytes. Qed.
Lemma wtruth_glmi g : wtruth (write_glmi g).
Proof.
  apply wtruth_length_block. destruct (g_overlay g); [|apply wtruth_nil].
  apply wtruth_then_pad, wtruth_seq; apply wtruth_fmt.
Qed.

Section WithCodec2.
  Variable enc_s : list Z -> res (list Z).
  Variable dec_s : list Z -> res (list Z).

  Lemma wtruth_record_extra v r : wtruth (write_record_extra enc_s v r).
  Proof.
    unfold write_record_extra. apply wtruth_then_pad. repeat apply wtruth_seq.
    - destruct (r_mask r); [apply wtruth_mask|apply wtruth_fmt].
    - apply wtruth_ranges.
    - apply wtruth_pascal.
    - apply wtruth_tagged_blocks.
  Qed.
  Lemma wtruth_record v r : wtruth (write_record enc_s v r).
  Proof.
    unfold write_record. repeat apply wtruth_seq; try apply wtruth_fmt.
    - apply wtruth_concat_map, wtruth_channel_info.
    - apply wtruth_length_block, wtruth_record_extra.
  Qed.
  Lemma wtruth_li_body v pad li : wtruth (write_li_body enc_s v pad li).
  Proof.
    unfold write_li_body. apply wtruth_then_pad. repeat apply wtruth_seq; [apply wtruth_fmt| |].
    - apply wtruth_if; [|apply wtruth_nil]. apply wtruth_opt. intros. apply wtruth_concat_map, wtruth_record.
    - apply wtruth_if; [|apply wtruth_nil]. apply wtruth_opt. intros. apply wtruth_concat_map, wtruth_channel_list.
  Qed.
  Lemma wtruth_layer_info v pad li : wtruth (write_layer_info enc_s v pad li).
  Proof.
    unfold write_layer_info. destruct (len_bytes v); cbn [bind]; [|apply wtruth_err].
    apply wtruth_if; [apply wtruth_fmt|apply wtruth_length_block, wtruth_li_body].
  Qed.
  Lemma wtruth_lami_body v pad l : wtruth (write_lami_body enc_s v pad l).
  Proof.
    unfold write_lami_body. repeat apply wtruth_seq.
    - apply wtruth_opt. intros. apply wtruth_layer_info.
    - apply wtruth_opt, wtruth_glmi.
    - apply wtruth_if; [|apply wtruth_nil]. apply wtruth_opt. intros. apply wtruth_tagged_blocks.
  Qed.
  Lemma wtruth_lami v pad l : wtruth (write_lami enc_s v pad l).
  Proof.
    unfold write_lami. destruct (len_bytes v); cbn [bind]; [|apply wtruth_err].
    apply wtruth_length_block, wtruth_lami_body.
  Qed.
  Lemma wtruth_resources l : wtruth (write_resources enc_s l).
  Proof. apply wtruth_length_block, wtruth_concat_map, wtruth_resource. Qed.
  Lemma wtruth_psd pad d : wtruth (write_psd enc_s pad d).
  Proof.
    unfold write_psd, write_image_data, write_channel_data. repeat apply wtruth_seq;
      auto using wtruth_header, wtruth_cmd, wtruth_resources, wtruth_lami, wtruth_fmt, wtruth_bytes.
  Qed.

  (* ---------------------------------------------------------------- LayerRecord *)
  Lemma record_rt v r bs n rest :
    wf_record enc_s dec_s r = true -> write_record enc_s v r = Ok (bs, n) ->
    read_record dec_s v (bs ++ rest) = Ok (r, rest).
  Proof.
    intros Hwf H. destruct r as [top lft bottom rgt chans sg blend opacity clip fl mask ranges name blocks].
    unfold wf_record in Hwf. unfold write_record in H.
    cbn [r_top r_left r_bottom r_right r_channels r_sig r_blend r_opacity r_clip r_flags r_mask r_ranges r_name r_blocks] in *.
    apply andb_prop in Hwf as [Hwf Hblocks]. apply andb_prop in Hwf as [Hwf Hname].
    apply andb_prop in Hwf as [Hwf Hranges]. apply andb_prop in Hwf as [Hwf Hmask].
    apply andb_prop in Hwf as [Hwf Hclip]. apply andb_prop in Hwf as [Hwf Hblend].
    apply andb_prop in Hwf as [Hch Hsig].
    apply w_seq_inv in H as (b1234 & n1234 & b5 & n5 & H & H5 & -> & ->).
    apply w_seq_inv in H as (b123 & n123 & b4 & n4 & H & H4 & -> & ->).
    apply w_seq_inv in H as (b12 & n12 & b3 & n3 & H & H3 & -> & ->).
    apply w_seq_inv in H as (b1 & n1 & b2 & n2 & H1 & H2 & -> & ->).
    apply w_fmt_inv in H1 as [H1 ->]. apply w_fmt_inv in H3 as [H3 ->]. apply w_fmt_inv in H4 as [H4 ->].
    open_pk H1. open_pk H3.
    block_inv H5 rest body Hb Hr; [lia|reflexivity|apply wtruth_record_extra|].
    unfold read_record. rewrite <- !app_assoc. steps.
    rewrite to_nat_len.
    rewrite (read_n_rt (write_channel_info v) (read_channel_info v) (fun c => wf_ci c = true)
               (channel_info_rt v) chans b2 n2 _ (forallb_Forall _ _ Hch) H2).
    cbn [bind]. steps. rewrite Hr. cbn [bind].
    (* the extras sub-stream *)
    unfold write_record_extra in Hb. cbn [r_mask r_ranges r_name r_blocks] in Hb.
    apply w_then_pad_inv in Hb as (xe & nxe & Hx & Hbody & _).
    apply w_seq_inv in Hx as (e123 & m123 & e4 & m4 & Hx & He4 & -> & ->).
    apply w_seq_inv in Hx as (e12 & m12 & e3 & m3 & Hx & He3 & -> & ->).
    apply w_seq_inv in Hx as (e1 & m1 & e2 & m2 & He1 & He2 & -> & ->).
    rewrite Hbody. rewrite <- !app_assoc.
    assert (Hm : read_mask (e1 ++ e2 ++ e3 ++ e4 ++ zeros (Z.to_nat (pad_count (m1 + m2 + m3 + m4) 2)))
                 = Ok (mask, e2 ++ e3 ++ e4 ++ zeros (Z.to_nat (pad_count (m1 + m2 + m3 + m4) 2)))).
    { destruct mask as [m|].
      - apply (mask_rt m e1 m1 _ Hmask He1).
      - apply w_fmt_inv in He1 as [He1 _]. unfold read_mask.
        rewrite (zero_block_rt 4 1 e1 _ He1) by lia. reflexivity. }
    rewrite Hm. cbn [bind].
    rewrite (ranges_rt _ _ _ _ Hranges He2). cbn [bind].
    rewrite (pascal_rt enc_s dec_s name 4 e3 m3 _); [|lia|apply wf_name_inv; assumption|assumption].
    cbn [bind].
    rewrite (tagged_blocks_rt v 1 blocks e4 m4 _ (or_introl eq_refl) Hblocks He4).
    2:{ rewrite len_zeros. pose proof (pad_count_range (m1 + m2 + m3 + m4) 2 ltac:(lia)). lia. }
    cbn [bind]. rewrite Hsig, Hblend, Hclip. cbn [andb]. now rewrite lflags_rt.
  Qed.
End WithCodec2.

(* ------------------------------------------------------------------ LayerInfo *)
Lemma upd_ci_wf cis : forall cds, forallb wf_ci cis = true -> forallb wf_ci (upd_ci cis cds) = true.
Proof.
  induction cis as [|ci cis IH]; intros cds H; [reflexivity|].
  destruct cds as [|cd cds]; [assumption|]. cbn [upd_ci forallb] in *.
  apply andb_prop in H as [H1 H2]. rewrite IH by assumption. unfold wf_ci in *. cbn [ci_id]. now rewrite H1.
Qed.

Lemma len_bytes_cases v nb : len_bytes v = Ok nb -> nb = 4%nat \/ nb = 8%nat.
Proof.
  unfold len_bytes. destruct (v =? 1); [intros H; inversion H; auto|].
  destruct (v =? 2); [intros H; inversion H; auto|].
  destruct (v =? 0); [intros H; inversion H; auto|].
  destruct (v =? -1); [intros H; inversion H; auto|discriminate].
Qed.

Section WithCodec3.
  Variable enc_s : list Z -> res (list Z).
  Variable dec_s : list Z -> res (list Z).

  Lemma upd_recs_wf rs : forall cs,
    forallb (wf_record enc_s dec_s) rs = true -> forallb (wf_record enc_s dec_s) (upd_recs rs cs) = true.
  Proof.
    induction rs as [|r rs IH]; intros cs H; [reflexivity|].
    destruct cs as [|c cs]; [assumption|]. cbn [upd_recs forallb] in *.
    apply andb_prop in H as [H1 H2]. rewrite IH by assumption. rewrite andb_true_r.
    unfold wf_record in *. destruct r as [a1 a2 a3 a4 chs sg bl op cl fl mk rg nm bk]. cbn [set_channels r_channels r_sig r_blend r_clip r_mask r_ranges r_name r_blocks] in *.
    repeat match goal with H : _ && _ = true |- _ => apply andb_prop in H; destruct H end.
    rewrite upd_ci_wf by assumption.
    repeat match goal with H : _ = true |- _ => rewrite H; clear H end. reflexivity.
  Qed.

  Lemma upd_recs_length rs : forall cs, length (upd_recs rs cs) = length rs.
  Proof. induction rs; intros [|c cs]; cbn; auto. Qed.

  Lemma channel_lists_rt cs : forall rs bs n rest,
    same_shape rs cs = true -> forallb (forallb wf_cd) cs = true ->
    w_concat (map write_channel_list cs) = Ok (bs, n) ->
    read_channel_lists (upd_recs rs cs) (bs ++ rest) = Ok (cs, rest).
  Proof.
    induction cs as [|c cs IH]; intros rs bs n rest Hs Hwf H.
    - destruct rs; [|discriminate]. apply w_concat_nil_inv in H as [-> _]. reflexivity.
    - destruct rs as [|r rs]; [discriminate|].
      apply w_concat_cons_inv in H as (b1 & n1 & b2 & n2 & Hc & Hl & -> & ->).
      cbn [same_shape forallb] in *. apply andb_prop in Hs as [Hs1 Hs2]. apply andb_prop in Hwf as [Hw1 Hw2].
      apply Nat.eqb_eq in Hs1.
      cbn [upd_recs read_channel_lists]. destruct r as [a1 a2 a3 a4 chs sg bl op cl fl mk rg nm bk]. cbn [set_channels r_channels] in *.
      rewrite <- app_assoc. rewrite (channel_list_rt c _ b1 n1 _ Hs1 Hw1 Hc). cbn [bind].
      rewrite (IH rs b2 n2 rest Hs2 Hw2 Hl). reflexivity.
  Qed.

  Lemma same_shape_length rs cs : same_shape rs cs = true -> length rs = length cs.
  Proof.
    revert cs; induction rs as [|r rs IH]; intros [|c cs] H; try discriminate; [reflexivity|].
    cbn [same_shape] in H. apply andb_prop in H as [_ H]. cbn [length]. f_equal. auto.
  Qed.

  Lemma layer_info_rt v pad li bs n rest :
    0 < pad -> wf_li enc_s dec_s li = true -> write_layer_info enc_s v pad li = Ok (bs, n) ->
    read_layer_info dec_s v (bs ++ rest) = Ok (li_after_write li, rest) /\ 4 <= len bs.
  Proof.
    intros Hpad Hwf H. unfold write_layer_info in H. unfold read_layer_info.
    destruct (len_bytes v) as [nb|] eqn:Env; [|discriminate]. cbn [bind] in *.
    pose proof (len_bytes_cases v nb Env) as Hnb.
    unfold wf_li in Hwf. unfold li_after_write.
    destruct li as [count recs chans]. cbn [li_count li_records li_chans] in *.
    destruct (count =? 0) eqn:Ec.
    - (* the short form *)
      apply andb_prop in Hwf as [Hr Hc]. destruct recs; [discriminate|]. destruct chans; [discriminate|].
      apply w_fmt_inv in H as [H ->]. split; [|len_lia].
      steps. cbn [Z.eqb]. apply Z.eqb_eq in Ec. now subst.
    - destruct recs as [rs|]; [|discriminate]. destruct chans as [cs|]; [|discriminate].
      apply andb_prop in Hwf as [Hwf Hwcd]. apply andb_prop in Hwf as [Hwf Hwrec].
      apply andb_prop in Hwf as [Hcount Hshape].
      assert (Hrs : rs <> []).
      { intros ->. change (len (@nil layer_record)) with 0 in Hcount. lia. }
      pose proof (same_shape_length _ _ Hshape) as Hlen.
      destruct rs as [|r0 rs0]; [congruence|]. destruct cs as [|c0 cs0]; [discriminate|].
      block_inv H rest body Hb Hr; [lia|destruct Hnb as [-> | ->]; reflexivity|apply wtruth_li_body|].
      split; [|apply length_block_len in H; destruct Hnb as [-> | ->]; cbn in H; lia].
      (* read the length *)
      unfold read_length_block in Hr. cbn [plus] in Hr.
      destruct (take (Z.of_nat nb) (bs ++ rest)) as [[hd s1]|] eqn:Et; [|discriminate]. cbn [bind fst snd skipn] in Hr.
      destruct (take (be_val hd) s1) as [[dd s2]|] eqn:Et2; [|discriminate]. cbn [bind fst snd] in Hr.
      rewrite r_pad_0 in Hr by apply pad_count_1. inversion Hr; subst dd s2. clear Hr.
      unfold read_u. rewrite Et. cbn [bind fst snd].
      apply take_len in Et2 as [Hs1 Hbl]. rewrite <- Hbl.
      (* the body *)
      unfold write_li_body, li_update in Hb. cbn [li_count li_records li_chans] in Hb.
      change (truthy (Some (upd_recs (r0 :: rs0) (c0 :: cs0)))) with true in Hb.
      change (truthy (Some (c0 :: cs0))) with true in Hb. cbn [opt_w] in Hb.
      set (rs := r0 :: rs0) in *. set (cs := c0 :: cs0) in *.
      apply w_then_pad_inv in Hb as (x & nx & Hx & Hbody & _).
      apply w_seq_inv in Hx as (b12 & n12 & b3 & n3 & Hx & H3 & -> & ->).
      apply w_seq_inv in Hx as (b1 & n1 & b2 & n2 & H1 & H2 & -> & ->).
      apply w_fmt_inv in H1 as [H1 ->].
      assert (Hne : (len body =? 0) = false) by (rewrite Hbody; len_lia).
      rewrite Hne. unfold read_li_body. rewrite Hs1, Hbody. rewrite <- !app_assoc. steps.
      replace (Z.to_nat (Z.abs count)) with (length (upd_recs rs cs)).
      2:{ rewrite upd_recs_length. apply Z.eqb_eq in Hcount. rewrite <- Hcount. symmetry. apply to_nat_len. }
      rewrite (read_n_rt (write_record enc_s v) (read_record dec_s v) (fun r => wf_record enc_s dec_s r = true)
                 (record_rt enc_s dec_s v) (upd_recs rs cs) b2 n2 _
                 (forallb_Forall _ _ (upd_recs_wf rs cs Hwrec)) H2).
      cbn [bind].
      rewrite (channel_lists_rt cs rs b3 n3 _ Hshape Hwcd H3). cbn [bind].
      match goal with |- context [?a <=? ?b] => replace (a <=? b) with true end.
      2:{ symmetry. apply Z.leb_le. rewrite !len_app. pose_lens. pose_nonneg. lia. }
      set (X := b1 ++ b2 ++ b3 ++ zeros (Z.to_nat (pad_count (len b1 + n2 + n3) pad))).
      replace (b1 ++ b2 ++ b3 ++ zeros (Z.to_nat (pad_count (len b1 + n2 + n3) pad)) ++ rest) with (X ++ rest)
        by (unfold X; rewrite <- !app_assoc; reflexivity).
      rewrite skipz_app. reflexivity.
  Qed.
End WithCodec3.

(* ------------------------------------------------------------------ GlobalLayerMaskInfo *)
Lemma glmi_rt g bs n rest :
  wf_glmi g = true -> write_glmi g = Ok (bs, n) ->
  read_glmi (bs ++ rest) = Ok (g, rest) /\
  len bs = match g_overlay g with None => 4 | Some _ => 20 end.
Proof.
  intros Hwf H. unfold write_glmi in H. pose proof H as Hlen0.
  block_inv H rest body Hb Hr; [lia|reflexivity| |].
  { destruct (g_overlay g); [|apply wtruth_nil]. apply wtruth_then_pad, wtruth_seq; apply wtruth_fmt. }
  unfold read_glmi. rewrite Hr. cbn [bind].
  destruct g as [ov op k]. unfold wf_glmi in Hwf. cbn [g_overlay g_opacity g_kind] in *.
  unfold w_length_block in Hlen0. rewrite Hb in Hlen0. cbn [bind fst snd] in Hlen0.
  destruct (pack_u 4 (len body)) as [lb|] eqn:Elb; [|discriminate]. cbn [bind w_pad w_bytes fst snd] in Hlen0.
  rewrite pad_count_1 in Hlen0. inversion Hlen0 as [[Hbs Hn]]. clear Hlen0.
  destruct ov as [ov|].
  - apply w_then_pad_inv in Hb as (x & nx & Hx & Hbody & _).
    apply w_seq_inv in Hx as (b1 & n1 & b2 & n2 & H1 & H2 & -> & ->).
    apply w_fmt_inv in H1 as [H1 ->]. apply w_fmt_inv in H2 as [H2 ->].
    destruct (length ov =? 5)%nat eqn:E5; [|discriminate].
    destruct ov as [|o1 [|o2 [|o3 [|o4 [|o5 [|]]]]]]; try discriminate.
    cbn [map] in H1. open_pk H1. open_pk H2.
    assert (Hl : len body = 16).
    { rewrite Hbody. pose_lens. rewrite !len_app, len_zeros.
      change (len (@nil Z)) with 0.
      repeat match goal with Hx : len ?b = Z.of_nat ?k |- _ => rewrite Hx; clear Hx end.
      vm_compute. reflexivity. }
    split.
    + rewrite Hl. cbn [Z.eqb Z.ltb Z.compare]. unfold read_glmi_body. rewrite Hbody. cbn [read_n].
      rewrite <- !app_assoc. steps. now rewrite Hwf.
    + rewrite !len_app, Hl. pose_lens. cbn [zeros repeat]. change (len (@nil Z)) with 0. lia.
  - inversion Hb; subst body. change (len (@nil Z) =? 0) with true. cbn iota.
    apply andb_prop in Hwf as [Ho Hk]. apply Z.eqb_eq in Ho, Hk. subst. split; [reflexivity|].
    rewrite !len_app. pose_lens. cbn [zeros repeat]. change (len (@nil Z)) with 0 in *. lia.
Qed.

Section WithCodec4.
  Variable enc_s : list Z -> res (list Z).
  Variable dec_s : list Z -> res (list Z).

  (* ---------------------------------------------------------------- LayerAndMaskInformation *)
  Lemma lami_rt v pad l bs n rest :
    0 < pad -> wf_lami enc_s dec_s v l (len rest) = true -> write_lami enc_s v pad l = Ok (bs, n) ->
    read_lami dec_s v (bs ++ rest) = Ok (lami_after_write l, rest).
  Proof.
    intros Hpad Hwf H. unfold write_lami in H. unfold read_lami.
    destruct (len_bytes v) as [nb|] eqn:Env; [|discriminate]. cbn [bind] in *.
    pose proof (len_bytes_cases v nb Env) as Hnb.
    block_inv H rest body Hb Hr; [lia|destruct Hnb as [-> | ->]; reflexivity|apply wtruth_lami_body|].
    unfold read_length_block in Hr. cbn [plus] in Hr.
    destruct (take (Z.of_nat nb) (bs ++ rest)) as [[hd s1]|] eqn:Et; [|discriminate]. cbn [bind fst snd skipn] in Hr.
    destruct (take (be_val hd) s1) as [[dd s2]|] eqn:Et2; [|discriminate]. cbn [bind fst snd] in Hr.
    rewrite r_pad_0 in Hr by apply pad_count_1. inversion Hr; subst dd s2. clear Hr.
    unfold read_u. rewrite Et. cbn [bind fst snd].
    apply take_len in Et2 as [Hs1 Hbl]. rewrite <- Hbl. subst s1.
    destruct l as [info g blocks]. unfold wf_lami in Hwf. unfold write_lami_body in Hb. unfold lami_after_write.
    cbn [la_info la_glmi la_blocks option_map] in *.
    apply w_seq_inv in Hb as (b12 & n12 & b3 & n3 & Hb & H3 & Hbody & _).
    apply w_seq_inv in Hb as (b1 & n1 & b2 & n2 & H1 & H2 & -> & _).
    destruct info as [li|]; cbn [opt_w] in H1.
    2:{ (* empty section *)
      apply andb_prop in Hwf as [Hg Hb]. destruct g; [discriminate|]. destruct blocks; [discriminate|].
      cbn [opt_w truthy] in H2, H3. inversion H1; inversion H2; inversion H3; subst.
      change (len (@nil Z) =? 0) with true. cbn iota. reflexivity. }
    apply andb_prop in Hwf as [Hwf Hblocks].
    apply andb_prop in Hwf as [Hli Hg].
    destruct (layer_info_rt enc_s dec_s v pad li b1 n1 (b2 ++ b3 ++ rest) Hpad Hli H1) as [Hrli Hlen1].
    assert (Hne : (len body =? 0) = false) by (rewrite Hbody; len_lia).
    rewrite Hne. unfold read_lami_body. rewrite Hbody. rewrite <- !app_assoc. rewrite Hrli. cbn [bind].
    (* the tagged blocks: what was written, what is read *)
    assert (Htb : exists bl, write_tagged_blocks v 4 bl = Ok (b3, n3) /\ wf_tbs bl = true /\
                   match blocks with Some x => x = bl | None => bl = [] end).
    { destruct blocks as [[|t bl]|]; cbn [truthy opt_w] in H3.
      - exists []. inversion H3; subst. auto.
      - exists (t :: bl). apply andb_prop in Hblocks as [Hblocks _]. apply andb_prop in Hblocks as [Hblocks _]. auto.
      - exists []. inversion H3; subst. auto. }
    destruct Htb as (bl & Hwb & Hwfb & Hbl2).
    (* the global layer mask info *)
    assert (Hglmi : r_opt (is_readable glmi_probe (b2 ++ b3 ++ rest) &&
                           (len (b1 ++ b2 ++ b3 ++ rest) - len (b2 ++ b3 ++ rest) + glmi_probe <=? len (b1 ++ b2 ++ b3)))
                      read_glmi (b2 ++ b3 ++ rest) = Ok (g, b3 ++ rest)).
    { destruct g as [gg|]; cbn [opt_w] in H2.
      - destruct (glmi_rt gg b2 n2 (b3 ++ rest) Hg H2) as [Hrg Hlen2].
        replace (is_readable glmi_probe (b2 ++ b3 ++ rest) && _) with true.
        { unfold r_opt. rewrite Hrg. reflexivity. }
        symmetry. apply andb_true_intro. split.
        + unfold is_readable, glmi_probe. apply Z.leb_le. rewrite !len_app, Hlen2. pose_nonneg. destruct (g_overlay gg); lia.
        + unfold glmi_probe. apply Z.leb_le. rewrite !len_app. pose_nonneg. destruct (g_overlay gg); lia.
      - inversion H2; subst. cbn [app].
        assert (b3 = []).
        { destruct blocks as [[|t bl']|]; cbn [truthy opt_w is_some nonempty orb negb andb] in *.
          - inversion H3; reflexivity.
          - apply andb_prop in Hblocks as [Hblocks _]. apply andb_prop in Hblocks as [_ Hblocks]. discriminate.
          - inversion H3; reflexivity. }
        subst b3. cbn [app]. rewrite app_nil_r.
        replace (len (b1 ++ rest) - len rest + glmi_probe <=? len b1) with false
          by (symmetry; unfold glmi_probe; rewrite len_app; lia).
        rewrite andb_false_r. reflexivity. }
    rewrite Hglmi. cbn [bind].
    (* the tagged blocks *)
    replace (len (b1 ++ b2 ++ b3) - (len (b1 ++ b2 ++ b3 ++ rest) - len (b3 ++ rest))) with (len b3)
      by (rewrite !len_app; lia).
    set (X := b1 ++ b2 ++ b3).
    replace (b1 ++ b2 ++ b3 ++ rest) with (X ++ rest) by (unfold X; rewrite <- !app_assoc; reflexivity).
    rewrite skipz_app.
    destruct blocks as [bk|].
    - subst bl. apply andb_prop in Hblocks as [Hblocks Hread].
      replace (is_readable 1 (b3 ++ rest)) with true.
      2:{ symmetry. unfold is_readable. apply Z.leb_le. rewrite len_app.
          destruct bk as [|t bk]; cbn [nonempty orb] in Hread.
          - pose_nonneg. lia.
          - unfold write_tagged_blocks in Hwb.
            apply w_concat_cons_inv in Hwb as (c1 & m1 & c2 & m2 & Hc & _ & -> & _).
            apply tagged_block_len in Hc. rewrite len_app. pose_nonneg. lia. }
      rewrite (tagged_blocks_budget_rt v 4 bk b3 n3 rest (or_intror (or_intror eq_refl)) Hwfb Hwb).
      reflexivity.
    - subst bl. apply w_concat_nil_inv in Hwb as [-> _]. apply Z.eqb_eq in Hblocks.
      apply len_zero_nil in Hblocks. subst rest. reflexivity.
  Qed.

  (* ---------------------------------------------------------------- ImageData, PSD *)
  Lemma image_data_rt c bs n :
    wf_cd c = true -> write_image_data c = Ok (bs, n) ->
    read_image_data bs = Ok c /\ len bs = 2 + len (cd_data c).
  Proof.
    intros Hwf H. destruct c as [comp data]. unfold write_image_data, write_channel_data in H.
    cbn [cd_comp cd_data] in *.
    apply w_seq_inv in H as (b1 & n1 & b2 & n2 & H1 & H2 & -> & ->).
    apply w_fmt_inv in H1 as [H1 ->]. apply w_bytes_inv in H2 as [-> ->].
    split; [|len_lia]. unfold read_image_data. steps.
    unfold wf_cd in Hwf. cbn [cd_comp] in Hwf. now rewrite Hwf.
  Qed.

  Theorem psd_rt pad d bs n :
    0 < pad -> wf_psd enc_s dec_s d = true -> write_psd enc_s pad d = Ok (bs, n) ->
    read_psd dec_s bs = Ok (psd_after_write d).
  Proof.
    intros Hpad Hwf H. destruct d as [h cmd rs l img]. unfold wf_psd in Hwf. unfold write_psd in H.
    cbn [p_header p_cmd p_res p_lami p_img] in *.
    apply andb_prop in Hwf as [Hwf Himg]. apply andb_prop in Hwf as [Hwf Hl].
    apply andb_prop in Hwf as [Hh Hrs].
    apply w_seq_inv in H as (b1234 & n1234 & b5 & n5 & H & H5 & -> & ->).
    apply w_seq_inv in H as (b123 & n123 & b4 & n4 & H & H4 & -> & ->).
    apply w_seq_inv in H as (b12 & n12 & b3 & n3 & H & H3 & -> & ->).
    apply w_seq_inv in H as (b1 & n1 & b2 & n2 & H1 & H2 & -> & ->).
    destruct (image_data_rt img b5 n5 Himg H5) as [Hri Hlen5].
    unfold read_psd. rewrite <- !app_assoc.
    rewrite (header_rt h b1 n1 _ Hh H1). cbn [bind].
    rewrite (cmd_rt cmd b2 n2 _ H2). cbn [bind].
    rewrite (resources_rt enc_s dec_s rs b3 n3 _ Hrs H3). cbn [bind].
    rewrite <- Hlen5 in Hl.
    rewrite (lami_rt (h_version h) pad l b4 n4 b5 Hpad Hl H4). cbn [bind].
    rewrite Hri. reflexivity.
  Qed.
End WithCodec4.

(* ------------------------------------------------------------------ writing the re-read structure again *)
Lemma upd_ci_idem cis : forall cds, upd_ci (upd_ci cis cds) cds = upd_ci cis cds.
Proof. induction cis as [|ci cis IH]; intros [|cd cds]; cbn [upd_ci ci_id]; try reflexivity. now rewrite IH. Qed.
Lemma upd_recs_idem rs : forall cs, upd_recs (upd_recs rs cs) cs = upd_recs rs cs.
Proof.
  induction rs as [|r rs IH]; intros [|c cs]; cbn [upd_recs]; try reflexivity.
  destruct r as [a1 a2 a3 a4 chs sg bl op cl fl mk rg nm bk].
  cbn [set_channels r_channels r_top r_left r_bottom r_right r_sig r_blend r_opacity r_clip
       r_flags r_mask r_ranges r_name r_blocks].
  now rewrite upd_ci_idem, IH.
Qed.
Lemma li_update_idem li : li_update (li_update li) = li_update li.
Proof.
  destruct li as [count [[|r rs]|] [[|c cs]|]]; try reflexivity.
  unfold li_update. cbn [li_records li_chans li_count].
  change (upd_recs (r :: rs) (c :: cs)) with (set_channels r (upd_ci (r_channels r) c) :: upd_recs rs cs).
  cbn [li_records li_chans li_count].
  change (set_channels r (upd_ci (r_channels r) c) :: upd_recs rs cs) with (upd_recs (r :: rs) (c :: cs)).
  now rewrite upd_recs_idem.
Qed.

Section WithCodec5.
  Variable enc_s : list Z -> res (list Z).

  Lemma write_li_after v pad li :
    write_layer_info enc_s v pad (li_after_write li) = write_layer_info enc_s v pad li.
  Proof.
    unfold li_after_write. destruct (li_count li =? 0) eqn:E; [reflexivity|].
    unfold write_layer_info. destruct (len_bytes v); [|reflexivity]. cbn [bind].
    assert (Hc : li_count (li_update li) = li_count li).
    { destruct li as [count [[|r rs]|] [[|c cs]|]]; reflexivity. }
    rewrite Hc, E. unfold write_li_body. now rewrite li_update_idem.
  Qed.
  Lemma write_lami_after v pad l :
    write_lami enc_s v pad (lami_after_write l) = write_lami enc_s v pad l.
  Proof.
    unfold write_lami, write_lami_body, lami_after_write. cbn [la_info la_glmi la_blocks].
    destruct (la_info l); cbn [option_map opt_w]; [|reflexivity]. now rewrite write_li_after.
  Qed.
  Lemma write_psd_after pad d : write_psd enc_s pad (psd_after_write d) = write_psd enc_s pad d.
  Proof. unfold write_psd, psd_after_write. cbn [p_header p_cmd p_res p_lami p_img]. now rewrite write_lami_after. Qed.
  Lemma psd_after_idem d : psd_after_write (psd_after_write d) = psd_after_write d.
  Proof.
    unfold psd_after_write, lami_after_write. cbn [p_header p_cmd p_res p_lami p_img la_info la_glmi la_blocks].
    destruct (la_info (p_lami d)) as [li|]; cbn [option_map]; [|reflexivity].
    do 3 f_equal. unfold li_after_write. destruct (li_count li =? 0) eqn:E; rewrite ?E; [reflexivity|].
    assert (Hc : li_count (li_update li) = li_count li).
    { destruct li as [count [[|r rs]|] [[|c cs]|]]; reflexivity. }
    rewrite Hc, E. now rewrite li_update_idem.
  Qed.
End WithCodec5.
