(* Stage 3 (5): round trip of Slices / SlicesV6 / SliceV6 under the probe guard (Psd/Slices.v) *)
From PsdV Require Import Base.Prelude Psd.Codec Psd.Model Psd.Proofs Psd.Descriptor Psd.DescriptorProofs Psd.Struct
  Psd.Linked Psd.LinkedProofs Psd.RsrcProofs Psd.Slices.
From Coq Require Import ZArith List Bool Lia ZifyBool.
Import ListNotations.
Open Scope Z_scope.

Lemma wtruth_slice6 t x : wtruth (write_slice6 t x).
Proof.
  unfold write_slice6.
  repeat first [ apply wtruth_seq | apply wtruth_fmt | apply wtruth_unicode | apply wtruth_nil | apply wtruth_dblock
               | (apply wtruth_opt; intros ?) | match goal with |- wtruth (if ?c then _ else _) => destruct c end ].
Qed.
Lemma wtruth_slices t x : wtruth (write_slices t x).
Proof.
  destruct x; cbn [write_slices].
  - repeat apply wtruth_seq; try apply wtruth_fmt; try apply wtruth_unicode. apply wtruth_concat_map, wtruth_slice6.
  - destruct (memz version [7; 8]); [|apply wtruth_err]. apply wtruth_seq; [apply wtruth_fmt|apply wtruth_dblock].
Qed.

(* no block is found where fewer than 4 bytes remain or the next field is not 16 *)
Lemma probe_none_short units t s : len s < 4 -> probe_block units t s = Ok (None, t, s).
Proof. intros H. unfold probe_block, is_readable. replace (4 <=? len s) with false by lia. reflexivity. Qed.
Lemma probe_none_id units t v a r : pack_u 4 v = Ok a -> v <> 16 -> probe_block units t (a ++ r) = Ok (None, t, a ++ r).
Proof.
  intros Ha Hv. unfold probe_block. destruct (is_readable 4 (a ++ r)); [|reflexivity].
  rewrite (read_u_pack _ _ _ _ Ha). cbn [bind]. replace (v =? 16) with false by lia. reflexivity.
Qed.

Lemma slice6_head t y by_ ny : write_slice6 t y = Ok (by_, ny) -> exists a r, pack_u 4 (sl_id y) = Ok a /\ by_ = a ++ r.
Proof.
  unfold write_slice6. intros H.
  repeat (apply w_seq_inv in H as (? & ? & ? & ? & H & _ & -> & _)).
  apply w_fmt_inv in H as [H _]. apply pk_cat_cons_inv in H as (a & y0 & Ha & _ & ->).
  exists a. eexists. split; [exact Ha|]. rewrite <- !app_assoc. reflexivity.
Qed.

Theorem slice6_rt units t x bs n rest :
  wf_terms t = true -> wf_slice6 units x = true -> write_slice6 t x = Ok (bs, n) ->
  (sl_data x = None -> probe_block units t rest = Ok (None, t, rest)) ->
  read_slice6 units t (bs ++ rest) = Ok (x, t, rest).
Proof.
  intros Hw Hwf H Hprobe. unfold wf_slice6 in Hwf. unfold write_slice6 in H.
  destruct x as [id group origin assoc name ty bbox url target message alt html text halign valign argb data].
  cbn [sl_id sl_group sl_origin sl_assoc sl_name sl_type sl_bbox sl_url sl_target sl_message sl_alt sl_html sl_text
       sl_halign sl_valign sl_argb sl_data] in *.
  apply andb_prop in Hwf as [Hwf Hdata]. apply andb_prop in Hwf as [Hassoc Hhtml]. apply eqb_prop in Hassoc.
  apply w_seq_inv in H as (x13 & n13 & b14 & n14 & H & H14 & -> & ->).
  apply w_seq_inv in H as (x12 & n12 & b13 & n13' & H & H13 & -> & ->).
  apply w_seq_inv in H as (x11 & n11 & b12 & n12' & H & H12 & -> & ->).
  apply w_seq_inv in H as (x10 & n10 & b11 & n11' & H & H11 & -> & ->).
  apply w_seq_inv in H as (x9 & n9 & b10 & n10' & H & H10 & -> & ->).
  apply w_seq_inv in H as (x8 & n8 & b9 & n9' & H & H9 & -> & ->).
  apply w_seq_inv in H as (x7 & n7 & b8 & n8' & H & H8 & -> & ->).
  apply w_seq_inv in H as (x6 & n6 & b7 & n7' & H & H7 & -> & ->).
  apply w_seq_inv in H as (x5 & n5 & b6 & n6' & H & H6 & -> & ->).
  apply w_seq_inv in H as (x4 & n4 & b5 & n5' & H & H5 & -> & ->).
  apply w_seq_inv in H as (x3 & n3 & b4 & n4' & H & H4 & -> & ->).
  apply w_seq_inv in H as (x2 & n2 & b3 & n3' & H & H3 & -> & ->).
  apply w_seq_inv in H as (b1 & n1 & b2 & n2' & H1 & H2 & -> & ->).
  apply w_fmt_inv in H1 as [H1 _]. open_pk H1. apply w_fmt_inv in H4 as [H4 _]. apply w_fmt_inv in H5 as [H5 _].
  apply w_fmt_inv in H10 as [H10 _]. apply w_fmt_inv in H12 as [H12 _]. open_pk H12. apply w_fmt_inv in H13 as [H13 _].
  unfold read_slice6. rewrite <- !app_assoc. steps.
  (* associated id *)
  match goal with |- context [r_opt (origin =? 1) (read_u 4) (b2 ++ ?r)] =>
    assert (Ha : r_opt (origin =? 1) (read_u 4) (b2 ++ r) = Ok (assoc, r))
  end.
  { destruct (origin =? 1) eqn:Eo.
    - apply (opt_rt assoc _ (read_u 4) true b2 n2' _ Hassoc (fun a b0 m rs _ Hx => read_u_pack 4 a b0 rs (proj1 (w_fmt_inv _ _ _ Hx))) H2).
    - inversion H2; subst b2 n2'. destruct assoc; [discriminate|]. reflexivity. }
  rewrite Ha. clear Ha. cbn [bind].
  rewrite (unicode1_rt name b3 n3' _ H3). cbn [bind]. steps.
  rewrite (fields_rt L_4I bbox b5 _ (wf_fields_plain L_4I eq_refl bbox) H5). cbn [bind].
  rewrite (unicode1_rt url b6 n6' _ H6). cbn [bind]. rewrite (unicode1_rt target b7 n7' _ H7). cbn [bind].
  rewrite (unicode1_rt message b8 n8' _ H8). cbn [bind]. rewrite (unicode1_rt alt b9 n9' _ H9). cbn [bind].
  rewrite (fields_rt [FB] [html] b10 _ ltac:(cbn [wf_fields]; now rewrite Hhtml) H10). cbn [bind].
  rewrite (unicode1_rt text b11 n11' _ H11). cbn [bind]. rewrite <- ?app_assoc. steps.
  rewrite (fields_rt L_4B argb b13 _ (wf_fields_plain L_4B eq_refl argb) H13). cbn [bind nth].
  destruct data as [blk|].
  - apply andb_prop in Hdata as [Hblk Hcid]. cbn [w_opt] in H14. destruct blk as [v d|]; [|discriminate].
    cbn [wf_opt_dblock] in Hblk.
    pose proof (dblock_s_rt units t v d b14 n14 rest Hw Hblk H14) as Hrd.
    assert (Hv : v = 16 /\ exists a r, pack_u 4 v = Ok a /\ b14 = a ++ r).
    { cbn [wf_dblock] in Hblk. apply andb_prop in Hblk as [Hb _]. apply andb_prop in Hb as [Hb _]. split; [lia|].
      cbn [write_dblock] in H14. apply w_then_pad_inv in H14 as (y & ny & Hy & -> & _).
      apply w_seq_inv in Hy as (a & na & r & nr & Ha & _ & -> & _). apply w_fmt_inv in Ha as [Ha _].
      exists a. eexists. split; [exact Ha|]. rewrite <- app_assoc. reflexivity. }
    destruct Hv as (-> & a & r & Ha & Eb).
    unfold probe_block. unfold is_readable.
    replace (4 <=? len (b14 ++ rest)) with true by (subst b14; len_lia).
    rewrite Hrd. rewrite Eb at 1. rewrite <- app_assoc. rewrite (read_u_pack _ _ _ _ Ha). cbn [bind]. change (16 =? 16) with true. cbv iota.
    apply negb_true_iff in Hcid. rewrite Hcid. reflexivity.
  - inversion H14; subst b14 n14. cbn [app]. rewrite (Hprobe eq_refl). reflexivity.
Qed.

Theorem slices6_rt units t : wf_terms t = true -> forall l bs n tail,
  forallb (wf_slice6 units) l = true -> probe_guard l = true -> w_concat (map (write_slice6 t) l) = Ok (bs, n) ->
  probe_block units t tail = Ok (None, t, tail) ->
  read_slices6 (length l) units t (bs ++ tail) = Ok (l, t, tail).
Proof.
  intros Hw. induction l as [|x l IH]; intros bs n tail Hwf Hg H Htail.
  - apply w_concat_nil_inv in H as [-> _]. reflexivity.
  - apply w_concat_cons_inv in H as (b1 & n1 & b2 & n2 & Hx & Hl & -> & ->).
    cbn [forallb] in Hwf. apply andb_prop in Hwf as [Hwx Hwl].
    cbn [length read_slices6]. rewrite <- app_assoc.
    rewrite (slice6_rt units t x b1 n1 (b2 ++ tail) Hw Hwx Hx).
    + cbn [bind fst snd]. rewrite (IH b2 n2 tail Hwl); [reflexivity| |exact Hl|exact Htail].
      destruct l; [reflexivity|]. cbn [probe_guard] in Hg. apply andb_prop in Hg as [_ Hg]. exact Hg.
    + intros Hnone. destruct l as [|y l'].
      * apply w_concat_nil_inv in Hl as [-> _]. exact Htail.
      * cbn [probe_guard] in Hg. apply andb_prop in Hg as [Hxy _]. rewrite Hnone in Hxy. cbn [is_some orb] in Hxy.
        apply w_concat_cons_inv in Hl as (c1 & m1 & c2 & m2 & Hy & _ & -> & _).
        destruct (slice6_head t y c1 m1 Hy) as (a & r & Ha & ->). rewrite <- !app_assoc.
        apply (probe_none_id units t (sl_id y) a _ Ha). lia.
Qed.

Lemma slice6_len t x bs n : write_slice6 t x = Ok (bs, n) -> 1 <= len bs.
Proof. intros H. destruct (slice6_head t x bs n H) as (a & r & Ha & ->). len_lia. Qed.

Theorem slices_rt units t x bs n :
  wf_terms t = true -> wf_slices units x = true -> write_slices t x = Ok (bs, n) -> read_slices units t bs = Ok (x, t).
Proof.
  intros Hw Hwf H. destruct x as [bbox name items|v blk]; cbn [wf_slices write_slices] in *.
  - apply andb_prop in Hwf as [Hitems Hg].
    apply w_seq_inv in H as (x4 & n4 & b5 & n5 & H & H5 & -> & ->).
    apply w_seq_inv in H as (x3 & n3 & b4 & n4' & H & H4 & -> & ->).
    apply w_seq_inv in H as (x2 & n2 & b3 & n3' & H & H3 & -> & ->).
    apply w_seq_inv in H as (b1 & n1 & b2 & n2' & H1 & H2 & -> & ->).
    apply w_fmt_inv in H1 as [H1 _]. apply w_fmt_inv in H2 as [H2 _]. apply w_fmt_inv in H4 as [H4 _].
    unfold read_slices. rewrite <- !app_assoc. steps. change (negb (memz 6 [6; 7; 8])) with false. cbv iota. change (6 =? 6) with true. cbv iota.
    rewrite (fields_rt L_4I bbox b2 _ (wf_fields_plain L_4I eq_refl bbox) H2). cbn [bind].
    rewrite (unicode1_rt name b3 n3' _ H3). cbn [bind]. steps.
    pose proof (concat_len_ge (write_slice6 t) (slice6_len t) items b5 n5 H5) as Hlen.
    replace (Z.to_nat (Z.min (len items) (len b5 + 1))) with (length items) by (unfold len in *; lia).
    rewrite <- (app_nil_r b5).
    rewrite (slices6_rt units t Hw items b5 n5 [] Hitems Hg H5 (probe_none_short units t [] ltac:(cbn; lia))). reflexivity.
  - apply andb_prop in Hwf as [Hv Hblk]. rewrite Hv in H.
    apply w_seq_inv in H as (a & na & b & nb & Ha & Hb & -> & ->). apply w_fmt_inv in Ha as [Ha _].
    destruct blk as [bv d|]; [|discriminate]. cbn [wf_opt_dblock] in Hblk.
    unfold read_slices. steps.
    assert (Hm : memz v [6; 7; 8] = true) by (unfold memz in *; cbn [existsb] in *; lia). rewrite Hm. cbn [negb].
    assert (Hn6 : (v =? 6) = false) by (unfold memz in Hv; cbn [existsb] in Hv; lia). rewrite Hn6.
    rewrite <- (app_nil_r b). rewrite (dblock_s_rt units t bv d b nb [] Hw Hblk Hb). reflexivity.
Qed.
