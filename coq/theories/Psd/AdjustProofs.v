(* Round trips of the adjustment payload classes (Psd/Adjust.v). *)
From PsdV Require Import Base.Prelude Psd.Codec Psd.Model Psd.Proofs Psd.Leaf Psd.LeafProofs Psd.Descriptor
  Psd.DescriptorProofs Psd.WalkProofs Psd.Struct Psd.Adjust.
From Coq Require Import ZArith List Bool Lia ZifyBool.
Import ListNotations.
Open Scope Z_scope.

Lemma unpack_app h : forall t s,
  unpack_fields (h ++ t) s =
  do (a, s1) <- unpack_fields h s; do (b, s2) <- unpack_fields t s1; Ok (a ++ b, s2).
Proof.
  induction h as [|f h IH]; intros t s.
  - cbn [app unpack_fields bind]. destruct (unpack_fields t s) as [[b s2]|]; reflexivity.
  - destruct f as [n|n|n|]; cbn [app unpack_fields].
    + destruct (read_u n s) as [[v s1]|]; [|reflexivity]. cbn [bind]. rewrite IH.
      destruct (unpack_fields h s1) as [[a s2]|]; [|reflexivity]. cbn [bind].
      destruct (unpack_fields t s2) as [[b s3]|]; reflexivity.
    + destruct (read_s n s) as [[v s1]|]; [|reflexivity]. cbn [bind]. rewrite IH.
      destruct (unpack_fields h s1) as [[a s2]|]; [|reflexivity]. cbn [bind].
      destruct (unpack_fields t s2) as [[b s3]|]; reflexivity.
    + destruct (take (Z.of_nat n) s) as [[v s1]|]; [|reflexivity]. cbn [bind]. apply IH.
    + destruct (read_u 1 s) as [[v s1]|]; [|reflexivity]. cbn [bind]. rewrite IH.
      destruct (unpack_fields h s1) as [[a s2]|]; [|reflexivity]. cbn [bind].
      destruct (unpack_fields t s2) as [[b s3]|]; reflexivity.
Qed.
Lemma unpack_app_inv h t s vals r : unpack_fields (h ++ t) s = Ok (vals, r) ->
  exists a s1 b, unpack_fields h s = Ok (a, s1) /\ unpack_fields t s1 = Ok (b, r) /\ vals = a ++ b.
Proof.
  rewrite unpack_app. destruct (unpack_fields h s) as [[a s1]|] eqn:E1; [|discriminate]. cbn [bind].
  destruct (unpack_fields t s1) as [[b s2]|] eqn:E2; [|discriminate]. cbn [bind]. intros H; inversion H; subst.
  exists a, s1, b. split; [reflexivity|]. split; [exact E2|reflexivity].
Qed.

Lemma wtruth_astruct pad k vals : wtruth (write_astruct pad k vals).
Proof. unfold write_astruct. destruct (astruct_layout k vals). apply wtruth_then_pad, wtruth_fmt. Qed.

Lemma unpack_FU_cons n h s a s1 : unpack_fields (FU n :: h) s = Ok (a, s1) -> exists v a', a = v :: a'.
Proof.
  cbn [unpack_fields]. destruct (read_u n s) as [[v r]|]; [|discriminate]. cbn [bind].
  destruct (unpack_fields h r) as [[a' r']|]; [|discriminate]. cbn [bind]. intros H; inversion H. eauto.
Qed.

Theorem astruct_rt pad k vals bs n :
  wf_astruct k vals = true -> write_astruct pad k vals = Ok (bs, n) -> read_astruct k bs = Ok vals.
Proof.
  intros Hwf H. unfold write_astruct, wf_astruct in *.
  destruct (astruct_layout k vals) as [h t] eqn:El. apply andb_prop in Hwf as [Hf Hv].
  apply w_then_pad_inv in H as (x & nx & Hx & -> & _). apply w_fmt_inv in Hx as [Hx _].
  pose proof (fields_rt (h ++ t) vals x (zeros (Z.to_nat (pad_count nx (astruct_pad k pad)))) Hf Hx) as Hr.
  apply unpack_app_inv in Hr as (a & s1 & b & Ha & Hb & Hvals).
  unfold read_astruct.
  destruct k; cbn [astruct_layout] in El; inversion El; subst h t; clear El; cbn [astruct_layout fst snd];
    rewrite Ha; cbn [bind].
  - rewrite Hb. cbn [bind]. now subst.
  - rewrite Hb. cbn [bind]. now subst.
  - rewrite Hb. cbn [bind]. now subst.
  - destruct (unpack_FU_cons _ _ _ _ _ Ha) as (v & a' & ->). subst vals. cbn [app hd] in Hv |- *.
    rewrite Hv. cbn [bind]. rewrite Hb. reflexivity.
  - destruct (unpack_FU_cons _ _ _ _ _ Ha) as (v & a' & ->). subst vals. cbn [app hd] in Hv |- *.
    rewrite Hb. cbn [bind]. rewrite Hv. reflexivity.
  - destruct (unpack_FU_cons _ _ _ _ _ Ha) as (v & a' & ->). subst vals. cbn [app hd] in Hv, Hb |- *.
    rewrite Hv. cbn [bind]. rewrite Hb. reflexivity.
Qed.

(* ------------------------------------------------------------------ ChannelMixer *)
Theorem mixer_rt vals tail bs n :
  wf_fields L_mixr vals = true -> hd 0 vals = 1 -> write_mixer vals tail = Ok (bs, n) -> read_mixer bs = Ok (vals, tail).
Proof.
  intros Hf Hv H. unfold write_mixer in H. apply w_seq_inv in H as (a & na & b & nb & Ha & Hb & -> & ->).
  apply w_fmt_inv in Ha as [Ha _]. apply w_bytes_inv in Hb as [-> _].
  unfold read_mixer. rewrite (fields_rt _ _ _ _ Hf Ha). cbn [bind]. rewrite Hv. reflexivity.
Qed.

(* ------------------------------------------------------------------ Levels *)
Lemma firstn_forallb {A} (f : A -> bool) n l : forallb f l = true -> forallb f (firstn n l) = true.
Proof. revert l; induction n; intros [|x l] H; cbn in *; auto. apply andb_prop in H as [H1 H2]. now rewrite H1, IHn. Qed.
Lemma skipn_forallb {A} (f : A -> bool) n l : forallb f l = true -> forallb f (skipn n l) = true.
Proof. revert l; induction n; intros [|x l] H; cbn in *; auto. apply andb_prop in H as [H1 H2]. now apply IHn. Qed.
Lemma wf_level_rows rows : forallb (wf_fields L_level) rows = true.
Proof. induction rows as [|r rows IH]; [reflexivity|]. cbn [forallb]. rewrite IH, andb_true_r.
  destruct r as [|a [|b [|c [|d [|e r]]]]]; reflexivity. Qed.

Theorem levels_rt version recs extra bs n :
  wf_levels version recs extra = true -> write_levels version recs extra = Ok (bs, n) ->
  read_levels bs = Ok (version, recs, extra).
Proof.
  intros Hwf H. unfold wf_levels in Hwf. apply andb_prop in Hwf as [Hwf Hex]. apply andb_prop in Hwf as [Hv Hn].
  unfold write_levels in H. rewrite Hn in H.
  apply w_then_pad_inv in H as (x & nx & Hx & -> & Hnx).
  apply w_seq_inv in Hx as (b12 & n12 & b3 & n3 & Hx & H3 & -> & ->).
  apply w_seq_inv in Hx as (b1 & n1 & b2 & n2 & H1 & H2 & -> & ->).
  apply w_fmt_inv in H1 as [H1 ->]. apply w_fmt_inv in H2 as [H2 ->].
  match goal with |- context [zeros (Z.to_nat (pad_count ?q 4))] =>
    pose proof (pad_count_range q 4 ltac:(lia)) as Hpad; set (kz := Z.to_nat (pad_count q 4)) in * end.
  assert (Hkz : Z.of_nat kz < 4) by (unfold kz; lia). clearbody kz. clear Hpad Hnx.
  assert (Hl29 : length (firstn 29 recs) = 29%nat) by (rewrite firstn_length; unfold len in Hn; lia).
  pose proof (rows_len _ _ _ H2) as Hlen2. unfold len in Hlen2 at 2. rewrite Hl29 in Hlen2. cbn in Hlen2.
  unfold read_levels. rewrite <- !app_assoc. steps. rewrite Hv. cbn [negb].
  rewrite <- Hl29 at 1. rewrite (rows_rt L_level _ b2 _ (wf_level_rows _) H2). cbn [bind].
  destruct extra as [ev|].
  - apply w_seq_inv in H3 as (c12 & m12 & c3 & m3 & H3 & Hc3 & -> & ->).
    apply w_seq_inv in H3 as (c1 & m1 & c2 & m2 & Hc1 & Hc2 & -> & ->).
    apply w_fmt_inv in Hc1 as [Hc1 ->]. apply w_fmt_inv in Hc2 as [Hc2 ->]. apply w_fmt_inv in Hc3 as [Hc3 ->]. open_pk Hc1.
    assert (Hr6 : is_readable 6 ((((x ++ x0 ++ []) ++ c2) ++ c3) ++ zeros kz) = true)
      by (unfold is_readable; len_lia).
    rewrite Hr6. rewrite <- !app_assoc. steps. unfold sig_Lvls at 1. cbn [negb Z.eqb Pos.eqb].
    rewrite Hex. cbn [negb]. steps.
    replace (Z.to_nat (len recs - 29)) with (length (skipn 29 recs)) by (rewrite skipn_length; unfold len; lia).
    rewrite (rows_rt L_level _ c3 _ (wf_level_rows _) Hc3). cbn [bind].
    rewrite firstn_skipn. apply Z.eqb_eq in Hex, Hv. now subst.
  - inversion H3; subst. cbn [app].
    assert (Hr6 : is_readable 6 (zeros kz) = false) by (unfold is_readable; rewrite len_zeros; lia).
    rewrite Hr6. apply Z.eqb_eq in Hex. apply Z.eqb_eq in Hv. subst.
    rewrite firstn_all2 by (unfold len in Hex; lia). reflexivity.
Qed.

(* ------------------------------------------------------------------ Curves *)
Lemma pk_cat_len k vals : forall b, pk_cat (map (pack_u k) vals) = Ok b -> len b = len vals * Z.of_nat k.
Proof.
  induction vals as [|v vals IH]; intros b H.
  - apply pk_cat_nil_inv in H as ->. reflexivity.
  - cbn [map] in H. apply pk_cat_cons_inv in H as (x & y & Hx & Hy & ->).
    rewrite len_app, len_cons, (IH y Hy), (pack_u_len _ _ _ Hx). lia.
Qed.

Lemma points_rt c bs n rest : even_len c = true -> w_points c = Ok (bs, n) ->
  r_points (bs ++ rest) = Ok (c, rest) /\ 2 <= len bs.
Proof.
  intros He H. unfold w_points in H. apply w_seq_inv in H as (a & na & b & nb & Ha & Hb & -> & ->).
  apply w_fmt_inv in Ha as [Ha ->]. apply w_fmt_inv in Hb as [Hb ->]. split; [|len_lia].
  unfold r_points. rewrite <- app_assoc. steps. unfold even_len in He.
  replace (Z.to_nat (2 * (len c / 2))) with (length c).
  2:{ pose proof (Z.div_mod (len c) 2 ltac:(lia)). unfold len in *. lia. }
  apply (read_n_pack_u 2 c b rest Hb).
Qed.
Lemma map256_rt m bs n rest : w_map256 m = Ok (bs, n) -> r_map256 (bs ++ rest) = Ok (m, rest) /\ len bs = 256.
Proof.
  unfold w_map256. intros H. apply w_fmt_inv in H as [H ->].
  destruct (length m =? 256)%nat eqn:E; [|discriminate]. apply Nat.eqb_eq in E. split.
  - unfold r_map256. rewrite <- E. apply (read_n_pack_u 1 m bs rest H).
  - rewrite (pk_cat_len 1 m bs H). unfold len. lia.
Qed.

Definition wf_curve (is_map : bool) (x : list Z) : bool :=
  if is_map then (length x =? 256)%nat else even_len x && (2 <=? len x / 2) && (len x / 2 <=? 19).

Lemma curve_list_rt is_map data : forall bs n rest,
  forallb (wf_curve is_map) data = true ->
  w_concat (map (if is_map then w_map256 else w_points) data) = Ok (bs, n) ->
  read_curve_list (length data) is_map (bs ++ rest) = Ok (data, rest) /\ len data <= len bs.
Proof.
  induction data as [|c data IH]; intros bs n rest Hwf H.
  - apply w_concat_nil_inv in H as [-> _]. split; reflexivity.
  - apply w_concat_cons_inv in H as (b1 & n1 & b2 & n2 & Hc & Hl & -> & ->).
    cbn [forallb] in Hwf. apply andb_prop in Hwf as [Hc1 Hwl].
    destruct (IH b2 n2 rest Hwl Hl) as [Hr Hlen]. cbn [length read_curve_list]. rewrite <- app_assoc.
    unfold wf_curve in Hc1. destruct is_map.
    + destruct (map256_rt c b1 n1 (b2 ++ rest) Hc) as [Hm Hl1]. rewrite Hm. cbn [bind]. rewrite Hr.
      split; [reflexivity|]. rewrite len_cons, len_app. lia.
    + apply andb_prop in Hc1 as [Hc1 Hhi]. apply andb_prop in Hc1 as [He Hlo].
      destruct (points_rt c b1 n1 (b2 ++ rest) He Hc) as [Hp Hl1].
      unfold r_points in Hp. destruct (read_u 2 (b1 ++ b2 ++ rest)) as [[pc a]|] eqn:Epc; [|discriminate].
      cbn [bind] in Hp |- *.
      assert (Hpc : pc = len c / 2).
      { unfold w_points in Hc. apply w_seq_inv in Hc as (x & nx & y & ny & Hx & Hy & Hb1 & _).
        apply w_fmt_inv in Hx as [Hx _]. subst b1. rewrite <- app_assoc in Epc. rewrite (read_u_pack _ _ _ _ Hx) in Epc.
        inversion Epc. reflexivity. }
      rewrite Hpc, Hlo, Hhi. cbn [andb]. rewrite <- Hpc, Hp. cbn [bind]. rewrite Hr.
      split; [reflexivity|]. rewrite len_cons, len_app. lia.
Qed.

Definition wf_item (is_map : bool) (it : extra_item) : bool :=
  let '(_, as_map, vals) := it in
  Bool.eqb as_map is_map && (if as_map then (length vals =? 256)%nat else even_len vals).

Lemma extra_item_rt is_map it bs n rest : wf_item is_map it = true -> w_extra_item it = Ok (bs, n) ->
  r_extra_item is_map (bs ++ rest) = Ok (it, rest) /\ 2 <= len bs.
Proof.
  destruct it as [[ch am] vals]. unfold wf_item, w_extra_item. intros Hwf H.
  apply andb_prop in Hwf as [Hm Hv]. apply eqb_prop in Hm. subst am.
  apply w_seq_inv in H as (a & na & b & nb & Ha & Hb & -> & ->). apply w_fmt_inv in Ha as [Ha ->].
  split; [|len_lia]. unfold r_extra_item. rewrite <- app_assoc. steps.
  destruct is_map.
  - destruct (map256_rt vals b nb rest Hb) as [Hr _]. rewrite Hr. reflexivity.
  - destruct (points_rt vals b nb rest Hv Hb) as [Hr _]. rewrite Hr. reflexivity.
Qed.
Lemma extra_items_rt is_map items : forall bs n rest,
  forallb (wf_item is_map) items = true -> w_concat (map w_extra_item items) = Ok (bs, n) ->
  read_n (length items) (r_extra_item is_map) (bs ++ rest) = Ok (items, rest) /\ len items <= len bs.
Proof.
  induction items as [|it items IH]; intros bs n rest Hwf H.
  - apply w_concat_nil_inv in H as [-> _]. split; reflexivity.
  - apply w_concat_cons_inv in H as (b1 & n1 & b2 & n2 & Hc & Hl & -> & ->).
    cbn [forallb] in Hwf. apply andb_prop in Hwf as [Hc1 Hwl].
    destruct (IH b2 n2 rest Hwl Hl) as [Hr Hlen]. destruct (extra_item_rt is_map it b1 n1 (b2 ++ rest) Hc1 Hc) as [Hi Hl1].
    cbn [length read_n]. rewrite <- app_assoc. rewrite Hi. cbn [bind]. rewrite Hr.
    split; [reflexivity|]. rewrite len_cons, len_app. lia.
Qed.

Lemma wtruth_curve_list (is_map : bool) data : wtruth (w_concat (map (if is_map then w_map256 else w_points) data)).
Proof.
  apply wtruth_concat_map. intros a. destruct is_map; [apply wtruth_fmt|]. apply wtruth_seq; apply wtruth_fmt.
Qed.
Lemma wtruth_extra_items items : wtruth (w_concat (map w_extra_item items)).
Proof.
  apply wtruth_concat_map. intros [[ch am] vals]. unfold w_extra_item. apply wtruth_seq; [apply wtruth_fmt|].
  destruct am; [apply wtruth_fmt|]. apply wtruth_seq; apply wtruth_fmt.
Qed.
Lemma wtruth_curves c : wtruth (write_curves c).
Proof.
  unfold write_curves. apply wtruth_then_pad. apply wtruth_seq; [apply wtruth_seq; [apply wtruth_fmt|apply wtruth_curve_list]|].
  destruct (cv_extra c) as [[mv items]|]; [|apply wtruth_nil]. apply wtruth_seq; [apply wtruth_fmt|apply wtruth_extra_items].
Qed.

Theorem curves_rt c bs n : wf_curves c = true -> write_curves c = Ok (bs, n) -> read_curves bs = Ok c.
Proof.
  intros Hwf H. destruct c as [is_map version cm data extra]. unfold wf_curves in Hwf. unfold write_curves in H.
  cbn [cv_is_map cv_version cv_count_map cv_data cv_extra] in *.
  apply andb_prop in Hwf as [Hwf Hex]. apply andb_prop in Hwf as [Hwf Hdata]. apply andb_prop in Hwf as [Hver Hcount].
  apply w_then_pad_inv in H as (x & nx & Hx & -> & _).
  apply w_seq_inv in Hx as (b12 & n12 & b3 & n3 & Hx & H3 & -> & ->).
  apply w_seq_inv in Hx as (b1 & n1 & b2 & n2 & H1 & H2 & -> & ->).
  apply w_fmt_inv in H1 as [H1 ->]. open_pk H1.
  match goal with |- context [zeros (Z.to_nat (pad_count ?q 4))] =>
    pose proof (pad_count_range q 4 ltac:(lia)) as Hpad; set (kz := Z.to_nat (pad_count q 4)) in * end.
  assert (Hkz : Z.of_nat kz < 4) by (unfold kz; lia). clearbody kz. clear Hpad.
  destruct (curve_list_rt is_map data b2 n2 (b3 ++ zeros kz) Hdata H2) as [Hcl Hlen].
  unfold read_curves. rewrite <- !app_assoc. steps.
  replace (negb ((if is_map then 1 else 0) =? 0)) with is_map by (destruct is_map; reflexivity).
  rewrite Hver. cbn [negb].
  set (count := if version =? 1 then popcount 32 cm else cm) in *.
  apply Z.eqb_eq in Hcount.
  replace (Z.to_nat (Z.min count (len (b2 ++ b3 ++ zeros kz) + 1))) with (length data).
  2:{ rewrite Z.min_l by (rewrite len_app; pose_nonneg; lia). rewrite <- Hcount. symmetry. apply to_nat_len. }
  rewrite Hcl. cbn [bind]. rewrite Hcount, Z.eqb_refl. cbn [negb].
  destruct extra as [[mv items]|].
  - apply andb_prop in Hex as [Hex Hitems]. apply andb_prop in Hex as [Hv1 Hmv]. rewrite Hv1.
    apply w_seq_inv in H3 as (c1 & m1 & c2 & m2 & Hc1 & Hc2 & -> & ->). apply w_fmt_inv in Hc1 as [Hc1 ->]. open_pk Hc1.
    destruct (extra_items_rt is_map items c2 m2 (zeros kz) Hitems Hc2) as [Hri Hleni].
    unfold read_marker. rewrite <- !app_assoc. steps. unfold sig_Crv at 1. cbn [negb Z.eqb Pos.eqb].
    replace (Z.to_nat (Z.min (len items) (len (c2 ++ zeros kz) + 1))) with (length items).
    2:{ rewrite Z.min_l by (rewrite len_app; pose_nonneg; lia). symmetry. apply to_nat_len. }
    rewrite Hri. cbn [bind]. rewrite Z.eqb_refl. cbn [negb]. rewrite Hmv. reflexivity.
  - inversion H3; subst. cbn [app].
    destruct (version =? 1) eqn:Ev1; [|reflexivity].
    unfold read_marker, read_u. unfold take. rewrite len_zeros. change (Z.of_nat 4) with 4.
    replace ((0 <=? 4) && (4 <=? Z.of_nat kz)) with false by lia. reflexivity.
Qed.

(* ------------------------------------------------------------------ GradientMap *)
Lemma wf_rows_U sp rows : (forall f, In f sp -> match f with FU _ | FX _ => True | _ => False end) ->
  forallb (wf_fields sp) rows = true.
Proof.
  intros Hsp. induction rows as [|r rows IH]; [reflexivity|]. cbn [forallb]. rewrite IH, andb_true_r. clear IH.
  revert r. induction sp as [|f sp IHs]; intros r; [reflexivity|].
  assert (Hf := Hsp f (or_introl eq_refl)). assert (Hsp' : forall g, In g sp -> match g with FU _ | FX _ => True | _ => False end)
    by (intros g Hg; apply Hsp; now right).
  destruct f; try contradiction; cbn [wf_fields]; [destruct r; [reflexivity|]|]; apply (IHs Hsp').
Qed.
Ltac all_U := intros f Hf; cbn in Hf; repeat (destruct Hf as [<-|Hf]; [exact I|]); destruct Hf.

Lemma wtruth_gradient g : wtruth (write_gradient g).
Proof.
  unfold write_gradient. apply wtruth_then_pad.
  repeat (apply wtruth_seq; [|first [apply wtruth_fmt | apply wtruth_unicode | apply wtruth_if; [apply wtruth_fmt|apply wtruth_nil]]]).
  apply wtruth_fmt.
Qed.

Theorem gradient_rt g bs n : wf_gradient g = true -> write_gradient g = Ok (bs, n) -> read_gradient bs = Ok g.
Proof.
  intros Hwf H. destruct g as [head method name cst tst tail]. unfold wf_gradient in Hwf. unfold write_gradient in H.
  cbn [gm_head gm_method gm_name gm_cstops gm_tstops gm_tail] in *.
  apply andb_prop in Hwf as [Hwf Hlen]. apply andb_prop in Hwf as [Hwf Hexp]. apply andb_prop in Hwf as [Hwf Hm1].
  apply andb_prop in Hwf as [Hver Hmeth].
  apply w_then_pad_inv in H as (x & nx & Hx & -> & _).
  apply w_seq_inv in Hx as (p7 & q7 & b8 & n8 & Hx & H8 & -> & ->).
  apply w_seq_inv in Hx as (p6 & q6 & b7 & n7 & Hx & H7 & -> & ->).
  apply w_seq_inv in Hx as (p5 & q5 & b6 & n6 & Hx & H6 & -> & ->).
  apply w_seq_inv in Hx as (p4 & q4 & b5 & n5 & Hx & H5 & -> & ->).
  apply w_seq_inv in Hx as (p3 & q3 & b4 & n4 & Hx & H4 & -> & ->).
  apply w_seq_inv in Hx as (p2 & q2 & b3 & n3 & Hx & H3 & -> & ->).
  apply w_seq_inv in Hx as (b1 & n1 & b2 & n2 & H1 & H2 & -> & ->).
  apply w_fmt_inv in H1 as [H1 _]. apply w_fmt_inv in H4 as [H4 _]. apply w_fmt_inv in H5 as [H5 _].
  apply w_fmt_inv in H6 as [H6 _]. apply w_fmt_inv in H7 as [H7 _]. apply w_fmt_inv in H8 as [H8 _].
  match goal with |- context [zeros (Z.to_nat (pad_count ?q 4))] => set (kz := Z.to_nat (pad_count q 4)) in * end. clearbody kz.
  unfold read_gradient. rewrite <- !app_assoc.
  rewrite (fields_rt [FU 2; FU 1; FU 1] head b1 _ ltac:(destruct head as [|? [|? [|? ?]]]; reflexivity) H1). cbn [bind].
  rewrite Hver. cbn [negb].
  match goal with |- bind ?m _ = _ => assert (Hm : m = Ok (method, b3 ++ b4 ++ b5 ++ b6 ++ b7 ++ b8 ++ zeros kz)) end.
  { destruct (hd 0 head =? 3) eqn:E3.
    - apply w_fmt_inv in H2 as [H2 _]. now rewrite (read_u_pack _ _ _ _ H2).
    - inversion H2; subst. cbn [app orb] in *. apply Z.eqb_eq in Hm1. now subst. }
  rewrite Hm. cbn [bind]. rewrite (unicode1_rt name b3 n3 _ H3). cbn [bind]. steps. rewrite to_nat_len.
  rewrite (rows_rt L_cstop cst b5 _ (wf_rows_U L_cstop cst ltac:(all_U)) H5). cbn [bind]. steps. rewrite to_nat_len.
  rewrite (rows_rt L_tstop tst b7 _ (wf_rows_U L_tstop tst ltac:(all_U)) H7). cbn [bind].
  pose proof (fields_rt L_gtail tail b8 (zeros kz)
                (ltac:(clear; revert tail; assert (X := wf_rows_U L_gtail) ; intros tail; specialize (X [tail] ltac:(all_U)); cbn [forallb] in X; now rewrite andb_true_r in X)) H8) as Hr.
  change L_gtail with ([FU 2; FU 2; FU 2; FU 2] ++ skipn 4 L_gtail) in Hr.
  apply unpack_app_inv in Hr as (t1 & s1 & t2 & Ht1 & Ht2 & Htail).
  rewrite Ht1. cbn [bind].
  assert (Hhd : hd 0 t1 = hd 0 tail).
  { destruct (unpack_FU_cons _ _ _ _ _ Ht1) as (v & a' & ->). subst tail. reflexivity. }
  rewrite Hhd, Hexp. cbn [negb]. rewrite Ht2. cbn [bind]. rewrite <- Htail, Hmeth, Hlen. reflexivity.
Qed.

(* ------------------------------------------------------------------ ColorLookup *)
Lemma wtruth_color_lookup t pad ver dv d : wtruth (write_color_lookup t pad ver dv d).
Proof. unfold write_color_lookup. apply wtruth_then_pad, wtruth_seq; [apply wtruth_fmt|apply wtruth_dval]. Qed.
Theorem color_lookup_rt units t pad ver d bs n :
  wf_terms t = true -> wf_dval units d = true -> ostype_of d = OS_Objc ->
  write_color_lookup t pad ver 16 d = Ok (bs, n) -> read_color_lookup units t bs = Ok (ver, 16, d, t).
Proof.
  intros Hw Hd Hos H. unfold write_color_lookup in H. apply w_then_pad_inv in H as (x & nx & Hx & -> & _).
  apply w_seq_inv in Hx as (a & na & b & nb & Ha & Hb & -> & ->). apply w_fmt_inv in Ha as [Ha _]. open_pk Ha.
  unfold read_color_lookup. rewrite <- !app_assoc. steps.
  pose proof (dsize_le t _ _ _ Hb) as Hsz. rewrite <- Hos.
  rewrite (dval_rt units t Hw d Hd b nb _ _ Hb) by (rewrite app_length; lia). reflexivity.
Qed.

(* ------------------------------------------------------------------ all classes *)
Lemma wtruth_adj pad a : wtruth (write_adj pad a).
Proof.
  destruct a; cbn [write_adj].
  - apply wtruth_astruct.
  - apply wtruth_seq; [apply wtruth_fmt|apply wtruth_bytes].
  - unfold write_levels. apply wtruth_then_pad. apply wtruth_seq; [apply wtruth_seq; [apply wtruth_fmt|apply wtruth_if; [apply wtruth_fmt|apply wtruth_err]]|].
    destruct extra; [|apply wtruth_nil]. repeat apply wtruth_seq; apply wtruth_fmt.
  - apply wtruth_curves.
  - apply wtruth_gradient.
Qed.
Theorem adj_rt pad a bs n : wf_adj a = true -> write_adj pad a = Ok (bs, n) -> reread_adj a bs = Ok a.
Proof.
  intros Hwf H. destruct a; cbn [write_adj reread_adj wf_adj] in *.
  - now rewrite (astruct_rt pad k vals bs n Hwf H).
  - apply andb_prop in Hwf as [Hf Hv]. apply Z.eqb_eq in Hv. now rewrite (mixer_rt vals tail bs n Hf Hv H).
  - now rewrite (levels_rt version recs extra bs n Hwf H).
  - now rewrite (curves_rt c bs n Hwf H).
  - now rewrite (gradient_rt g bs n Hwf H).
Qed.
