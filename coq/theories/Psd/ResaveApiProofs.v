(* C02 at the PSDImage level - lemmas (Tree/BuildProofs.v is used read-only). *)
From PsdV Require Import Base.Prelude Psd.Codec Psd.Model Psd.Proofs Psd.Leaf Psd.Resave Psd.ResaveProofs Psd.ResaveApi.
From PsdV Require Tree.Forest Tree.Build Tree.BuildProofs.
From Coq Require Import ZArith List Bool Lia.
Import ListNotations.
Open Scope Z_scope.

Module BP := Tree.BuildProofs.

(* identities are positions *)
Fixpoint zseq (i : Z) (n : nat) : list Z := match n with O => [] | S n' => i :: zseq (i + 1) n' end.
Lemma api_records_ids : forall l i rs, api_records_from i l = Ok rs -> map B.rid rs = zseq i (length l).
Proof.
  induction l as [|r l IH]; intros i rs H; cbn [api_records_from] in H.
  - inversion H. reflexivity.
  - dres1 H as s Es. dres1 H as ns En. dres1 H as t Et. inversion H; subst.
    cbn [map B.rid length zseq]. now rewrite (IH _ _ Et).
Qed.
Lemma pick_zseq {A} (l : list A) : forall pre, pick (pre ++ l) (zseq (len pre) (length l)) = map Some l.
Proof.
  induction l as [|a l IH]; intros pre; [reflexivity|].
  cbn [length zseq map pick]. f_equal.
  - unfold len. rewrite Nat2Z.id. rewrite nth_error_app2 by lia. now rewrite Nat.sub_diag.
  - specialize (IH (pre ++ [a])). rewrite <- app_assoc in IH. cbn [app] in IH.
    rewrite len_app in IH. change (len [a]) with 1 in IH. exact IH.
Qed.

(* the three outcomes of the constructor, by the bracket structure of the records *)
Lemma api_open_cases d rs : api_records d = Ok rs ->
  (B.balanced rs /\ exists f, api_open d = ApiOpened f /\ B.build rs = Ok f /\ B.flatten f = rs) \/
  (B.scan 0 rs = None /\ api_open d = ApiRaised 4) \/
  (exists k, B.scan 0 rs = Some (S k) /\ api_open d = ApiRaised B.ATTRIBUTE_ERROR).
Proof.
  intros Hr. unfold api_open. rewrite Hr. destruct (B.scan 0 rs) as [[|k]|] eqn:Es.
  - left. split; [exact Es|]. destruct (BP.open_balanced rs Es) as (f & Ho & Hb & _ & Hf).
    exists f. rewrite Ho. auto.
  - right. right. exists k. split; [reflexivity|]. now rewrite (BP.open_missing_end rs k Es).
  - right. left. split; [reflexivity|]. now rewrite (BP.open_extra_end rs Es).
Qed.

Lemma api_opened_build d f : api_open d = ApiOpened f ->
  exists rs, api_records d = Ok rs /\ B.build rs = Ok f /\ B.flatten f = rs.
Proof.
  unfold api_open. destruct (api_records d) as [rs|] eqn:Er; [|discriminate].
  unfold B.open_doc. destruct (B.build rs) as [f0|] eqn:Eb; [|discriminate].
  destruct (B.closedF f0); [|discriminate]. intros H. inversion H; subst.
  exists rs. split; [reflexivity|]. split; [assumption|]. exact (BP.build_records rs f Eb).
Qed.

(* a forced rebuild (_build_record_tree) hands the writer exactly the records that were read, in their order *)
Lemma api_rebuild_identity d f : api_open d = ApiOpened f ->
  pick (doc_records d) (map B.rid (B.flatten f)) = map Some (doc_records d).
Proof.
  intros H. destruct (api_opened_build d f H) as (rs & Hr & _ & Hf). rewrite Hf.
  unfold api_records in Hr. rewrite (api_records_ids _ _ _ Hr). exact (pick_zseq (doc_records d) []).
Qed.

(* write() touches the channel lengths only: the constructor sees the same thing in the structure after the save *)
Lemma api_records_from_ext : forall l1 l2 i,
  map (fun r => (r_blocks r, r_flags r)) l1 = map (fun r => (r_blocks r, r_flags r)) l2 ->
  api_records_from i l1 = api_records_from i l2.
Proof.
  induction l1 as [|a l1 IH]; intros [|b l2] i H; cbn [map] in H; try discriminate; [reflexivity|].
  inversion H as [[Hb Hf Ht]]. cbn [api_records_from]. rewrite Hb, Hf, (IH l2 (i + 1) Ht). reflexivity.
Qed.
Lemma upd_recs_view rs : forall cs,
  map (fun r => (r_blocks r, r_flags r)) (upd_recs rs cs) = map (fun r => (r_blocks r, r_flags r)) rs.
Proof.
  induction rs as [|r rs IH]; intros [|c cs]; cbn [upd_recs map]; try reflexivity. now rewrite IH.
Qed.
Lemma api_records_after_write d : api_records (psd_after_write d) = api_records d.
Proof.
  unfold api_records. apply api_records_from_ext.
  unfold doc_records, psd_after_write, lami_after_write. cbn [p_lami la_info].
  destruct (la_info (p_lami d)) as [li|]; cbn [option_map]; [|reflexivity].
  unfold li_after_write. destruct (li_count li =? 0); [reflexivity|].
  unfold li_update. destruct (li_records li) as [[|r rs]|] eqn:Er; rewrite ?Er; try reflexivity.
  destruct (li_chans li) as [[|c cs]|] eqn:Ec; rewrite ?Er; try reflexivity.
  cbn [li_records]. apply upd_recs_view.
Qed.
Lemma api_open_after_write d : api_open (psd_after_write d) = api_open d.
Proof. unfold api_open. now rewrite api_records_after_write. Qed.

(* re-serialising the divider payloads and refreshing the channel lengths touch different fields *)
Lemma renorm_upd_recs rs : forall cs, map renorm_rec (upd_recs rs cs) = upd_recs (map renorm_rec rs) cs.
Proof.
  induction rs as [|r rs IH]; intros [|c cs]; cbn [upd_recs map]; try reflexivity.
  rewrite IH. reflexivity.
Qed.
Lemma api_norm_after_write d : api_norm (psd_after_write d) = psd_after_write (api_norm d).
Proof.
  unfold api_norm, psd_after_write, lami_after_write. cbn [p_header p_cmd p_res p_lami p_img la_info la_glmi la_blocks].
  destruct (la_info (p_lami d)) as [li|]; cbn [option_map]; [|reflexivity]. do 2 f_equal. f_equal.
  destruct li as [count recs chans]. unfold li_after_write. cbn [li_count li_records li_chans].
  destruct (count =? 0); [reflexivity|].
  unfold li_update. cbn [li_records li_chans li_count].
  destruct recs as [[|r rs]|]; cbn [option_map map]; try reflexivity.
  destruct chans as [[|c cs]|]; cbn [option_map map li_records li_chans li_count]; try reflexivity.
  change (renorm_rec r :: map renorm_rec rs) with (map renorm_rec (r :: rs)). now rewrite <- renorm_upd_recs.
Qed.
Lemma lsct_canonical_after_write d : lsct_canonical d -> lsct_canonical (psd_after_write d).
Proof. unfold lsct_canonical. intros H. now rewrite api_norm_after_write, H. Qed.
