(* The independent walker finds exactly the blocks the (model of the) writer emitted. *)
From PsdV Require Import Base.Prelude Psd.Codec Psd.Model Psd.Proofs Psd.Walk Psd.Layout.
From Coq Require Import ZArith List Bool Lia ZifyBool.
Import ListNotations.
Open Scope Z_scope.

Lemma blen_ok w b n : w = Ok (b, n) -> blen w = len b.
Proof. intros ->. reflexivity. Qed.

Lemma take_app2 a b r n : len a + len b = n -> take n (a ++ b ++ r) = Ok (a ++ b, r).
Proof. intros H. rewrite app_assoc. apply take_app_n. rewrite len_app. exact H. Qed.

(* ------------------------------------------------------------------ length-prefixed blocks, strictly *)
Lemma skip_block_w nb pad w bs n rest :
  0 < pad -> Z.of_nat nb mod pad = 0 -> wtruth w ->
  w_length_block 0 nb pad w = Ok (bs, n) ->
  exists body, w = Ok (body, len body) /\
               skip_block nb pad (bs ++ rest) = Ok (len body, rest) /\
               len bs = Z.of_nat nb + len body + pad_count (len body) pad.
Proof.
  intros Hpad Hdiv Hw. unfold w_length_block.
  destruct w as [[x nx]|] eqn:Ew; [|discriminate]. cbn [bind fst snd].
  destruct (pack_u nb nx) as [lb|] eqn:Elb; [|discriminate]. cbn [bind w_pad w_bytes fst snd zeros repeat app].
  intros H; inversion H; subst; clear H.
  pose proof (Hw x nx eq_refl) as ->. exists x. split; [reflexivity|].
  pose proof (pack_u_len _ _ _ Elb) as Hlb.
  assert (Hk : pad_count (len x + len lb) pad = pad_count (len x) pad).
  { rewrite Hlb. apply pad_count_add; assumption. }
  pose proof (pad_count_range (len x) pad Hpad) as Hr.
  split.
  - unfold skip_block. rewrite <- !app_assoc. rewrite (read_u_pack _ _ _ _ Elb). cbn [bind].
    rewrite Hk. rewrite take_app2.
    + reflexivity.
    + rewrite len_zeros. lia.
  - rewrite !len_app, len_zeros, Hk, Hlb. lia.
Qed.

Lemma skip_zero_block b rest : pack_u 4 0 = Ok b -> skip_block 4 1 (b ++ rest) = Ok (0, rest) /\ len b = 4.
Proof.
  intros H. split; [|apply (pack_u_len _ _ _ H)]. unfold skip_block. rewrite (read_u_pack _ _ _ _ H). cbn [bind].
  rewrite pad_count_1. unfold take. cbn. pose proof (len_nonneg rest).
  destruct (0 <=? len rest) eqn:E; [reflexivity|lia].
Qed.

Section WP.
  Variable enc_s : list Z -> res (list Z).
  Variable dec_s : list Z -> res (list Z).

  Lemma skip_pascal_w name pad bs n rest :
    0 < pad -> w_pascal enc_s name pad = Ok (bs, n) -> skip_pascal pad (bs ++ rest) = Ok rest.
  Proof.
    intros Hpad. unfold w_pascal. destruct (enc_s name) as [data|]; [|discriminate]. cbn [bind].
    intros H. apply w_then_pad_inv in H as (x & nx & Hx & -> & _).
    apply w_seq_inv in Hx as (a & na & b & nb & Ha & Hb & -> & ->).
    apply w_fmt_inv in Ha as [Ha ->]. apply w_bytes_inv in Hb as [-> ->].
    unfold skip_pascal. rewrite <- !app_assoc. rewrite (read_u_pack _ _ _ _ Ha). cbn [bind].
    rewrite (pack_u_len _ _ _ Ha). change (Z.of_nat 1) with 1.
    rewrite take_app2; [reflexivity|]. rewrite len_zeros.
    pose proof (pad_count_range (1 + len data) pad Hpad). lia.
  Qed.

  (* ---------------------------------------------------------------- tagged blocks *)
  Lemma sigs_agree sg : inz sg [w_8BIM; w_8B64] = memz sg model_tb_sigs.
  Proof. unfold inz, memz, model_tb_sigs, w_8BIM, w_8B64. cbn [existsb]. rewrite !orb_false_r. apply orb_comm. Qed.

  Lemma walk_block_w v pad b bs n rest :
    (pad = 1 \/ pad = 4) -> wf_tb b = true -> write_tagged_block v pad b = Ok (bs, n) ->
    walk_block v pad (bs ++ rest) = Ok rest.
  Proof.
    intros Hpad Hwf H. destruct b as [sg key data]. unfold write_tagged_block in H. cbn [tb_sig tb_key tb_data] in H.
    apply w_seq_inv in H as (b1 & n1 & b2 & n2 & H1 & H2 & -> & ->).
    apply w_fmt_inv in H1 as [H1 ->]. open_pk H1.
    destruct (skip_block_w (tb_len_bytes v key) pad (w_bytes data) b2 n2 rest) as (body & Hb & Hs & _);
      [lia| |apply wtruth_bytes|assumption|].
    { destruct (tb_len_bytes_cases v key) as [-> | ->]; destruct Hpad as [-> | ->]; reflexivity. }
    unfold walk_block. rewrite <- !app_assoc. steps.
    rewrite sigs_agree. unfold wf_tb in Hwf. cbn [tb_sig] in Hwf. rewrite Hwf. cbn [check bind]. steps.
    change (if (v =? 2) && inz key walk_big_keys then 8%nat else 4%nat) with (tb_len_bytes v key).
    rewrite Hs. reflexivity.
  Qed.

  Lemma walk_gblocks_w v l : forall bs n fuel,
    forallb wf_tb l = true -> write_tagged_blocks v 4 l = Ok (bs, n) -> (length bs < fuel)%nat ->
    walk_gblocks fuel v bs = Ok (map (fun b => (K_GTB, blen (write_tagged_block v 4 b))) l).
  Proof.
    induction l as [|b l IH]; intros bs n fuel Hwf H Hf.
    - apply w_concat_nil_inv in H as [-> _]. destruct fuel; [cbn in Hf; lia|]. reflexivity.
    - unfold write_tagged_blocks in H.
      apply w_concat_cons_inv in H as (b1 & n1 & b2 & n2 & Hb & Hl & -> & ->).
      cbn [forallb] in Hwf. apply andb_prop in Hwf as [Hwb Hwl].
      pose proof (tagged_block_len _ _ _ _ _ Hb) as Hlen.
      destruct fuel; [lia|]. cbn [walk_gblocks]. rewrite len_app. pose proof (len_nonneg b2).
      destruct (len b1 + len b2 =? 0) eqn:E; [lia|].
      rewrite (walk_block_w v 4 b b1 n1 b2 (or_intror eq_refl) Hwb Hb). cbn [bind].
      rewrite (IH b2 n2 fuel Hwl Hl).
      + cbn [bind map]. rewrite (blen_ok _ _ _ Hb). do 3 f_equal. lia.
      + rewrite app_length in Hf. unfold len in Hlen. lia.
  Qed.

  Lemma all_zero_zeros k : all_zero (zeros k) = true.
  Proof. induction k; [reflexivity|]. cbn. assumption. Qed.

  Lemma walk_lblocks_w v l : forall bs n k fuel,
    forallb wf_tb l = true -> write_tagged_blocks v 1 l = Ok (bs, n) -> (k < 2)%nat -> (length bs < fuel)%nat ->
    walk_lblocks fuel v (bs ++ zeros k) = Ok (map (fun b => (K_LTB, blen (write_tagged_block v 1 b))) l).
  Proof.
    induction l as [|b l IH]; intros bs n k fuel Hwf H Hk Hf.
    - apply w_concat_nil_inv in H as [-> _]. destruct fuel; [cbn in Hf; lia|].
      cbn [walk_lblocks app]. rewrite len_zeros.
      destruct (Z.of_nat k <? 12) eqn:E; [|lia]. destruct (Z.of_nat k <? 2) eqn:E2; [|lia].
      rewrite all_zero_zeros. reflexivity.
    - unfold write_tagged_blocks in H.
      apply w_concat_cons_inv in H as (b1 & n1 & b2 & n2 & Hb & Hl & -> & ->).
      cbn [forallb] in Hwf. apply andb_prop in Hwf as [Hwb Hwl].
      pose proof (tagged_block_len _ _ _ _ _ Hb) as Hlen.
      destruct fuel; [lia|]. cbn [walk_lblocks]. rewrite !len_app, len_zeros. pose proof (len_nonneg b2).
      destruct (len b1 + len b2 + Z.of_nat k <? 12) eqn:E; [lia|].
      rewrite <- app_assoc.
      rewrite (walk_block_w v 1 b b1 n1 _ (or_introl eq_refl) Hwb Hb). cbn [bind].
      rewrite (IH b2 n2 k fuel Hwl Hl Hk).
      + cbn [bind map]. rewrite (blen_ok _ _ _ Hb). do 3 f_equal. rewrite len_app, len_zeros. lia.
      + rewrite app_length in Hf. unfold len in Hlen. lia.
  Qed.

  (* ---------------------------------------------------------------- image resources *)
  Lemma walk_resources_w l : forall bs n fuel,
    w_concat (map (write_resource enc_s) l) = Ok (bs, n) -> (length bs < fuel)%nat ->
    walk_resources fuel bs = Ok (map (fun r => (K_RES, blen (write_resource enc_s r))) l).
  Proof.
    induction l as [|r l IH]; intros bs n fuel H Hf.
    - apply w_concat_nil_inv in H as [-> _]. destruct fuel; [cbn in Hf; lia|]. reflexivity.
    - apply w_concat_cons_inv in H as (b1 & n1 & b2 & n2 & Hr & Hl & -> & ->).
      pose proof Hr as Hr0. unfold write_resource in Hr.
      apply w_seq_inv in Hr as (c12 & m12 & c3 & m3 & Hr & H3 & -> & ->).
      apply w_seq_inv in Hr as (c1 & m1 & c2 & m2 & H1 & H2 & -> & ->).
      apply w_fmt_inv in H1 as [H1 ->]. open_pk H1.
      destruct (skip_block_w 4 2 (w_bytes (ir_data r)) c3 m3 b2) as (body & Hb & Hs & _);
        [lia|reflexivity|apply wtruth_bytes|assumption|].
      destruct fuel; [lia|]. cbn [walk_resources].
      assert (Hne : (len (((((x ++ x0 ++ []) ++ c2) ++ c3)) ++ b2) =? 0) = false) by len_lia.
      rewrite Hne. rewrite <- !app_assoc. cbn [app].
      rewrite (take_app2 x x0) by (pose_lens; lia). cbn [bind].
      rewrite (skip_pascal_w _ 2 c2 m2 _ ltac:(lia) H2). cbn [bind].
      rewrite Hs. cbn [bind].
      rewrite (IH b2 n2 fuel Hl).
      + cbn [bind map]. rewrite (blen_ok _ _ _ Hr0). do 3 f_equal. rewrite !len_app. change (len (@nil Z)) with 0. lia.
      + rewrite !app_length in Hf. pose_lens. unfold len in *. lia.
  Qed.
End WP.
