(* The independent walker finds exactly the blocks the (model of the) writer emitted. *)
From PsdV Require Import Base.Prelude Psd.Codec Psd.Model Psd.Proofs Psd.Walk Psd.Layout.
From Coq Require Import ZArith List Bool Lia ZifyBool.
Import ListNotations.
Open Scope Z_scope.

Lemma blen_ok w b n : w = Ok (b, n) -> blen w = len b.
Proof. intros ->. reflexivity. Qed.

Lemma take_app2 a b r n : len a + len b = n -> take n (a ++ b ++ r) = Ok (a ++ b, r).
Proof. intros H. rewrite app_assoc. apply take_app_n. rewrite len_app. exact H. Qed.

(* ------------------------------------------------------------------ length-prefixed blocks, strictly *)
Lemma skip_block_w nb pad w bs n rest :
  0 < pad -> Z.of_nat nb mod pad = 0 -> wtruth w ->
  w_length_block 0 nb pad w = Ok (bs, n) ->
  exists body, w = Ok (body, len body) /\
               skip_block nb pad (bs ++ rest) = Ok (len body, rest) /\
               len bs = Z.of_nat nb + len body + pad_count (len body) pad.
Proof.
  intros Hpad Hdiv Hw. unfold w_length_block.
  destruct w as [[x nx]|] eqn:Ew; [|discriminate]. cbn [bind fst snd].
  destruct (pack_u nb nx) as [lb|] eqn:Elb; [|discriminate]. cbn [bind w_pad w_bytes fst snd zeros repeat app].
  intros H; inversion H; subst; clear H.
  pose proof (Hw x nx eq_refl) as ->. exists x. split; [reflexivity|].
  pose proof (pack_u_len _ _ _ Elb) as Hlb.
  assert (Hk : pad_count (len x + len lb) pad = pad_count (len x) pad).
  { rewrite Hlb. apply pad_count_add; assumption. }
  pose proof (pad_count_range (len x) pad Hpad) as Hr.
  split.
  - unfold skip_block. rewrite <- !app_assoc. rewrite (read_u_pack _ _ _ _ Elb). cbn [bind].
    rewrite Hk. rewrite take_app2.
    + reflexivity.
    + rewrite len_zeros. lia.
  - rewrite !len_app, len_zeros, Hk, Hlb. lia.
Qed.

Lemma skip_zero_block b rest : pack_u 4 0 = Ok b -> skip_block 4 1 (b ++ rest) = Ok (0, rest) /\ len b = 4.
Proof.
  intros H. split; [|apply (pack_u_len _ _ _ H)]. unfold skip_block. rewrite (read_u_pack _ _ _ _ H). cbn [bind].
  rewrite pad_count_1. unfold take. cbn. pose proof (len_nonneg rest).
  destruct (0 <=? len rest) eqn:E; [reflexivity|lia].
Qed.

Section WP.
  Variable enc_s : list Z -> res (list Z).
  Variable dec_s : list Z -> res (list Z).

  Lemma skip_pascal_w name pad bs n rest :
    0 < pad -> w_pascal enc_s name pad = Ok (bs, n) -> skip_pascal pad (bs ++ rest) = Ok rest.
  Proof.
    intros Hpad. unfold w_pascal. destruct (enc_s name) as [data|]; [|discriminate]. cbn [bind].
    intros H. apply w_then_pad_inv in H as (x & nx & Hx & -> & _).
    apply w_seq_inv in Hx as (a & na & b & nb & Ha & Hb & -> & ->).
    apply w_fmt_inv in Ha as [Ha ->]. apply w_bytes_inv in Hb as [-> ->].
    unfold skip_pascal. rewrite <- !app_assoc. rewrite (read_u_pack _ _ _ _ Ha). cbn [bind].
    rewrite (pack_u_len _ _ _ Ha). change (Z.of_nat 1) with 1.
    rewrite take_app2; [reflexivity|]. rewrite len_zeros.
    pose proof (pad_count_range (1 + len data) pad Hpad). lia.
  Qed.

  (* ---------------------------------------------------------------- tagged blocks *)
  Lemma sigs_agree sg : inz sg [w_8BIM; w_8B64] = memz sg model_tb_sigs.
  Proof. unfold inz, memz, model_tb_sigs, w_8BIM, w_8B64. cbn [existsb]. rewrite !orb_false_r. apply orb_comm. Qed.

  Lemma walk_block_w v pad b bs n rest :
    (pad = 1 \/ pad = 4) -> wf_tb b = true -> write_tagged_block v pad b = Ok (bs, n) ->
    walk_block v pad (bs ++ rest) = Ok rest.
  Proof.
    intros Hpad Hwf H. destruct b as [sg key data]. unfold write_tagged_block in H. cbn [tb_sig tb_key tb_data] in H.
    apply w_seq_inv in H as (b1 & n1 & b2 & n2 & H1 & H2 & -> & ->).
    apply w_fmt_inv in H1 as [H1 ->]. open_pk H1.
    destruct (skip_block_w (tb_len_bytes v key) pad (w_bytes data) b2 n2 rest) as (body & Hb & Hs & _);
      [lia| |apply wtruth_bytes|assumption|].
    { destruct (tb_len_bytes_cases v key) as [-> | ->]; destruct Hpad as [-> | ->]; reflexivity. }
    unfold walk_block. rewrite <- !app_assoc. steps.
    rewrite sigs_agree. unfold wf_tb in Hwf. cbn [tb_sig] in Hwf. rewrite Hwf. cbn [check bind]. steps.
    change (if (v =? 2) && inz key walk_big_keys then 8%nat else 4%nat) with (tb_len_bytes v key).
    rewrite Hs. reflexivity.
  Qed.

  Lemma walk_gblocks_w v l : forall bs n fuel,
    forallb wf_tb l = true -> write_tagged_blocks v 4 l = Ok (bs, n) -> (length bs < fuel)%nat ->
    walk_gblocks fuel v bs = Ok (map (fun b => (K_GTB, blen (write_tagged_block v 4 b))) l).
  Proof.
    induction l as [|b l IH]; intros bs n fuel Hwf H Hf.
    - apply w_concat_nil_inv in H as [-> _]. destruct fuel; [cbn in Hf; lia|]. reflexivity.
    - unfold write_tagged_blocks in H.
      apply w_concat_cons_inv in H as (b1 & n1 & b2 & n2 & Hb & Hl & -> & ->).
      cbn [forallb] in Hwf. apply andb_prop in Hwf as [Hwb Hwl].
      pose proof (tagged_block_len _ _ _ _ _ Hb) as Hlen.
      destruct fuel; [lia|]. cbn [walk_gblocks]. rewrite len_app. pose proof (len_nonneg b2).
      destruct (len b1 + len b2 =? 0) eqn:E; [lia|].
      rewrite (walk_block_w v 4 b b1 n1 b2 (or_intror eq_refl) Hwb Hb). cbn [bind].
      rewrite (IH b2 n2 fuel Hwl Hl).
      + cbn [bind map]. rewrite (blen_ok _ _ _ Hb). do 3 f_equal. lia.
      + rewrite app_length in Hf. unfold len in Hlen. lia.
  Qed.

  Lemma all_zero_zeros k : all_zero (zeros k) = true.
  Proof. induction k; [reflexivity|]. cbn. assumption. Qed.

  Lemma walk_lblocks_w v l : forall bs n k fuel,
    forallb wf_tb l = true -> write_tagged_blocks v 1 l = Ok (bs, n) -> (k < 2)%nat -> (length bs < fuel)%nat ->
    walk_lblocks fuel v (bs ++ zeros k) = Ok (map (fun b => (K_LTB, blen (write_tagged_block v 1 b))) l).
  Proof.
    induction l as [|b l IH]; intros bs n k fuel Hwf H Hk Hf.
    - apply w_concat_nil_inv in H as [-> _]. destruct fuel; [cbn in Hf; lia|].
      cbn [walk_lblocks app]. rewrite len_zeros.
      destruct (Z.of_nat k <? 12) eqn:E; [|lia]. destruct (Z.of_nat k <? 2) eqn:E2; [|lia].
      rewrite all_zero_zeros. reflexivity.
    - unfold write_tagged_blocks in H.
      apply w_concat_cons_inv in H as (b1 & n1 & b2 & n2 & Hb & Hl & -> & ->).
      cbn [forallb] in Hwf. apply andb_prop in Hwf as [Hwb Hwl].
      pose proof (tagged_block_len _ _ _ _ _ Hb) as Hlen.
      destruct fuel; [lia|]. cbn [walk_lblocks]. rewrite !len_app, len_zeros. pose proof (len_nonneg b2).
      destruct (len b1 + len b2 + Z.of_nat k <? 12) eqn:E; [lia|].
      rewrite <- app_assoc.
      rewrite (walk_block_w v 1 b b1 n1 _ (or_introl eq_refl) Hwb Hb). cbn [bind].
      rewrite (IH b2 n2 k fuel Hwl Hl Hk).
      + cbn [bind map]. rewrite (blen_ok _ _ _ Hb). do 3 f_equal. rewrite len_app, len_zeros. lia.
      + rewrite app_length in Hf. unfold len in Hlen. lia.
  Qed.

  (* ---------------------------------------------------------------- image resources *)
  Lemma walk_resources_w l : forall bs n fuel,
    w_concat (map (write_resource enc_s) l) = Ok (bs, n) -> (length bs < fuel)%nat ->
    walk_resources fuel bs = Ok (map (fun r => (K_RES, blen (write_resource enc_s r))) l).
  Proof.
    induction l as [|r l IH]; intros bs n fuel H Hf.
    - apply w_concat_nil_inv in H as [-> _]. destruct fuel; [cbn in Hf; lia|]. reflexivity.
    - apply w_concat_cons_inv in H as (b1 & n1 & b2 & n2 & Hr & Hl & -> & ->).
      pose proof Hr as Hr0. unfold write_resource in Hr.
      apply w_seq_inv in Hr as (c12 & m12 & c3 & m3 & Hr & H3 & -> & ->).
      apply w_seq_inv in Hr as (c1 & m1 & c2 & m2 & H1 & H2 & -> & ->).
      apply w_fmt_inv in H1 as [H1 ->]. open_pk H1.
      destruct (skip_block_w 4 2 (w_bytes (ir_data r)) c3 m3 b2) as (body & Hb & Hs & _);
        [lia|reflexivity|apply wtruth_bytes|assumption|].
      destruct fuel; [lia|]. cbn [walk_resources].
      assert (Hne : (len (((((x ++ x0 ++ []) ++ c2) ++ c3)) ++ b2) =? 0) = false) by len_lia.
      rewrite Hne. rewrite <- !app_assoc. cbn [app].
      rewrite (take_app2 x x0) by (pose_lens; lia). cbn [bind].
      rewrite (skip_pascal_w _ 2 c2 m2 _ ltac:(lia) H2). cbn [bind].
      rewrite Hs. cbn [bind].
      rewrite (IH b2 n2 fuel Hl).
      + cbn [bind map]. rewrite (blen_ok _ _ _ Hr0). do 3 f_equal. rewrite !len_app. change (len (@nil Z)) with 0. lia.
      + rewrite !app_length in Hf. pose_lens. unfold len in *. lia.
  Qed.
End WP.

(* ------------------------------------------------------------------ generic inversion of a length block *)
Lemma length_block_inv pre nb pad w bs n :
  wtruth w -> w_length_block pre nb pad w = Ok (bs, n) ->
  exists body lb, w = Ok (body, len body) /\ pack_u nb (len body) = Ok lb /\
                  bs = zeros pre ++ lb ++ body ++ zeros (Z.to_nat (pad_count (len body + len (zeros pre ++ lb)) pad)).
Proof.
  intros Hw. unfold w_length_block. destruct w as [[x nx]|] eqn:Ew; [|discriminate]. cbn [bind fst snd].
  destruct (pack_u nb nx) as [lb|] eqn:Elb; [|discriminate]. cbn [bind w_pad w_bytes fst snd].
  intros H; inversion H; subst; clear H. pose proof (Hw x nx eq_refl) as ->.
  exists x, lb. rewrite <- !app_assoc. auto.
Qed.

Lemma walk_n_w {A B} (wr : A -> W) (rd : stream -> res (B * stream)) (f : A -> B) :
  (forall a bs n rest, wr a = Ok (bs, n) -> rd (bs ++ rest) = Ok (f a, rest)) ->
  forall l bs n rest, w_concat (map wr l) = Ok (bs, n) ->
    walk_n (length l) rd (bs ++ rest) = Ok (map f l, rest).
Proof.
  intros Hrt. induction l as [|a l IH]; intros bs n rest H.
  - apply w_concat_nil_inv in H as [-> _]. reflexivity.
  - apply w_concat_cons_inv in H as (b1 & n1 & b2 & n2 & Ha & Hl & -> & ->).
    cbn [length walk_n map]. rewrite <- app_assoc. rewrite (Hrt _ _ _ _ Ha). cbn [bind].
    rewrite (IH _ _ _ Hl). reflexivity.
Qed.

Lemma walk_chan_decl_w v nb c bs n rest :
  len_bytes v = Ok nb -> write_channel_info v c = Ok (bs, n) ->
  walk_chan_decl nb (bs ++ rest) = Ok (ci_len c, rest).
Proof.
  intros Hv H. unfold write_channel_info in H. rewrite Hv in H. cbn [bind] in H.
  apply w_fmt_inv in H as [H ->]. open_pk H. unfold walk_chan_decl. rewrite <- !app_assoc.
  rewrite (take_app_n 2 x) by (pose_lens; lia). cbn [bind]. steps. reflexivity.
Qed.

(* ------------------------------------------------------------------ blending ranges: a multiple of 8 bytes *)
Lemma range_list_len ch : forall bs n,
  forallb (fun l => (length l =? 2)%nat) ch = true -> w_concat (map w_range ch) = Ok (bs, n) ->
  len bs = 8 * len ch.
Proof.
  induction ch as [|c ch IH]; intros bs n Hwf H.
  - apply w_concat_nil_inv in H as [-> _]. reflexivity.
  - apply w_concat_cons_inv in H as (b1 & n1 & b2 & n2 & Hc & Hl & -> & ->).
    cbn [forallb] in Hwf. apply andb_prop in Hwf as [Hc2 Hwl].
    destruct c as [|p [|q [|]]]; try discriminate.
    destruct (range_rt p q b1 n1 [] Hc) as [_ Hlen].
    rewrite len_app, len_cons, Hlen, (IH _ _ Hwl Hl). lia.
Qed.
Lemma ranges_body_len r body n :
  wf_ranges r = true ->
  opt_w (br_comp r) w_range +++ opt_w (br_chan r) (fun ll => w_concat (map w_range ll)) = Ok (body, n) ->
  len body mod 8 = 0.
Proof.
  intros Hwf H. destruct r as [comp chan]. unfold wf_ranges in Hwf. cbn [br_comp br_chan] in *.
  apply w_seq_inv in H as (b1 & n1 & b2 & n2 & H1 & H2 & -> & _).
  destruct comp as [c|], chan as [ch|]; try discriminate; cbn [opt_w] in *.
  - apply andb_prop in Hwf as [Hc Hch]. destruct c as [|p [|q [|]]]; try discriminate.
    destruct (range_rt p q b1 n1 [] H1) as [_ Hlen].
    rewrite len_app, Hlen, (range_list_len ch _ _ Hch H2).
    replace (8 + 8 * len ch) with ((1 + len ch) * 8) by lia. apply Z_mod_mult.
  - inversion H1; inversion H2; subst. reflexivity.
Qed.

Section WP2.
  Variable enc_s : list Z -> res (list Z).
  Variable dec_s : list Z -> res (list Z).

  (* ---------------------------------------------------------------- a layer record *)
  Lemma walk_record_w v nb r bs n rest :
    len_bytes v = Ok nb -> wf_record enc_s dec_s r = true -> write_record enc_s v r = Ok (bs, n) ->
    walk_record v nb (bs ++ rest) = Ok (lay_record enc_s v r, map ci_len (r_channels r), rest).
  Proof.
    intros Hv Hwf H. pose proof H as H0. unfold lay_record. rewrite (blen_ok _ _ _ H0).
    destruct r as [top lft bottom rgt chans sg blend opacity clip fl mask ranges name blocks].
    unfold wf_record in Hwf. unfold write_record in H.
    cbn [r_top r_left r_bottom r_right r_channels r_sig r_blend r_opacity r_clip r_flags r_mask r_ranges r_name r_blocks] in *.
    apply andb_prop in Hwf as [Hwf Hblocks]. apply andb_prop in Hwf as [Hwf Hname].
    apply andb_prop in Hwf as [Hwf Hranges]. apply andb_prop in Hwf as [Hwf Hmask].
    apply andb_prop in Hwf as [Hwf Hclip]. apply andb_prop in Hwf as [Hwf Hblend].
    apply andb_prop in Hwf as [Hch Hsig].
    apply w_seq_inv in H as (b1234 & n1234 & b5 & n5 & H & H5 & -> & ->).
    apply w_seq_inv in H as (b123 & n123 & b4 & n4 & H & H4 & -> & ->).
    apply w_seq_inv in H as (b12 & n12 & b3 & n3 & H & H3 & -> & ->).
    apply w_seq_inv in H as (b1 & n1 & b2 & n2 & H1 & H2 & -> & ->).
    apply w_fmt_inv in H1 as [H1 ->]. apply w_fmt_inv in H3 as [H3 ->]. apply w_fmt_inv in H4 as [H4 ->].
    open_pk H1. open_pk H3.
    destruct (length_block_inv 1 4 1 _ b5 n5 (wtruth_record_extra enc_s v _) H5) as (body & lb & Hb & Hlb & Hb5).
    rewrite pad_count_1 in Hb5. cbn [Z.to_nat zeros repeat] in Hb5. rewrite app_nil_r in Hb5.
    (* the signed fields are read as unsigned words by the walker: same bytes *)
    set (full := ((((x ++ x0 ++ x1 ++ x2 ++ x3 ++ []) ++ b2) ++ x4 ++ x5 ++ x6 ++ x7 ++ []) ++ b4) ++ b5).
    unfold walk_record.
    assert (Hu : forall (y : list Z) t (r0 : stream), pack_s 4 t = Ok y -> read_u 4 (y ++ r0) = Ok (be_val y, r0)).
    { intros y t r0 Hy. unfold read_u. rewrite (take_app_n _ y r0 (pack_s_len _ _ _ Hy)). reflexivity. }
    unfold full. rewrite <- !app_assoc. cbn [app].
    rewrite (Hu _ _ _ Hp). cbn [bind]. rewrite (Hu _ _ _ Hp0). cbn [bind].
    rewrite (Hu _ _ _ Hp1). cbn [bind]. rewrite (Hu _ _ _ Hp2). cbn [bind]. steps.
    rewrite to_nat_len.
    rewrite (walk_n_w (write_channel_info v) (walk_chan_decl nb) ci_len
               (fun a bs0 n0 rest0 => walk_chan_decl_w v nb a bs0 n0 rest0 Hv) chans b2 n2 _ H2).
    cbn [bind]. steps.
    replace (sg =? w_8BIM) with true.
    2:{ symmetry. unfold memz, model_record_sigs in Hsig. cbn [existsb] in Hsig. rewrite orb_false_r in Hsig. exact Hsig. }
    cbn [check bind]. steps.
    rewrite Hb5. cbn [zeros repeat app].
    change (0 :: (lb ++ body) ++ rest) with ([0] ++ (lb ++ body) ++ rest).
    rewrite (take_app_n 1 [0]) by reflexivity. cbn [bind]. rewrite <- app_assoc. steps.
    rewrite take_app. cbn [bind].
    (* inside the extra data *)
    unfold write_record_extra in Hb. cbn [r_mask r_ranges r_name r_blocks] in Hb.
    apply w_then_pad_inv in Hb as (xe & nxe & Hx & Hbody & _).
    apply w_seq_inv in Hx as (e123 & m123 & e4 & m4 & Hx & He4 & -> & ->).
    apply w_seq_inv in Hx as (e12 & m12 & e3 & m3 & Hx & He3 & -> & ->).
    apply w_seq_inv in Hx as (e1 & m1 & e2 & m2 & He1 & He2 & -> & ->).
    rewrite Hbody. rewrite <- !app_assoc.
    set (k := Z.to_nat (pad_count (m1 + m2 + m3 + m4) 2)).
    assert (Hk : (k < 2)%nat).
    { unfold k. pose proof (pad_count_range (m1 + m2 + m3 + m4) 2 ltac:(lia)). lia. }
    assert (Hm : exists ml, skip_block 4 1 (e1 ++ e2 ++ e3 ++ e4 ++ zeros k) = Ok (ml, e2 ++ e3 ++ e4 ++ zeros k) /\
                            len e1 = 4 + ml).
    { destruct mask as [m|]; cbn [write_mask_opt] in *.
      - unfold write_mask in He1.
        destruct (skip_block_w 4 1 _ e1 m1 (e2 ++ e3 ++ e4 ++ zeros k) ltac:(lia) eq_refl (wtruth_mask_body m) He1)
          as (mb & _ & Hs & Hl).
        exists (len mb). split; [exact Hs|]. rewrite Hl, pad_count_1. lia.
      - apply w_fmt_inv in He1 as [He1 _]. destruct (skip_zero_block e1 (e2 ++ e3 ++ e4 ++ zeros k) He1) as [Hs Hl].
        exists 0. split; [exact Hs|lia]. }
    destruct Hm as (ml & Hsm & Hlm). rewrite Hsm. cbn [bind].
    unfold write_ranges in He2.
    pose proof (fun hw => skip_block_w 4 1 _ e2 m2 (e3 ++ e4 ++ zeros k) ltac:(lia) eq_refl hw He2) as X.
    destruct X as (rb & Hrb & Hsr & Hlr).
    { apply wtruth_seq; apply wtruth_opt; [apply wtruth_range|]. intros. apply wtruth_concat_map, wtruth_range. }
    rewrite Hsr. cbn [bind]. rewrite (ranges_body_len ranges rb _ Hranges Hrb). cbn [Z.eqb check bind].
    rewrite (skip_pascal_w enc_s name 4 e3 m3 _ ltac:(lia) He3). cbn [bind].
    rewrite (walk_lblocks_w v blocks e4 m4 k _ ).
    2:{ unfold wf_tbs in Hblocks. apply andb_prop in Hblocks as [Hb1 _]. exact Hb1. }
    2:{ exact He4. }
    2:{ exact Hk. }
    2:{ rewrite app_length. lia. }
    cbn [bind].
    unfold write_mask_opt, write_ranges. rewrite (blen_ok _ _ _ He1), (blen_ok _ _ _ He2), (blen_ok _ _ _ He3).
    rewrite pad_count_1 in Hlr.
    repeat f_equal; rewrite ?len_app, ?len_cons, ?len_app; lia.
  Qed.
End WP2.

(* ------------------------------------------------------------------ channel image data *)
Lemma comp_le3 c : memz c model_compressions = true -> (c <=? 3) = true.
Proof. unfold memz, model_compressions. cbn [existsb]. lia. Qed.

Lemma walk_channels_w cds : forall bs n rest,
  forallb wf_cd cds = true -> write_channel_list cds = Ok (bs, n) ->
  walk_channels (map (fun c => 2 + len (cd_data c)) cds) (bs ++ rest) =
  Ok (map (fun c => (K_CHANNEL, blen (write_channel_data c))) cds, rest).
Proof.
  induction cds as [|c cds IH]; intros bs n rest Hwf H.
  - apply w_concat_nil_inv in H as [-> _]. reflexivity.
  - unfold write_channel_list in H.
    apply w_concat_cons_inv in H as (b1 & n1 & b2 & n2 & Hc & Hl & -> & ->).
    cbn [forallb] in Hwf. apply andb_prop in Hwf as [Hwc Hwl].
    pose proof Hc as Hc0. destruct c as [comp data]. unfold write_channel_data in Hc. cbn [cd_comp cd_data] in *.
    apply w_seq_inv in Hc as (c1 & m1 & c2 & m2 & H1 & H2 & -> & ->).
    apply w_fmt_inv in H1 as [H1 ->]. apply w_bytes_inv in H2 as [-> ->].
    cbn [map walk_channels]. cbn [cd_data cd_comp]. pose proof (len_nonneg data).
    replace (2 <=? 2 + len data) with true by lia. cbn [check bind].
    rewrite <- !app_assoc. steps.
    unfold wf_cd in Hwc. cbn [cd_comp] in Hwc. rewrite (comp_le3 _ Hwc). cbn [check bind].
    replace (2 + len data - 2) with (len data) by lia. rewrite take_app. cbn [bind].
    rewrite (IH b2 n2 rest Hwl Hl). cbn [bind].
    rewrite (blen_ok _ _ _ Hc0). pose_lens. rewrite ?len_app. repeat f_equal. lia.
Qed.

Lemma walk_channels_app l1 : forall l2 s,
  walk_channels (l1 ++ l2) s =
  do (a, s1) <- walk_channels l1 s; do (b, s2) <- walk_channels l2 s1; Ok (a ++ b, s2).
Proof.
  induction l1 as [|x l1 IH]; intros l2 s.
  - cbn [app walk_channels bind]. destruct (walk_channels l2 s) as [[b s2]|]; reflexivity.
  - cbn [app walk_channels]. destruct (check (2 <=? x)); [|reflexivity]. cbn [bind].
    destruct (read_u 2 s) as [[c s1]|]; [|reflexivity]. cbn [bind].
    destruct (check (c <=? 3)); [|reflexivity]. cbn [bind].
    destruct (take (x - 2) s1) as [[d s2]|]; [|reflexivity]. cbn [bind].
    rewrite IH. destruct (walk_channels l1 s2) as [[aa s3]|]; [|reflexivity]. cbn [bind].
    destruct (walk_channels l2 s3) as [[bb s4]|]; reflexivity.
Qed.

Lemma walk_channel_lists_w cs : forall bs n rest,
  forallb (forallb wf_cd) cs = true -> w_concat (map write_channel_list cs) = Ok (bs, n) ->
  walk_channels (flat_map (map (fun c => 2 + len (cd_data c))) cs) (bs ++ rest) =
  Ok (lay_channels cs, rest).
Proof.
  induction cs as [|c cs IH]; intros bs n rest Hwf H.
  - apply w_concat_nil_inv in H as [-> _]. reflexivity.
  - apply w_concat_cons_inv in H as (b1 & n1 & b2 & n2 & Hc & Hl & -> & ->).
    cbn [forallb] in Hwf. apply andb_prop in Hwf as [Hw1 Hw2].
    cbn [flat_map]. rewrite walk_channels_app. rewrite <- app_assoc.
    rewrite (walk_channels_w c b1 n1 _ Hw1 Hc). cbn [bind].
    rewrite (IH b2 n2 rest Hw2 Hl). reflexivity.
Qed.

Lemma upd_ci_lens cis : forall cds, length cis = length cds ->
  map ci_len (upd_ci cis cds) = map (fun c => 2 + len (cd_data c)) cds.
Proof.
  induction cis as [|ci cis IH]; intros [|cd cds] H; try discriminate; [reflexivity|].
  cbn [upd_ci map ci_len]. f_equal. apply IH. cbn in H. lia.
Qed.

Section WP3.
  Variable enc_s : list Z -> res (list Z).
  Variable dec_s : list Z -> res (list Z).

  Lemma upd_recs_lens rs : forall cs, same_shape rs cs = true ->
    flat_map (fun r => map ci_len (r_channels r)) (upd_recs rs cs) =
    flat_map (map (fun c => 2 + len (cd_data c))) cs.
  Proof.
    induction rs as [|r rs IH]; intros [|c cs] H; try discriminate; [reflexivity|].
    cbn [same_shape] in H. apply andb_prop in H as [H1 H2]. apply Nat.eqb_eq in H1.
    cbn [upd_recs flat_map]. destruct r as [a1 a2 a3 a4 chs sg bl op cl fl mk rg nm bk].
    cbn [set_channels r_channels] in *. rewrite (upd_ci_lens chs c H1). f_equal. apply IH. exact H2.
  Qed.

  Lemma walk_records_w v nb rs : forall bs n rest,
    len_bytes v = Ok nb -> forallb (wf_record enc_s dec_s) rs = true ->
    w_concat (map (write_record enc_s v) rs) = Ok (bs, n) ->
    walk_records (length rs) v nb (bs ++ rest) =
    Ok (flat_map (lay_record enc_s v) rs, flat_map (fun r => map ci_len (r_channels r)) rs, rest).
  Proof.
    induction rs as [|r rs IH]; intros bs n rest Hv Hwf H.
    - apply w_concat_nil_inv in H as [-> _]. reflexivity.
    - apply w_concat_cons_inv in H as (b1 & n1 & b2 & n2 & Hr & Hl & -> & ->).
      cbn [forallb] in Hwf. apply andb_prop in Hwf as [Hw1 Hw2].
      cbn [length walk_records]. rewrite <- app_assoc.
      rewrite (walk_record_w enc_s dec_s v nb r b1 n1 _ Hv Hw1 Hr). cbn [bind].
      rewrite (IH b2 n2 rest Hv Hw2 Hl). reflexivity.
  Qed.

  (* ---------------------------------------------------------------- the layer info body *)
  Lemma walk_layer_info_w v nb pad li body n :
    (pad = 1 \/ pad = 2 \/ pad = 4) -> len_bytes v = Ok nb ->
    wf_li enc_s dec_s li = true -> li_count li <> 0 ->
    write_li_body enc_s v pad li = Ok (body, n) ->
    walk_layer_info v nb body =
    Ok (flat_map (lay_record enc_s v) (opt_list (li_records (li_update li))) ++
        lay_channels (opt_list (li_chans (li_update li)))) /\ 2 <= len body.
  Proof.
    intros Hpad Hv Hwf Hc0 Hb. unfold wf_li in Hwf. destruct li as [count recs chans].
    cbn [li_count li_records li_chans] in *. destruct (count =? 0) eqn:Ec; [lia|].
    destruct recs as [rs|]; [|discriminate]. destruct chans as [cs|]; [|discriminate].
    apply andb_prop in Hwf as [Hwf Hwcd]. apply andb_prop in Hwf as [Hwf Hwrec].
    apply andb_prop in Hwf as [Hcount Hshape].
    assert (Hrs : rs <> []).
    { intros ->. change (len (@nil layer_record)) with 0 in Hcount. lia. }
    destruct rs as [|r0 rs0]; [congruence|]. destruct cs as [|c0 cs0]; [discriminate|].
    unfold write_li_body, li_update in Hb. cbn [li_count li_records li_chans] in Hb.
    change (truthy (Some (upd_recs (r0 :: rs0) (c0 :: cs0)))) with true in Hb.
    change (truthy (Some (c0 :: cs0))) with true in Hb. cbn [opt_w] in Hb.
    unfold li_update. cbn [li_count li_records li_chans opt_list].
    set (rs := r0 :: rs0) in *. set (cs := c0 :: cs0) in *.
    apply w_then_pad_inv in Hb as (x & nx & Hx & Hbody & _).
    apply w_seq_inv in Hx as (b12 & n12 & b3 & n3 & Hx & H3 & -> & ->).
    apply w_seq_inv in Hx as (b1 & n1 & b2 & n2 & H1 & H2 & -> & ->).
    apply w_fmt_inv in H1 as [H1 ->].
    split; [|rewrite Hbody; len_lia].
    set (k := Z.to_nat (pad_count (len b1 + n2 + n3) pad)) in *.
    assert (Hk : Z.of_nat k < 4).
    { unfold k. destruct Hpad as [-> | [-> | ->]];
        match goal with |- context [pad_count ?a ?b] => pose proof (pad_count_range a b ltac:(lia)) end; lia. }
    unfold walk_layer_info. rewrite Hbody. rewrite <- !app_assoc. steps.
    replace (Z.to_nat (Z.abs count)) with (length (upd_recs rs cs)).
    2:{ rewrite upd_recs_length. apply Z.eqb_eq in Hcount. rewrite <- Hcount. symmetry. apply to_nat_len. }
    rewrite (walk_records_w v nb (upd_recs rs cs) b2 n2 _ Hv (upd_recs_wf enc_s dec_s rs cs Hwrec) H2).
    cbn [bind fst snd]. rewrite (upd_recs_lens rs cs Hshape).
    rewrite (walk_channel_lists_w cs b3 n3 _ Hwcd H3). cbn [bind].
    rewrite len_zeros. replace (Z.of_nat k <? 4) with true by lia. rewrite all_zero_zeros. reflexivity.
  Qed.
End WP3.

Section WP4.
  Variable enc_s : list Z -> res (list Z).
  Variable dec_s : list Z -> res (list Z).

  (* ---------------------------------------------------------------- the section body *)
  Lemma walk_lami_w v nb pad l body n restlen :
    (pad = 1 \/ pad = 2 \/ pad = 4) -> len_bytes v = Ok nb ->
    wf_lami enc_s dec_s v l restlen = true ->
    write_lami_body enc_s v pad l = Ok (body, n) ->
    walk_lami v nb body = Ok (lay_lami enc_s v pad l).
  Proof.
    intros Hpad Hv Hwf Hb. destruct l as [info g blocks]. unfold wf_lami in Hwf. unfold write_lami_body in Hb.
    unfold lay_lami. cbn [la_info la_glmi la_blocks] in *.
    apply w_seq_inv in Hb as (b12 & n12 & b3 & n3 & Hb & H3 & -> & _).
    apply w_seq_inv in Hb as (b1 & n1 & b2 & n2 & H1 & H2 & -> & _).
    destruct info as [li|]; cbn [opt_w] in H1.
    2:{ apply andb_prop in Hwf as [Hg Hbk]. destruct g; [discriminate|]. destruct blocks; [discriminate|].
        cbn [opt_w truthy] in H2, H3. inversion H1; inversion H2; inversion H3; subst. reflexivity. }
    apply andb_prop in Hwf as [Hwf Hblocks].
    apply andb_prop in Hwf as [Hli Hg].
    pose proof (len_bytes_cases v nb Hv) as Hnb.
    pose proof H1 as H10. unfold write_layer_info in H1. rewrite Hv in H1. cbn [bind] in H1.
    unfold walk_lami, lay_li. rewrite (blen_ok _ _ _ H10).
    (* the global part: what follows the layer info *)
    assert (Hrest :
               (if len (b2 ++ b3) =? 0 then Ok []
                else do (gl, s3) <- skip_block 4 1 (b2 ++ b3);
                     do bl <- walk_gblocks (S (length s3)) v s3; Ok ((K_GLMI, 4 + gl) :: bl)) =
               Ok (match g with
                   | None => []
                   | Some g0 => (K_GLMI, blen (write_glmi g0)) ::
                                map (fun b => (K_GTB, blen (write_tagged_block v 4 b))) (opt_list blocks)
                   end)).
    { destruct g as [g0|]; cbn [opt_w] in H2.
      - pose proof H2 as H20. unfold write_glmi in H2.
        pose proof (fun hw => skip_block_w 4 1 _ b2 n2 b3 ltac:(lia) eq_refl hw H2) as X.
        destruct X as (gb & _ & Hs & Hl).
        { destruct (g_overlay g0); [|apply wtruth_nil]. apply wtruth_then_pad, wtruth_seq; apply wtruth_fmt. }
        rewrite pad_count_1 in Hl.
        assert (Hne : (len (b2 ++ b3) =? 0) = false).
        { rewrite len_app. pose_nonneg. pose proof (len_nonneg gb). lia. }
        rewrite Hne, Hs. cbn [bind]. rewrite (blen_ok _ _ _ H20).
        assert (Htb : write_tagged_blocks v 4 (opt_list blocks) = Ok (b3, n3) /\ forallb wf_tb (opt_list blocks) = true).
        { destruct blocks as [[|t bl]|]; cbn [truthy opt_w opt_list] in *.
          - inversion H3; subst. split; reflexivity.
          - split; [exact H3|]. apply andb_prop in Hblocks as [Hblocks _]. apply andb_prop in Hblocks as [Hblocks _].
            unfold wf_tbs in Hblocks. apply andb_prop in Hblocks as [Hblocks _]. exact Hblocks.
          - inversion H3; subst. split; reflexivity. }
        destruct Htb as [Hwb Hwfb].
        rewrite (walk_gblocks_w v (opt_list blocks) b3 n3 _ Hwfb Hwb) by lia. cbn [bind].
        do 3 f_equal. lia.
      - inversion H2; subst. cbn [app].
        assert (b3 = []).
        { destruct blocks as [[|t bl']|]; cbn [truthy opt_w is_some nonempty orb negb andb] in *.
          - inversion H3; reflexivity.
          - apply andb_prop in Hblocks as [Hblocks _]. apply andb_prop in Hblocks as [_ Hblocks]. discriminate.
          - inversion H3; reflexivity. }
        subst b3. reflexivity. }
    destruct (li_count li =? 0) eqn:Ec.
    - (* short form: a zero length field *)
      apply w_fmt_inv in H1 as [H1 _].
      assert (Hne : (len ((b1 ++ b2) ++ b3) =? 0) = false) by len_lia.
      rewrite Hne. rewrite <- !app_assoc. steps.
      unfold take. cbn [Z.leb Z.compare andb]. pose proof (len_nonneg (b2 ++ b3)).
      replace (0 <=? len (b2 ++ b3)) with true by lia. cbn [Z.to_nat firstn skipn bind Z.eqb].
      rewrite Hrest. cbn [bind app]. pose_lens. do 3 f_equal. lia.
    - destruct (length_block_inv 0 nb 1 _ b1 n1 (wtruth_li_body enc_s v pad li) H1) as (lbody & lb & Hlb & Hplb & Hb1).
      rewrite pad_count_1 in Hb1. cbn [Z.to_nat zeros repeat app] in Hb1. rewrite app_nil_r in Hb1.
      destruct (walk_layer_info_w enc_s dec_s v nb pad li lbody _ Hpad Hv Hli ltac:(lia) Hlb) as [Hwli Hl2].
      assert (Hne : (len ((b1 ++ b2) ++ b3) =? 0) = false) by (rewrite Hb1; len_lia).
      rewrite Hne. rewrite Hb1. rewrite <- !app_assoc. steps.
      rewrite take_app. cbn [bind].
      replace (len lbody =? 0) with false by lia.
      rewrite Hwli. cbn [bind]. rewrite Hrest. cbn [bind].
      pose_lens. rewrite len_app. rewrite <- app_assoc. do 2 f_equal. f_equal. lia.
  Qed.

  (* ---------------------------------------------------------------- the whole file *)
  Theorem walk_written pad d bs n :
    (pad = 1 \/ pad = 2 \/ pad = 4) -> wf_psd enc_s dec_s d = true ->
    write_psd enc_s pad d = Ok (bs, n) ->
    walk bs = Ok (layout_of enc_s pad d).
  Proof.
    intros Hpad Hwf H. destruct d as [h cmd rs l img]. unfold wf_psd in Hwf. unfold write_psd in H.
    unfold layout_of. cbn [p_header p_cmd p_res p_lami p_img] in *.
    apply andb_prop in Hwf as [Hwf Himg]. apply andb_prop in Hwf as [Hwf Hl].
    apply andb_prop in Hwf as [Hh Hrs].
    apply w_seq_inv in H as (b1234 & n1234 & b5 & n5 & H & H5 & -> & ->).
    apply w_seq_inv in H as (b123 & n123 & b4 & n4 & H & H4 & -> & ->).
    apply w_seq_inv in H as (b12 & n12 & b3 & n3 & H & H3 & -> & ->).
    apply w_seq_inv in H as (b1 & n1 & b2 & n2 & H1 & H2 & -> & ->).
    rewrite (blen_ok _ _ _ H1), (blen_ok _ _ _ H2), (blen_ok _ _ _ H3), (blen_ok _ _ _ H4), (blen_ok _ _ _ H5).
    (* header *)
    destruct h as [sg ver ch hh ww dp md]. unfold write_header in H1.
    cbn [h_sig h_version h_channels h_height h_width h_depth h_mode] in *.
    apply w_fmt_inv in H1 as [H1 _]. open_pk H1. inv_ok.
    unfold header_valid in Hh. cbn [h_sig h_version h_channels h_height h_width h_depth h_mode] in Hh.
    repeat match goal with Hx : _ && _ = true |- _ => apply andb_prop in Hx; destruct Hx end.
    assert (Hver : ver = 1 \/ ver = 2).
    { match goal with Hx : memz ver model_versions = true |- _ => unfold memz, model_versions in Hx; cbn [existsb] in Hx end. lia. }
    set (hb := x ++ x0 ++ zeros 6 ++ x2 ++ x3 ++ x4 ++ x5 ++ x6 ++ []).
    assert (Hlen1 : len hb = 26) by (unfold hb; rewrite !len_app, len_zeros; pose_lens; change (len (@nil Z)) with 0; lia).
    unfold walk. rewrite <- !app_assoc. fold hb.
    replace (hb ++ b2 ++ b3 ++ b4 ++ b5) with (hb ++ (b2 ++ b3 ++ b4 ++ b5)) by reflexivity.
    rewrite (take_app_n 26 hb _ Hlen1). cbn [bind]. unfold hb at 1. steps.
    replace (sg =? w_8BPS) with true by (symmetry; assumption).
    replace ((ver =? 1) || (ver =? 2)) with true by lia.
    change (firstn 6 (zeros 6 ++ x2 ++ x3 ++ x4 ++ x5 ++ x6 ++ [])) with (zeros 6).
    rewrite all_zero_zeros. cbn [andb check bind].
    (* color mode data *)
    unfold write_cmd in H2.
    destruct (skip_block_w 4 1 _ b2 n2 (b3 ++ b4 ++ b5) ltac:(lia) eq_refl (wtruth_bytes cmd) H2) as (cb & _ & Hs2 & Hl2).
    rewrite Hs2. cbn [bind]. rewrite pad_count_1 in Hl2.
    (* image resources *)
    unfold write_resources in H3.
    destruct (length_block_inv 0 4 1 _ b3 n3 (wtruth_concat_map _ rs (wtruth_resource enc_s)) H3) as (rbody & rlb & Hrb & Hprl & Hb3).
    rewrite pad_count_1 in Hb3. cbn [Z.to_nat zeros repeat app] in Hb3. rewrite app_nil_r in Hb3.
    rewrite Hb3. rewrite <- !app_assoc. steps. rewrite take_app. cbn [bind].
    rewrite (walk_resources_w enc_s rs rbody _ _ Hrb) by lia. cbn [bind].
    (* layer and mask information *)
    assert (Hv : len_bytes ver = Ok (if ver =? 1 then 4%nat else 8%nat)).
    { destruct Hver as [-> | ->]; reflexivity. }
    set (nb := if ver =? 1 then 4%nat else 8%nat) in *.
    unfold write_lami in H4. rewrite Hv in H4. cbn [bind] in H4.
    destruct (length_block_inv 0 nb 1 _ b4 n4 (wtruth_lami_body enc_s ver pad l) H4) as (lbody & llb & Hlb & Hpll & Hb4).
    rewrite pad_count_1 in Hb4. cbn [Z.to_nat zeros repeat app] in Hb4. rewrite app_nil_r in Hb4.
    rewrite Hb4. rewrite <- !app_assoc. steps. rewrite take_app. cbn [bind].
    rewrite (walk_lami_w ver nb pad l lbody _ _ Hpad Hv Hl Hlb). cbn [bind].
    (* image data *)
    unfold write_image_data, write_channel_data in H5.
    apply w_seq_inv in H5 as (c1 & m1 & c2 & m2 & H51 & H52 & -> & ->).
    apply w_fmt_inv in H51 as [H51 _]. apply w_bytes_inv in H52 as [-> _].
    rewrite <- ?app_assoc. steps.
    unfold wf_cd in Himg. rewrite (comp_le3 _ Himg). cbn [check bind].
    pose_lens. rewrite !len_app.
    repeat (f_equal; try lia).
  Qed.
End WP4.
