(* Round trip of EffectsLayer and its effect records. *)
From PsdV Require Import Base.Prelude Psd.Codec Psd.Model Psd.Proofs Psd.Leaf Psd.LeafProofs Psd.Effects.
From Coq Require Import ZArith List Bool Lia ZifyBool.
Import ListNotations.
Open Scope Z_scope.

Lemma col_rt c bs n rest : w_col c = Ok (bs, n) -> r_col (bs ++ rest) = Ok (c, rest).
Proof. destruct c as [id vs]. unfold w_col, r_col. cbn [fst snd]. intros H. rewrite (color_rt id vs bs n rest H). reflexivity. Qed.
Lemma wtruth_col c : wtruth (w_col c).
Proof. unfold w_col, write_color. apply wtruth_seq; apply wtruth_fmt. Qed.

Ltac col_step :=
  match goal with
  | H : w_col ?c = Ok (?b, ?n) |- context [r_col (?b ++ ?r)] => rewrite (col_rt c b n r H); cbn [bind fst snd]
  end.
Ltac fsteps := repeat first [step | col_step | progress cbn [app]].

Lemma chk_sig_ok : chk_sig sig_8BIM = Ok tt.
Proof. reflexivity. Qed.

Lemma glow_body_rt version blur intensity col blend enabled opacity bs n rest :
  memz blend model_blend_modes = true ->
  w_glow_body version blur intensity col blend enabled opacity = Ok (bs, n) ->
  r_glow_body (bs ++ rest) = Ok (version, blur, intensity, col, blend, enabled, opacity, rest).
Proof.
  intros Hb H. unfold w_glow_body in H.
  apply w_seq_inv in H as (b12 & n12 & b3 & n3 & H & H3 & -> & ->).
  apply w_seq_inv in H as (b1 & n1 & b2 & n2 & H1 & H2 & -> & ->).
  apply w_fmt_inv in H1 as [H1 ->]. apply w_fmt_inv in H3 as [H3 ->]. open_pk H1. open_pk H3.
  unfold r_glow_body. rewrite <- !app_assoc. fsteps. rewrite chk_sig_ok. cbn [bind]. fsteps.
  unfold chk_blend. rewrite Hb. cbn [bind]. fsteps. reflexivity.
Qed.

Theorem effect_rt e bs n rest :
  wf_effect e = true -> write_effect e = Ok (bs, n) -> read_effect (effect_kind e) (bs ++ rest) = Ok e.
Proof.
  intros Hwf H. destruct e; cbn [write_effect effect_kind wf_effect] in *.
  - (* common *)
    apply w_fmt_inv in H as [H ->]. open_pk H. inv_ok.
    change (read_effect 1) with (fun s => do (version, s1) <- read_u 4 s; do (visible, s2) <- read_u 1 s1; do (_, _) <- take 2 s2; Ok (FxCommon version visible)).
    cbn beta. rewrite <- !app_assoc. fsteps. rewrite (take_app_n 2 (zeros 2)) by reflexivity. reflexivity.
  - (* shadow *)
    apply w_seq_inv in H as (b123 & n123 & b4 & n4 & H & H4 & -> & ->).
    apply w_seq_inv in H as (b12 & n12 & b3 & n3 & H & H3 & -> & ->).
    apply w_seq_inv in H as (b1 & n1 & b2 & n2 & H1 & H2 & -> & ->).
    apply w_fmt_inv in H1 as [H1 ->]. apply w_fmt_inv in H3 as [H3 ->]. open_pk H1. open_pk H3.
    unfold read_effect. cbn [Z.eqb Pos.eqb]. rewrite <- !app_assoc. fsteps. rewrite chk_sig_ok. cbn [bind]. fsteps.
    unfold chk_blend. rewrite Hwf. cbn [bind]. fsteps. reflexivity.
  - (* outer glow *)
    apply andb_prop in Hwf as [Hb Hv]. apply eqb_prop in Hv.
    apply w_seq_inv in H as (b1 & n1 & b2 & n2 & H1 & H2 & -> & ->).
    unfold read_effect. cbn [Z.eqb Pos.eqb]. rewrite <- app_assoc.
    rewrite (glow_body_rt _ _ _ _ _ _ _ _ _ _ Hb H1). cbn [bind]. rewrite Hv.
    destruct native as [c|]; cbn [is_some r_opt].
    + rewrite (col_rt c b2 n2 rest H2). reflexivity.
    + reflexivity.
  - (* inner glow *)
    apply andb_prop in Hwf as [Hwf Hn]. apply andb_prop in Hwf as [Hb Hi]. apply eqb_prop in Hn, Hi.
    apply w_seq_inv in H as (b1 & n1 & b2 & n2 & H1 & H2 & -> & ->).
    unfold read_effect. cbn [Z.eqb Pos.eqb]. rewrite <- app_assoc.
    rewrite (glow_body_rt _ _ _ _ _ _ _ _ _ _ Hb H1). cbn [bind].
    destruct (2 <=? version) eqn:E.
    + destruct invert as [i|]; [|discriminate]. destruct native as [c|]; [|discriminate].
      apply w_seq_inv in H2 as (c1 & m1 & c2 & m2 & Hc1 & Hc2 & -> & ->). apply w_fmt_inv in Hc1 as [Hc1 ->].
      rewrite <- app_assoc. fsteps. reflexivity.
    + destruct invert; [discriminate|]. destruct native; [discriminate|]. reflexivity.
  - (* bevel *)
    apply andb_prop in Hwf as [Hwf Hr]. apply andb_prop in Hwf as [Hhb Hsb]. apply eqb_prop in Hr.
    apply w_seq_inv in H as (b12345 & n12345 & b6 & n6 & H & H6 & -> & ->).
    apply w_seq_inv in H as (b1234 & n1234 & b5 & n5 & H & H5 & -> & ->).
    apply w_seq_inv in H as (b123 & n123 & b4 & n4 & H & H4 & -> & ->).
    apply w_seq_inv in H as (b12 & n12 & b3 & n3 & H & H3 & -> & ->).
    apply w_seq_inv in H as (b1 & n1 & b2 & n2 & H1 & H2 & -> & ->).
    apply w_fmt_inv in H1 as [H1 ->]. apply w_fmt_inv in H2 as [H2 ->]. apply w_fmt_inv in H5 as [H5 ->].
    open_pk H1. open_pk H2. open_pk H5.
    unfold read_effect. cbn [Z.eqb Pos.eqb]. rewrite <- !app_assoc. fsteps.
    rewrite !chk_sig_ok. cbn [bind]. fsteps. rewrite Hr.
    unfold chk_blend. rewrite Hhb, Hsb.
    destruct real as [[ra rb]|]; cbn [is_some r_opt].
    + rewrite Hr in H6. apply w_seq_inv in H6 as (c1 & m1 & c2 & m2 & Hc1 & Hc2 & -> & ->).
      rewrite <- app_assoc. fsteps. reflexivity.
    + cbn [bind]. reflexivity.
  - (* solid fill *)
    apply w_seq_inv in H as (b123 & n123 & b4 & n4 & H & H4 & -> & ->).
    apply w_seq_inv in H as (b12 & n12 & b3 & n3 & H & H3 & -> & ->).
    apply w_seq_inv in H as (b1 & n1 & b2 & n2 & H1 & H2 & -> & ->).
    apply w_fmt_inv in H1 as [H1 ->]. apply w_fmt_inv in H3 as [H3 ->]. open_pk H1. open_pk H3.
    unfold read_effect. cbn [Z.eqb Pos.eqb]. rewrite <- !app_assoc. fsteps. rewrite chk_sig_ok. cbn [bind]. fsteps.
    unfold chk_blend. rewrite Hwf. reflexivity.
Qed.

Lemma wtruth_effect e : wtruth (write_effect e).
Proof.
  destruct e; cbn [write_effect]; unfold w_glow_body;
    repeat first [apply wtruth_col | apply wtruth_fmt | apply wtruth_nil | apply wtruth_seq ].
  - destruct native; [apply wtruth_col|apply wtruth_nil].
  - destruct (2 <=? version); [|apply wtruth_nil]. destruct invert, native; try apply wtruth_err.
    apply wtruth_seq; [apply wtruth_fmt|apply wtruth_col].
  - destruct (version =? 2); [|apply wtruth_nil]. destruct real as [[a b]|]; [|apply wtruth_err].
    apply wtruth_seq; apply wtruth_col.
Qed.

Definition fx_item_w (ke : Z * effect) : W :=
  w_fmt (pk_cat [pack_u 4 sig_8BIM; pack_u 4 (fst ke)]) +++ w_length_block 0 4 1 (write_effect (snd ke)).

Lemma effect_items_rt items : forall bs n rest,
  forallb (fun ke : Z * effect => match assocz (fst ke) model_effect_types with
                                  | Some k => (k =? effect_kind (snd ke)) && wf_effect (snd ke)
                                  | None => false end) items = true ->
  w_concat (map fx_item_w items) = Ok (bs, n) ->
  read_effect_items (length items) (bs ++ rest) = Ok (items, rest).
Proof.
  induction items as [|[key e] items IH]; intros bs n rest Hwf H.
  - apply w_concat_nil_inv in H as [-> _]. reflexivity.
  - apply w_concat_cons_inv in H as (b1 & n1 & b2 & n2 & Hi & Hl & -> & ->).
    cbn [forallb fst snd] in Hwf. apply andb_prop in Hwf as [Hk Hwl].
    destruct (assocz key model_effect_types) as [kind|] eqn:Ea; [|discriminate].
    apply andb_prop in Hk as [Hkind Hwe]. apply Z.eqb_eq in Hkind. subst kind.
    unfold fx_item_w in Hi. cbn [fst snd] in Hi.
    apply w_seq_inv in Hi as (c1 & m1 & c2 & m2 & H1 & H2 & -> & ->). apply w_fmt_inv in H1 as [H1 ->]. open_pk H1.
    block_inv H2 (b2 ++ rest) body Hb Hr; [lia|reflexivity|apply wtruth_effect|].
    cbn [length read_effect_items]. rewrite <- !app_assoc. steps. rewrite chk_sig_ok. cbn [bind]. steps.
    rewrite Ea. rewrite Hr. cbn [bind].
    rewrite <- (app_nil_r body). rewrite (effect_rt e body _ [] Hwe Hb). cbn [bind].
    rewrite (IH b2 n2 rest Hwl Hl). reflexivity.
Qed.

Theorem effects_rt l bs n :
  wf_effects l = true -> write_effects l = Ok (bs, n) -> read_effects bs = Ok l.
Proof.
  intros Hwf H. destruct l as [version items]. unfold wf_effects in Hwf. unfold write_effects in H.
  cbn [fx_version fx_items] in *. apply andb_prop in Hwf as [Hit Hnd].
  apply w_then_pad_inv in H as (x & nx & Hx & -> & _).
  apply w_seq_inv in Hx as (b1 & n1 & b2 & n2 & H1 & H2 & -> & ->). apply w_fmt_inv in H1 as [H1 ->]. open_pk H1.
  unfold read_effects. rewrite <- !app_assoc. steps. rewrite to_nat_len.
  change (map (fun ke : Z * effect => w_fmt (pk_cat [pack_u 4 sig_8BIM; pack_u 4 (fst ke)]) +++
                                      w_length_block 0 4 1 (write_effect (snd ke))) items) with (map fx_item_w items) in H2.
  rewrite (effect_items_rt items b2 n2 _ Hit H2). cbn [bind]. now rewrite od_build_nodup.
Qed.

Lemma wtruth_effects l : wtruth (write_effects l).
Proof.
  unfold write_effects. apply wtruth_then_pad, wtruth_seq; [apply wtruth_fmt|].
  apply wtruth_concat_map. intros a. apply wtruth_seq; [apply wtruth_fmt|apply wtruth_length_block, wtruth_effect].
Qed.
