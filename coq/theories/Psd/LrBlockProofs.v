(* Stage 3: layer_and_mask.LayerInfoBlock ('Lr16' / 'Lr32'): the body of a LayerInfo without its length field -
   read = LayerInfo._read_body, write = LayerInfo._write_body (Psd/Model.v write_li_body / read_li_body). *)
From PsdV Require Import Base.Prelude Psd.Codec Psd.Model Psd.Proofs.
From Coq Require Import ZArith List Bool Lia ZifyBool.
Import ListNotations.
Open Scope Z_scope.

Section LrBlock.
  Variable enc_s : list Z -> res (list Z).
  Variable dec_s : list Z -> res (list Z).

  Definition write_lr_block (v padding : Z) (li : layer_info) : W := write_li_body enc_s v padding li.
  Definition read_lr_block (v : Z) (s : stream) : res layer_info := do (li, _) <- read_li_body dec_s v s; Ok li.
  (* a block with records, or the empty block with its two empty lists *)
  Definition wf_lr_block (li : layer_info) : bool :=
    if li_count li =? 0
    then match li_records li, li_chans li with Some [], Some [] => true | _, _ => false end
    else wf_li enc_s dec_s li.

  Lemma wtruth_lr_block v pad li : wtruth (write_lr_block v pad li).
  Proof. apply wtruth_li_body. Qed.

  Theorem lr_block_rt v pad li bs n :
    wf_lr_block li = true -> write_lr_block v pad li = Ok (bs, n) -> read_lr_block v bs = Ok (li_update li).
  Proof.
    unfold wf_lr_block, write_lr_block, read_lr_block. intros Hwf H.
    destruct li as [count recs chans]. cbn [li_count li_records li_chans] in *.
    destruct (count =? 0) eqn:Ec.
    - destruct recs as [[|? ?]|]; try discriminate. destruct chans as [[|? ?]|]; try discriminate.
      assert (count = 0) by lia. subst count.
      unfold write_li_body, li_update in H. cbn [li_count li_records li_chans truthy] in H.
      apply w_then_pad_inv in H as (x & nx & Hx & -> & _).
      apply w_seq_inv in Hx as (b12 & n12 & b3 & n3 & Hx & H3 & -> & ->).
      apply w_seq_inv in Hx as (b1 & n1 & b2 & n2 & H1 & H2 & -> & ->).
      apply w_fmt_inv in H1 as [H1 _]. inversion H2; subst b2 n2. inversion H3; subst b3 n3.
      unfold read_li_body. rewrite <- !app_assoc. steps. reflexivity.
    - unfold wf_li in Hwf. cbn [li_count li_records li_chans] in Hwf. rewrite Ec in Hwf.
      destruct recs as [rs|]; [|discriminate]. destruct chans as [cs|]; [|discriminate].
      apply andb_prop in Hwf as [Hwf Hwcd]. apply andb_prop in Hwf as [Hwf Hwrec]. apply andb_prop in Hwf as [Hcount Hshape].
      assert (Hrs : rs <> []).
      { intros ->. change (len (@nil layer_record)) with 0 in Hcount. lia. }
      pose proof (same_shape_length _ _ Hshape) as Hlen.
      destruct rs as [|r0 rs0]; [congruence|]. destruct cs as [|c0 cs0]; [discriminate|].
      unfold write_li_body, li_update in H. cbn [li_count li_records li_chans] in H.
      change (truthy (Some (upd_recs (r0 :: rs0) (c0 :: cs0)))) with true in H.
      change (truthy (Some (c0 :: cs0))) with true in H. cbn [opt_w] in H.
      unfold li_update. cbn [li_count li_records li_chans].
      set (rs := r0 :: rs0) in *. set (cs := c0 :: cs0) in *.
      apply w_then_pad_inv in H as (x & nx & Hx & -> & _).
      apply w_seq_inv in Hx as (b12 & n12 & b3 & n3 & Hx & H3 & -> & ->).
      apply w_seq_inv in Hx as (b1 & n1 & b2 & n2 & H1 & H2 & -> & ->).
      apply w_fmt_inv in H1 as [H1 _].
      unfold read_li_body. rewrite <- !app_assoc. steps.
      replace (Z.to_nat (Z.abs count)) with (length (upd_recs rs cs)).
      2:{ rewrite upd_recs_length. apply Z.eqb_eq in Hcount. rewrite <- Hcount. symmetry. apply to_nat_len. }
      rewrite (read_n_rt (write_record enc_s v) (read_record dec_s v) (fun r => wf_record enc_s dec_s r = true)
                 (record_rt enc_s dec_s v) (upd_recs rs cs) b2 n2 _
                 (forallb_Forall _ _ (upd_recs_wf enc_s dec_s rs cs Hwrec)) H2).
      cbn [bind].
      rewrite (channel_lists_rt cs rs b3 n3 _ Hshape Hwcd H3). reflexivity.
  Qed.
End LrBlock.
