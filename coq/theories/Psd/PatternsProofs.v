(* Round trip of Patterns / Pattern / VirtualMemoryArrayList / VirtualMemoryArray. *)
From PsdV Require Import Base.Prelude Psd.Codec Psd.Model Psd.Proofs Psd.Leaf Psd.LeafProofs Psd.Descriptor
  Psd.DescriptorProofs Psd.WalkProofs Psd.Patterns.
From Coq Require Import ZArith List Bool Lia ZifyBool.
Import ListNotations.
Open Scope Z_scope.

Lemma u32s_rt l n bs m rest : w_u32s l n = Ok (bs, m) -> read_n n (read_u 4) (bs ++ rest) = Ok (l, rest) /\ len bs = 4 * Z.of_nat n.
Proof.
  unfold w_u32s. intros H. apply w_fmt_inv in H as [H ->].
  destruct (length l =? n)%nat eqn:E; [|discriminate]. apply Nat.eqb_eq in E. subst n. split.
  - apply read_n_pack_u. exact H.
  - clear -H. revert bs H. induction l as [|v l IH]; intros bs H.
    + apply pk_cat_nil_inv in H as ->. reflexivity.
    + cbn [map] in H. apply pk_cat_cons_inv in H as (x & y & Hx & Hy & ->).
      rewrite len_app, (IH _ Hy). pose_lens. cbn [length]. lia.
Qed.
Lemma wtruth_u32s l n : wtruth (w_u32s l n).
Proof. apply wtruth_fmt. Qed.

Lemma wtruth_vma a : wtruth (write_vma a).
Proof.
  destruct a; cbn [write_vma]; try apply wtruth_fmt.
  - destruct (is_written =? 0); [apply wtruth_fmt|apply wtruth_seq; apply wtruth_fmt].
  - destruct (is_written =? 0); [apply wtruth_fmt|]. apply wtruth_seq; [apply wtruth_fmt|].
    apply wtruth_length_block. repeat apply wtruth_seq; try apply wtruth_fmt; apply wtruth_bytes.
Qed.

Lemma vma_rt a bs n rest : wf_vma a = true -> write_vma a = Ok (bs, n) ->
  read_vma (bs ++ rest) = Ok (a, rest) /\ 4 <= len bs.
Proof.
  intros Hwf H. destruct a as [|w|w depth rect pd comp data]; cbn [write_vma wf_vma] in *.
  - apply w_fmt_inv in H as [H ->]. split; [|pose_lens; lia]. unfold read_vma. steps. reflexivity.
  - destruct (w =? 0) eqn:Ew; [discriminate|].
    apply w_seq_inv in H as (b1 & n1 & b2 & n2 & H1 & H2 & -> & ->).
    apply w_fmt_inv in H1 as [H1 ->]. apply w_fmt_inv in H2 as [H2 ->].
    split; [|len_lia]. unfold read_vma. rewrite <- app_assoc. steps. rewrite Ew. steps. reflexivity.
  - apply andb_prop in Hwf as [Hw Hc]. destruct (w =? 0) eqn:Ew; [discriminate|].
    apply w_seq_inv in H as (b1 & n1 & b2 & n2 & H1 & H2 & -> & ->). apply w_fmt_inv in H1 as [H1 ->].
    pose proof (fun hw => length_block_inv 0 4 1 _ b2 n2 hw H2) as X.
    destruct X as (body & lb & Hb & Hlb & Hb2).
    { repeat apply wtruth_seq; try apply wtruth_fmt; apply wtruth_bytes. }
    rewrite pad_count_1 in Hb2. cbn [Z.to_nat zeros repeat app] in Hb2. rewrite app_nil_r in Hb2.
    apply w_seq_inv in Hb as (c123 & m123 & c4 & m4 & Hb & H4 & Hbody & _).
    apply w_seq_inv in Hb as (c12 & m12 & c3 & m3 & Hb & H3 & -> & _).
    apply w_seq_inv in Hb as (c1 & m1 & c2 & m2 & Hc1 & Hc2 & -> & _).
    apply w_fmt_inv in Hc1 as [Hc1 _]. apply w_fmt_inv in H3 as [H3 _]. apply w_bytes_inv in H4 as [-> _]. open_pk H3.
    destruct (u32s_rt rect 4 c2 m2 ((x ++ x0 ++ []) ++ data ++ rest) Hc2) as [Hr Hl2].
    assert (Hlen : len body = 23 + len data).
    { rewrite Hbody, !len_app. pose_lens. change (len (@nil Z)) with 0. lia. }
    split; [|rewrite Hb2; len_lia].
    unfold read_vma. rewrite Hb2. rewrite <- !app_assoc. steps. rewrite Ew. steps.
    pose proof (len_nonneg data). replace (len body =? 0) with false by lia.
    rewrite Hbody. rewrite <- !app_assoc. steps.
    rewrite <- !app_assoc in Hr. cbn [app] in Hr. rewrite Hr. cbn [bind]. steps.
    replace (len (c1 ++ c2 ++ x ++ x0 ++ data) - 23) with (len data)
      by (rewrite !len_app; pose_lens; lia).
    rewrite read_upto_app. cbn [fst snd]. now rewrite Hc.
Qed.

Lemma vma_list_rt chs : forall bs n rest, forallb wf_vma chs = true -> w_concat (map write_vma chs) = Ok (bs, n) ->
  read_n (length chs) read_vma (bs ++ rest) = Ok (chs, rest) /\ len chs * 4 <= len bs.
Proof.
  induction chs as [|a chs IH]; intros bs n rest Hwf H.
  - apply w_concat_nil_inv in H as [-> _]. split; reflexivity.
  - apply w_concat_cons_inv in H as (b1 & n1 & b2 & n2 & Ha & Hl & -> & ->).
    cbn [forallb] in Hwf. apply andb_prop in Hwf as [Hwa Hwl].
    destruct (vma_rt a b1 n1 (b2 ++ rest) Hwa Ha) as [Hr Hlen]. destruct (IH b2 n2 rest Hwl Hl) as [Hrl Hll].
    split; [|rewrite len_cons, len_app; lia].
    cbn [length read_n]. rewrite <- app_assoc. rewrite Hr. cbn [bind]. rewrite Hrl. reflexivity.
Qed.

Lemma wtruth_vmal l : wtruth (write_vmal l).
Proof.
  unfold write_vmal. apply wtruth_seq; [apply wtruth_fmt|]. apply wtruth_length_block.
  repeat apply wtruth_seq; try apply wtruth_fmt. apply wtruth_concat_map, wtruth_vma.
Qed.

Lemma vmal_rt l bs n rest : wf_vmal l = true -> write_vmal l = Ok (bs, n) -> read_vmal (bs ++ rest) = Ok (l, rest).
Proof.
  intros Hwf H. destruct l as [version rect chs]. unfold wf_vmal in Hwf. unfold write_vmal in H.
  cbn [vl_version vl_rect vl_channels] in *.
  apply andb_prop in Hwf as [Hwf Hch]. apply andb_prop in Hwf as [Hv Hn].
  apply w_seq_inv in H as (b1 & n1 & b2 & n2 & H1 & H2 & -> & ->). apply w_fmt_inv in H1 as [H1 ->].
  block_inv H2 rest body Hb Hr; [lia|reflexivity| |].
  { repeat apply wtruth_seq; try apply wtruth_fmt. apply wtruth_concat_map, wtruth_vma. }
  unfold read_vmal. rewrite <- app_assoc. steps. rewrite Hv. cbn [negb]. rewrite Hr. cbn [bind].
  apply w_seq_inv in Hb as (c12 & m12 & c3 & m3 & Hb & H3 & Hbody & _).
  apply w_seq_inv in Hb as (c1 & m1 & c2 & m2 & Hc1 & Hc2 & -> & _). apply w_fmt_inv in Hc2 as [Hc2 _].
  destruct (u32s_rt rect 4 c1 m1 (c2 ++ c3) Hc1) as [Hrr _].
  rewrite Hbody. rewrite <- app_assoc. rewrite Hrr. cbn [bind]. steps.
  destruct (vma_list_rt chs c3 m3 [] Hch H3) as [Hrl Hll]. rewrite app_nil_r in Hrl.
  replace (Z.to_nat (Z.min (len chs - 2 + 2) (len c3 + 1))) with (length chs).
  2:{ rewrite Z.min_l by lia. replace (len chs - 2 + 2) with (len chs) by lia. symmetry. apply to_nat_len. }
  rewrite Hrl. cbn [bind]. replace (len chs =? len chs - 2 + 2) with true by lia. reflexivity.
Qed.

Section PattProofs.
  Variable enc_s : list Z -> res (list Z).
  Variable dec_s : list Z -> res (list Z).

  Lemma rgb_rt c bs n rest : w_rgb c = Ok (bs, n) -> r_rgb (bs ++ rest) = Ok (c, rest).
  Proof.
    destruct c as [[r g] b]. unfold w_rgb, r_rgb. intros H. apply w_fmt_inv in H as [H ->]. open_pk H.
    rewrite <- !app_assoc. steps. reflexivity.
  Qed.
  Lemma rgb_list_rt t : forall bs n rest, w_concat (map w_rgb t) = Ok (bs, n) ->
    read_n (length t) r_rgb3 (bs ++ rest) = Ok (t, rest).
  Proof.
    induction t as [|c t IH]; intros bs n rest H.
    - apply w_concat_nil_inv in H as [-> _]. reflexivity.
    - apply w_concat_cons_inv in H as (b1 & n1 & b2 & n2 & Hc & Hl & -> & ->).
      cbn [length read_n]. rewrite <- app_assoc. unfold r_rgb3 at 1. rewrite (rgb_rt c b1 n1 _ Hc). cbn [bind].
      destruct c as [[r g] b]. cbn [bind]. rewrite (IH b2 n2 rest Hl). reflexivity.
  Qed.

  Lemma wtruth_pattern p : wtruth (write_pattern enc_s p).
  Proof.
    unfold write_pattern.
    apply wtruth_seq; [|apply wtruth_vmal].
    apply wtruth_seq.
    - apply wtruth_seq; [apply wtruth_seq; [apply wtruth_seq; apply wtruth_fmt|apply wtruth_unicode]|apply wtruth_pascal].
    - apply wtruth_if; [|apply wtruth_nil]. apply wtruth_opt. intros t. apply wtruth_seq; [|apply wtruth_bytes].
      apply wtruth_concat_map. intros [[r g] b]. apply wtruth_fmt.
  Qed.

  Theorem pattern_rt p bs n : wf_pattern enc_s dec_s p = true -> write_pattern enc_s p = Ok (bs, n) ->
    read_pattern dec_s bs = Ok p.
  Proof.
    intros Hwf H. destruct p as [version mode [px py] name pid tbl data]. unfold wf_pattern in Hwf. unfold write_pattern in H.
    cbn [pt_version pt_mode pt_point pt_name pt_id pt_table pt_data fst snd] in *.
    apply andb_prop in Hwf as [Hwf Hdata]. apply andb_prop in Hwf as [Hwf Htbl].
    apply andb_prop in Hwf as [Hwf Hid]. apply andb_prop in Hwf as [Hv Hm].
    apply w_seq_inv in H as (b12345 & n12345 & b6 & n6 & H & H6 & -> & ->).
    apply w_seq_inv in H as (b1234 & n1234 & b5 & n5 & H & H5 & -> & ->).
    apply w_seq_inv in H as (b123 & n123 & b4 & n4 & H & H4 & -> & ->).
    apply w_seq_inv in H as (b12 & n12 & b3 & n3 & H & H3 & -> & ->).
    apply w_seq_inv in H as (b1 & n1 & b2 & n2 & H1 & H2 & -> & ->).
    apply w_fmt_inv in H1 as [H1 ->]. apply w_fmt_inv in H2 as [H2 ->]. open_pk H1. open_pk H2.
    unfold read_pattern. rewrite <- !app_assoc. steps. rewrite Hv. cbn [negb]. steps. rewrite Hm. cbn [negb]. steps.
    rewrite (unicode1_rt name b3 n3 _ H3). cbn [bind].
    rewrite (pascal_rt enc_s dec_s pid 1 b4 n4 _ ltac:(lia) (wf_name_inv enc_s dec_s pid Hid) H4). cbn [bind].
    destruct tbl as [t|].
    - apply andb_prop in Htbl as [Hmi Hlen]. apply Nat.eqb_eq in Hlen. rewrite Hmi.
      destruct t as [|c0 t0]; [discriminate|]. cbn [truthy opt_w] in H5.
      apply w_seq_inv in H5 as (c1 & m1 & c2 & m2 & Hc1 & Hc2 & -> & ->). apply w_bytes_inv in Hc2 as [-> ->].
      cbn [r_opt]. rewrite <- !app_assoc. rewrite <- Hlen.
      rewrite (rgb_list_rt (c0 :: t0) c1 m1 _ Hc1). cbn [bind].
      rewrite (take_app_n 4 (zeros 4)) by reflexivity. cbn [bind].
      rewrite <- (app_nil_r b6). rewrite (vmal_rt data b6 n6 [] Hdata H6). reflexivity.
    - cbn [truthy] in H5. inversion H5; subst. apply negb_true_iff in Htbl. rewrite Htbl. cbn [r_opt app bind].
      rewrite <- (app_nil_r b6). rewrite (vmal_rt data b6 n6 [] Hdata H6). reflexivity.
  Qed.

  Lemma patterns_items_rt l : forall bs n fuel,
    forallb (wf_pattern enc_s dec_s) l = true -> write_patterns enc_s l = Ok (bs, n) -> (length bs < fuel)%nat ->
    read_patterns dec_s fuel bs = Ok l.
  Proof.
    induction l as [|p l IH]; intros bs n fuel Hwf H Hf.
    - apply w_concat_nil_inv in H as [-> _]. destruct fuel; [cbn in Hf; lia|]. reflexivity.
    - unfold write_patterns in H. apply w_concat_cons_inv in H as (b1 & n1 & b2 & n2 & Hp & Hl & -> & ->).
      cbn [forallb] in Hwf. apply andb_prop in Hwf as [Hwp Hwl].
      pose proof (length_block_len _ _ _ _ _ _ Hp) as Hlen. cbn in Hlen.
      block_inv Hp b2 body Hb Hr; [lia|reflexivity|apply wtruth_pattern|].
      destruct fuel; [lia|]. cbn [read_patterns]. unfold is_readable. rewrite len_app. pose proof (len_nonneg b2).
      replace (4 <=? len b1 + len b2) with true by lia.
      rewrite Hr. cbn [bind]. rewrite (pattern_rt p body _ Hwp Hb). cbn [bind].
      rewrite (IH b2 n2 fuel Hwl Hl); [reflexivity|]. rewrite app_length in Hf. unfold len in Hlen. lia.
  Qed.

  Theorem patterns_rt l bs n :
    forallb (wf_pattern enc_s dec_s) l = true -> write_patterns enc_s l = Ok (bs, n) ->
    read_patterns dec_s (S (length bs)) bs = Ok l.
  Proof. intros Hwf H. apply (patterns_items_rt l bs n _ Hwf H). lia. Qed.

  Lemma wtruth_patterns l : wtruth (write_patterns enc_s l).
  Proof. apply wtruth_concat_map. intros p. apply wtruth_length_block, wtruth_pattern. Qed.
End PattProofs.
