(* Stage 3 (4): round trip of FilterEffects and its parts (Psd/FilterFx.v) *)
From PsdV Require Import Base.Prelude Psd.Codec Psd.Model Psd.Proofs Psd.Struct Psd.FilterFx.
From Coq Require Import ZArith List Bool Lia ZifyBool.
Import ListNotations.
Open Scope Z_scope.

Ltac wt :=
  repeat first [ apply wtruth_then_pad | apply wtruth_seq | apply wtruth_fmt | apply wtruth_bytes | apply wtruth_nil
               | apply wtruth_err | apply wtruth_length_block
               | match goal with
                 | |- wtruth (if ?c then _ else _) => destruct c
                 | |- wtruth (match ?o with Some _ => _ | None => _ end) => destruct o
                 end ].

Lemma wtruth_fchannel c : wtruth (write_fchannel c).
Proof. unfold write_fchannel. wt. Qed.
Lemma wtruth_fextra x : wtruth (write_fextra x).
Proof. unfold write_fextra. wt. Qed.
Lemma wtruth_febody e : wtruth (write_febody e).
Proof. unfold write_febody. wt. apply wtruth_concat_map, wtruth_fchannel. Qed.

Lemma nil_body body : w_nil = Ok (body, len body) -> body = [].
Proof. unfold w_nil. intros H. inversion H. reflexivity. Qed.

Lemma fchannel_rt c bs n rest : wf_fchannel c = true -> write_fchannel c = Ok (bs, n) ->
  read_fchannel (bs ++ rest) = Ok (c, rest) /\ 4 <= len bs.
Proof.
  destruct c as [w comp data]. unfold wf_fchannel, write_fchannel. cbn [fc_written fc_comp fc_data]. intros Hwf H.
  apply w_seq_inv in H as (a & na & b & nb & Ha & Hb & -> & ->). apply w_fmt_inv in Ha as [Ha _].
  split; [|len_lia].
  unfold read_fchannel. rewrite <- app_assoc. steps.
  destruct (w =? 0) eqn:Ew.
  - inversion Hb; subst b nb. destruct comp; [discriminate|]. destruct data; [|discriminate]. reflexivity.
  - block_inv Hb rest body Hbody Hr; [lia|reflexivity|destruct comp; wt|].
    rewrite Hr. cbn [bind].
    destruct comp as [k|].
    + apply w_seq_inv in Hbody as (x & nx & y & ny & Hx & Hy & E & _). apply w_fmt_inv in Hx as [Hx _].
      apply w_bytes_inv in Hy as [-> _]. subst body.
      replace (len (x ++ data) =? 0) with false by len_lia. steps. reflexivity.
    + apply nil_body in Hbody. subst body. cbn [len length Z.of_nat Z.eqb]. destruct data; [|discriminate]. reflexivity.
Qed.

Lemma fextra_rt x bs n rest : wf_fextra x = true -> write_fextra x = Ok (bs, n) ->
  read_fextra (bs ++ rest) = Ok (x, rest) /\ 1 <= len bs.
Proof.
  destruct x as [w rect comp data]. unfold wf_fextra, write_fextra. cbn [fx_written fx_rect fx_comp fx_data]. intros Hwf H.
  apply w_seq_inv in H as (a & na & b & nb & Ha & Hb & -> & ->). apply w_fmt_inv in Ha as [Ha _].
  split; [|len_lia].
  unfold read_fextra. rewrite <- app_assoc. steps.
  destruct (w =? 0) eqn:Ew.
  - inversion Hb; subst b nb. apply andb_prop in Hwf as [Hwf Hd]. apply andb_prop in Hwf as [Hr Hc].
    apply list_eqb_eq in Hr. subst rect. apply Z.eqb_eq in Hc. subst comp. destruct data; [|discriminate]. reflexivity.
  - apply w_seq_inv in Hb as (r & nr & blk & nblk & Hr & Hblk & -> & ->). apply w_fmt_inv in Hr as [Hr _].
    rewrite <- app_assoc. rewrite (fields_rt L_rect4 rect r _ (wf_fields_plain L_rect4 eq_refl rect) Hr). cbn [bind].
    block_inv Hblk rest body Hbody Hrd; [lia|reflexivity|wt|].
    rewrite Hrd. cbn [bind].
    apply w_seq_inv in Hbody as (p & np & q & nq & Hp & Hq & E & _). apply w_fmt_inv in Hp as [Hp _].
    apply w_bytes_inv in Hq as [-> _]. subst body. steps. reflexivity.
Qed.

Lemma channels_len l : forall bs n, w_concat (map write_fchannel l) = Ok (bs, n) -> len l <= len bs.
Proof.
  induction l as [|c l IH]; intros bs n H.
  - apply w_concat_nil_inv in H as [-> _]. reflexivity.
  - apply w_concat_cons_inv in H as (b1 & n1 & b2 & n2 & Hc & Hl & -> & ->).
    specialize (IH _ _ Hl). unfold write_fchannel in Hc.
    apply w_seq_inv in Hc as (a & na & b & nb & Ha & _ & -> & _). apply w_fmt_inv in Ha as [Ha _].
    unfold len in *. cbn [length]. rewrite !app_length. pose proof (pack_u_len _ _ _ Ha). unfold len in *. lia.
Qed.

Section FilterFxProofs.
  Variable enc_s : list Z -> res (list Z).
  Variable dec_s : list Z -> res (list Z).

  Lemma wtruth_feffect e : wtruth (write_feffect enc_s e).
  Proof.
    unfold write_feffect. wt; first [apply wtruth_pascal | apply wtruth_fextra | apply wtruth_febody | apply wtruth_concat_map, wtruth_fchannel].
  Qed.
  Lemma wtruth_feffects v l : wtruth (write_feffects enc_s v l).
  Proof. unfold write_feffects. wt. apply wtruth_concat_map. intros e. apply wtruth_length_block, wtruth_feffect. Qed.

  Theorem feffect_rt e bs n : wf_feffect enc_s dec_s e = true -> write_feffect enc_s e = Ok (bs, n) ->
    read_feffect dec_s bs = Ok e.
  Proof.
    destruct e as [uuid version rect depth maxch chs extra]. unfold wf_feffect, write_feffect.
    cbn [fe_uuid fe_version fe_rect fe_depth fe_maxch fe_channels fe_extra]. intros Hwf H.
    apply andb_prop in Hwf as [Hwf Hex]. apply andb_prop in Hwf as [Hwf Hchs]. apply andb_prop in Hwf as [Hwf Hcnt].
    apply andb_prop in Hwf as [Huuid Hver].
    apply w_seq_inv in H as (x3 & n3 & b4 & n4 & H & H4 & -> & ->).
    apply w_seq_inv in H as (x2 & n2 & b3 & n3' & H & H3 & -> & ->).
    apply w_seq_inv in H as (b1 & n1 & b2 & n2' & H1 & H2 & -> & ->). apply w_fmt_inv in H2 as [H2 _].
    unfold read_feffect. rewrite <- !app_assoc.
    rewrite (pascal_rt enc_s dec_s uuid 1 b1 n1 _ ltac:(lia) (wf_name_inv enc_s dec_s uuid Huuid) H1). cbn [bind]. steps.
    rewrite Hver. cbn [negb].
    block_inv H3 b4 body Hbody Hr; [lia|reflexivity|apply wtruth_febody|].
    rewrite Hr. cbn [bind].
    unfold write_febody in Hbody. cbn [fe_rect fe_depth fe_maxch fe_channels] in Hbody.
    apply w_seq_inv in Hbody as (y2 & m2 & c3 & m3 & Hb & Hc3 & E & _).
    apply w_seq_inv in Hb as (c1 & m1 & c2 & m2' & Hc1 & Hc2 & -> & _).
    apply w_fmt_inv in Hc1 as [Hc1 _]. apply w_fmt_inv in Hc2 as [Hc2 _]. open_pk Hc2. subst body.
    rewrite <- !app_assoc. rewrite (fields_rt L_rect4 rect c1 _ (wf_fields_plain L_rect4 eq_refl rect) Hc1). cbn [bind]. steps.
    pose proof (channels_len chs c3 m3 Hc3) as Hlen.
    replace (Z.to_nat (Z.min (maxch + 2) (len c3 + 1))) with (length chs) by (unfold len in *; lia).
    rewrite <- (app_nil_r c3).
    rewrite (read_n_rt write_fchannel read_fchannel (fun c => wf_fchannel c = true)
               (fun a bs0 n0 rest0 Hp Hw => proj1 (fchannel_rt a bs0 n0 rest0 Hp Hw)) chs c3 m3 []
               (proj2 (Forall_forall _ _) (fun c Hin => proj1 (forallb_forall _ _) Hchs c Hin)) Hc3).
    cbn [bind].
    destruct extra as [ex|].
    - destruct (fextra_rt ex b4 n4 [] Hex H4) as [Hrx Hl1]. rewrite app_nil_r in Hrx.
      unfold is_readable. replace (1 <=? len b4) with true by lia. cbn [r_opt]. rewrite Hrx. reflexivity.
    - inversion H4; subst b4 n4. reflexivity.
  Qed.

  Lemma rlb_len pre nb pad s x : read_length_block pre nb pad s = Ok x -> Z.of_nat (pre + nb) <= len s.
  Proof.
    unfold read_length_block, take. destruct ((0 <=? Z.of_nat (pre + nb)) && (Z.of_nat (pre + nb) <=? len s)) eqn:E; [|discriminate].
    intros _. lia.
  Qed.

  Lemma feitems_rt : forall l bs n tail fuel,
    forallb (wf_feffect enc_s dec_s) l = true ->
    w_concat (map (fun e => w_length_block 0 8 4 (write_feffect enc_s e)) l) = Ok (bs, n) ->
    len tail < 8 -> (length bs < fuel)%nat -> read_feitems dec_s fuel (bs ++ tail) = Ok l.
  Proof.
    induction l as [|x l IH]; intros bs n tail fuel Hwf H Ht Hf.
    - apply w_concat_nil_inv in H as [-> _]. destruct fuel; [cbn in Hf; lia|]. cbn [read_feitems app].
      unfold is_readable. replace (8 <=? len tail) with false by lia. reflexivity.
    - apply w_concat_cons_inv in H as (b1 & n1 & b2 & n2 & Hx & Hl & -> & ->).
      cbn [forallb] in Hwf. apply andb_prop in Hwf as [Hwx Hwl].
      destruct fuel as [|f]; [cbn in Hf; lia|]. cbn [read_feitems].
      pose proof (fun rest => length_block_rt 0 8 4 _ b1 n1 rest ltac:(lia) eq_refl (wtruth_feffect x) Hx) as Hb.
      destruct (Hb []) as (body & Hbody & Hr0). apply rlb_len in Hr0. rewrite app_nil_r in Hr0. change (Z.of_nat (0 + 8)) with 8 in Hr0.
      destruct (Hb (b2 ++ tail)) as (body' & Hbody' & Hr). rewrite Hbody in Hbody'. inversion Hbody'; subst body'. clear Hbody'.
      rewrite <- app_assoc. unfold is_readable. replace (8 <=? len (b1 ++ b2 ++ tail)) with true by (rewrite len_app; pose_nonneg; lia).
      rewrite Hr. cbn [bind]. rewrite (feffect_rt x body (len body) Hwx Hbody). cbn [bind].
      rewrite (IH b2 n2 tail f Hwl Hl Ht). { reflexivity. }
      rewrite app_length in Hf. unfold len in Hr0. lia.
  Qed.

  Theorem feffects_rt v l bs n : wf_feffects enc_s dec_s v l = true -> write_feffects enc_s v l = Ok (bs, n) ->
    read_feffects dec_s bs = Ok (v, l).
  Proof.
    unfold wf_feffects, write_feffects. intros Hwf H. apply andb_prop in Hwf as [Hv Hl].
    apply w_seq_inv in H as (a & na & b & nb & Ha & Hb & -> & ->). apply w_fmt_inv in Ha as [Ha _].
    unfold read_feffects. steps. rewrite Hv. cbn [negb].
    rewrite <- (app_nil_r b). rewrite (feitems_rt l b nb [] _ Hl Hb); [reflexivity|reflexivity|rewrite app_nil_r; lia].
  Qed.
End FilterFxProofs.
