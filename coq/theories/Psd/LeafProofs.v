(* Round trips of the modelled leaf payload classes, alone and inside a tagged block. *)
From PsdV Require Import Base.Prelude Psd.Codec Psd.Model Psd.Proofs Psd.Leaf.
From Coq Require Import ZArith List Bool Lia ZifyBool.
Import ListNotations.
Open Scope Z_scope.

Lemma units_of_pack units : forall b, pk_cat (map (pack_u 2) units) = Ok b -> units_of b = Ok units.
Proof.
  induction units as [|u units IH]; intros b H.
  - apply pk_cat_nil_inv in H as ->. reflexivity.
  - cbn [map] in H. apply pk_cat_cons_inv in H as (x & y & Hx & Hy & ->).
    pose proof (pack_u_len _ _ _ Hx) as Hl. pose proof (pack_u_val _ _ _ Hx) as Hv.
    destruct x as [|a [|c [|]]]; try (unfold len in Hl; cbn [length] in Hl; lia).
    cbn [app units_of]. rewrite (IH y Hy). cbn [bind].
    unfold be_val in Hv. cbn [rev app le_val] in Hv. do 2 f_equal. lia.
Qed.
Lemma pk_cat_len2 units : forall b, pk_cat (map (pack_u 2) units) = Ok b -> len b = len units * 2.
Proof.
  induction units as [|u units IH]; intros b H.
  - apply pk_cat_nil_inv in H as ->. reflexivity.
  - cbn [map] in H. apply pk_cat_cons_inv in H as (x & y & Hx & Hy & ->).
    rewrite len_app, len_cons, (IH y Hy), (pack_u_len _ _ _ Hx). lia.
Qed.

Lemma unicode_rt units pad bs n :
  0 < pad -> w_unicode units pad = Ok (bs, n) -> r_unicode 1 bs = Ok (units, skipn 0 (zeros (Z.to_nat (pad_count (4 + len units * 2) pad)))).
Proof.
  intros Hpad H. unfold w_unicode in H. apply w_then_pad_inv in H as (x & nx & Hx & -> & _).
  apply w_seq_inv in Hx as (a & na & b & nb & Ha & Hb & -> & ->).
  apply w_fmt_inv in Ha as [Ha ->]. apply w_fmt_inv in Hb as [Hb ->].
  unfold r_unicode. rewrite <- !app_assoc. rewrite (read_u_pack _ _ _ _ Ha). cbn [bind fst snd].
  rewrite <- (pk_cat_len2 _ _ Hb). rewrite read_upto_app. cbn [fst snd]. rewrite (units_of_pack _ _ Hb). cbn [bind].
  rewrite r_pad_0 by apply pad_count_1. rewrite (pack_u_len _ _ _ Ha), (pk_cat_len2 _ _ Hb). reflexivity.
Qed.

Lemma read_n_pack_u k vals : forall b rest, pk_cat (map (pack_u k) vals) = Ok b ->
  read_n (length vals) (read_u k) (b ++ rest) = Ok (vals, rest).
Proof.
  induction vals as [|v vals IH]; intros b rest H.
  - apply pk_cat_nil_inv in H as ->. reflexivity.
  - cbn [map] in H. apply pk_cat_cons_inv in H as (x & y & Hx & Hy & ->).
    cbn [length read_n]. rewrite <- app_assoc. rewrite (read_u_pack _ _ _ _ Hx). cbn [bind].
    rewrite (IH y rest Hy). reflexivity.
Qed.
Lemma read_n_pack_s k vals : (0 < k)%nat -> forall b rest, pk_cat (map (pack_s k) vals) = Ok b ->
  read_n (length vals) (read_s k) (b ++ rest) = Ok (vals, rest).
Proof.
  intros Hk. induction vals as [|v vals IH]; intros b rest H.
  - apply pk_cat_nil_inv in H as ->. reflexivity.
  - cbn [map] in H. apply pk_cat_cons_inv in H as (x & y & Hx & Hy & ->).
    cbn [length read_n]. rewrite <- app_assoc. rewrite (read_s_pack _ _ _ _ Hk Hx). cbn [bind].
    rewrite (IH y rest Hy). reflexivity.
Qed.

Lemma color_rt id values bs n rest :
  write_color id values = Ok (bs, n) -> read_color (bs ++ rest) = Ok (id, values, rest).
Proof.
  unfold write_color. intros H. apply w_seq_inv in H as (a & na & b & nb & Ha & Hb & -> & ->).
  apply w_fmt_inv in Ha as [Ha ->]. apply w_fmt_inv in Hb as [Hb ->].
  destruct (length values =? 4)%nat eqn:E; [|discriminate]. apply Nat.eqb_eq in E.
  unfold read_color. rewrite <- app_assoc. rewrite (read_u_pack _ _ _ _ Ha). cbn [bind].
  rewrite <- E. destruct (id =? model_colorspace_lab).
  - rewrite (read_n_pack_s 2 values ltac:(lia) b rest Hb). reflexivity.
  - rewrite (read_n_pack_u 2 values b rest Hb). reflexivity.
Qed.

Lemma u32_list_rt items : forall b fuel, pk_cat (map (pack_u 4) items) = Ok b -> (length b < fuel)%nat ->
  read_u32_list fuel b = Ok items.
Proof.
  induction items as [|v items IH]; intros b fuel H Hf.
  - apply pk_cat_nil_inv in H as ->. destruct fuel; [cbn in Hf; lia|]. reflexivity.
  - cbn [map] in H. apply pk_cat_cons_inv in H as (x & y & Hx & Hy & ->).
    pose proof (pack_u_len _ _ _ Hx) as Hl.
    destruct fuel; [lia|]. cbn [read_u32_list]. unfold is_readable. rewrite len_app. pose proof (len_nonneg y).
    replace (4 <=? len x + len y) with true by lia.
    rewrite (read_u_pack _ _ _ _ Hx). cbn [bind]. rewrite (IH y fuel Hy); [reflexivity|].
    rewrite app_length in Hf. unfold len in Hl. lia.
Qed.

Lemma read_padded_rt n padn v x : pack_u n v = Ok x -> 0 <= padn ->
  read_padded n padn (x ++ zeros (Z.to_nat padn) ++ []) = Ok v.
Proof.
  intros Hx Hp. unfold read_padded. pose proof (pack_u_len _ _ _ Hx) as Hl.
  rewrite app_nil_r. rewrite <- (app_nil_r (x ++ zeros (Z.to_nat padn))).
  rewrite (take_app_n _ (x ++ zeros (Z.to_nat padn)) []).
  2:{ rewrite len_app, len_zeros, Hl. lia. }
  replace n with (length x) at 1 by (unfold len in Hl; lia).
  rewrite firstn_app, Nat.sub_diag, firstn_all. cbn [firstn]. rewrite app_nil_r.
  now rewrite (pack_u_val _ _ _ Hx).
Qed.

Theorem leaf_rt pad l bs n :
  0 < pad -> wf_leaf l = true -> write_leaf pad l = Ok (bs, n) -> read_leaf (kind_of l) bs = Ok l.
Proof.
  intros Hpad Hwf H. destruct l; cbn [write_leaf kind_of read_leaf wf_leaf] in *.
  - apply w_fmt_inv in H as [H ->]. open_pk H. inv_ok.
    pose proof (read_padded_rt 1 3 v x Hp ltac:(lia)) as R. change (Z.to_nat 3) with 3%nat in R. now rewrite R.
  - apply w_fmt_inv in H as [H ->]. rewrite <- (app_nil_r bs). now rewrite (read_u_pack _ _ _ _ H).
  - apply w_fmt_inv in H as [H ->]. open_pk H. inv_ok.
    pose proof (read_padded_rt 2 2 v x Hp ltac:(lia)) as R. change (Z.to_nat 2) with 2%nat in R. now rewrite R.
  - apply w_fmt_inv in H as [H ->]. open_pk H. inv_ok.
    pose proof (read_padded_rt 1 3 _ x Hp ltac:(lia)) as R. change (Z.to_nat 3) with 3%nat in R. rewrite R.
    cbn [bind]. destruct b; reflexivity.
  - rewrite (unicode_rt units pad bs n Hpad H). reflexivity.
  - reflexivity.
  - apply w_bytes_inv in H as [-> _]. rewrite read_upto_all by lia. reflexivity.
  - (* SectionDividerSetting *)
    apply andb_prop in Hwf as [Hk Hsb].
    apply w_seq_inv in H as (a & na & c & nc & Ha & Hc & -> & ->). apply w_fmt_inv in Ha as [Ha ->].
    rewrite (read_u_pack _ _ _ _ Ha). cbn [bind]. rewrite Hk. cbn [negb].
    destruct sig as [sg|], blend as [bl|]; try discriminate.
    + apply andb_prop in Hsb as [Hs Hb].
      apply w_seq_inv in Hc as (d & nd & e & ne & Hd & He & -> & ->). apply w_fmt_inv in Hd as [Hd ->]. open_pk Hd.
      assert (Hr8 : is_readable 8 ((x ++ x0 ++ []) ++ e) = true) by (unfold is_readable; len_lia).
      rewrite Hr8. rewrite <- !app_assoc. steps. rewrite Hs, Hb. cbn [negb bind].
      destruct sub as [t|].
      * apply w_fmt_inv in He as [He ->].
        assert (Hr4 : is_readable 4 e = true) by (unfold is_readable; len_lia).
        unfold r_opt. rewrite Hr4. cbn [is_some andb]. rewrite <- (app_nil_r e). rewrite (read_u_pack _ _ _ _ He). reflexivity.
      * inversion He; subst. reflexivity.
    + inversion Hc; subst. destruct sub; [discriminate|]. reflexivity.
  - apply w_fmt_inv in H as [H ->]. open_pk H. inv_ok. rewrite <- ?app_assoc. steps.
    rewrite (take_app_n 6 (zeros 6)) by reflexivity. cbn [bind]. now rewrite Hwf.
  - apply w_fmt_inv in H as [H ->]. destruct (length items =? 2)%nat eqn:E; [|discriminate]. apply Nat.eqb_eq in E.
    pose proof (read_n_pack_u 8 items bs [] H) as R. rewrite E, app_nil_r in R. rewrite R. reflexivity.
  - apply w_fmt_inv in H as [H ->]. rewrite (u32_list_rt items bs _ H) by lia. reflexivity.
  - rewrite <- (app_nil_r bs). rewrite (color_rt id values bs n [] H). reflexivity.
  - apply w_seq_inv in H as (a & na & c & nc & Ha & Hc & -> & ->). apply w_fmt_inv in Hc as [Hc ->].
    rewrite (color_rt id values a na c Ha). cbn [bind fst snd]. rewrite <- (app_nil_r c).
    rewrite (read_u_pack _ _ _ _ Hc). reflexivity.
  - apply w_fmt_inv in H as [H ->]. rewrite <- (app_nil_r bs). now rewrite (read_u_pack _ _ _ _ H).
  - apply w_fmt_inv in H as [H ->]. rewrite <- (app_nil_r bs). now rewrite (read_s_pack 4 v bs [] ltac:(lia) H).
  - apply w_fmt_inv in H as [H ->]. rewrite <- (app_nil_r bs). now rewrite (read_u_pack _ _ _ _ H).
Qed.

Lemma wtruth_leaf pad l : wtruth (write_leaf pad l).
Proof.
  destruct l; cbn [write_leaf]; try apply wtruth_fmt; try apply wtruth_nil; try apply wtruth_bytes.
  - unfold w_unicode. apply wtruth_then_pad, wtruth_seq; apply wtruth_fmt.
  - apply wtruth_seq; [apply wtruth_fmt|]. destruct sig, blend; try apply wtruth_nil.
    apply wtruth_seq; [apply wtruth_fmt|]. destruct sub; [apply wtruth_fmt|apply wtruth_nil].
  - unfold write_color. apply wtruth_seq; apply wtruth_fmt.
  - unfold write_color. repeat apply wtruth_seq; apply wtruth_fmt.
Qed.

(* inside a tagged block: TaggedBlock.write (data.write with the inner padding) / TaggedBlock.read (TYPES) *)
Theorem typed_block_rt v pad sg key l bs n rest :
  (pad = 1 \/ pad = 2 \/ pad = 4) -> memz sg model_tb_sigs = true -> wf_leaf l = true ->
  write_typed_block v pad sg key l = Ok (bs, n) ->
  read_typed_block (kind_of l) v pad (bs ++ rest) = Ok (Some (sg, key, l, rest)).
Proof.
  intros Hpad Hsg Hwf H. unfold write_typed_block in H.
  apply w_seq_inv in H as (b1 & n1 & b2 & n2 & H1 & H2 & -> & ->).
  pose proof (length_block_inv_leaf := fun hw => length_block_rt 0 (tb_len_bytes v key) pad _ b2 n2 rest ltac:(lia) hw (wtruth_leaf _ l) H2).
  destruct length_block_inv_leaf as (body & Hb & Hr).
  { destruct (tb_len_bytes_cases v key) as [-> | ->]; destruct Hpad as [-> | [-> | ->]]; reflexivity. }
  assert (Hw : write_tagged_block v pad (mkTB sg key body) = Ok (b1 ++ b2, n1 + n2)).
  { unfold write_tagged_block. cbn [tb_sig tb_key tb_data]. rewrite H1.
    unfold w_length_block in *. rewrite Hb in H2. cbn [bind fst snd w_bytes] in *.
    destruct (pack_u (tb_len_bytes v key) (len body)); [|discriminate]. cbn [bind] in *.
    unfold w_seq. cbn [bind fst snd]. inversion H2; subst. reflexivity. }
  unfold read_typed_block.
  rewrite (tagged_block_rt v pad (mkTB sg key body) _ _ rest Hpad Hsg Hw). cbn [bind tb_data tb_sig tb_key].
  assert (Hip : 0 < inner_padding pad) by (unfold inner_padding; destruct (pad =? 4); lia).
  rewrite (leaf_rt _ l body _ Hip Hwf Hb). reflexivity.
Qed.
