(* C02 - lemmas: everything the reader can produce is what the writer needs (under the five guards),
   hence re-saving is lossless and stable (by the C01 round trip of Psd/Proofs.v). *)
From PsdV Require Import Base.Prelude Psd.Codec Psd.Model Psd.Proofs Psd.Resave.
From Coq Require Import ZArith List Bool Lia ZifyBool.
Import ListNotations.
Open Scope Z_scope.

(* ------------------------------------------------------------------ small tools *)
(* open [do (a, b) <- r; k = Ok _] *)
Tactic Notation "dres" hyp(H) "as" ident(a) ident(b) ident(E) :=
  match type of H with
  | bind ?r _ = Ok _ => destruct r as [[a b]|] eqn:E; [cbn [bind fst snd] in H|discriminate H]
  end.
Tactic Notation "dres1" hyp(H) "as" ident(a) ident(E) :=
  match type of H with
  | bind ?r _ = Ok _ => destruct r as [a|] eqn:E; [cbn [bind fst snd] in H|discriminate H]
  end.
(* the same, names chosen by Coq (for fields that are not mentioned again) *)
Ltac dskip H :=
  match type of H with
  | bind ?r _ = Ok _ =>
      let E := fresh "E" in
      destruct r as [[? ?]|] eqn:E; [cbn [bind fst snd] in H|discriminate H]
  end.

Lemma list_eqb_refl l : list_eqb l l = true.
Proof. now apply list_eqb_eq. Qed.

Lemma memz_cons x y l : memz x (y :: l) = (x =? y) || memz x l.
Proof. reflexivity. Qed.

(* ------------------------------------------------------------------ OrderedDict: keys distinct, items kept *)
Lemma memz_od_insert {A} (key : A -> Z) x d k :
  memz k (map key (od_insert key x d)) = memz k (map key d) || (k =? key x).
Proof.
  induction d as [|y t IH]; cbn [od_insert map].
  - rewrite !memz_cons. cbn. now rewrite orb_false_r.
  - destruct (key x =? key y) eqn:E.
    + apply Z.eqb_eq in E. cbn [map]. rewrite !memz_cons, E.
      destruct (k =? key y); cbn; [reflexivity|now rewrite orb_false_r].
    + cbn [map]. rewrite !memz_cons, IH. now rewrite orb_assoc.
Qed.
Lemma nodupz_od_insert {A} (key : A -> Z) x d :
  nodupz (map key d) = true -> nodupz (map key (od_insert key x d)) = true.
Proof.
  induction d as [|y t IH]; intros H; cbn [od_insert map nodupz]; [reflexivity|].
  cbn [map nodupz] in H. apply andb_prop in H as [H1 H2].
  destruct (key x =? key y) eqn:E.
  - apply Z.eqb_eq in E. cbn [map nodupz]. rewrite E, H1, H2. reflexivity.
  - cbn [map nodupz]. rewrite (IH H2), andb_true_r, memz_od_insert.
    apply negb_true_iff in H1. rewrite H1. cbn. rewrite Z.eqb_sym, E. reflexivity.
Qed.
Lemma Forall_od_insert {A} (key : A -> Z) (P : A -> Prop) x d :
  P x -> Forall P d -> Forall P (od_insert key x d).
Proof.
  intros Hx. induction 1 as [|y t Hy Ht IH]; cbn [od_insert]; [auto|].
  destruct (key x =? key y); auto.
Qed.
Lemma od_build_props {A} (key : A -> Z) (P : A -> Prop) l :
  Forall P l -> nodupz (map key (od_build key l)) = true /\ Forall P (od_build key l).
Proof.
  unfold od_build. intros H.
  assert (G : forall d, nodupz (map key d) = true -> Forall P d ->
              nodupz (map key (fold_left (fun d x => od_insert key x d) l d)) = true /\
              Forall P (fold_left (fun d x => od_insert key x d) l d)).
  { induction H as [|x l Hx Hl IH]; intros d Hd HP; cbn [fold_left]; [auto|].
    apply IH; [now apply nodupz_od_insert|now apply Forall_od_insert]. }
  apply G; [reflexivity|constructor].
Qed.
Lemma Forall_forallb {A} (f : A -> bool) l : Forall (fun a => f a = true) l -> forallb f l = true.
Proof. intros H. apply forallb_forall. now rewrite Forall_forall in H. Qed.

(* ------------------------------------------------------------------ counted lists *)
Lemma read_n_props {A} (rd : stream -> res (A * stream)) (P : A -> Prop) :
  (forall s a s', rd s = Ok (a, s') -> P a) ->
  forall n s l s', read_n n rd s = Ok (l, s') -> Forall P l /\ length l = n.
Proof.
  intros Hrd. induction n as [|n IH]; intros s l s' H; cbn [read_n] in H.
  - inversion H; subst. auto.
  - dres H as a s1 Ea. dres H as l1 s2 El. inversion H; subst. destruct (IH _ _ _ El) as [H1 H2].
    split; [constructor; eauto|cbn [length]; now rewrite H2].
Qed.

(* ------------------------------------------------------------------ tagged blocks *)
Lemma read_tagged_block_wf v pad s b s' :
  read_tagged_block v pad s = Ok (Some (b, s')) -> wf_tb b = true.
Proof.
  unfold read_tagged_block. intros H. dres H as sg s1 E1.
  destruct (memz sg model_tb_sigs) eqn:Es; cbn [negb] in H; [|discriminate].
  dres H as key s2 E2. dres H as data s3 E3. inversion H; subst. exact Es.
Qed.
Lemma read_tagged_items_wf v pad : forall fuel budget s l s',
  read_tagged_items fuel v pad budget s = Ok (l, s') -> Forall (fun b => wf_tb b = true) l.
Proof.
  induction fuel as [|f IH]; intros budget s l s' H; cbn [read_tagged_items] in H; [discriminate|].
  destruct (negb (is_readable 8 s)); [inversion H; constructor|].
  destruct (match budget with Some b => b <=? 0 | None => false end); [inversion H; constructor|].
  dres1 H as o Eo. destruct o as [[b s1]|]; [|inversion H; constructor].
  dres H as bs s2 Eb. inversion H; subst. constructor; [eapply read_tagged_block_wf; eassumption|eapply IH; eassumption].
Qed.
Lemma read_tagged_blocks_wf v pad budget s l s' :
  read_tagged_blocks v pad budget s = Ok (l, s') -> wf_tbs l = true.
Proof.
  unfold read_tagged_blocks. intros H. dres H as items s1 E. inversion H; subst.
  apply read_tagged_items_wf in E.
  destruct (od_build_props tb_key _ _ E) as [H1 H2].
  unfold wf_tbs. rewrite H1, andb_true_r. now apply Forall_forallb.
Qed.

(* ------------------------------------------------------------------ mask, ranges, channel info / data *)
Lemma read_mask_wf s om s' :
  read_mask s = Ok (om, s') ->
  match om with Some m => Bool.eqb (fb4 (m_flags m)) (is_some (m_params m)) = true | None => True end.
Proof.
  unfold read_mask. intros H. dres H as data s1 E. destruct (len data =? 0); [inversion H; exact I|].
  dres1 H as m Em. inversion H; subst. clear H. unfold read_mask_body in Em.
  do 5 dskip Em. dres Em as fl s6 Ef. dskip Em. unfold r_opt in Em.
  destruct (fb4 (flags_of fl)) eqn:Eb.
  - dres Em as op s7 Ep. dres Ep as a s8 Ea. inversion Ep; subst. inversion Em; subst.
    cbn [m_flags m_params is_some]. now rewrite Eb.
  - cbn [bind] in Em. inversion Em; subst. cbn [m_flags m_params is_some]. now rewrite Eb.
Qed.

Lemma read_range_len s c s' : read_range s = Ok (c, s') -> length c = 2%nat.
Proof. unfold read_range. intros H. do 4 dskip H. inversion H; reflexivity. Qed.
Lemma read_range_list_len : forall fuel s l,
  read_range_list fuel s = Ok l -> Forall (fun c => length c = 2%nat) l.
Proof.
  induction fuel as [|f IH]; intros s l H; cbn [read_range_list] in H; [discriminate|].
  destruct (is_readable 8 s); [|inversion H; constructor].
  dres H as r s1 Er. dres1 H as rs Ers. inversion H; subst.
  constructor; [eapply read_range_len; eassumption|eapply IH; eassumption].
Qed.
Lemma read_ranges_wf s r s' : read_ranges s = Ok (r, s') -> wf_ranges r = true.
Proof.
  unfold read_ranges. intros H. dres H as data s1 E. destruct (len data =? 0); [inversion H; reflexivity|].
  dres H as c f1 Ec. dres1 H as ch Ech. inversion H; subst. unfold wf_ranges. cbn [br_comp br_chan].
  rewrite (read_range_len _ _ _ Ec). cbn [Nat.eqb andb].
  apply Forall_forallb. apply read_range_list_len in Ech.
  eapply Forall_impl; [|exact Ech]. intros a ->. reflexivity.
Qed.

Lemma read_channel_info_wf v s c s' : read_channel_info v s = Ok (c, s') -> wf_ci c = true.
Proof.
  unfold read_channel_info. intros H. dres1 H as nb En. dres H as id s1 E1. dres H as n s2 E2.
  destruct (memz id model_channel_ids) eqn:Em; [|discriminate]. inversion H; subst. exact Em.
Qed.
Lemma read_channel_data_wf n s c s' : read_channel_data n s = Ok (c, s') -> wf_cd c = true.
Proof.
  unfold read_channel_data. intros H. dres H as cp s1 E1.
  destruct (memz cp model_compressions) eqn:Em; [|discriminate]. inversion H; subst. exact Em.
Qed.

Lemma read_glmi_wf s g s' : read_glmi s = Ok (g, s') -> wf_glmi g = true.
Proof.
  unfold read_glmi. intros H. dres H as data s1 E.
  destruct (len data =? 0); [inversion H; reflexivity|].
  destruct (len data <? 13); [inversion H; reflexivity|].
  dres1 H as g0 Eg. inversion H; subst. clear H. unfold read_glmi_body in Eg.
  dres Eg as ov f1 E1. dres Eg as op f2 E2. dres Eg as k f3 E3.
  destruct (memz k model_glmi_kinds) eqn:Ek; [|discriminate]. inversion Eg; subst. exact Ek.
Qed.

Section WithCodec.
  Variable enc_s : list Z -> res (list Z).
  Variable dec_s : list Z -> res (list Z).
  Hypothesis Hcodec : codec_ok enc_s dec_s.

  (* ---------------------------------------------------------------- names *)
  Lemma dec_wf_name b n : dec_s b = Ok n -> wf_name enc_s dec_s n = true.
  Proof. intros H. unfold wf_name. rewrite (Hcodec _ _ H), H. apply list_eqb_refl. Qed.
  Lemma r_pascal_wf pad s n s' : r_pascal dec_s pad s = Ok (n, s') -> wf_name enc_s dec_s n = true.
  Proof.
    unfold r_pascal. intros H. dres1 H as x Ex.
    destruct (len (fst (read_upto (fst x) (snd x))) =? fst x); [|discriminate].
    dres1 H as name En. inversion H; subst. eapply dec_wf_name; eassumption.
  Qed.

  (* ---------------------------------------------------------------- image resources *)
  Lemma read_resource_wf s r s' : read_resource dec_s s = Ok (r, s') -> wf_resource enc_s dec_s r = true.
  Proof.
    unfold read_resource. intros H. dres H as sg s1 E1. dres H as key s2 E2. dres H as name s3 E3.
    dres H as data s4 E4. destruct (memz sg model_res_sigs) eqn:Es; [|discriminate]. inversion H; subst.
    unfold wf_resource. cbn [ir_sig ir_name]. rewrite Es. cbn [andb]. eapply r_pascal_wf; eassumption.
  Qed.
  Lemma read_resource_items_wf : forall fuel s l,
    read_resource_items dec_s fuel s = Ok l -> Forall (fun r => wf_resource enc_s dec_s r = true) l.
  Proof.
    induction fuel as [|f IH]; intros s l H; cbn [read_resource_items] in H; [discriminate|].
    destruct (is_readable 4 s); [|inversion H; constructor].
    dres H as r s1 Er. dres1 H as rs Ers. inversion H; subst.
    constructor; [eapply read_resource_wf; eassumption|eapply IH; eassumption].
  Qed.
  Lemma read_resources_wf s l s' : read_resources dec_s s = Ok (l, s') -> wf_resources enc_s dec_s l = true.
  Proof.
    unfold read_resources. intros H. dres H as data s1 E. dres1 H as items Ei. inversion H; subst.
    apply read_resource_items_wf in Ei. destruct (od_build_props ir_key _ _ Ei) as [H1 H2].
    unfold wf_resources. rewrite H1, andb_true_r. now apply Forall_forallb.
  Qed.

  (* ---------------------------------------------------------------- layer record *)
  Lemma read_record_wf v s r s' :
    read_record dec_s v s = Ok (r, s') -> mask_ok r = true -> wf_record enc_s dec_s r = true.
  Proof.
    unfold read_record. intros H Hm.
    dres H as top s1 E1. dres H as lft s2 E2. dres H as bottom s3 E3. dres H as rgt s4 E4.
    dres H as nch s5 E5. dres H as chans s6 E6. dres H as sg s7 E7. dres H as blend s8 E8.
    dres H as opacity s9 E9. dres H as clip s10 E10. dres H as fl s11 E11. dres H as data s12 E12.
    dres H as mask f1 F1. dres H as ranges f2 F2. dres H as name f3 F3. dres H as blocks f4 F4.
    destruct (memz sg model_record_sigs && memz blend model_blend_modes && memz clip model_clippings) eqn:Ev;
      [|discriminate].
    inversion H; subst. clear H. apply andb_prop in Ev as [Ev Hc]. apply andb_prop in Ev as [Hs Hb].
    unfold wf_record, mask_ok in *. cbn [r_channels r_sig r_blend r_clip r_mask r_ranges r_name r_blocks] in *.
    rewrite Hs, Hb, Hc, (read_ranges_wf _ _ _ F2), (r_pascal_wf _ _ _ _ F3), (read_tagged_blocks_wf _ _ _ _ _ _ F4).
    destruct (read_n_props (read_channel_info v) (fun c => wf_ci c = true) (read_channel_info_wf v) _ _ _ _ E6) as [Hci _].
    rewrite (Forall_forallb _ _ Hci). cbn [andb]. rewrite !andb_true_r.
    pose proof (read_mask_wf _ _ _ F1) as Hmk. destruct mask as [m|]; [|reflexivity].
    unfold wf_mask. now rewrite Hmk, Hm.
  Qed.

  (* ---------------------------------------------------------------- layer info *)
  Lemma read_channel_list_props : forall cis s l s',
    read_channel_list cis s = Ok (l, s') -> length l = length cis /\ forallb wf_cd l = true.
  Proof.
    induction cis as [|ci cis IH]; intros s l s' H; cbn [read_channel_list] in H.
    - inversion H; subst. auto.
    - dres H as c s1 Ec. dres H as l1 s2 El. inversion H; subst. destruct (IH _ _ _ El) as [H1 H2].
      cbn [length forallb]. rewrite H1, H2, (read_channel_data_wf _ _ _ _ Ec). auto.
  Qed.
  Lemma read_channel_lists_props : forall rs s cs s',
    read_channel_lists rs s = Ok (cs, s') -> same_shape rs cs = true /\ forallb (forallb wf_cd) cs = true.
  Proof.
    induction rs as [|r rs IH]; intros s cs s' H; cbn [read_channel_lists] in H.
    - inversion H; subst. auto.
    - dres H as l s1 El. dres H as ls s2 Els. inversion H; subst.
      destruct (IH _ _ _ Els) as [H1 H2]. destruct (read_channel_list_props _ _ _ _ El) as [H3 H4].
      cbn [same_shape forallb]. rewrite H1, H2, H4, H3, Nat.eqb_refl. auto.
  Qed.

  Lemma Forall_and_forallb {A} (P : A -> Prop) (g f : A -> bool) l :
    (forall a, P a -> g a = true -> f a = true) -> Forall P l -> forallb g l = true -> forallb f l = true.
  Proof.
    intros Hi. induction 1 as [|a l Ha Hl IH]; cbn [forallb]; [auto|].
    intros H. apply andb_prop in H as [H1 H2]. rewrite (Hi _ Ha H1), (IH H2). reflexivity.
  Qed.

  Lemma read_layer_info_wf v s li s' :
    read_layer_info dec_s v s = Ok (li, s') -> g_li li = true -> wf_li enc_s dec_s li = true.
  Proof.
    unfold read_layer_info. intros H Hg. dres1 H as nb En. dres H as length s1 E1.
    destruct (length =? 0); [inversion H; reflexivity|].
    dres H as li0 s2 Eb. destruct (len s1 - len s2 <=? length); [|discriminate]. inversion H; subst. clear H.
    unfold read_li_body in Eb. dres Eb as count t1 Ec. dres Eb as recs t2 Er. dres Eb as chans t3 Eh.
    inversion Eb; subst. clear Eb.
    unfold g_li, g_count0, g_masks in Hg. unfold wf_li. cbn [li_count li_records li_chans is_some negb andb] in *.
    destruct (count =? 0) eqn:E0; [discriminate|]. cbn [andb] in Hg.
    destruct (read_channel_lists_props _ _ _ _ Eh) as [Hs Hc].
    assert (Hn : forall s a s', read_record dec_s v s = Ok (a, s') -> (mask_ok a = true -> wf_record enc_s dec_s a = true))
      by (intros; eapply read_record_wf; eassumption).
    destruct (read_n_props (read_record dec_s v) _ Hn _ _ _ _ Er) as [Hr Hl].
    rewrite Hs, Hc. rewrite (Forall_and_forallb _ mask_ok (wf_record enc_s dec_s) recs (fun a H => H) Hr Hg).
    rewrite !andb_true_r. apply Z.eqb_eq. unfold len. rewrite Hl. lia.
  Qed.

  (* ---------------------------------------------------------------- layer and mask information *)
  Lemma read_lami_wf v s l s' restlen :
    read_lami dec_s v s = Ok (l, s') -> 0 < restlen -> lami_guard l = true ->
    wf_lami enc_s dec_s v l restlen = true.
  Proof.
    unfold read_lami. intros H Hrest Hg. dres1 H as nb En. dres H as length s1 E1.
    destruct (length =? 0); [inversion H; reflexivity|].
    dres1 H as l0 El. inversion H; subst. clear H. unfold read_lami_body in El.
    dres El as li s2 Eli. dres El as g s3 Eg. dres1 El as tb Et. inversion El; subst. clear El.
    unfold lami_guard, g_blocks_present, g_glmi_before_blocks in Hg. cbn [la_info la_glmi la_blocks] in Hg.
    apply andb_prop in Hg as [Hg H4]. apply andb_prop in Hg as [H1 H2].
    unfold wf_lami. cbn [la_info la_glmi la_blocks].
    rewrite (read_layer_info_wf _ _ _ _ Eli H1). cbn [andb].
    assert (Hgl : match g with Some g0 => wf_glmi g0 | None => true end = true).
    { unfold r_opt in Eg. match type of Eg with (if ?c then _ else _) = _ => destruct c end.
      - dres Eg as g0 s4 Eg0. inversion Eg; subst. eapply read_glmi_wf; eassumption.
      - inversion Eg; subst. reflexivity. }
    rewrite Hgl. cbn [andb].
    destruct tb as [bs|]; [|discriminate].
    destruct (is_readable 1 s3); [|discriminate].
    dres Et as bs0 s5 Eb. inversion Et; subst. rewrite (read_tagged_blocks_wf _ _ _ _ _ _ Eb). cbn [andb].
    replace (0 <? restlen) with true by (symmetry; apply Z.ltb_lt; lia). rewrite orb_true_r, andb_true_r.
    destruct bs as [|b bs]; cbn [truthy nonempty negb] in *; [apply orb_true_r|exact H4].
  Qed.

  (* ---------------------------------------------------------------- the document *)
  Lemma read_image_data_wf s c : read_image_data s = Ok c -> wf_cd c = true.
  Proof.
    unfold read_image_data. intros H. dres H as cp s1 E1.
    destruct (memz cp model_compressions) eqn:Em; [|discriminate]. inversion H; subst. exact Em.
  Qed.
  Lemma read_header_valid s h s' : read_header s = Ok (h, s') -> header_valid h = true.
  Proof.
    unfold read_header. intros H. do 8 dskip H.
    match type of H with (if ?c then _ else _) = _ => destruct c eqn:Ev; [|discriminate] end.
    inversion H; subst. exact Ev.
  Qed.

  Theorem read_psd_wf_full b d :
    read_psd dec_s b = Ok d -> resave_guard_full d = true -> wf_psd enc_s dec_s d = true.
  Proof.
    unfold read_psd. intros H Hg. dres H as h s1 Eh. dres H as cmd s2 Ec. dres H as rs s3 Er.
    dres H as l s4 El. dres1 H as img Ei. inversion H; subst. clear H.
    unfold resave_guard_full in Hg. unfold wf_psd. cbn [p_header p_res p_lami p_img] in *.
    rewrite (read_header_valid _ _ _ Eh), (read_resources_wf _ _ _ Er), (read_image_data_wf _ _ Ei).
    cbn [andb]. rewrite andb_true_r. eapply read_lami_wf; [eassumption| |assumption].
    pose proof (len_nonneg (cd_data img)). lia.
  Qed.

  (* the converse, on any structure: the guards are implied by well-formedness, i.e. on the reader's
     range [wf_psd d] and [resave_guard d] are the same predicate *)
  Lemma wf_li_guard li : wf_li enc_s dec_s li = true -> g_li li = true.
  Proof.
    unfold wf_li, g_li, g_count0, g_masks. destruct (li_count li =? 0).
    - intros H. rewrite H. cbn [andb]. apply andb_prop in H as [H _].
      destruct (li_records li); [discriminate|reflexivity].
    - destruct (li_records li) as [rs|]; [|discriminate]. destruct (li_chans li) as [cs|]; [|discriminate].
      intros H. cbn [andb]. apply andb_prop in H as [H _]. apply andb_prop in H as [_ H].
      apply forallb_forall. intros r Hr. rewrite forallb_forall in H. specialize (H r Hr).
      unfold wf_record in H. unfold mask_ok. destruct (r_mask r) as [m|]; [|reflexivity].
      split_andb. unfold wf_mask in *. split_andb. assumption.
  Qed.
  Lemma wf_psd_guard d : wf_psd enc_s dec_s d = true -> resave_guard_full d = true.
  Proof.
    unfold wf_psd, resave_guard_full, lami_guard, wf_lami, g_blocks_present, g_glmi_before_blocks.
    intros H. apply andb_prop in H as [H _]. apply andb_prop in H as [_ H].
    destruct (la_info (p_lami d)) as [li|].
    - apply andb_prop in H as [H Hb]. apply andb_prop in H as [Hli _].
      rewrite (wf_li_guard _ Hli). cbn [andb].
      destruct (la_blocks (p_lami d)) as [bs|].
      + cbn [is_some andb]. apply andb_prop in Hb as [Hb _]. apply andb_prop in Hb as [_ Hb].
        destruct bs; cbn [truthy nonempty negb] in *; [apply orb_true_r|exact Hb].
      + apply Z.eqb_eq in Hb. pose proof (len_nonneg (cd_data (p_img d))). lia.
    - apply andb_prop in H as [Hg Hb]. destruct (la_glmi (p_lami d)); [discriminate|].
      destruct (la_blocks (p_lami d)); [discriminate|]. reflexivity.
  Qed.

  (* ---------------------------------------------------------------- re-saving *)
  (* under the guards: whenever the save succeeds, the saved bytes are accepted, read to the
     structure as it is after the save, and saving that reproduces the bytes *)
  Theorem resave_of_write_full pad b d s n :
    0 < pad -> read_psd dec_s b = Ok d -> resave_guard_full d = true ->
    write_psd enc_s pad d = Ok (s, n) ->
    read_psd dec_s s = Ok (psd_after_write d) /\
    write_psd enc_s pad (psd_after_write d) = Ok (s, n) /\
    psd_after_write (psd_after_write d) = psd_after_write d.
  Proof.
    intros Hp Hr Hg Hw. pose proof (read_psd_wf_full _ _ Hr Hg) as Hwf.
    split; [exact (psd_rt enc_s dec_s pad d s n Hp Hwf Hw)|].
    split; [now rewrite write_psd_after|apply psd_after_idem].
  Qed.
End WithCodec.

(* ------------------------------------------------------------------ F-C02-4 is unreachable from a byte string (since f3a2729) *)
Lemma suffix_canon (k : nat) (s : stream) : skipn k s = skipn (Z.to_nat (len s - len (skipn k s))) s.
Proof.
  unfold len. rewrite skipn_length.
  destruct (Nat.le_gt_cases k (length s)) as [Hk|Hk].
  - replace (Z.to_nat (Z.of_nat (length s) - Z.of_nat (length s - k))) with k by lia. reflexivity.
  - replace (Z.to_nat (Z.of_nat (length s) - Z.of_nat (length s - k))) with (length s) by lia.
    rewrite skipn_all. apply skipn_all2. lia.
Qed.
Lemma skipn_skipn {A} (x y : nat) (l : list A) : skipn x (skipn y l) = skipn (x + y) l.
Proof.
  revert l. induction y as [|y IH]; intros l; [now rewrite Nat.add_0_r|].
  destruct l as [|a l]; [now rewrite !skipn_nil|]. rewrite Nat.add_succ_r. cbn [skipn]. apply IH.
Qed.
Lemma take_suffix n s a r : take n s = Ok (a, r) -> r = skipn (Z.to_nat n) s.
Proof. unfold take. destruct (_ && _); intros H; inversion H. reflexivity. Qed.
Lemma read_u_suffix n s v r : read_u n s = Ok (v, r) -> r = skipn n s.
Proof.
  unfold read_u. intros H. dres1 H as x Ex. inversion H; subst. destruct x as [a r]. cbn [snd].
  apply take_suffix in Ex. now rewrite Nat2Z.id in Ex.
Qed.
Lemma Forall_skipn {A} (P : A -> Prop) k l : Forall P l -> Forall P (skipn k l).
Proof.
  intros H. apply Forall_forall. intros x Hx. rewrite Forall_forall in H. apply H.
  rewrite <- (firstn_skipn k l). apply in_or_app. now right.
Qed.

Lemma Forall5 {A} (P : A -> Prop) a b c d e l :
  Forall P (a :: b :: c :: d :: e :: l) -> P a /\ P b /\ P c /\ P d /\ P e.
Proof.
  intros H. pose proof (Forall_inv H). apply Forall_inv_tail in H. pose proof (Forall_inv H). apply Forall_inv_tail in H.
  pose proof (Forall_inv H). apply Forall_inv_tail in H. pose proof (Forall_inv H). apply Forall_inv_tail in H.
  pose proof (Forall_inv H). auto.
Qed.

Section Unreach.
  Variable dec_s : list Z -> res (list Z).

  Lemma read_layer_info_suffix v s li s2 :
    read_layer_info dec_s v s = Ok (li, s2) -> exists k, s2 = skipn k s.
  Proof.
    unfold read_layer_info. intros H. dres1 H as nb En. dres H as length s1 E1.
    apply read_u_suffix in E1. subst s1.
    destruct (length =? 0); [inversion H; subst; eauto|].
    dres H as li0 s3 Eb. destruct (_ <=? _); [|discriminate]. inversion H; subst.
    unfold skipz. rewrite skipn_skipn. eauto.
  Qed.

  (* the two signatures, byte by byte *)
  Lemma sig_bytes a b c d :
    Forall byte [a; b; c; d] -> memz (be_val [a; b; c; d]) model_tb_sigs = true ->
    a = 56 /\ b = 66 /\ ((c = 73 /\ d = 77) \/ (c = 54 /\ d = 52)).
  Proof.
    intros Hb Hm. pose proof (be_bytes_val _ Hb) as Hv. cbn [length] in Hv.
    unfold memz, model_tb_sigs in Hm. cbn [existsb] in Hm. rewrite orb_false_r in Hm.
    apply orb_prop in Hm as [Hm|Hm]; apply Z.eqb_eq in Hm; rewrite Hm in Hv; vm_compute in Hv;
      inversion Hv; subst; auto.
  Qed.

  Theorem glmi_before_blocks_reached b d :
    Forall byte b -> read_psd dec_s b = Ok d -> g_glmi_before_blocks (p_lami d) = true.
  Proof.
    unfold read_psd. intros Hbytes H. dres H as h t1 Eh. dres H as cmd t2 Ec. dres H as rs t3 Er.
    dres H as l t4 El. dres1 H as img Ei. inversion H; subst. clear H. cbn [p_lami].
    (* t3 is a suffix of b *)
    assert (Ht3 : Forall byte t3).
    { unfold read_header in Eh. repeat dskip Eh. destruct (header_valid _); [|discriminate]. inversion Eh; subst.
      unfold read_cmd, read_resources, read_length_block in *. dres1 Ec as hc Ehc. dres1 Ec as dc Edc.
      inversion Ec; subst. dres Er as data r3 Erd. dres1 Er as items Eit. inversion Er; subst.
      dres1 Erd as hr Ehr. dres1 Erd as dr Edr. inversion Erd; subst.
      repeat match goal with
             | E : read_u _ _ = Ok _ |- _ => apply read_u_suffix in E; subst
             | E : take _ _ = Ok (_, _) |- _ => apply take_suffix in E; subst
             | E : take _ _ = Ok ?p |- _ => destruct p; apply take_suffix in E; subst
             end.
      cbn [snd fst]. unfold r_pad. repeat apply Forall_skipn. assumption. }
    clear Eh Ec Er. unfold read_lami in El. dres1 El as nb En. dres El as length s1 E1.
    apply read_u_suffix in E1. assert (Hs1 : Forall byte s1) by (subst s1; now apply Forall_skipn). clear E1 Ht3 Hbytes.
    destruct (length =? 0); [inversion El; reflexivity|].
    dres1 El as l0 Elb. inversion El; subst. clear El. unfold read_lami_body in Elb.
    dres Elb as li s2 Eli. dres Elb as g s3 Eg. dres1 Elb as tb Et. inversion Elb; subst. clear Elb.
    unfold g_glmi_before_blocks. cbn [la_glmi la_blocks]. destruct g as [g|]; [reflexivity|]. cbn [is_some orb].
    unfold r_opt in Eg. destruct (is_readable glmi_probe s2 && (len s1 - len s2 + glmi_probe <=? length)) eqn:Ec.
    { dres Eg as g0 s4 Eg0. discriminate. }
    inversion Eg; subst s3. clear Eg.
    destruct (is_readable 1 s2); [|inversion Et; reflexivity].
    dres Et as bs s5 Eb. inversion Et; subst. clear Et.
    unfold read_tagged_blocks in Eb. dres Eb as items s6 Eit. inversion Eb; subst. clear Eb.
    cbn [read_tagged_items] in Eit.
    destruct (negb (is_readable 8 s2)) eqn:E8; [inversion Eit; reflexivity|].
    destruct (length - (len s1 - len s2) <=? 0) eqn:Ebud; [inversion Eit; reflexivity|].
    dres1 Eit as ob Eob. destruct ob as [[b0 s7]|]; [|inversion Eit; reflexivity].
    exfalso. clear Eit.
    (* the first four bytes of s2 are a signature *)
    unfold read_tagged_block in Eob. dres Eob as sg u1 Esg.
    destruct (negb (memz sg model_tb_sigs)) eqn:Em; [discriminate|]. apply negb_false_iff in Em. clear Eob.
    apply negb_false_iff in E8. unfold is_readable in E8, Ec. unfold glmi_probe in Ec.
    destruct (read_layer_info_suffix _ _ _ _ Eli) as [k Hk].
    assert (Hs2 : Forall byte s2) by (subst s2; now apply Forall_skipn).
    pose proof (suffix_canon k s1) as Hk2. rewrite <- Hk in Hk2. clear Hk k. rename Hk2 into Hk.
    destruct s2 as [|a [|b1 [|c [|d [|e s2']]]]]; try (cbn in E8; lia).
    unfold read_u, take in Esg. cbn [Z.of_nat Pos.of_succ_nat Pos.succ] in Esg.
    replace ((0 <=? 4) && (4 <=? len (a :: b1 :: c :: d :: e :: s2'))) with true in Esg
      by (symmetry; rewrite !len_cons; pose proof (len_nonneg s2'); lia).
    cbn [bind fst snd Z.to_nat Pos.to_nat Pos.iter_op Nat.add firstn skipn] in Esg. inversion Esg; subst sg u1. clear Esg.
    destruct (Forall5 _ _ _ _ _ _ _ Hs2) as (Ha & Hb1 & Hc0 & Hd0 & He).
    assert (Hb4 : Forall byte [a; b1; c; d]) by (repeat (constructor; [assumption|]); constructor).
    destruct (sig_bytes _ _ _ _ Hb4 Em) as (-> & -> & Hcd).
    (* where the image data is read: [budget] bytes into s2 *)
    set (consumed := len s1 - len (56 :: 66 :: c :: d :: e :: s2')) in *.
    assert (Hbud : 0 < length - consumed < 4) by lia.
    assert (Hcons : 0 <= consumed) by (unfold consumed, len; rewrite Hk, skipn_length; lia).
    assert (Hlen : length <= len s1).
    { unfold consumed in Hbud. rewrite !len_cons in Hbud. pose proof (len_nonneg s2'). lia. }
    unfold skipz in Ei. rewrite Z.min_l in Ei by lia.
    replace (Z.to_nat length) with (Z.to_nat (length - consumed) + Z.to_nat consumed)%nat in Ei by lia.
    rewrite <- skipn_skipn, <- Hk in Ei.
    unfold read_image_data, read_u, take in Ei. unfold byte in He.
    assert (Hcase : length - consumed = 1 \/ length - consumed = 2 \/ length - consumed = 3) by lia.
    change (Z.of_nat 2) with 2 in Ei. change (Z.to_nat 2) with 2%nat in Ei.
    destruct Hcase as [Hc1|[Hc1|Hc1]]; rewrite Hc1 in Ei;
      [change (Z.to_nat 1) with 1%nat in Ei|change (Z.to_nat 2) with 2%nat in Ei|change (Z.to_nat 3) with 3%nat in Ei];
      cbn [skipn] in Ei;
      match type of Ei with context [?x && ?y] => replace (x && y) with true in Ei
          by (symmetry; rewrite !len_cons; pose proof (len_nonneg s2'); lia) end;
      cbn [bind fst snd firstn skipn] in Ei;
      destruct Hcd as [[-> ->]|[-> ->]];
      match type of Ei with context [memz ?v model_compressions] =>
        assert (Hv : memz v model_compressions = false)
          by (unfold memz, model_compressions, be_val; cbn [rev app le_val existsb]; lia)
      end; rewrite Hv in Ei; discriminate.
  Qed.
End Unreach.

(* ------------------------------------------------------------------ payloads survive as raw bytes *)
Lemma upd_recs_blocks rs : forall cs, map r_blocks (upd_recs rs cs) = map r_blocks rs.
Proof.
  induction rs as [|r rs IH]; intros [|c cs]; cbn [upd_recs map]; try reflexivity.
  now rewrite IH.
Qed.
Lemma after_write_res d : p_res (psd_after_write d) = p_res d.
Proof. reflexivity. Qed.
Lemma after_write_blocks d : doc_blocks (psd_after_write d) = doc_blocks d.
Proof. reflexivity. Qed.
Lemma after_write_record_blocks d :
  map r_blocks (doc_records (psd_after_write d)) = map r_blocks (doc_records d).
Proof.
  unfold doc_records, psd_after_write, lami_after_write. cbn [p_lami la_info].
  destruct (la_info (p_lami d)) as [li|]; cbn [option_map]; [|reflexivity].
  unfold li_after_write. destruct (li_count li =? 0); [reflexivity|].
  unfold li_update. destruct (li_records li) as [[|r rs]|] eqn:Er; rewrite ?Er; try reflexivity.
  destruct (li_chans li) as [[|c cs]|] eqn:Ec; rewrite ?Er; try reflexivity.
  cbn [li_records]. apply upd_recs_blocks.
Qed.

(* ------------------------------------------------------------------ read_psd_py only rejects more than read_psd *)
Ltac refeed :=
  repeat match goal with
         | E : ?r = Ok _ |- context [bind ?r _] => rewrite E; cbn [bind fst snd]
         end.

Lemma read_tagged_block_py_ref v pad s r :
  read_tagged_block_py v pad s = Ok r -> read_tagged_block v pad s = Ok r.
Proof.
  unfold read_tagged_block_py. intros H. dres H as sg s1 E1.
  destruct (negb (memz sg model_tb_sigs)) eqn:Es.
  - inversion H; subst. unfold read_tagged_block. rewrite E1. cbn [bind]. now rewrite Es.
  - dres H as key s2 E2. dres H as n s3 E3. destruct (ovf n); [discriminate|exact H].
Qed.
Lemma read_tagged_items_py_ref v pad : forall fuel budget s r,
  read_tagged_items_py fuel v pad budget s = Ok r -> read_tagged_items fuel v pad budget s = Ok r.
Proof.
  induction fuel as [|f IH]; intros budget s r H; cbn [read_tagged_items_py] in H; [discriminate|].
  cbn [read_tagged_items].
  destruct (negb (is_readable 8 s)); [exact H|].
  destruct (match budget with Some b => b <=? 0 | None => false end); [exact H|].
  dres1 H as o Eo. rewrite (read_tagged_block_py_ref _ _ _ _ Eo). cbn [bind].
  destruct o as [[b s1]|]; [|exact H].
  dres H as bs s2 Eb. rewrite (IH _ _ _ Eb). cbn [bind]. exact H.
Qed.
Lemma read_tagged_blocks_py_ref v pad budget s r :
  read_tagged_blocks_py v pad budget s = Ok r -> read_tagged_blocks v pad budget s = Ok r.
Proof.
  unfold read_tagged_blocks_py, read_tagged_blocks. intros H. dres H as items s1 E.
  rewrite (read_tagged_items_py_ref _ _ _ _ _ _ E). cbn [bind]. exact H.
Qed.
Lemma read_channel_data_py_ref n s r : read_channel_data_py n s = Ok r -> read_channel_data n s = Ok r.
Proof.
  unfold read_channel_data_py. intros H. dres1 H as r0 E. destruct (ovf n); [discriminate|]. now inversion H.
Qed.
Lemma read_n_ref {A} (rd' rd : stream -> res (A * stream)) :
  (forall s r, rd' s = Ok r -> rd s = Ok r) ->
  forall n s r, read_n n rd' s = Ok r -> read_n n rd s = Ok r.
Proof.
  intros Hr. induction n as [|n IH]; intros s r H; cbn [read_n] in *; [exact H|].
  dres H as a s1 Ea. dres H as l s2 El. rewrite (Hr _ _ Ea). cbn [bind]. rewrite (IH _ _ El). exact H.
Qed.

Section RefinesPy.
  Variable dec_s : list Z -> res (list Z).

  Lemma read_record_py_ref v s r : read_record_py dec_s v s = Ok r -> read_record dec_s v s = Ok r.
  Proof.
    unfold read_record_py. intros H.
    dres H as top s1 E1. dres H as lft s2 E2. dres H as bottom s3 E3. dres H as rgt s4 E4.
    dres H as nch s5 E5. dres H as chans s6 E6. dres H as sg s7 E7. dres H as blend s8 E8.
    dres H as opacity s9 E9. dres H as clip s10 E10. dres H as fl s11 E11. dres H as data s12 E12.
    dres H as mask f1 F1. dres H as ranges f2 F2. dres H as name f3 F3. dres H as blocks f4 F4.
    apply read_tagged_blocks_py_ref in F4. unfold read_record. refeed. exact H.
  Qed.
  Lemma read_channel_list_py_ref : forall cis s r,
    read_channel_list_py cis s = Ok r -> read_channel_list cis s = Ok r.
  Proof.
    induction cis as [|ci cis IH]; intros s r H; cbn [read_channel_list_py read_channel_list] in *; [exact H|].
    dres H as c s1 Ec. dres H as l s2 El. rewrite (read_channel_data_py_ref _ _ _ Ec). cbn [bind].
    rewrite (IH _ _ El). exact H.
  Qed.
  Lemma read_channel_lists_py_ref : forall rs s r,
    read_channel_lists_py rs s = Ok r -> read_channel_lists rs s = Ok r.
  Proof.
    induction rs as [|x rs IH]; intros s r H; cbn [read_channel_lists_py read_channel_lists] in *; [exact H|].
    dres H as l s1 El. dres H as ls s2 Els. rewrite (read_channel_list_py_ref _ _ _ El). cbn [bind].
    rewrite (IH _ _ Els). exact H.
  Qed.
  Lemma read_li_body_py_ref v s r : read_li_body_py dec_s v s = Ok r -> read_li_body dec_s v s = Ok r.
  Proof.
    unfold read_li_body_py. intros H. dres H as count s1 Ec. dres H as recs s2 Er.
    dres H as chans s3 Eh.
    apply (read_n_ref _ _ (read_record_py_ref v)) in Er. apply read_channel_lists_py_ref in Eh.
    unfold read_li_body. refeed. exact H.
  Qed.
  Lemma read_layer_info_py_ref total v s r :
    read_layer_info_py dec_s total v s = Ok r -> read_layer_info dec_s v s = Ok r.
  Proof.
    unfold read_layer_info_py. intros H. dres1 H as nb En. dres H as length s1 E1.
    unfold read_layer_info. refeed.
    destruct (length =? 0); [exact H|]. dres H as li s2 Eb. apply read_li_body_py_ref in Eb. refeed.
    destruct (len s1 - len s2 <=? length); [|exact H]. destruct (ovf _); [discriminate|exact H].
  Qed.
  Lemma read_lami_py_ref total v s r : read_lami_py dec_s total v s = Ok r -> read_lami dec_s v s = Ok r.
  Proof.
    unfold read_lami_py. intros H. dres1 H as nb En. dres H as length s1 E1.
    unfold read_lami. refeed.
    destruct (length =? 0); [exact H|]. dres1 H as l El.
    destruct (ovf _); [discriminate|]. inversion H; subst. clear H.
    unfold read_lami_body_py in El.
    dres El as li s2 Eli. dres El as g s3 Eg. dres1 El as tb Et. inversion El; subst. clear El.
    apply read_layer_info_py_ref in Eli. unfold read_lami_body. refeed.
    destruct (is_readable 1 s3).
    - dres Et as bs s5 Eb. apply read_tagged_blocks_py_ref in Eb. refeed.
      inversion Et; subst. reflexivity.
    - inversion Et; subst. reflexivity.
  Qed.
  Theorem read_psd_py_refines b d : read_psd_py dec_s b = Ok d -> read_psd dec_s b = Ok d.
  Proof.
    unfold read_psd_py. intros H. dres H as h s1 Eh. dres H as cmd s2 Ec. dres H as rs s3 Er.
    dres H as l s4 El. apply read_lami_py_ref in El. unfold read_psd. refeed. exact H.
  Qed.
End RefinesPy.

(* ------------------------------------------------------------------ stage 2: payload classes of Psd/Leaf.v *)
From PsdV Require Import Psd.Leaf Psd.LeafProofs.
Lemma read_upto_len n s : 0 <= n -> len (fst (read_upto n s)) <= n.
Proof.
  intros Hn. unfold read_upto. destruct (n <? 0) eqn:E; [lia|]. cbn [fst].
  unfold len. rewrite firstn_length. pose proof (len_nonneg s). unfold len in *. lia.
Qed.
Lemma read_leaf_wf k b l :
  read_leaf k b = Ok l -> kind_of l = k /\ wf_leaf l = true /\ leaf_guard l = true.
Proof.
  destruct k; cbn [read_leaf]; intros H.
  - dres1 H as v E. inversion H; subst. auto.
  - dres H as v s1 E. inversion H; subst. auto.
  - dres1 H as v E. inversion H; subst. auto.
  - dres1 H as v E. inversion H; subst. auto.
  - dres H as u s1 E. inversion H; subst. auto.
  - inversion H; subst. auto.
  - injection H as <-. split; [reflexivity|]. split; [|reflexivity]. cbn [wf_leaf]. apply Z.leb_le.
    pose proof (read_upto_len 4 b ltac:(lia)) as Hl. exact Hl.
  - dres H as kind s1 E1. destruct (negb (memz kind model_section_dividers)) eqn:Ek; [discriminate|].
    apply negb_false_iff in Ek. dres H as sb s2 E2. dres H as sub s3 E3. inversion H; subst. clear H.
    split; [reflexivity|]. cbn [wf_leaf leaf_guard]. rewrite Ek. cbn [andb].
    destruct (is_readable 8 s1).
    + dres E2 as sg a Ea. destruct (negb (sg =? sig_8BIM)) eqn:Es; [discriminate|].
      dres E2 as bm a2 Eb. destruct (negb (memz bm model_blend_modes)) eqn:Em; [discriminate|].
      inversion E2; subst. cbn [option_map fst snd]. apply negb_false_iff in Es, Em. now rewrite Es, Em.
    + inversion E2; subst. cbn [option_map is_some andb r_opt] in *. inversion E3; subst. auto.
  - dres H as v s1 E1. dres H as x y E2. destruct (memz v model_sheet_colors) eqn:Em; [|discriminate].
    inversion H; subst. auto.
  - dres H as v s1 E. inversion H; subst. auto.
  - dres1 H as v E. inversion H; subst. auto.
  - dres H as c s1 E. inversion H; subst. auto.
  - dres H as c s1 E. dres H as op s2 E2. inversion H; subst. auto.
  - dres H as v s1 E. inversion H; subst. auto.
  - dres H as v s1 E. inversion H; subst. auto.
  - dres H as v s1 E. inversion H; subst. auto.
Qed.
Lemma leaf_resave k b l pad s n :
  0 < pad -> read_leaf k b = Ok l -> write_leaf pad l = Ok (s, n) -> read_leaf k s = Ok l.
Proof.
  intros Hp Hr Hw. destruct (read_leaf_wf _ _ _ Hr) as (Hk & Hwf & _). rewrite <- Hk.
  exact (leaf_rt pad l s n Hp Hwf Hw).
Qed.

(* ------------------------------------------------------------------ the theorems of Properties/C02.v *)
Section Final.
  Variable enc_s : list Z -> res (list Z).
  Variable dec_s : list Z -> res (list Z).
  Hypothesis Hcodec : codec_ok enc_s dec_s.

  Lemma guard_full b d :
    Forall byte b -> read_psd dec_s b = Ok d -> resave_guard d = true -> resave_guard_full d = true.
  Proof.
    intros Hb Hr Hg. unfold resave_guard_full, lami_guard. unfold resave_guard in Hg. rewrite Hg. cbn [andb].
    exact (glmi_before_blocks_reached dec_s b d Hb Hr).
  Qed.
  Lemma guard_of_full d : resave_guard_full d = true -> resave_guard d = true.
  Proof. unfold resave_guard_full, lami_guard, resave_guard. intros H. now apply andb_prop in H as [H _]. Qed.

  Theorem read_psd_wf b d :
    Forall byte b -> read_psd dec_s b = Ok d -> resave_guard d = true -> wf_psd enc_s dec_s d = true.
  Proof. intros Hb Hr Hg. exact (read_psd_wf_full enc_s dec_s Hcodec b d Hr (guard_full b d Hb Hr Hg)). Qed.

  Theorem resave_of_write pad b d s n :
    0 < pad -> Forall byte b -> read_psd dec_s b = Ok d -> resave_guard d = true ->
    write_psd enc_s pad d = Ok (s, n) ->
    read_psd dec_s s = Ok (psd_after_write d) /\
    write_psd enc_s pad (psd_after_write d) = Ok (s, n) /\
    psd_after_write (psd_after_write d) = psd_after_write d.
  Proof.
    intros Hp Hb Hr Hg Hw.
    exact (resave_of_write_full enc_s dec_s Hcodec pad b d s n Hp Hr (guard_full b d Hb Hr Hg) Hw).
  Qed.
End Final.
