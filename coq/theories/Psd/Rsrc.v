(* Stage 3 (5): psd_tools.psd.image_resources - the typed resource payloads.
   Twelve classes are instances of one table-driven codec (a fixed head layout, optionally a count field, optionally
   rows of a fixed layout either counted or "until the data ends"): AlphaIdentifiers, LayerGroupEnabledIDs,
   LayerGroupInfo, HalftoneScreens / HalftoneScreen, TransferFunctions / TransferFunction, DisplayInfo / AlphaChannel,
   LayerSelectionIDs, GridGuidesInfo, PrintFlagsInfo, ResoulutionInfo, PixelAspectRatio, PrintScale.
   Beside them: PrintFlags (8 or 9 booleans), AlphaNamesPascal, AlphaNamesUnicode, PascalString, VersionInfo, URLList /
   URLItem, ThumbnailResource(V4).  Floats and doubles are bit patterns, the 16.16 numbers of HalftoneScreen are their
   integers, strings are UTF-16 code unit lists or go through the Section charset codec.  Definitions only. *)
From PsdV Require Import Base.Prelude Psd.Codec Psd.Model Psd.Struct.
From Coq Require Import ZArith List Bool Lia.
Import ListNotations.
Open Scope Z_scope.

Inductive rtable :=
| TAlphaIds | TGroupEnabled | TGroupInfo | THalftone | TTransfer | TDisplayInfo | TLayerSel | TGridGuides
| TPrintFlagsInfo | TResolution | TPixelAspect | TPrintScale
| TNumeric.                                   (* base.NumericElement: one double *)

Definition model_alpha_modes : list Z := [0; 1; 2].          (* AlphaChannelMode *)
Definition model_print_styles : list Z := [0; 1; 2].        (* PrintScaleStyle *)

Definition rt_head (k : rtable) : list fspec :=
  match k with
  | TDisplayInfo => [FU 4]
  | TGridGuides => [FU 4; FU 4; FU 4]
  | TPrintFlagsInfo => [FU 2; FU 1; FX 1; FU 4; FU 2]                  (* "HBxIH" *)
  | TResolution => [FU 4; FU 2; FU 2; FU 4; FU 2; FU 2]                (* "I2HI2H" *)
  | TPixelAspect => [FU 4; FU 8]                                       (* "Id" *)
  | TPrintScale => [FU 2; FU 4; FU 4; FU 4]                            (* "H3f" *)
  | TNumeric => [FU 8]                                                 (* "d" *)
  | _ => []
  end.
Definition rt_count (k : rtable) : option nat :=
  match k with TLayerSel => Some 2%nat | TGridGuides => Some 4%nat | _ => None end.
Definition rt_row (k : rtable) : option (list fspec) :=
  match k with
  | TAlphaIds => Some [FU 4]
  | TGroupEnabled => Some [FU 1]
  | TGroupInfo => Some [FU 2]
  | THalftone => Some [FU 4; FU 2; FS 4; FU 2; FX 4; FB; FB]           (* "I" "H" "i" "H4x2?" *)
  | TTransfer => Some (repeat (FU 2) 14)                               (* "13H" "H" *)
  | TDisplayInfo => Some [FU 2; FU 2; FU 2; FU 2; FU 2; FU 2; FU 1]    (* "6H" "B" *)
  | TLayerSel => Some [FU 4]
  | TGridGuides => Some [FU 4; FU 1]                                   (* "IB" *)
  | _ => None
  end.
(* the enum conversions of the readers *)
Definition rt_check (k : rtable) (head : list Z) (rows : list (list Z)) : bool :=
  match k with
  | TDisplayInfo => forallb (fun r => memz (nth 6 r (-1)) model_alpha_modes) rows
  | TPrintScale => memz (nth 0 head (-1)) model_print_styles
  | _ => true
  end.

Definition write_rtable (k : rtable) (head : list Z) (rows : list (list Z)) : W :=
  (* PrintScale.write takes style.value: only members exist *)
  if match k with TPrintScale => negb (rt_check k head rows) | _ => false end then Err ValueErr else
  w_fmt (pack_fields (rt_head k) head) +++
  match rt_row k with
  | None => match rows with [] => w_nil | _ => Err TypeErr end
  | Some rl =>
      match rt_count k with Some nb => w_fmt (pack_u nb (len rows)) | None => w_nil end +++ w_fmt (pack_rows rl rows)
  end.
(* "while is_readable(fp, row size)" = as many whole rows as the data holds; "for _ in range(count)": the count is
   clamped by what the data can hold (a row takes at least a byte), beyond that the reading fails either way *)
Definition read_rtable (k : rtable) (s : stream) : res (list Z * list (list Z)) :=
  do (head, s1) <- unpack_fields (rt_head k) s;
  do rows <-
    match rt_row k with
    | None => Ok []
    | Some rl =>
        match rt_count k with
        | Some nb => do (n, s2) <- read_u nb s1;
                     do (rows, _) <- unpack_rows rl (Z.to_nat (Z.min n (len s2 + 1))) s2; Ok rows
        | None => do (rows, _) <- unpack_rows rl (Z.to_nat (len s1 / fields_size rl)) s1; Ok rows
        end
    end;
  if rt_check k head rows then Ok (head, rows) else Err ValueErr.
Definition wf_rtable (k : rtable) (head : list Z) (rows : list (list Z)) : bool :=
  wf_fields (rt_head k) head && rt_check k head rows &&
  match rt_row k with None => true | Some rl => forallb (wf_fields rl) rows end.

(* ---- PrintFlags: "8?" and one more "?" when print_flags is there *)
Definition write_print_flags (flags : list Z) (pf : option Z) : W :=
  (* one write_fmt("%d?") call in the code; a '?' field packs any value, so the two parts never fail separately *)
  w_fmt (pack_fields (repeat FB 8) flags) +++ match pf with Some x => w_fmt (pack_fields [FB] [x]) | None => w_nil end.
Definition read_print_flags (s : stream) : res (list Z * option Z) :=
  do (flags, s1) <- unpack_fields (repeat FB 8) s;
  if is_readable 1 s1 then do (x, _) <- unpack_fields [FB] s1; Ok (flags, Some (nth 0 x 0)) else Ok (flags, None).
Definition wf_print_flags (flags : list Z) (pf : option Z) : bool :=
  (length flags =? 8)%nat && forallb (fun v => (v =? 0) || (v =? 1)) (flags ++ match pf with Some x => [x] | None => [] end).

(* ---- ThumbnailResource: "6I2H" (the sixth is the data size) + data *)
Definition write_thumbnail (vals : list Z) (data : list Z) : W :=
  match vals with
  | [fmt; width; height; row; total; bits; planes] =>
      w_fmt (pack_fields [FU 4; FU 4; FU 4; FU 4; FU 4; FU 4; FU 2; FU 2] [fmt; width; height; row; total; len data; bits; planes])
      +++ w_bytes data
  | _ => Err TypeErr
  end.
Definition read_thumbnail (s : stream) : res (list Z * list Z) :=
  do (h, s1) <- unpack_fields [FU 4; FU 4; FU 4; FU 4; FU 4; FU 4; FU 2; FU 2] s;
  match h with
  | [fmt; width; height; row; total; size; bits; planes] =>
      Ok ([fmt; width; height; row; total; bits; planes], fst (read_upto size s1))
  | _ => Err TypeErr
  end.

(* ---- VersionInfo: "I?" + two unicode strings + "I" *)
Definition write_version_info (version hc : Z) (writer reader : list Z) (fv : Z) : W :=
  w_fmt (pack_fields [FU 4; FB] [version; hc]) +++ w_unicode writer 1 +++ w_unicode reader 1 +++ w_fmt (pack_u 4 fv).
Definition read_version_info (s : stream) : res (Z * Z * list Z * list Z * Z) :=
  do (h, s1) <- unpack_fields [FU 4; FB] s;
  do (writer, s2) <- r_unicode 1 s1; do (reader, s3) <- r_unicode 1 s2; do (fv, _) <- read_u 4 s3;
  Ok (nth 0 h 0, nth 1 h 0, writer, reader, fv).

(* ---- URLList: count + (number, id, name) *)
Definition write_url_item (u : Z * Z * list Z) : W :=
  let '(number, id, name) := u in w_fmt (pk_cat [pack_u 4 number; pack_u 4 id]) +++ w_unicode name 1.
Definition read_url_item (s : stream) : res ((Z * Z * list Z) * stream) :=
  do (number, s1) <- read_u 4 s; do (id, s2) <- read_u 4 s1; do (name, s3) <- r_unicode 1 s2; Ok ((number, id, name), s3).
Definition write_url_list (l : list (Z * Z * list Z)) : W :=
  w_fmt (pack_u 4 (len l)) +++ w_concat (map write_url_item l).
Definition read_url_list (s : stream) : res (list (Z * Z * list Z)) :=
  do (n, s1) <- read_u 4 s;
  do (l, _) <- read_n (Z.to_nat (Z.min n (len s1 + 1))) read_url_item s1; Ok l.

(* ---- AlphaNamesUnicode: strings until the data ends *)
Definition write_unicodes (l : list (list Z)) : W := w_concat (map (fun u => w_unicode u 1) l).
Fixpoint read_unicodes (fuel : nat) (s : stream) : res (list (list Z)) :=
  match fuel with
  | O => Err OutOfFuel
  | S f => if is_readable 1 s then do (u, s1) <- r_unicode 1 s; do r <- read_unicodes f s1; Ok (u :: r) else Ok []
  end.

Section Rsrc.
  Variable enc_s : list Z -> res (list Z).
  Variable dec_s : list Z -> res (list Z).

  (* ---- AlphaNamesPascal: pascal strings (padding 1) until the data ends *)
  Definition write_pascals (l : list (list Z)) : W := w_concat (map (fun n => w_pascal enc_s n 1) l).
  Fixpoint read_pascals (fuel : nat) (s : stream) : res (list (list Z)) :=
    match fuel with
    | O => Err OutOfFuel
    | S f => if is_readable 1 s then do (n, s1) <- r_pascal dec_s 1 s; do r <- read_pascals f s1; Ok (n :: r) else Ok []
    end.
  (* ---- PascalString: written with padding 1, read with the default padding 2 (the padding read is lenient) *)
  Definition write_pascal_string (n : list Z) : W := w_pascal enc_s n 1.
  Definition read_pascal_string (s : stream) : res (list Z) := do (n, _) <- r_pascal dec_s 2 s; Ok n.

  Inductive rpayload :=
  | RTable (k : rtable) (head : list Z) (rows : list (list Z))
  | RPrintFlags (flags : list Z) (pf : option Z)
  | RThumb (vals : list Z) (data : list Z)
  | RVersionInfo (version hc : Z) (writer reader : list Z) (fv : Z)
  | RUrlList (l : list (Z * Z * list Z))
  | RUnicodes (l : list (list Z))
  | RPascals (l : list (list Z))
  | RPascalStr (n : list Z).

  Definition write_rsrc (a : rpayload) : W :=
    match a with
    | RTable k head rows => write_rtable k head rows
    | RPrintFlags flags pf => write_print_flags flags pf
    | RThumb vals data => write_thumbnail vals data
    | RVersionInfo v hc w r fv => write_version_info v hc w r fv
    | RUrlList l => write_url_list l
    | RUnicodes l => write_unicodes l
    | RPascals l => write_pascals l
    | RPascalStr n => write_pascal_string n
    end.
  (* the reader of the class the value belongs to (the resource key selects it: model_rsrc_keys) *)
  Definition reread_rsrc (a : rpayload) (s : stream) : res rpayload :=
    match a with
    | RTable k _ _ => do x <- read_rtable k s; Ok (RTable k (fst x) (snd x))
    | RPrintFlags _ _ => do x <- read_print_flags s; Ok (RPrintFlags (fst x) (snd x))
    | RThumb _ _ => do x <- read_thumbnail s; Ok (RThumb (fst x) (snd x))
    | RVersionInfo _ _ _ _ _ => do x <- read_version_info s; let '(v, hc, w, r, fv) := x in Ok (RVersionInfo v hc w r fv)
    | RUrlList _ => do l <- read_url_list s; Ok (RUrlList l)
    | RUnicodes _ => do l <- read_unicodes (S (length s)) s; Ok (RUnicodes l)
    | RPascals _ => do l <- read_pascals (S (length s)) s; Ok (RPascals l)
    | RPascalStr _ => do n <- read_pascal_string s; Ok (RPascalStr n)
    end.
  Definition wf_rsrc (a : rpayload) : bool :=
    match a with
    | RTable k head rows => wf_rtable k head rows
    | RPrintFlags flags pf => wf_print_flags flags pf
    | RThumb _ _ => true
    | RVersionInfo _ hc _ _ _ => (hc =? 0) || (hc =? 1)
    | RUrlList _ => true
    | RUnicodes _ => true
    | RPascals l => forallb (wf_name enc_s dec_s) l
    | RPascalStr n => wf_name enc_s dec_s n
    end.
End Rsrc.

(* resource id -> class code (1..19); the harness compares it with image_resources.TYPES *)
Definition model_rsrc_keys : list (Z * Z) :=
  [(1005, 10); (1006, 18); (1008, 19); (1011, 13); (1012, 4); (1013, 4); (1014, 4); (1015, 5); (1016, 5); (1017, 5); (1026, 3);
   (1032, 8); (1033, 14); (1036, 14); (1045, 17); (1053, 1); (1054, 16); (1057, 15); (1062, 12); (1064, 11); (1069, 7); (1072, 2);
   (1077, 6); (2999, 19); (10000, 9)].
