(* Stage 2: psd_tools.psd.effects_layer - EffectsLayer ('lrFX') and its effect records
   (CommonStateInfo, ShadowInfo for drop / inner shadow, OuterGlowInfo, InnerGlowInfo, BevelInfo,
   SolidFillInfo).  Version-dependent trailers are options; colours are (space id, 4 values) as in
   Leaf.v.  Definitions only. *)
From PsdV Require Import Base.Prelude Psd.Codec Psd.Model Psd.Leaf.
From Coq Require Import ZArith List Bool Lia.
Import ListNotations.
Open Scope Z_scope.

Definition FX_cmnS := 1668116051.  Definition FX_dsdw := 1685283959.  Definition FX_isdw := 1769170039.
Definition FX_oglw := 1869048951.  Definition FX_iglw := 1768385655.  Definition FX_bevl := 1650816620.
Definition FX_sofi := 1936680553.
(* EffectsLayer.EFFECT_TYPES: key -> record class (1 common, 2 shadow, 3 outer glow, 4 inner glow, 5 bevel, 6 solid fill) *)
Definition model_effect_types : list (Z * Z) :=
  [(FX_bevl, 5); (FX_cmnS, 1); (FX_dsdw, 2); (FX_iglw, 4); (FX_isdw, 2); (FX_oglw, 3); (FX_sofi, 6)].

Definition color := (Z * list Z)%type.
Definition w_col (c : color) : W := write_color (fst c) (snd c).
Definition r_col (s : stream) : res (color * stream) := do (x, s1) <- read_color s; Ok (x, s1).

Inductive effect :=
| FxCommon (version visible : Z)
| FxShadow (version blur intensity angle distance : Z) (col : color) (blend enabled use_global opacity : Z) (native : color)
| FxOuterGlow (version blur intensity : Z) (col : color) (blend enabled opacity : Z) (native : option color)
| FxInnerGlow (version blur intensity : Z) (col : color) (blend enabled opacity : Z) (invert : option Z) (native : option color)
| FxBevel (version angle depth blur hblend sblend : Z) (hcol scol : color)
          (style hopacity sopacity enabled use_global direction : Z) (real : option (color * color))
| FxSolidFill (version blend : Z) (col : color) (opacity enabled : Z) (native : color).

Definition effect_kind (e : effect) : Z :=
  match e with
  | FxCommon _ _ => 1 | FxShadow _ _ _ _ _ _ _ _ _ _ _ => 2 | FxOuterGlow _ _ _ _ _ _ _ _ => 3
  | FxInnerGlow _ _ _ _ _ _ _ _ _ => 4 | FxBevel _ _ _ _ _ _ _ _ _ _ _ _ _ _ _ => 5 | FxSolidFill _ _ _ _ _ _ => 6
  end.

Definition w_glow_body (version blur intensity : Z) (col : color) (blend enabled opacity : Z) : W :=
  w_fmt (pk_cat [pack_u 4 version; pack_u 4 blur; pack_u 4 intensity]) +++ w_col col +++
  w_fmt (pk_cat [pack_u 4 sig_8BIM; pack_u 4 blend; pack_u 1 enabled; pack_u 1 opacity]).

Definition write_effect (e : effect) : W :=
  match e with
  | FxCommon version visible => w_fmt (pk_cat [pack_u 4 version; pack_u 1 visible; Ok (zeros 2)])
  | FxShadow version blur intensity angle distance col blend enabled ug opacity native =>
      w_fmt (pk_cat [pack_u 4 version; pack_u 4 blur; pack_u 4 intensity; pack_s 4 angle; pack_u 4 distance]) +++
      w_col col +++
      w_fmt (pk_cat [pack_u 4 sig_8BIM; pack_u 4 blend; pack_u 1 enabled; pack_u 1 ug; pack_u 1 opacity]) +++
      w_col native
  | FxOuterGlow version blur intensity col blend enabled opacity native =>
      w_glow_body version blur intensity col blend enabled opacity +++
      match native with Some c => w_col c | None => w_nil end                 (* `if self.native_color:` *)
  | FxInnerGlow version blur intensity col blend enabled opacity invert native =>
      w_glow_body version blur intensity col blend enabled opacity +++
      (if 2 <=? version then
         match invert, native with
         | Some i, Some c => w_fmt (pack_u 1 i) +++ w_col c
         | _, _ => Err StructErr                                              (* None where a value is needed *)
         end
       else w_nil)
  | FxBevel version angle depth blur hblend sblend hcol scol style hop sop enabled ug dir real =>
      w_fmt (pk_cat [pack_u 4 version; pack_s 4 angle; pack_u 4 depth; pack_u 4 blur]) +++
      w_fmt (pk_cat [pack_u 4 sig_8BIM; pack_u 4 hblend; pack_u 4 sig_8BIM; pack_u 4 sblend]) +++
      w_col hcol +++ w_col scol +++
      w_fmt (pk_cat [pack_u 1 style; pack_u 1 hop; pack_u 1 sop; pack_u 1 enabled; pack_u 1 ug; pack_u 1 dir]) +++
      (if version =? 2 then
         match real with Some (a, b) => w_col a +++ w_col b | None => Err StructErr end
       else w_nil)
  | FxSolidFill version blend col opacity enabled native =>
      w_fmt (pk_cat [pack_u 4 version; pack_u 4 sig_8BIM; pack_u 4 blend]) +++ w_col col +++
      w_fmt (pk_cat [pack_u 1 opacity; pack_u 1 enabled]) +++ w_col native
  end.

Definition chk_sig (sg : Z) : res unit := if sg =? sig_8BIM then Ok tt else Err AssertErr.
Definition chk_blend (b : Z) : res unit := if memz b model_blend_modes then Ok tt else Err ValueErr.

Definition r_glow_body (s : stream) : res (Z * Z * Z * color * Z * Z * Z * stream) :=
  do (version, s1) <- read_u 4 s; do (blur, s2) <- read_u 4 s1; do (intensity, s3) <- read_u 4 s2;
  do (col, s4) <- r_col s3;
  do (sg, s5) <- read_u 4 s4; do _ <- chk_sig sg;
  do (blend, s6) <- read_u 4 s5; do _ <- chk_blend blend;
  do (enabled, s7) <- read_u 1 s6; do (opacity, s8) <- read_u 1 s7;
  Ok (version, blur, intensity, col, blend, enabled, opacity, s8).

(* kls.frombytes(block content): what is left after the record is ignored *)
Definition read_effect (kind : Z) (s : stream) : res effect :=
  if kind =? 1 then
    do (version, s1) <- read_u 4 s; do (visible, s2) <- read_u 1 s1; do (_, _) <- take 2 s2; Ok (FxCommon version visible)
  else if kind =? 2 then
    do (version, s1) <- read_u 4 s; do (blur, s2) <- read_u 4 s1; do (intensity, s3) <- read_u 4 s2;
    do (angle, s4) <- read_s 4 s3; do (distance, s5) <- read_u 4 s4;
    do (col, s6) <- r_col s5;
    do (sg, s7) <- read_u 4 s6; do _ <- chk_sig sg;
    do (blend, s8) <- read_u 4 s7; do _ <- chk_blend blend;
    do (enabled, s9) <- read_u 1 s8; do (ug, s10) <- read_u 1 s9; do (opacity, s11) <- read_u 1 s10;
    do (native, _) <- r_col s11;
    Ok (FxShadow version blur intensity angle distance col blend enabled ug opacity native)
  else if kind =? 3 then
    do (b, s1) <- (do x <- r_glow_body s; let '(a, b, c, d, e, f, g, s1) := x in Ok ((a, b, c, d, e, f, g), s1));
    let '(version, blur, intensity, col, blend, enabled, opacity) := b in
    do (native, _) <- r_opt (2 <=? version) r_col s1;
    Ok (FxOuterGlow version blur intensity col blend enabled opacity native)
  else if kind =? 4 then
    do (b, s1) <- (do x <- r_glow_body s; let '(a, b, c, d, e, f, g, s1) := x in Ok ((a, b, c, d, e, f, g), s1));
    let '(version, blur, intensity, col, blend, enabled, opacity) := b in
    if 2 <=? version then
      do (invert, s2) <- read_u 1 s1; do (native, _) <- r_col s2;
      Ok (FxInnerGlow version blur intensity col blend enabled opacity (Some invert) (Some native))
    else Ok (FxInnerGlow version blur intensity col blend enabled opacity None None)
  else if kind =? 5 then
    do (version, s1) <- read_u 4 s; do (angle, s2) <- read_s 4 s1; do (depth, s3) <- read_u 4 s2; do (blur, s4) <- read_u 4 s3;
    do (sg1, s5) <- read_u 4 s4; do (hblend, s6) <- read_u 4 s5; do _ <- chk_sig sg1;
    do (sg2, s7) <- read_u 4 s6; do (sblend, s8) <- read_u 4 s7; do _ <- chk_sig sg2;
    do (hcol, s9) <- r_col s8; do (scol, s10) <- r_col s9;
    do (style, s11) <- read_u 1 s10; do (hop, s12) <- read_u 1 s11; do (sop, s13) <- read_u 1 s12;
    do (enabled, s14) <- read_u 1 s13; do (ug, s15) <- read_u 1 s14; do (dir, s16) <- read_u 1 s15;
    do (real, _) <- r_opt (version =? 2) (fun s => do (a, t1) <- r_col s; do (b, t2) <- r_col t1; Ok ((a, b), t2)) s16;
    do _ <- chk_blend hblend; do _ <- chk_blend sblend;
    Ok (FxBevel version angle depth blur hblend sblend hcol scol style hop sop enabled ug dir real)
  else if kind =? 6 then
    do (version, s1) <- read_u 4 s; do (sg, s2) <- read_u 4 s1; do (blend, s3) <- read_u 4 s2; do _ <- chk_sig sg;
    do (col, s4) <- r_col s3; do (opacity, s5) <- read_u 1 s4; do (enabled, s6) <- read_u 1 s5;
    do (native, _) <- r_col s6; do _ <- chk_blend blend;
    Ok (FxSolidFill version blend col opacity enabled native)
  else Err KeyErr.

Record effects_layer := mkFX { fx_version : Z; fx_items : list (Z * effect) }.

Definition write_effects (l : effects_layer) : W :=
  w_then_pad
    (w_fmt (pk_cat [pack_u 2 (fx_version l); pack_u 2 (len (fx_items l))]) +++
     w_concat (map (fun ke : Z * effect =>
                      w_fmt (pk_cat [pack_u 4 sig_8BIM; pack_u 4 (fst ke)]) +++
                      w_length_block 0 4 1 (write_effect (snd ke))) (fx_items l))) 4.

Fixpoint assocz (k : Z) (l : list (Z * Z)) : option Z :=
  match l with [] => None | (a, b) :: l' => if k =? a then Some b else assocz k l' end.

Fixpoint read_effect_items (n : nat) (s : stream) : res (list (Z * effect) * stream) :=
  match n with
  | O => Ok ([], s)
  | S n' =>
      do (sg, s1) <- read_u 4 s; do _ <- chk_sig sg;
      do (key, s2) <- read_u 4 s1;
      match assocz key model_effect_types with
      | None => Err ValueErr                                   (* EffectOSType(key) *)
      | Some kind =>
          do (data, s3) <- read_length_block 0 4 1 s2;
          do e <- read_effect kind data;
          do (r, s4) <- read_effect_items n' s3;
          Ok ((key, e) :: r, s4)
      end
  end.
Definition read_effects (s : stream) : res effects_layer :=
  do (version, s1) <- read_u 2 s;
  do (count, s2) <- read_u 2 s1;
  do (items, _) <- read_effect_items (Z.to_nat count) s2;
  Ok (mkFX version (od_build fst items)).

(* ---- well-formedness *)
Definition wf_color (c : color) : bool := true.
Definition wf_effect (e : effect) : bool :=
  match e with
  | FxCommon _ _ => true
  | FxShadow _ _ _ _ _ _ blend _ _ _ _ => memz blend model_blend_modes
  | FxOuterGlow version _ _ _ blend _ _ native => memz blend model_blend_modes && Bool.eqb (2 <=? version) (is_some native)
  | FxInnerGlow version _ _ _ blend _ _ invert native =>
      memz blend model_blend_modes && Bool.eqb (2 <=? version) (is_some invert) && Bool.eqb (2 <=? version) (is_some native)
  | FxBevel version _ _ _ hblend sblend _ _ _ _ _ _ _ _ real =>
      memz hblend model_blend_modes && memz sblend model_blend_modes && Bool.eqb (version =? 2) (is_some real)
  | FxSolidFill _ blend _ _ _ _ => memz blend model_blend_modes
  end.
Definition wf_effects (l : effects_layer) : bool :=
  forallb (fun ke : Z * effect => match assocz (fst ke) model_effect_types with
                                  | Some k => (k =? effect_kind (snd ke)) && wf_effect (snd ke)
                                  | None => false end) (fx_items l) &&
  nodupz (map fst (fx_items l)).
