(* Stage 3 (6): round trips of UserMask, SmartObjectLayerData, PlacedLayerData, TypeToolObjectSetting, PixelSourceData2 *)
From PsdV Require Import Base.Prelude Psd.Codec Psd.Model Psd.Proofs Psd.Leaf Psd.LeafProofs Psd.Descriptor Psd.DescriptorProofs
  Psd.Struct Psd.Linked Psd.LinkedProofs Psd.Misc.
From Coq Require Import ZArith List Bool Lia ZifyBool.
Import ListNotations.
Open Scope Z_scope.

Ltac wt6 :=
  repeat first [ apply wtruth_then_pad | apply wtruth_seq | apply wtruth_fmt | apply wtruth_bytes | apply wtruth_nil
               | apply wtruth_err | apply wtruth_length_block | apply wtruth_unicode | apply wtruth_dblock
               | match goal with |- wtruth (if ?c then _ else _) => destruct c end ].

Lemma dblock2_s_rt units t v dv d bs n rest :
  wf_terms t = true -> wf_dblock units (DBlock2 v dv d) = true -> write_dblock t 1 (DBlock2 v dv d) = Ok (bs, n) ->
  read_dblock2_s units t (bs ++ rest) = Ok (DBlock2 v dv d, t, rest).
Proof.
  intros Hw Hwf H. cbn [write_dblock wf_dblock] in *.
  apply andb_prop in Hwf as [Hwf Hd]. apply andb_prop in Hwf as [Hver Hos].
  destruct d; try discriminate. apply Z.eqb_eq in Hos. subst os.
  apply w_then_pad_inv in H as (x & nx & Hx & -> & _). rewrite pad_count_1. cbn [Z.to_nat zeros repeat]. rewrite app_nil_r.
  apply w_seq_inv in Hx as (a & na & b & nb & Ha & Hb & -> & ->). apply w_fmt_inv in Ha as [Ha ->]. open_pk Ha.
  unfold read_dblock2_s. rewrite <- !app_assoc. steps.
  pose proof (dsize_le t _ _ _ Hb) as Hsz.
  rewrite (dval_rt units t Hw _ Hd b nb _ _ Hb) by (rewrite app_length; lia).
  cbn [bind fst snd]. now rewrite Hver.
Qed.

(* ---- UserMask *)
Lemma wtruth_color cid vals : wtruth (write_color cid vals).
Proof. unfold write_color. wt6. Qed.
Lemma wtruth_user_mask cid vals op fl : wtruth (write_user_mask cid vals op fl).
Proof. unfold write_user_mask. apply wtruth_seq; [apply wtruth_color|apply wtruth_fmt]. Qed.
Theorem user_mask_rt cid vals op fl bs n : write_user_mask cid vals op fl = Ok (bs, n) -> read_user_mask bs = Ok (cid, vals, op, fl).
Proof.
  unfold write_user_mask. intros H. apply w_seq_inv in H as (a & na & b & nb & Ha & Hb & -> & ->). apply w_fmt_inv in Hb as [Hb _].
  unfold read_user_mask. rewrite (color_rt cid vals a na b Ha). cbn [bind fst snd].
  rewrite <- (app_nil_r b). rewrite (fields_rt [FU 2; FU 1; FX 1] [op; fl] b [] eq_refl Hb). reflexivity.
Qed.

(* ---- SmartObjectLayerData *)
Lemma wtruth_sold t pad kind version b : wtruth (write_sold t pad kind version b).
Proof. unfold write_sold. wt6. Qed.
Theorem sold_rt units t pad kind version b bs n :
  wf_terms t = true -> wf_sold units kind version b = true -> write_sold t pad kind version b = Ok (bs, n) ->
  read_sold units t bs = Ok (kind, version, b, t).
Proof.
  unfold wf_sold, write_sold. intros Hw Hwf H. apply andb_prop in Hwf as [Hkv Hb].
  destruct b as [v d|]; [|discriminate]. cbn [wf_opt_dblock] in Hb.
  apply w_then_pad_inv in H as (x & nx & Hx & -> & _).
  apply w_seq_inv in Hx as (a & na & c & nc & Ha & Hc & -> & ->). apply w_fmt_inv in Ha as [Ha _]. open_pk Ha.
  unfold read_sold. rewrite <- !app_assoc. steps.
  rewrite (dblock_s_rt units t v d c nc _ Hw Hb Hc). cbn [bind fst snd]. now rewrite Hkv.
Qed.

(* ---- TypeToolObjectSetting *)
Lemma wtruth_typetool t pad x : wtruth (write_typetool t pad x).
Proof. unfold write_typetool. wt6. Qed.
Theorem typetool_rt units t pad x bs n :
  wf_terms t = true -> wf_typetool units x = true -> write_typetool t pad x = Ok (bs, n) -> read_typetool units t bs = Ok (x, t).
Proof.
  unfold wf_typetool, write_typetool. intros Hw Hwf H.
  destruct x as [version transform tv text wv warp box]. cbn [ty_version ty_transform ty_text_version ty_text ty_warp_version ty_warp ty_box] in *.
  apply andb_prop in Hwf as [Hwf Hwarp]. apply andb_prop in Hwf as [Hwf Htext]. apply andb_prop in Hwf as [Htv Hwv].
  destruct text as [v1 d1|]; [|discriminate]. destruct warp as [v2 d2|]; [|discriminate]. cbn [wf_opt_dblock] in *.
  apply w_then_pad_inv in H as (y & ny & Hy & -> & _).
  apply w_seq_inv in Hy as (x5 & n5 & b6 & n6 & Hy & H6 & -> & ->).
  apply w_seq_inv in Hy as (x4 & n4 & b5 & n5' & Hy & H5 & -> & ->).
  apply w_seq_inv in Hy as (x3 & n3 & b4 & n4' & Hy & H4 & -> & ->).
  apply w_seq_inv in Hy as (x2 & n2 & b3 & n3' & Hy & H3 & -> & ->).
  apply w_seq_inv in Hy as (x1 & m1 & b2 & n2' & Hy & H2 & -> & ->).
  apply w_seq_inv in Hy as (b0 & n0 & b1 & n1 & H0 & H1 & -> & ->).
  apply w_fmt_inv in H0 as [H0 _]. apply w_fmt_inv in H1 as [H1 _]. apply w_fmt_inv in H2 as [H2 _]. apply w_fmt_inv in H4 as [H4 _].
  apply w_fmt_inv in H6 as [H6 _].
  unfold read_typetool. rewrite <- !app_assoc. steps.
  rewrite (fields_rt L_6d transform b1 _ (wf_fields_plain L_6d eq_refl transform) H1). cbn [bind]. steps.
  rewrite (dblock_s_rt units t v1 d1 b3 n3' _ Hw Htext H3). cbn [bind fst snd]. steps.
  rewrite (dblock_s_rt units t v2 d2 b5 n5' _ Hw Hwarp H5). cbn [bind fst snd].
  rewrite (fields_rt L_4i box b6 _ (wf_fields_plain L_4i eq_refl box) H6). cbn [bind]. now rewrite Htv, Hwv.
Qed.

(* ---- PixelSourceData2 *)
Lemma wtruth_pixel_sources pad l : wtruth (write_pixel_sources pad l).
Proof. unfold write_pixel_sources. apply wtruth_then_pad, wtruth_concat_map. intros d. apply wtruth_length_block, wtruth_bytes. Qed.
Lemma pixel_items_rt : forall l bs n tail fuel,
  w_concat (map (fun d => w_length_block 0 8 1 (w_bytes d)) l) = Ok (bs, n) -> len tail < 8 -> (length bs < fuel)%nat ->
  read_pixel_sources fuel (bs ++ tail) = Ok l.
Proof.
  induction l as [|d l IH]; intros bs n tail fuel H Ht Hf.
  - apply w_concat_nil_inv in H as [-> _]. destruct fuel; [cbn in Hf; lia|]. cbn [read_pixel_sources app].
    unfold is_readable. replace (8 <=? len tail) with false by lia. reflexivity.
  - apply w_concat_cons_inv in H as (b1 & n1 & b2 & n2 & Hd & Hl & -> & ->).
    destruct fuel as [|f]; [cbn in Hf; lia|]. cbn [read_pixel_sources].
    pose proof (fun rest => length_block_rt 0 8 1 _ b1 n1 rest ltac:(lia) eq_refl (wtruth_bytes d) Hd) as Hb.
    destruct (Hb []) as (body & Hbody & Hr0). apply (rlb_len) in Hr0. rewrite app_nil_r in Hr0. change (Z.of_nat (0 + 8)) with 8 in Hr0.
    destruct (Hb (b2 ++ tail)) as (body' & Hbody' & Hr). rewrite Hbody in Hbody'. inversion Hbody'; subst body'. clear Hbody'.
    apply w_bytes_inv in Hbody as [-> _].
    rewrite <- app_assoc. unfold is_readable. replace (8 <=? len (b1 ++ b2 ++ tail)) with true by (rewrite len_app; pose_nonneg; lia).
    rewrite Hr. cbn [bind]. rewrite (IH b2 n2 tail f Hl Ht); [reflexivity|]. rewrite app_length in Hf. unfold len in Hr0. lia.
Qed.
Theorem pixel_sources_rt pad l bs n : 0 < pad <= 8 -> write_pixel_sources pad l = Ok (bs, n) ->
  read_pixel_sources (S (length bs)) bs = Ok l.
Proof.
  unfold write_pixel_sources. intros Hp H. apply w_then_pad_inv in H as (x & nx & Hx & -> & _).
  apply (pixel_items_rt l x nx _ _ Hx).
  - unfold len, zeros. rewrite repeat_length. pose proof (pad_count_range nx pad ltac:(lia)). lia.
  - rewrite app_length. lia.
Qed.

Section MiscProofs.
  Variable enc_s : list Z -> res (list Z).
  Variable dec_s : list Z -> res (list Z).

  Lemma wtruth_placed t pad x : wtruth (write_placed enc_s t pad x).
  Proof. unfold write_placed. wt6. apply wtruth_pascal. Qed.
  Theorem placed_rt units t pad x bs n :
    wf_terms t = true -> wf_placed enc_s dec_s units x = true -> write_placed enc_s t pad x = Ok (bs, n) ->
    read_placed dec_s units t bs = Ok (x, t).
  Proof.
    unfold wf_placed, write_placed. intros Hw Hwf H.
    destruct x as [kind version uuid info transform warp]. cbn [pl_kind pl_version pl_uuid pl_info pl_transform pl_warp] in *.
    apply andb_prop in Hwf as [Hwf Hwarp]. apply andb_prop in Hwf as [Hwf Huuid]. apply andb_prop in Hwf as [Hver Hty].
    rewrite Hty in H. cbn [negb] in H. destruct warp as [|v2 dv2 d2]; [discriminate|].
    apply w_then_pad_inv in H as (y & ny & Hy & -> & _).
    apply w_seq_inv in Hy as (x4 & n4 & b5 & n5 & Hy & H5 & -> & ->).
    apply w_seq_inv in Hy as (x3 & n3 & b4 & n4' & Hy & H4 & -> & ->).
    apply w_seq_inv in Hy as (x2 & n2 & b3 & n3' & Hy & H3 & -> & ->).
    apply w_seq_inv in Hy as (b1 & n1 & b2 & n2' & H1 & H2 & -> & ->).
    apply w_fmt_inv in H1 as [H1 _]. open_pk H1. apply w_fmt_inv in H3 as [H3 _]. apply w_fmt_inv in H4 as [H4 _].
    unfold read_placed. rewrite <- !app_assoc. steps.
    rewrite (pascal_rt enc_s dec_s uuid 1 b2 n2' _ ltac:(lia) (wf_name_inv enc_s dec_s uuid Huuid) H2). cbn [bind].
    rewrite (fields_rt L_4I_u info b3 _ (wf_fields_plain L_4I_u eq_refl info) H3). cbn [bind].
    rewrite (fields_rt L_8d transform b4 _ (wf_fields_plain L_8d eq_refl transform) H4). cbn [bind].
    rewrite (dblock2_s_rt units t v2 dv2 d2 b5 n5 _ Hw Hwarp H5). cbn [bind fst snd]. now rewrite Hver, Hty.
  Qed.
End MiscProofs.
