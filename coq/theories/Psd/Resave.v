(* C02 - re-saving what the reader accepted (definitions only).

   Builds on Psd/Model.v (the container model of psd_tools.psd: total readers with the lenient
   behaviours of the code, writers that report their count).  Here:
     - [codec_ok]: the one assumption about the charset of pascal strings (the reader's decode is
       undone by the writer's encode: true of mac_roman, the default encoding, which maps the 256
       byte values one-to-one; checked on the Python codec by the harness);
     - the five guards that carve out, on the READER'S RANGE, exactly the structures the writer
       does not hand back unchanged (findings F-C02-1 .. F-C02-5), as executable booleans;
     - [eqv]: equality of the structure read (as it is after write() refreshed the channel lengths
       in place) with the structure re-read - what Python's attrs `==` computes, None and the empty
       container distinguished;
     - [resave_outcome]: the whole read / save / re-read / save-again pipeline as one function from
       bytes to a short list of numbers, evaluated by the harness on every mutant and compared with
       the implementation. *)
From PsdV Require Import Base.Prelude Psd.Codec Psd.Model.
From Coq Require Import ZArith List Bool Lia Uint63.
Import ListNotations.
Open Scope Z_scope.

(* ------------------------------------------------------------------ canonical flattening of the container structures, digests
   (the same definitions as in Psd/Corr.v, repeated here so that the C02 files do not depend on that frequently
   regenerated glue file; twin: the c_ functions of harness/vh/format_common.py) *)
(* ---- byte strings as 7 bytes per 63-bit literal (harness: format_common.coq_bytes; same as Psd/Corr.v) *)
Definition wb (w : int) (k : Z) : Z := to_Z (Uint63.land (Uint63.lsr w (of_Z k)) (of_Z 255)).
Definition word_bytes (w : int) : list Z := [wb w 48; wb w 40; wb w 32; wb w 24; wb w 16; wb w 8; wb w 0].
Definition bw (n : Z) (ws : list int) : list Z := firstn (Z.to_nat n) (flat_map word_bytes ws).
Definition c_z (x : Z) : list Z := [x].
Definition c_bytes (b : list Z) : list Z := len b :: b.
Definition c_opt {A} (f : A -> list Z) (o : option A) : list Z :=
  match o with None => [0] | Some a => 1 :: f a end.
Definition c_list {A} (f : A -> list Z) (l : list A) : list Z := len l :: flat_map f l.

Definition c_header (h : header) : list Z :=
  [h_sig h; h_version h; h_channels h; h_height h; h_width h; h_depth h; h_mode h].
Definition c_res (r : image_resource) : list Z :=
  [ir_sig r; ir_key r] ++ c_bytes (ir_name r) ++ c_bytes (ir_data r).
Definition c_tb (b : tagged_block) : list Z := [tb_sig b; tb_key b] ++ c_bytes (tb_data b).
Definition c_flags (f : flags8) : list Z := [flags_byte f].
Definition c_mp (p : mask_params) : list Z :=
  c_opt c_z (mp_user_density p) ++ c_opt c_z (mp_user_feather p) ++
  c_opt c_z (mp_vector_density p) ++ c_opt c_z (mp_vector_feather p).
Definition c_mr (r : mask_real) : list Z :=
  c_flags (mr_flags r) ++ [mr_bg r; mr_top r; mr_left r; mr_bottom r; mr_right r].
Definition c_mask (m : mask_data) : list Z :=
  [m_top m; m_left m; m_bottom m; m_right m; m_bg m] ++ c_flags (m_flags m) ++
  c_opt c_mp (m_params m) ++ c_opt c_mr (m_real m).
Definition c_pair (x : Z * Z) : list Z := [fst x; snd x].
Definition c_br (r : blending_ranges) : list Z :=
  c_opt (c_list c_pair) (br_comp r) ++ c_opt (c_list (c_list c_pair)) (br_chan r).
Definition c_ci (c : channel_info) : list Z := [ci_id c; ci_len c].
Definition c_rec (r : layer_record) : list Z :=
  [r_top r; r_left r; r_bottom r; r_right r] ++ c_list c_ci (r_channels r) ++
  [r_sig r; r_blend r; r_opacity r; r_clip r] ++ c_flags (r_flags r) ++
  c_opt c_mask (r_mask r) ++ c_br (r_ranges r) ++ c_bytes (r_name r) ++ c_list c_tb (r_blocks r).
Definition c_cd (c : channel_data) : list Z := cd_comp c :: c_bytes (cd_data c).
Definition c_li (l : layer_info) : list Z :=
  li_count l :: c_opt (c_list c_rec) (li_records l) ++ c_opt (c_list (c_list c_cd)) (li_chans l).
Definition c_glmi (g : glmi) : list Z := c_opt (c_list c_z) (g_overlay g) ++ [g_opacity g; g_kind g].
Definition c_lami (l : lami) : list Z :=
  c_opt c_li (la_info l) ++ c_opt c_glmi (la_glmi l) ++ c_opt (c_list c_tb) (la_blocks l).
Definition c_psd (d : psd) : list Z :=
  c_header (p_header d) ++ c_bytes (p_cmd d) ++ c_list c_res (p_res d) ++ c_lami (p_lami d) ++ c_cd (p_img d).

Definition enc := raw_codec.
Definition dec := raw_codec.
Definition dig (l : list Z) : Z := to_Z (h63_list 0%uint63 l).

(* ------------------------------------------------------------------ the charset assumption *)
Definition codec_ok (enc_s dec_s : list Z -> res (list Z)) : Prop :=
  forall b n, dec_s b = Ok n -> enc_s n = Ok b.

(* ------------------------------------------------------------------ guards (one per finding) *)
(* F-C02-1: a non-empty layer-info block that declares 0 layers is read as (0, [], []); the writer
   emits the short form, which reads back as (0, None, None) *)
Definition g_count0 (li : layer_info) : bool :=
  if li_count li =? 0 then negb (is_some (li_records li)) && negb (is_some (li_chans li)) else true.

(* F-C02-2: tagged_blocks = None beside a layer info: the first read met the end of the FILE inside
   the section (is_readable(fp) false), the re-saved file has the merged image after the section *)
Definition g_blocks_present (l : lami) : bool :=
  match la_info l with Some _ => is_some (la_blocks l) | None => true end.

(* F-C02-3 (FIXED by /repo f3a2729; was Model.glmi_guard: an empty GlobalLayerMaskInfo needed 17 readable bytes after
   the layer info).  The reader now looks for the 4-byte length inside the section: no guard any more; the pre-fix
   reader is Psd/Legacy.v (Properties/C02.v resave_refuted_before_f3a2729). *)

(* F-C02-4: tagged blocks without a global layer mask info.  Before f3a2729 the reader produced this whenever fewer
   than 17 bytes were left in the file, and the re-saved file was unreadable; since f3a2729 the reader cannot produce
   it from a byte string any more ([glmi_before_blocks_reached], ResaveProofs.v): not a hypothesis of the theorems *)
Definition g_glmi_before_blocks (l : lami) : bool :=
  is_some (la_glmi l) || negb (truthy (la_blocks l)).

(* F-C02-5 (= the reader-reachable part of F-C01-3): a 35-byte mask block with both feathers and
   no real_* fields is written as 36 bytes and re-read as if it had them *)
Definition mask_ok (r : layer_record) : bool :=
  match r_mask r with Some m => mask_len_guard m | None => true end.
Definition g_masks (li : layer_info) : bool :=
  match li_records li with Some rs => forallb mask_ok rs | None => true end.

Definition g_li (li : layer_info) : bool := g_count0 li && g_masks li.

(* the conjunction used by the per-section lemmas: F1, F5 (layer info), F2, F4 *)
Definition lami_guard (l : lami) : bool :=
  match la_info l with Some li => g_li li | None => true end &&
  g_blocks_present l && g_glmi_before_blocks l.
Definition resave_guard_full (d : psd) : bool := lami_guard (p_lami d).

(* the hypothesis of the C02 theorems: F1, F2, F5 only - for a byte string, the reader never produces the F4 class *)
Definition resave_guard (d : psd) : bool :=
  match la_info (p_lami d) with Some li => g_li li | None => true end && g_blocks_present (p_lami d).

(* ------------------------------------------------------------------ what the writer needs *)
Section Resave.
  Variable enc_s : list Z -> res (list Z).
  Variable dec_s : list Z -> res (list Z).

  (* exactly the hypothesis of the C01 round trip *)
  Definition wf_resave (d : psd) : Prop := wf_psd enc_s dec_s d = true.

  (* Python: d2 == d, evaluated after d.write() mutated d *)
  Definition eqv (d d' : psd) : Prop := d' = psd_after_write d.

  (* the property, for one input and one padding *)
  Definition resaves (pad : Z) (b : list Z) : Prop :=
    forall d, read_psd dec_s b = Ok d ->
      exists s n, write_psd enc_s pad d = Ok (s, n) /\
        exists d', read_psd dec_s s = Ok d' /\ eqv d d' /\ write_psd enc_s pad d' = Ok (s, n).
End Resave.

(* ------------------------------------------------------------------ unknown keys / ids
   The container model keeps EVERY payload as raw bytes; "unknown" needs no table here: the theorem
   [unknown_preserved] holds for any key.  [find_tb]/[find_res]: dict lookup. *)
Fixpoint find_tb (k : Z) (l : list tagged_block) : option tagged_block :=
  match l with [] => None | b :: t => if tb_key b =? k then Some b else find_tb k t end.
Fixpoint find_res (k : Z) (l : list image_resource) : option image_resource :=
  match l with [] => None | r :: t => if ir_key r =? k then Some r else find_res k t end.
Definition doc_blocks (d : psd) : list tagged_block :=
  match la_blocks (p_lami d) with Some bs => bs | None => [] end.
Definition doc_records (d : psd) : list layer_record :=
  match la_info (p_lami d) with
  | Some li => match li_records li with Some rs => rs | None => [] end
  | None => []
  end.

(* ------------------------------------------------------------------ the reader with CPython's size limit
   Found by the correspondence check on version-2 mutants: a length read from an 8-byte field that is
   >= 2^63 makes io.BytesIO.read(n) / seek(pos) raise OverflowError (Py_ssize_t) where Model.read_psd
   treats it as an ordinary over-long length (IOError, or - for the layer-info length, whose end position is
   only sought - acceptance).  [read_psd_py] is Model.read_psd with exactly those checks inserted, at the
   four sites that read an 8-byte length: tagged block (big keys), channel data, layer info, the section.
   It only rejects more ([read_psd_py_refines]), so every theorem about read_psd holds for it.
   [total] is the length of the whole file: fp.tell() = total - len (rest). *)
Definition ssize_max : Z := 2 ^ 63 - 1.
Definition ovf (n : Z) : bool := ssize_max <? n.

Definition read_tagged_block_py (v padding : Z) (s : stream) : res (option (tagged_block * stream)) :=
  do (sg, s1) <- read_u 4 s;
  if negb (memz sg model_tb_sigs) then Ok None
  else
    do (key, s2) <- read_u 4 s1;
    do (n, _) <- read_u (tb_len_bytes v key) s2;
    if ovf n then Err OverflowErr else read_tagged_block v padding s.
Fixpoint read_tagged_items_py (fuel : nat) (v padding : Z) (budget : option Z) (s : stream)
  : res (list tagged_block * stream) :=
  match fuel with
  | O => Err OutOfFuel
  | S f =>
      if negb (is_readable 8 s) then Ok ([], s)
      else if match budget with Some b => b <=? 0 | None => false end then Ok ([], s)
      else
        do r <- read_tagged_block_py v padding s;
        match r with
        | None => Ok ([], s)
        | Some (b, s1) =>
            let budget' := match budget with Some x => Some (x - (len s - len s1)) | None => None end in
            do (bs, s2) <- read_tagged_items_py f v padding budget' s1;
            Ok (b :: bs, s2)
        end
  end.
Definition read_tagged_blocks_py (v padding : Z) (budget : option Z) (s : stream)
  : res (list tagged_block * stream) :=
  do (items, s1) <- read_tagged_items_py (S (length s)) v padding budget s;
  Ok (od_build tb_key items, s1).

Definition read_channel_data_py (length : Z) (s : stream) : res (channel_data * stream) :=
  do r <- read_channel_data length s;
  if ovf length then Err OverflowErr else Ok r.

Section ReaderPy.
  Variable dec_s : list Z -> res (list Z).

  Definition read_record_py (v : Z) (s : stream) : res (layer_record * stream) :=
    do (top, s1) <- read_s 4 s;
    do (lft, s2) <- read_s 4 s1;
    do (bottom, s3) <- read_s 4 s2;
    do (rgt, s4) <- read_s 4 s3;
    do (nch, s5) <- read_u 2 s4;
    do (chans, s6) <- read_n (Z.to_nat nch) (read_channel_info v) s5;
    do (sg, s7) <- read_u 4 s6;
    do (blend, s8) <- read_u 4 s7;
    do (opacity, s9) <- read_u 1 s8;
    do (clip, s10) <- read_u 1 s9;
    do (fl, s11) <- read_u 1 s10;
    do (data, s12) <- read_length_block 1 4 1 s11;
    do (mask, f1) <- read_mask data;
    do (ranges, f2) <- read_ranges f1;
    do (name, f3) <- r_pascal dec_s 4 f2;
    do (blocks, _) <- read_tagged_blocks_py v 1 None f3;
    if memz sg model_record_sigs && memz blend model_blend_modes && memz clip model_clippings then
      Ok (mkRec top lft bottom rgt chans sg blend opacity clip (lflags_of fl) mask ranges name blocks, s12)
    else Err ValueErr.

  Fixpoint read_channel_list_py (cis : list channel_info) (s : stream) : res (list channel_data * stream) :=
    match cis with
    | [] => Ok ([], s)
    | ci :: cis' => do (c, s1) <- read_channel_data_py (ci_len ci - 2) s;
                    do (l, s2) <- read_channel_list_py cis' s1; Ok (c :: l, s2)
    end.
  Fixpoint read_channel_lists_py (rs : list layer_record) (s : stream) : res (list (list channel_data) * stream) :=
    match rs with
    | [] => Ok ([], s)
    | r :: rs' =>
        do (l, s1) <- read_channel_list_py (r_channels r) s;
        do (ls, s2) <- read_channel_lists_py rs' s1;
        Ok (l :: ls, s2)
    end.
  Definition read_li_body_py (v : Z) (s : stream) : res (layer_info * stream) :=
    do (count, s1) <- read_s 2 s;
    do (recs, s2) <- read_n (Z.to_nat (Z.abs count)) (read_record_py v) s1;
    do (chans, s3) <- read_channel_lists_py recs s2;
    Ok (mkLI count (Some recs) (Some chans), s3).
  Definition read_layer_info_py (total v : Z) (s : stream) : res (layer_info * stream) :=
    do nb <- len_bytes v;
    do (length, s1) <- read_u nb s;
    if length =? 0 then Ok (mkLI 0 None None, s1)
    else
      do (li, s2) <- read_li_body_py v s1;
      if len s1 - len s2 <=? length then
        (if ovf (total - len s1 + length) then Err OverflowErr else Ok (li, skipz length s1))   (* fp.seek(end_pos) *)
      else Err AssertErr.

  Definition read_lami_body_py (total v : Z) (s : stream) (length : Z) : res lami :=
    do (li, s2) <- read_layer_info_py total v s;
    do (g, s3) <- r_opt (is_readable glmi_probe s2 && (len s - len s2 + glmi_probe <=? length)) read_glmi s2;
    do tb <- (if is_readable 1 s3 then
                do (bs, _) <- read_tagged_blocks_py v 4 (Some (length - (len s - len s3))) s3; Ok (Some bs)
              else Ok None);
    Ok (mkLAMI (Some li) g tb).
  Definition read_lami_py (total v : Z) (s : stream) : res (lami * stream) :=
    do nb <- len_bytes v;
    do (length, s1) <- read_u nb s;
    if length =? 0 then Ok (mkLAMI None None None, s1)
    else do l <- read_lami_body_py total v s1 length;
         if ovf (total - len s1 + length) then Err OverflowErr else Ok (l, skipz length s1).

  Definition read_psd_py (s : stream) : res psd :=
    do (h, s1) <- read_header s;
    do (cmd, s2) <- read_cmd s1;
    do (rs, s3) <- read_resources dec_s s2;
    do (l, s4) <- read_lami_py (len s) (h_version h) s3;
    do img <- read_image_data s4;
    Ok (mkPSD h cmd rs l img).
End ReaderPy.

(* ------------------------------------------------------------------ the pipeline as a function *)
Definition b2l (b : bool) : Z := if b then 1 else 0.

(* guard broken down: bit 0 F1, bit 1 F2, (bit 2 was F3: fixed), bit 3 F4 (unreachable since f3a2729; still reported),
   bit 4 F5 (set = the guard FAILS) *)
Definition guard_bits (d : psd) : Z :=
  let l := p_lami d in
  b2l (negb (match la_info l with Some li => g_count0 li | None => true end)) +
  2 * b2l (negb (g_blocks_present l)) +
  8 * b2l (negb (g_glmi_before_blocks l)) +
  16 * b2l (negb (match la_info l with Some li => g_masks li | None => true end)).

(* [read: 0; digest canon d; guard bits] ++ [save: 0; n; digest s] ++ [re-read: 0; digest canon d'; d' == d ?]
   ++ [second save: 0; same bytes ?]   -- each stage replaced by its error code when it fails *)
Definition resave_outcome (b : list Z) : list Z :=
  match read_psd_py dec b with
  | Err e => [err_code e]
  | Ok d =>
      [0; dig (c_psd d); guard_bits d] ++
      match write_psd enc 4 d with
      | Err e => [err_code e]
      | Ok (s, n) =>
          [0; n; dig s] ++
          match read_psd_py dec s with
          | Err e => [err_code e]
          | Ok d' =>
              [0; dig (c_psd d'); b2l (list_eqb (c_psd d') (c_psd (psd_after_write d)))] ++
              match write_psd enc 4 d' with
              | Err e => [err_code e]
              | Ok (s', _) => [0; b2l (list_eqb s s')]
              end
          end
      end
  end.

(* debugging aids of the harness: the canonical structure read / the bytes written *)
Definition resave_canon (b : list Z) : list Z :=
  match read_psd_py dec b with Err e => [err_code e] | Ok d => 0 :: c_psd d end.
Definition resave_bytes (b : list Z) : list Z :=
  match read_psd_py dec b with
  | Err e => [err_code e]
  | Ok d => match write_psd enc 4 d with Err e => [100 + err_code e] | Ok (s, _) => 0 :: s end
  end.

(* ------------------------------------------------------------------ stage 2: the modelled payload classes (Psd/Leaf.v)
   F-C02-6 (FIXED by /repo de58475): a SectionDividerSetting payload of 8..11 bytes was read as (kind, no blend mode,
   sub_type); the writer emits the sub type only after a blend mode, so it was lost on re-save.  [leaf_guard]
   describes that class; the current reader never produces it (ResaveProofs.read_leaf_wf) *)
From PsdV Require Import Psd.Leaf.
Definition leaf_guard (l : leaf) : bool :=
  match l with
  | LSectionDivider _ None _ (Some _) => false
  | _ => true
  end.
