(* C02 - re-saving what the reader accepted (definitions only).

   Builds on Psd/Model.v (the container model of psd_tools.psd: total readers with the lenient
   behaviours of the code, writers that report their count).  Here:
     - [codec_ok]: the one assumption about the charset of pascal strings (the reader's decode is
       undone by the writer's encode: true of mac_roman, the default encoding, which maps the 256
       byte values one-to-one; checked on the Python codec by the harness);
     - the five guards that carve out, on the READER'S RANGE, exactly the structures the writer
       does not hand back unchanged (findings F-C02-1 .. F-C02-5), as executable booleans;
     - [eqv]: equality of the structure read (as it is after write() refreshed the channel lengths
       in place) with the structure re-read - what Python's attrs `==` computes, None and the empty
       container distinguished;
     - [resave_outcome]: the whole read / save / re-read / save-again pipeline as one function from
       bytes to a short list of numbers, evaluated by the harness on every mutant and compared with
       the implementation. *)
From PsdV Require Import Base.Prelude Psd.Codec Psd.Model Psd.Corr.
From Coq Require Import ZArith List Bool Lia.
Import ListNotations.
Open Scope Z_scope.

(* ------------------------------------------------------------------ the charset assumption *)
Definition codec_ok (enc_s dec_s : list Z -> res (list Z)) : Prop :=
  forall b n, dec_s b = Ok n -> enc_s n = Ok b.

(* ------------------------------------------------------------------ guards (one per finding) *)
(* F-C02-1: a non-empty layer-info block that declares 0 layers is read as (0, [], []); the writer
   emits the short form, which reads back as (0, None, None) *)
Definition g_count0 (li : layer_info) : bool :=
  if li_count li =? 0 then negb (is_some (li_records li)) && negb (is_some (li_chans li)) else true.

(* F-C02-2: tagged_blocks = None beside a layer info: the first read met the end of the FILE inside
   the section (is_readable(fp) false), the re-saved file has the merged image after the section *)
Definition g_blocks_present (l : lami) : bool :=
  match la_info l with Some _ => is_some (la_blocks l) | None => true end.

(* F-C02-3 = Model.glmi_guard: an empty GlobalLayerMaskInfo needs 17 readable bytes after the layer info *)

(* F-C02-4: tagged blocks without a global layer mask info (the reader skipped the probe because
   fewer than 17 bytes were left in the file); re-saving pads the blocks, the probe succeeds and
   the first block is taken for a GlobalLayerMaskInfo *)
Definition g_glmi_before_blocks (l : lami) : bool :=
  is_some (la_glmi l) || negb (truthy (la_blocks l)).

(* F-C02-5 (= the reader-reachable part of F-C01-3): a 35-byte mask block with both feathers and
   no real_* fields is written as 36 bytes and re-read as if it had them *)
Definition mask_ok (r : layer_record) : bool :=
  match r_mask r with Some m => mask_len_guard m | None => true end.
Definition g_masks (li : layer_info) : bool :=
  match li_records li with Some rs => forallb mask_ok rs | None => true end.

Definition g_li (li : layer_info) : bool := g_count0 li && g_masks li.

(* [restlen]: the number of bytes after the section in the file that will be written *)
Definition lami_guard (v : Z) (l : lami) (restlen : Z) : bool :=
  match la_info l with Some li => g_li li | None => true end &&
  g_blocks_present l && glmi_guard v l restlen && g_glmi_before_blocks l.

Definition resave_guard (d : psd) : bool :=
  lami_guard (h_version (p_header d)) (p_lami d) (2 + len (cd_data (p_img d))).

(* ------------------------------------------------------------------ what the writer needs *)
Section Resave.
  Variable enc_s : list Z -> res (list Z).
  Variable dec_s : list Z -> res (list Z).

  (* exactly the hypothesis of the C01 round trip *)
  Definition wf_resave (d : psd) : Prop := wf_psd enc_s dec_s d = true.

  (* Python: d2 == d, evaluated after d.write() mutated d *)
  Definition eqv (d d' : psd) : Prop := d' = psd_after_write d.

  (* the property, for one input and one padding *)
  Definition resaves (pad : Z) (b : list Z) : Prop :=
    forall d, read_psd dec_s b = Ok d ->
      exists s n, write_psd enc_s pad d = Ok (s, n) /\
        exists d', read_psd dec_s s = Ok d' /\ eqv d d' /\ write_psd enc_s pad d' = Ok (s, n).
End Resave.

(* ------------------------------------------------------------------ unknown keys / ids
   The container model keeps EVERY payload as raw bytes; "unknown" needs no table here: the theorem
   [unknown_preserved] holds for any key.  [find_tb]/[find_res]: dict lookup. *)
Fixpoint find_tb (k : Z) (l : list tagged_block) : option tagged_block :=
  match l with [] => None | b :: t => if tb_key b =? k then Some b else find_tb k t end.
Fixpoint find_res (k : Z) (l : list image_resource) : option image_resource :=
  match l with [] => None | r :: t => if ir_key r =? k then Some r else find_res k t end.
Definition doc_blocks (d : psd) : list tagged_block :=
  match la_blocks (p_lami d) with Some bs => bs | None => [] end.
Definition doc_records (d : psd) : list layer_record :=
  match la_info (p_lami d) with
  | Some li => match li_records li with Some rs => rs | None => [] end
  | None => []
  end.

(* ------------------------------------------------------------------ the pipeline as a function *)
Definition b2l (b : bool) : Z := if b then 1 else 0.

(* guard broken down: bit 0 F1, bit 1 F2, bit 2 F3, bit 3 F4, bit 4 F5 (set = the guard FAILS) *)
Definition guard_bits (d : psd) : Z :=
  let l := p_lami d in
  let v := h_version (p_header d) in
  let rest := 2 + len (cd_data (p_img d)) in
  b2l (negb (match la_info l with Some li => g_count0 li | None => true end)) +
  2 * b2l (negb (g_blocks_present l)) +
  4 * b2l (negb (glmi_guard v l rest)) +
  8 * b2l (negb (g_glmi_before_blocks l)) +
  16 * b2l (negb (match la_info l with Some li => g_masks li | None => true end)).

(* [read: 0; digest canon d; guard bits] ++ [save: 0; n; digest s] ++ [re-read: 0; digest canon d'; d' == d ?]
   ++ [second save: 0; same bytes ?]   -- each stage replaced by its error code when it fails *)
Definition resave_outcome (b : list Z) : list Z :=
  match read_psd dec b with
  | Err e => [err_code e]
  | Ok d =>
      [0; dig (c_psd d); guard_bits d] ++
      match write_psd enc 4 d with
      | Err e => [err_code e]
      | Ok (s, n) =>
          [0; n; dig s] ++
          match read_psd dec s with
          | Err e => [err_code e]
          | Ok d' =>
              [0; dig (c_psd d'); b2l (list_eqb (c_psd d') (c_psd (psd_after_write d)))] ++
              match write_psd enc 4 d' with
              | Err e => [err_code e]
              | Ok (s', _) => [0; b2l (list_eqb s s')]
              end
          end
      end
  end.

(* debugging aids of the harness: the canonical structure read / the bytes written *)
Definition resave_canon (b : list Z) : list Z :=
  match read_psd dec b with Err e => [err_code e] | Ok d => 0 :: c_psd d end.
Definition resave_bytes (b : list Z) : list Z :=
  match read_psd dec b with
  | Err e => [err_code e]
  | Ok d => match write_psd enc 4 d with Err e => [100 + err_code e] | Ok (s, _) => 0 :: s end
  end.
