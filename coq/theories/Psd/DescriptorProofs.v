(* Round trip of the descriptor family, any nesting depth, with the `_TERMS` state threaded. *)
From PsdV Require Import Base.Prelude Psd.Codec Psd.Model Psd.Proofs Psd.Leaf Psd.LeafProofs Psd.Descriptor.
From Coq Require Import ZArith List Bool Lia ZifyBool.
Import ListNotations.
Open Scope Z_scope.

(* ------------------------------------------------------------------ induction over the nested type *)
Section DvalInd.
  Variable P : dval -> Prop.
  Hypothesis Hdesc : forall os name cid items, Forall (fun kv : key * dval => P (snd kv)) items -> P (DDesc os name cid items).
  Hypothesis Hobj : forall c name cid items, Forall (fun kv : key * dval => P (snd kv)) items -> P (DObjArr c name cid items).
  Hypothesis Hlist : forall os items, Forall P items -> P (DList os items).
  Hypothesis Hother : forall d,
    match d with DDesc _ _ _ _ | DObjArr _ _ _ _ | DList _ _ => False | _ => True end -> P d.
  Fixpoint dval_ind' (d : dval) : P d :=
    match d with
    | DDesc os name cid items =>
        Hdesc os name cid items
          ((fix go (l : list (key * dval)) : Forall (fun kv : key * dval => P (snd kv)) l :=
              match l with
              | [] => Forall_nil _
              | kv :: l' => Forall_cons kv (let (k, v) as p return P (snd p) := kv in dval_ind' v) (go l')
              end) items)
    | DObjArr c name cid items =>
        Hobj c name cid items
          ((fix go (l : list (key * dval)) : Forall (fun kv : key * dval => P (snd kv)) l :=
              match l with
              | [] => Forall_nil _
              | kv :: l' => Forall_cons kv (let (k, v) as p return P (snd p) := kv in dval_ind' v) (go l')
              end) items)
    | DList os items =>
        Hlist os items
          ((fix go (l : list dval) : Forall P l :=
              match l with [] => Forall_nil _ | v :: l' => Forall_cons v (dval_ind' v) (go l') end) items)
    | d' => Hother d' I
    end.
End DvalInd.

(* number of nodes: the fuel one value needs *)
Fixpoint dsize (d : dval) : nat :=
  match d with
  | DDesc _ _ _ items => S (fold_right (fun kv n => (dsize (snd kv) + n)%nat) O items)
  | DObjArr _ _ _ items => S (fold_right (fun kv n => (dsize (snd kv) + n)%nat) O items)
  | DList _ items => S (fold_right (fun v n => (dsize v + n)%nat) O items)
  | _ => 1%nat
  end.

(* ------------------------------------------------------------------ keys, strings, ostypes *)
Lemma key_in_len t k : wf_terms t = true -> key_in k t = true -> length k = 4%nat.
Proof.
  induction t as [|x t IH]; intros Hw H; [discriminate|]. cbn [wf_terms forallb key_in] in *.
  apply andb_prop in Hw as [Hx Ht]. apply orb_prop in H as [H|H].
  - apply list_eqb_eq in H. subst. now apply Nat.eqb_eq.
  - now apply IH.
Qed.

Lemma key_rt t k bs n rest :
  wf_terms t = true -> nonempty_key k = true -> write_key t k = Ok (bs, n) ->
  read_key t (bs ++ rest) = Ok (k, t, rest).
Proof.
  intros Hw Hk H. unfold write_key in H.
  apply w_seq_inv in H as (a & na & b & nb & Ha & Hb & -> & ->).
  apply w_fmt_inv in Ha as [Ha ->]. apply w_bytes_inv in Hb as [-> ->].
  unfold read_key. rewrite <- app_assoc. rewrite (read_u_pack _ _ _ _ Ha). cbn [bind].
  destruct (key_in k t) eqn:E.
  - pose proof (key_in_len t k Hw E) as Hl. cbn [Z.eqb].
    replace 4 with (len k) by (unfold len; lia). rewrite read_upto_app. cbn [fst snd]. rewrite Z.eqb_refl. cbn [negb]. rewrite E. reflexivity.
  - unfold nonempty_key in Hk. destruct (len k =? 0) eqn:E0; [discriminate|].
    rewrite read_upto_app. cbn [fst snd andb]. rewrite Z.eqb_refl. reflexivity.
Qed.

Lemma unicode1_rt u bs n rest : w_unicode u 1 = Ok (bs, n) -> r_unicode 1 (bs ++ rest) = Ok (u, rest).
Proof.
  intros H. unfold w_unicode in H. apply w_then_pad_inv in H as (x & nx & Hx & -> & _).
  apply w_seq_inv in Hx as (a & na & b & nb & Ha & Hb & -> & ->).
  apply w_fmt_inv in Ha as [Ha ->]. apply w_fmt_inv in Hb as [Hb ->].
  rewrite pad_count_1. cbn [Z.to_nat zeros repeat]. rewrite app_nil_r.
  unfold r_unicode. rewrite <- !app_assoc. rewrite (read_u_pack _ _ _ _ Ha). cbn [bind fst snd].
  rewrite <- (pk_cat_len2 _ _ Hb). rewrite read_upto_app. cbn [fst snd]. rewrite (units_of_pack _ _ Hb). cbn [bind].
  rewrite r_pad_0 by apply pad_count_1. reflexivity.
Qed.

Lemma ostype_valid units d : wf_dval units d = true -> memz (ostype_of d) model_ostypes = true.
Proof.
  destruct d; cbn [wf_dval ostype_of]; intros H; try reflexivity;
    repeat match goal with H : _ && _ = true |- _ => apply andb_prop in H; destruct H end;
    repeat match goal with H : _ || _ = true |- _ => apply orb_prop in H; destruct H end;
    match goal with H : (?os =? _) = true |- _ => apply Z.eqb_eq in H; subst; reflexivity end.
Qed.

Lemma ostype_rt os b rest : memz os model_ostypes = true -> pack_u 4 os = Ok b ->
  read_ostype (b ++ rest) = Ok (os, rest).
Proof.
  intros Hm Hb. unfold read_ostype. pose proof (pack_u_len _ _ _ Hb) as Hl.
  replace 4 with (len b) by exact Hl. rewrite read_upto_app. cbn [fst snd].
  rewrite Hl. cbn [Z.of_nat Pos.of_succ_nat Pos.succ Z.eqb Pos.eqb andb]. rewrite (pack_u_val _ _ _ Hb), Hm. reflexivity.
Qed.

(* ------------------------------------------------------------------ read_dval, one equation per OSType *)
Section Equations.
  Variable units : list Z.
  Variable f : nat.
  Variable t : terms.
  Variable s : stream.
  Definition rd_body :=
    do (name, s1) <- r_unicode 1 s;
    do (ct, s2) <- read_key t s1;
    do (count, s3) <- read_u 4 s2;
    do (r, s4) <- read_items (read_dval units f) (clampn count s3) (snd ct) s3;
    Ok (name, fst ct, odk_build (fst r), snd r, s4).
  Lemma rd_Objc : read_dval units (S f) t OS_Objc s =
    do (b, s1) <- rd_body; let '(name, cid, items, t1) := b in Ok (DDesc OS_Objc name cid items, t1, s1).
  Proof. reflexivity. Qed.
  Lemma rd_GlbO : read_dval units (S f) t OS_GlbO s =
    do (b, s1) <- rd_body; let '(name, cid, items, t1) := b in Ok (DDesc OS_GlbO name cid items, t1, s1).
  Proof. reflexivity. Qed.
  Lemma rd_VlLs : read_dval units (S f) t OS_VlLs s =
    do (count, s1) <- read_u 4 s;
    do (r, s2) <- read_list_items (read_dval units f) (clampn count s1) t s1; Ok (DList OS_VlLs (fst r), snd r, s2).
  Proof. reflexivity. Qed.
  Lemma rd_obj : read_dval units (S f) t OS_obj s =
    do (count, s1) <- read_u 4 s;
    do (r, s2) <- read_list_items (read_dval units f) (clampn count s1) t s1; Ok (DList OS_obj (fst r), snd r, s2).
  Proof. reflexivity. Qed.
  Lemma rd_prop : read_dval units (S f) t OS_prop s =
    do (name, s1) <- r_unicode 1 s; do (c, s2) <- read_key t s1; do (k, s3) <- read_key (snd c) s2;
    Ok (DProperty name (fst c) (fst k), snd k, s3).
  Proof. reflexivity. Qed.
  Lemma rd_UntF : read_dval units (S f) t OS_UntF s =
    do (u, s1) <- read_u 4 s; do (v, s2) <- read_u 8 s1;
    if memz u units then Ok (DUnitFloat u v, t, s2) else Err ValueErr.
  Proof. reflexivity. Qed.
  Lemma rd_UnFl : read_dval units (S f) t OS_UnFl s =
    do (u, s1) <- read_u 4 s; do (n, s2) <- read_u 4 s1;
    do (vs, s3) <- read_n (clampn n s2) (read_u 8) s2;
    if negb (len vs =? n) then Err IOErr else if memz u units then Ok (DUnitFloats u vs, t, s3) else Err ValueErr.
  Proof. reflexivity. Qed.
  Lemma rd_doub : read_dval units (S f) t OS_doub s = do (v, s1) <- read_u 8 s; Ok (DDouble v, t, s1).
  Proof. reflexivity. Qed.
  Lemma rd_class os : (os = OS_type \/ os = OS_GlbC \/ os = OS_Clss) -> read_dval units (S f) t os s =
    do (name, s1) <- r_unicode 1 s; do (c, s2) <- read_key t s1; Ok (DClass os name (fst c), snd c, s2).
  Proof. intros [-> | [-> | ->]]; reflexivity. Qed.
  Lemma rd_TEXT : read_dval units (S f) t OS_TEXT s = do (u, s1) <- r_unicode 1 s; Ok (DString u, t, s1).
  Proof. reflexivity. Qed.
  Lemma rd_Enmr : read_dval units (S f) t OS_Enmr s =
    do (name, s1) <- r_unicode 1 s;
    do (c, s2) <- read_key t s1; do (ty, s3) <- read_key (snd c) s2; do (e, s4) <- read_key (snd ty) s3;
    Ok (DEnumRef name (fst c) (fst ty) (fst e), snd e, s4).
  Proof. reflexivity. Qed.
  Lemma rd_rele : read_dval units (S f) t OS_rele s =
    do (name, s1) <- r_unicode 1 s; do (c, s2) <- read_key t s1; do (v, s3) <- read_u 4 s2;
    Ok (DOffset name (fst c) v, snd c, s3).
  Proof. reflexivity. Qed.
  Lemma rd_bool : read_dval units (S f) t OS_bool s = do (v, s1) <- read_u 1 s; Ok (DBool (negb (v =? 0)), t, s1).
  Proof. reflexivity. Qed.
  Lemma rd_comp : read_dval units (S f) t OS_comp s = do (v, s1) <- read_s 8 s; Ok (DLargeInt v, t, s1).
  Proof. reflexivity. Qed.
  Lemma rd_int os : (os = OS_long \/ os = OS_Idnt \/ os = OS_indx) -> read_dval units (S f) t os s =
    do (v, s1) <- read_s 4 s; Ok (DInt os v, t, s1).
  Proof. intros [-> | [-> | ->]]; reflexivity. Qed.
  Lemma rd_enum : read_dval units (S f) t OS_enum s =
    do (ty, s1) <- read_key t s; do (e, s2) <- read_key (snd ty) s1; Ok (DEnum (fst ty) (fst e), snd e, s2).
  Proof. reflexivity. Qed.
  Lemma rd_raw os : (os = OS_tdta \/ os = OS_alis \/ os = OS_Pth) -> read_dval units (S f) t os s =
    do (b, s1) <- read_length_block 0 4 1 s; Ok (DRaw os b, t, s1).
  Proof. intros [-> | [-> | ->]]; reflexivity. Qed.
  Lemma rd_name : read_dval units (S f) t OS_name s =
    do (name, s1) <- r_unicode 1 s; do (c, s2) <- read_key t s1; do (v, s3) <- r_unicode 1 s2;
    Ok (DName name (fst c) v, snd c, s3).
  Proof. reflexivity. Qed.
  Lemma rd_ObAr : read_dval units (S f) t OS_ObAr s =
    do (c, s0) <- read_u 4 s;
    do (b, s1) <- (do (name, s1) <- r_unicode 1 s0;
                   do (ct, s2) <- read_key t s1;
                   do (count, s3) <- read_u 4 s2;
                   do (r, s4) <- read_items (read_dval units f) (clampn count s3) (snd ct) s3;
                   Ok (name, fst ct, odk_build (fst r), snd r, s4));
    let '(name, cid, items, t1) := b in Ok (DObjArr c name cid items, t1, s1).
  Proof. reflexivity. Qed.
End Equations.

(* ------------------------------------------------------------------ dict semantics on byte-string keys *)
Lemma key_in_false_notin k l : key_in k l = false -> ~ In k l.
Proof.
  induction l as [|x l IH]; intros H Hin; [destruct Hin|]. cbn [key_in] in H.
  apply orb_false_elim in H as [H1 H2]. destruct Hin as [->|Hin].
  - assert (list_eqb k k = true) by now apply list_eqb_eq. congruence.
  - now apply IH.
Qed.
Lemma odk_insert_fresh k v d : ~ In k (map fst d) -> odk_insert k v d = d ++ [(k, v)].
Proof.
  induction d as [|[k' v'] d IH]; intros H; [reflexivity|]. cbn [odk_insert].
  destruct (list_eqb k k') eqn:E.
  - apply list_eqb_eq in E. subst. exfalso. apply H. now left.
  - cbn [app]. rewrite IH; [reflexivity|]. intros Hin. apply H. now right.
Qed.
Lemma odk_build_aux l : forall d, nodupk (map fst (d ++ l)) = true ->
  fold_left (fun d kv => odk_insert (fst kv) (snd kv) d) l d = d ++ l.
Proof.
  induction l as [|[k v] l IH]; intros d H; cbn [fold_left fst snd].
  - now rewrite app_nil_r.
  - rewrite odk_insert_fresh.
    + rewrite IH; rewrite <- app_assoc; [reflexivity|assumption].
    + clear IH. induction d as [|[k' v'] d IHd]; [intros []|].
      cbn [app map nodupk fst] in H. apply andb_prop in H as [H1 H2].
      intros [Hy|Hin].
      * apply negb_true_iff in H1. apply key_in_false_notin in H1. apply H1.
        rewrite map_app. apply in_or_app. right. left. cbn in Hy |- *. now subst.
      * apply IHd; assumption.
Qed.
Lemma odk_build_nodup l : nodupk (map fst l) = true -> odk_build l = l.
Proof. intros H. unfold odk_build. now rewrite (odk_build_aux l []). Qed.

(* ------------------------------------------------------------------ the item loops *)
Definition item_w (t : terms) (kv : key * dval) : W :=
  let (k, v) := kv in write_key t k +++ w_fmt (pack_u 4 (ostype_of v)) +++ write_dval t v.
Definition litem_w (t : terms) (v : dval) : W := w_fmt (pack_u 4 (ostype_of v)) +++ write_dval t v.

Definition Prt (units : list Z) (t : terms) (d : dval) : Prop :=
  wf_dval units d = true -> forall bs n rest fuel,
    write_dval t d = Ok (bs, n) -> (dsize d <= fuel)%nat ->
    read_dval units fuel t (ostype_of d) (bs ++ rest) = Ok (d, t, rest).

Definition isize (items : list (key * dval)) : nat := fold_right (fun kv n => (dsize (snd kv) + n)%nat) O items.
Definition lsize (items : list dval) : nat := fold_right (fun v n => (dsize v + n)%nat) O items.

Lemma read_items_rt units t : wf_terms t = true -> forall items,
  Forall (fun kv : key * dval => Prt units t (snd kv)) items ->
  forallb (fun kv : key * dval => let (k, v) := kv in nonempty_key k && wf_dval units v) items = true ->
  forall f b n rest, (isize items <= f)%nat -> w_concat (map (item_w t) items) = Ok (b, n) ->
    read_items (read_dval units f) (length items) t (b ++ rest) = Ok (items, t, rest).
Proof.
  intros Hw. induction items as [|[k v] items IH]; intros HP Hwf f b n rest Hf H.
  - apply w_concat_nil_inv in H as [-> _]. reflexivity.
  - apply w_concat_cons_inv in H as (b1 & n1 & b2 & n2 & Hi & Hl & -> & ->).
    inversion HP as [|? ? HPv HPl]; subst. cbn [forallb] in Hwf. apply andb_prop in Hwf as [Hkv Hwl].
    apply andb_prop in Hkv as [Hk Hv]. cbn [snd] in HPv.
    unfold item_w in Hi.
    apply w_seq_inv in Hi as (c12 & m12 & c3 & m3 & Hi & H3 & -> & ->).
    apply w_seq_inv in Hi as (c1 & m1 & c2 & m2 & H1 & H2 & -> & ->).
    apply w_fmt_inv in H2 as [H2 ->].
    cbn [length read_items]. rewrite <- !app_assoc.
    rewrite (key_rt t k c1 m1 _ Hw Hk H1). cbn [bind fst snd].
    rewrite (ostype_rt _ c2 _ (ostype_valid units v Hv) H2). cbn [bind].
    change (isize ((k, v) :: items)) with (dsize v + isize items)%nat in Hf.
    rewrite (HPv Hv c3 m3 _ f H3) by lia. cbn [bind fst snd].
    rewrite (IH HPl Hwl f b2 n2 rest ltac:(lia) Hl). reflexivity.
Qed.

Lemma read_list_items_rt units t : wf_terms t = true -> forall items,
  Forall (Prt units t) items -> forallb (wf_dval units) items = true ->
  forall f b n rest, (lsize items <= f)%nat -> w_concat (map (litem_w t) items) = Ok (b, n) ->
    read_list_items (read_dval units f) (length items) t (b ++ rest) = Ok (items, t, rest).
Proof.
  intros Hw. induction items as [|v items IH]; intros HP Hwf f b n rest Hf H.
  - apply w_concat_nil_inv in H as [-> _]. reflexivity.
  - apply w_concat_cons_inv in H as (b1 & n1 & b2 & n2 & Hi & Hl & -> & ->).
    inversion HP as [|? ? HPv HPl]; subst. cbn [forallb] in Hwf. apply andb_prop in Hwf as [Hv Hwl].
    unfold litem_w in Hi.
    apply w_seq_inv in Hi as (c2 & m2 & c3 & m3 & H2 & H3 & -> & ->).
    apply w_fmt_inv in H2 as [H2 ->].
    cbn [length read_list_items]. rewrite <- !app_assoc.
    rewrite (ostype_rt _ c2 _ (ostype_valid units v Hv) H2). cbn [bind].
    change (lsize (v :: items)) with (dsize v + lsize items)%nat in Hf.
    rewrite (HPv Hv c3 m3 _ f H3) by lia. cbn [bind fst snd].
    rewrite (IH HPl Hwl f b2 n2 rest ltac:(lia) Hl). reflexivity.
Qed.

(* each item / value takes at least 8 / 4 bytes: the count read back is never clamped *)
Lemma items_len t items : forall b n, w_concat (map (item_w t) items) = Ok (b, n) -> len items <= len b.
Proof.
  induction items as [|[k v] items IH]; intros b n H.
  - apply w_concat_nil_inv in H as [-> _]. reflexivity.
  - apply w_concat_cons_inv in H as (b1 & n1 & b2 & n2 & Hi & Hl & -> & ->).
    unfold item_w in Hi.
    apply w_seq_inv in Hi as (c12 & m12 & c3 & m3 & Hi & H3 & -> & ->).
    apply w_seq_inv in Hi as (c1 & m1 & c2 & m2 & H1 & H2 & -> & ->).
    apply w_fmt_inv in H2 as [H2 ->]. pose proof (IH _ _ Hl). rewrite len_cons, !len_app. pose_lens. pose_nonneg. lia.
Qed.
Lemma litems_len t items : forall b n, w_concat (map (litem_w t) items) = Ok (b, n) -> len items <= len b.
Proof.
  induction items as [|v items IH]; intros b n H.
  - apply w_concat_nil_inv in H as [-> _]. reflexivity.
  - apply w_concat_cons_inv in H as (b1 & n1 & b2 & n2 & Hi & Hl & -> & ->).
    unfold litem_w in Hi. apply w_seq_inv in Hi as (c2 & m2 & c3 & m3 & H2 & H3 & -> & ->).
    apply w_fmt_inv in H2 as [H2 ->]. pose proof (IH _ _ Hl). rewrite len_cons, !len_app. pose_lens. pose_nonneg. lia.
Qed.
Lemma clampn_ok {A} (l : list A) (b rest : list Z) : len l <= len b -> clampn (len l) (b ++ rest) = length l.
Proof.
  intros H. unfold clampn. rewrite len_app. pose proof (len_nonneg rest).
  rewrite Z.min_l by lia. apply to_nat_len.
Qed.

(* the dict-like body shared by Descriptor / GlobalObject / ObjectArray *)
Lemma body_rt units t name cid items bs n rest f :
  wf_terms t = true -> nonempty_key cid = true ->
  Forall (fun kv : key * dval => Prt units t (snd kv)) items ->
  forallb (fun kv : key * dval => let (k, v) := kv in nonempty_key k && wf_dval units v) items = true ->
  nodupk (map fst items) = true -> (isize items <= f)%nat ->
  w_unicode name 1 +++ write_key t cid +++ w_fmt (pack_u 4 (len items)) +++ w_concat (map (item_w t) items) = Ok (bs, n) ->
  rd_body units f t (bs ++ rest) = Ok (name, cid, items, t, rest).
Proof.
  intros Hw Hc HP Hwf Hnd Hf H.
  apply w_seq_inv in H as (b123 & n123 & b4 & n4 & H & H4 & -> & ->).
  apply w_seq_inv in H as (b12 & n12 & b3 & n3 & H & H3 & -> & ->).
  apply w_seq_inv in H as (b1 & n1 & b2 & n2 & H1 & H2 & -> & ->).
  apply w_fmt_inv in H3 as [H3 ->].
  unfold rd_body. rewrite <- !app_assoc.
  rewrite (unicode1_rt name b1 n1 _ H1). cbn [bind].
  rewrite (key_rt t cid b2 n2 _ Hw Hc H2). cbn [bind fst snd].
  rewrite (read_u_pack _ _ _ _ H3). cbn [bind].
  rewrite (clampn_ok items b4 rest (items_len t items b4 n4 H4)).
  rewrite (read_items_rt units t Hw items HP Hwf f b4 n4 rest Hf H4). cbn [bind fst snd].
  now rewrite (odk_build_nodup items Hnd).
Qed.

Lemma write_body_eq t name cid items :
  w_unicode name 1 +++ write_key t cid +++ w_fmt (pack_u 4 (len items)) +++
  w_concat (map (fun kv : key * dval => let (k, v) := kv in
                   write_key t k +++ w_fmt (pack_u 4 (ostype_of v)) +++ write_dval t v) items) =
  w_unicode name 1 +++ write_key t cid +++ w_fmt (pack_u 4 (len items)) +++ w_concat (map (item_w t) items).
Proof. reflexivity. Qed.

(* ------------------------------------------------------------------ the theorem *)
Theorem dval_rt units t : wf_terms t = true -> forall d, Prt units t d.
Proof.
  intros Hw. apply dval_ind'.
  - (* Descriptor / GlobalObject *)
    intros os name cid items HP Hwf bs n rest fuel H Hf.
    cbn [wf_dval] in Hwf. apply andb_prop in Hwf as [Hwf Hitems]. apply andb_prop in Hwf as [Hos Hc].
    apply andb_prop in Hitems as [Hi Hnd].
    destruct fuel as [|f]; [cbn [dsize] in Hf; lia|]. cbn [dsize] in Hf. fold (isize items) in Hf.
    cbn [write_dval] in H. rewrite write_body_eq in H. cbn [ostype_of].
    apply orb_prop in Hos as [Hos|Hos]; apply Z.eqb_eq in Hos; subst os.
    + rewrite rd_Objc. rewrite (body_rt units t name cid items bs n rest f Hw Hc HP Hi Hnd ltac:(lia) H). reflexivity.
    + rewrite rd_GlbO. rewrite (body_rt units t name cid items bs n rest f Hw Hc HP Hi Hnd ltac:(lia) H). reflexivity.
  - (* ObjectArray *)
    intros c name cid items HP Hwf bs n rest fuel H Hf.
    cbn [wf_dval] in Hwf. apply andb_prop in Hwf as [Hc Hitems]. apply andb_prop in Hitems as [Hi Hnd].
    destruct fuel as [|f]; [cbn [dsize] in Hf; lia|]. cbn [dsize] in Hf. fold (isize items) in Hf.
    cbn [write_dval] in H.
    apply w_seq_inv in H as (b0 & n0 & b1 & n1 & H0 & H1 & -> & ->). apply w_fmt_inv in H0 as [H0 ->].
    rewrite write_body_eq in H1. cbn [ostype_of]. rewrite rd_ObAr. rewrite <- app_assoc.
    rewrite (read_u_pack _ _ _ _ H0). cbn [bind].
    fold (rd_body units f t (b1 ++ rest)).
    rewrite (body_rt units t name cid items b1 n1 rest f Hw Hc HP Hi Hnd ltac:(lia) H1). reflexivity.
  - (* List / Reference *)
    intros os items HP Hwf bs n rest fuel H Hf.
    cbn [wf_dval] in Hwf. apply andb_prop in Hwf as [Hos Hi].
    destruct fuel as [|f]; [cbn [dsize] in Hf; lia|]. cbn [dsize] in Hf. fold (lsize items) in Hf.
    cbn [write_dval] in H. change (map (fun v => w_fmt (pack_u 4 (ostype_of v)) +++ write_dval t v) items) with (map (litem_w t) items) in H.
    apply w_seq_inv in H as (b0 & n0 & b1 & n1 & H0 & H1 & -> & ->). apply w_fmt_inv in H0 as [H0 ->].
    cbn [ostype_of]. rewrite <- app_assoc.
    apply orb_prop in Hos as [Hos|Hos]; apply Z.eqb_eq in Hos; subst os.
    + rewrite rd_VlLs. rewrite (read_u_pack _ _ _ _ H0). cbn [bind].
      rewrite (clampn_ok items b1 rest (litems_len t items b1 n1 H1)).
      rewrite (read_list_items_rt units t Hw items HP Hi f b1 n1 rest ltac:(lia) H1). reflexivity.
    + rewrite rd_obj. rewrite (read_u_pack _ _ _ _ H0). cbn [bind].
      rewrite (clampn_ok items b1 rest (litems_len t items b1 n1 H1)).
      rewrite (read_list_items_rt units t Hw items HP Hi f b1 n1 rest ltac:(lia) H1). reflexivity.
  - (* the non-recursive values *)
    intros d Hd Hwf bs n rest fuel H Hf.
    destruct fuel as [|f]; [destruct d; cbn [dsize] in Hf; lia|]. clear Hf.
    destruct d; try (exfalso; exact Hd); cbn [write_dval wf_dval ostype_of] in *.
    + (* Property *)
      apply andb_prop in Hwf as [Hc Hk].
      apply w_seq_inv in H as (b12 & n12 & b3 & n3 & H & H3 & -> & ->).
      apply w_seq_inv in H as (b1 & n1 & b2 & n2 & H1 & H2 & -> & ->).
      rewrite rd_prop. rewrite <- !app_assoc. rewrite (unicode1_rt _ _ _ _ H1). cbn [bind].
      rewrite (key_rt t cid b2 n2 _ Hw Hc H2). cbn [bind fst snd].
      rewrite (key_rt t kid b3 n3 _ Hw Hk H3). reflexivity.
    + (* UnitFloat *)
      apply w_fmt_inv in H as [H ->]. open_pk H. rewrite rd_UntF. rewrite <- !app_assoc. steps. now rewrite Hwf.
    + (* UnitFloats *)
      apply w_fmt_inv in H as [H ->].
      apply pk_cat_cons_inv in H as (x & y & Hx & H & ->). apply pk_cat_cons_inv in H as (x0 & y0 & Hx0 & H & ->).
      rewrite rd_UnFl. rewrite <- !app_assoc. steps.
      assert (Hlen : len vs <= len y0).
      { clear -H. revert y0 H. induction vs as [|v vs IH]; intros y0 H.
        - apply pk_cat_nil_inv in H as ->. reflexivity.
        - cbn [map] in H. apply pk_cat_cons_inv in H as (a & b & Ha & Hb & ->).
          pose proof (IH _ Hb). rewrite len_cons, len_app. pose_lens. lia. }
      rewrite (clampn_ok vs y0 rest Hlen). rewrite (read_n_pack_u 8 vs y0 rest H). cbn [bind].
      rewrite Z.eqb_refl. cbn [negb]. now rewrite Hwf.
    + (* Double *)
      apply w_fmt_inv in H as [H ->]. rewrite rd_doub. steps. reflexivity.
    + (* Class1/2/3 *)
      apply andb_prop in Hwf as [Hos Hc].
      apply w_seq_inv in H as (b1 & n1 & b2 & n2 & H1 & H2 & -> & ->).
      rewrite rd_class by (repeat (apply orb_prop in Hos as [Hos|Hos]); apply Z.eqb_eq in Hos; auto).
      rewrite <- !app_assoc. rewrite (unicode1_rt _ _ _ _ H1). cbn [bind].
      rewrite (key_rt t cid b2 n2 _ Hw Hc H2). reflexivity.
    + (* String *)
      rewrite rd_TEXT. rewrite (unicode1_rt _ _ _ _ H). reflexivity.
    + (* EnumeratedReference *)
      apply andb_prop in Hwf as [Hwf He]. apply andb_prop in Hwf as [Hc Ht].
      apply w_seq_inv in H as (b123 & n123 & b4 & n4 & H & H4 & -> & ->).
      apply w_seq_inv in H as (b12 & n12 & b3 & n3 & H & H3 & -> & ->).
      apply w_seq_inv in H as (b1 & n1 & b2 & n2 & H1 & H2 & -> & ->).
      rewrite rd_Enmr. rewrite <- !app_assoc. rewrite (unicode1_rt _ _ _ _ H1). cbn [bind].
      rewrite (key_rt t cid b2 n2 _ Hw Hc H2). cbn [bind fst snd].
      rewrite (key_rt t tid b3 n3 _ Hw Ht H3). cbn [bind fst snd].
      rewrite (key_rt t en b4 n4 _ Hw He H4). reflexivity.
    + (* Offset *)
      apply w_seq_inv in H as (b12 & n12 & b3 & n3 & H & H3 & -> & ->).
      apply w_seq_inv in H as (b1 & n1 & b2 & n2 & H1 & H2 & -> & ->). apply w_fmt_inv in H3 as [H3 ->].
      rewrite rd_rele. rewrite <- !app_assoc. rewrite (unicode1_rt _ _ _ _ H1). cbn [bind].
      rewrite (key_rt t cid b2 n2 _ Hw Hwf H2). cbn [bind fst snd]. steps. reflexivity.
    + (* Bool *)
      apply w_fmt_inv in H as [H ->]. rewrite rd_bool. steps. destruct b; reflexivity.
    + (* LargeInteger *)
      apply w_fmt_inv in H as [H ->]. rewrite rd_comp. steps. reflexivity.
    + (* Integer / Identifier / Index *)
      apply w_fmt_inv in H as [H ->].
      rewrite rd_int by (repeat (apply orb_prop in Hwf as [Hwf|Hwf]); apply Z.eqb_eq in Hwf; auto).
      steps. reflexivity.
    + (* Enumerated *)
      apply andb_prop in Hwf as [Ht He].
      apply w_seq_inv in H as (b1 & n1 & b2 & n2 & H1 & H2 & -> & ->).
      rewrite rd_enum. rewrite <- !app_assoc.
      rewrite (key_rt t tid b1 n1 _ Hw Ht H1). cbn [bind fst snd].
      rewrite (key_rt t en b2 n2 _ Hw He H2). reflexivity.
    + (* RawData / Alias / Path *)
      rewrite rd_raw by (repeat (apply orb_prop in Hwf as [Hwf|Hwf]); apply Z.eqb_eq in Hwf; auto).
      block_inv H rest body Hb Hr; [lia|reflexivity|apply wtruth_bytes|].
      apply w_bytes_inv in Hb as [-> _]. rewrite Hr. reflexivity.
    + (* Name *)
      apply w_seq_inv in H as (b12 & n12 & b3 & n3 & H & H3 & -> & ->).
      apply w_seq_inv in H as (b1 & n1 & b2 & n2 & H1 & H2 & -> & ->).
      rewrite rd_name. rewrite <- !app_assoc. rewrite (unicode1_rt _ _ _ _ H1). cbn [bind].
      rewrite (key_rt t cid b2 n2 _ Hw Hwf H2). cbn [bind fst snd].
      rewrite (unicode1_rt _ _ _ _ H3). reflexivity.
Qed.

(* ------------------------------------------------------------------ fuel: a value has at most as many nodes as bytes *)
Lemma w_seq_len_l a c b n m : a +++ c = Ok (b, n) -> (forall x nx, a = Ok (x, nx) -> m <= len x) -> m <= len b.
Proof.
  intros H Ha. apply w_seq_inv in H as (x & nx & y & ny & Hx & Hy & -> & ->).
  pose proof (Ha _ _ Hx). rewrite len_app. pose proof (len_nonneg y). lia.
Qed.
Lemma w_unicode_len u p b n : w_unicode u p = Ok (b, n) -> 4 <= len b.
Proof.
  unfold w_unicode. intros H. apply w_then_pad_inv in H as (x & nx & Hx & -> & _).
  apply w_seq_inv in Hx as (a & na & c & nc & Ha & Hc & -> & ->). apply w_fmt_inv in Ha as [Ha ->].
  rewrite !len_app. pose_lens. pose_nonneg. lia.
Qed.
Lemma write_key_len t k b n : write_key t k = Ok (b, n) -> 4 <= len b.
Proof.
  unfold write_key. intros H. apply w_seq_inv in H as (a & na & c & nc & Ha & Hc & -> & ->).
  apply w_fmt_inv in Ha as [Ha ->]. rewrite len_app. pose_lens. pose_nonneg. lia.
Qed.
Lemma w_fmt_pack_len k v b n : (0 < k)%nat -> w_fmt (pack_u k v) = Ok (b, n) -> 1 <= len b.
Proof. intros Hk H. apply w_fmt_inv in H as [H _]. pose_lens. lia. Qed.
Lemma w_fmt_packs_len k v b n : (0 < k)%nat -> w_fmt (pack_s k v) = Ok (b, n) -> 1 <= len b.
Proof. intros Hk H. apply w_fmt_inv in H as [H _]. pose_lens. lia. Qed.

Lemma items_bytes t items : forall b n,
  Forall (fun kv : key * dval => forall b n, write_dval t (snd kv) = Ok (b, n) -> (dsize (snd kv) <= length b)%nat) items ->
  w_concat (map (item_w t) items) = Ok (b, n) -> (isize items <= length b)%nat.
Proof.
  induction items as [|[k v] items IH]; intros b n HP H.
  - apply w_concat_nil_inv in H as [-> _]. cbn. lia.
  - apply w_concat_cons_inv in H as (b1 & n1 & b2 & n2 & Hi & Hl & -> & ->).
    inversion HP as [|? ? HPv HPl]; subst. cbn [snd] in HPv.
    unfold item_w in Hi. apply w_seq_inv in Hi as (c12 & m12 & c3 & m3 & Hi & H3 & -> & ->).
    change (isize ((k, v) :: items)) with (dsize v + isize items)%nat.
    pose proof (HPv _ _ H3). pose proof (IH _ _ HPl Hl). rewrite !app_length. lia.
Qed.
Lemma litems_bytes t items : forall b n,
  Forall (fun v => forall b n, write_dval t v = Ok (b, n) -> (dsize v <= length b)%nat) items ->
  w_concat (map (litem_w t) items) = Ok (b, n) -> (lsize items <= length b)%nat.
Proof.
  induction items as [|v items IH]; intros b n HP H.
  - apply w_concat_nil_inv in H as [-> _]. cbn. lia.
  - apply w_concat_cons_inv in H as (b1 & n1 & b2 & n2 & Hi & Hl & -> & ->).
    inversion HP as [|? ? HPv HPl]; subst.
    unfold litem_w in Hi. apply w_seq_inv in Hi as (c2 & m2 & c3 & m3 & H2 & H3 & -> & ->).
    change (lsize (v :: items)) with (dsize v + lsize items)%nat.
    pose proof (HPv _ _ H3). pose proof (IH _ _ HPl Hl). rewrite !app_length. lia.
Qed.

Lemma dsize_le t : forall d b n, write_dval t d = Ok (b, n) -> (dsize d <= length b)%nat.
Proof.
  apply (dval_ind' (fun d => forall b n, write_dval t d = Ok (b, n) -> (dsize d <= length b)%nat)).
  - intros os name cid items HP b n H. cbn [write_dval] in H. rewrite write_body_eq in H.
    apply w_seq_inv in H as (b123 & n123 & b4 & n4 & H & H4 & -> & ->).
    pose proof (items_bytes t items b4 n4 HP H4).
    apply w_seq_inv in H as (b12 & n12 & b3 & n3 & H & H3 & -> & ->). apply w_fmt_inv in H3 as [H3 _].
    cbn [dsize]. fold (isize items). rewrite !app_length. pose_lens. unfold len in *. lia.
  - intros c name cid items HP b n H. cbn [write_dval] in H.
    apply w_seq_inv in H as (b0 & n0 & b1 & n1 & H0 & H1 & -> & ->). rewrite write_body_eq in H1.
    apply w_seq_inv in H1 as (b123 & n123 & b4 & n4 & H & H4 & -> & ->).
    pose proof (items_bytes t items b4 n4 HP H4). apply w_fmt_inv in H0 as [H0 _].
    cbn [dsize]. fold (isize items). rewrite !app_length. pose_lens. unfold len in *. lia.
  - intros os items HP b n H. cbn [write_dval] in H.
    change (map (fun v => w_fmt (pack_u 4 (ostype_of v)) +++ write_dval t v) items) with (map (litem_w t) items) in H.
    apply w_seq_inv in H as (b0 & n0 & b1 & n1 & H0 & H1 & -> & ->). apply w_fmt_inv in H0 as [H0 _].
    pose proof (litems_bytes t items b1 n1 HP H1).
    cbn [dsize]. fold (lsize items). rewrite !app_length. pose_lens. unfold len in *. lia.
  - intros d Hd b n H. assert (1 <= len b); [|destruct d; try (exfalso; exact Hd); cbn [dsize]; unfold len in *; lia].
    destruct d; try (exfalso; exact Hd); cbn [write_dval] in H.
    + eapply (w_seq_len_l _ _ _ _ 1 H). intros x nx Hx. eapply (w_seq_len_l _ _ _ _ 1 Hx). intros y ny Hy.
      pose proof (w_unicode_len _ _ _ _ Hy). lia.
    + apply w_fmt_inv in H as [H _]. open_pk H. rewrite len_app. pose_lens. pose_nonneg. lia.
    + apply w_fmt_inv in H as [H _]. apply pk_cat_cons_inv in H as (x & y & Hx & _ & ->).
      rewrite len_app. pose_lens. pose_nonneg. lia.
    + apply (w_fmt_pack_len 8 v b n ltac:(lia) H).
    + eapply (w_seq_len_l _ _ _ _ 1 H). intros x nx Hx. pose proof (w_unicode_len _ _ _ _ Hx). lia.
    + pose proof (w_unicode_len _ _ _ _ H). lia.
    + eapply (w_seq_len_l _ _ _ _ 1 H). intros x nx Hx. eapply (w_seq_len_l _ _ _ _ 1 Hx). intros y ny Hy.
      eapply (w_seq_len_l _ _ _ _ 1 Hy). intros z nz Hz. pose proof (w_unicode_len _ _ _ _ Hz). lia.
    + eapply (w_seq_len_l _ _ _ _ 1 H). intros x nx Hx. eapply (w_seq_len_l _ _ _ _ 1 Hx). intros y ny Hy.
      pose proof (w_unicode_len _ _ _ _ Hy). lia.
    + apply (w_fmt_pack_len 1 _ b n ltac:(lia) H).
    + apply (w_fmt_packs_len 8 _ b n ltac:(lia) H).
    + apply (w_fmt_packs_len 4 _ b n ltac:(lia) H).
    + eapply (w_seq_len_l _ _ _ _ 1 H). intros x nx Hx. pose proof (write_key_len _ _ _ _ Hx). lia.
    + apply length_block_len in H. cbn in H. lia.
    + eapply (w_seq_len_l _ _ _ _ 1 H). intros x nx Hx. eapply (w_seq_len_l _ _ _ _ 1 Hx). intros y ny Hy.
      pose proof (w_unicode_len _ _ _ _ Hy). lia.
Qed.

(* ------------------------------------------------------------------ DescriptorBlock / DescriptorBlock2 *)
Theorem dblock_rt units t pad blk bs n :
  0 < pad -> wf_terms t = true -> wf_dblock units blk = true -> write_dblock t pad blk = Ok (bs, n) ->
  read_dblock units (match blk with DBlock _ _ => false | DBlock2 _ _ _ => true end) t bs = Ok (blk, t).
Proof.
  intros Hpad Hw Hwf H. destruct blk as [ver d|ver dv d]; cbn [write_dblock wf_dblock read_dblock] in *.
  - apply andb_prop in Hwf as [Hwf Hd]. apply andb_prop in Hwf as [Hver Hos].
    destruct d; try discriminate. apply Z.eqb_eq in Hos. subst os.
    apply w_then_pad_inv in H as (x & nx & Hx & -> & _).
    apply w_seq_inv in Hx as (a & na & b & nb & Ha & Hb & -> & ->). apply w_fmt_inv in Ha as [Ha ->].
    rewrite <- !app_assoc. rewrite (read_u_pack _ _ _ _ Ha). cbn [bind].
    pose proof (dsize_le t _ _ _ Hb) as Hsz.
    rewrite (dval_rt units t Hw _ Hd b nb _ _ Hb) by (rewrite app_length; lia).
    cbn [bind fst snd]. now rewrite Hver.
  - apply andb_prop in Hwf as [Hwf Hd]. apply andb_prop in Hwf as [Hver Hos].
    destruct d; try discriminate. apply Z.eqb_eq in Hos. subst os.
    apply w_then_pad_inv in H as (x & nx & Hx & -> & _).
    apply w_seq_inv in Hx as (a & na & b & nb & Ha & Hb & -> & ->). apply w_fmt_inv in Ha as [Ha ->].
    open_pk Ha. rewrite <- !app_assoc. steps.
    pose proof (dsize_le t _ _ _ Hb) as Hsz.
    rewrite (dval_rt units t Hw _ Hd b nb _ _ Hb) by (rewrite app_length; lia).
    cbn [bind fst snd]. now rewrite Hver.
Qed.

Lemma wtruth_key t k : wtruth (write_key t k).
Proof. unfold write_key. apply wtruth_seq; [apply wtruth_fmt|apply wtruth_bytes]. Qed.
Lemma wtruth_unicode u p : wtruth (w_unicode u p).
Proof. unfold w_unicode. apply wtruth_then_pad, wtruth_seq; apply wtruth_fmt. Qed.
Lemma wtruth_items t items :
  Forall (fun kv : key * dval => wtruth (write_dval t (snd kv))) items -> wtruth (w_concat (map (item_w t) items)).
Proof.
  intros HP. apply wtruth_concat. apply Forall_forall. intros w Hin. apply in_map_iff in Hin as [[k v] [<- Hin]].
  rewrite Forall_forall in HP. specialize (HP _ Hin). cbn [snd] in HP. unfold item_w.
  apply wtruth_seq; [apply wtruth_seq; [apply wtruth_key|apply wtruth_fmt]|exact HP].
Qed.
Lemma wtruth_dval t : forall d, wtruth (write_dval t d).
Proof.
  apply dval_ind'.
  - intros os name cid items HP. cbn [write_dval]. rewrite write_body_eq.
    apply wtruth_seq; [apply wtruth_seq; [apply wtruth_seq; [apply wtruth_unicode|apply wtruth_key]|apply wtruth_fmt]|].
    now apply wtruth_items.
  - intros c name cid items HP. cbn [write_dval]. apply wtruth_seq; [apply wtruth_fmt|]. rewrite write_body_eq.
    apply wtruth_seq; [apply wtruth_seq; [apply wtruth_seq; [apply wtruth_unicode|apply wtruth_key]|apply wtruth_fmt]|].
    now apply wtruth_items.
  - intros os items HP. cbn [write_dval]. apply wtruth_seq; [apply wtruth_fmt|].
    apply wtruth_concat. apply Forall_forall. intros w Hin. apply in_map_iff in Hin as [v [<- Hin]].
    rewrite Forall_forall in HP. apply wtruth_seq; [apply wtruth_fmt|now apply HP].
  - intros d Hd. destruct d; try (exfalso; exact Hd); cbn [write_dval];
      repeat first [apply wtruth_key | apply wtruth_unicode | apply wtruth_fmt | apply wtruth_length_block, wtruth_bytes
                   | apply wtruth_seq].
Qed.
Lemma wtruth_dblock t pad b : wtruth (write_dblock t pad b).
Proof.
  destruct b; cbn [write_dblock]; apply wtruth_then_pad, wtruth_seq; try apply wtruth_fmt; apply wtruth_dval.
Qed.
