(* Stage 2: the descriptor family of psd_tools.psd.descriptor (recursive OSTypes).
   Descriptor / GlobalObject / ObjectArray (dict-like: name, classID, items), List / Reference,
   Property, UnitFloat, UnitFloats, Double, Class1/2/3, String, EnumeratedReference, Offset, Bool,
   LargeInteger, Integer / Identifier / Index, Enumerated, RawData / Alias / Path, Name, and the
   DescriptorBlock / DescriptorBlock2 wrappers (version fields + padding).
   Keys and class ids are byte strings; the `_TERMS` rule (a 4-byte key that is a known term is
   written with length 0) is EXPLICIT STATE: [terms] is an argument of the writer and is threaded
   through the reader, which adds the keys it meets with length 0 (descriptor.read_length_and_key).
   Strings are lists of UTF-16 code units, doubles 64-bit patterns.  Definitions only. *)
From PsdV Require Import Base.Prelude Psd.Codec Psd.Model.
From Coq Require Import ZArith List Bool Lia.
Import ListNotations.
Open Scope Z_scope.

Definition key := list Z.
Definition terms := list key.
Fixpoint key_in (k : key) (t : terms) : bool :=
  match t with [] => false | x :: t' => list_eqb k x || key_in k t' end.

(* OSType codes *)
Definition OS_obj := 1868720672.   Definition OS_Objc := 1331849827.  Definition OS_VlLs := 1449938035.
Definition OS_doub := 1685026146.  Definition OS_UntF := 1433302086.  Definition OS_UnFl := 1433290348.
Definition OS_TEXT := 1413830740.  Definition OS_enum := 1701737837.  Definition OS_long := 1819242087.
Definition OS_comp := 1668246896.  Definition OS_bool := 1651470188.  Definition OS_GlbO := 1198285391.
Definition OS_type := 1954115685.  Definition OS_GlbC := 1198285379.  Definition OS_alis := 1634494835.
Definition OS_tdta := 1952740449.  Definition OS_ObAr := 1331839346.  Definition OS_Pth := 1349806112.
Definition OS_prop := 1886547824.  Definition OS_Clss := 1131180915.  Definition OS_Enmr := 1164864882.
Definition OS_rele := 1919249509.  Definition OS_Idnt := 1231318644.  Definition OS_indx := 1768842360.
Definition OS_name := 1851878757.
Definition model_ostypes : list Z :=
  [OS_Clss; OS_Enmr; OS_GlbC; OS_GlbO; OS_Idnt; OS_ObAr; OS_Objc; OS_Pth; OS_TEXT; OS_UnFl; OS_UntF; OS_VlLs;
   OS_alis; OS_bool; OS_comp; OS_doub; OS_enum; OS_indx; OS_long; OS_name; OS_obj; OS_prop; OS_rele; OS_tdta; OS_type].

Inductive dval :=
| DDesc (os : Z) (name : list Z) (cid : key) (items : list (key * dval))    (* Objc / GlbO *)
| DObjArr (count : Z) (name : list Z) (cid : key) (items : list (key * dval))
| DList (os : Z) (items : list dval)                                        (* VlLs / obj *)
| DProperty (name : list Z) (cid kid : key)
| DUnitFloat (unit : Z) (v : Z)
| DUnitFloats (unit : Z) (vs : list Z)
| DDouble (v : Z)
| DClass (os : Z) (name : list Z) (cid : key)                               (* type / GlbC / Clss *)
| DString (u : list Z)
| DEnumRef (name : list Z) (cid tid en : key)
| DOffset (name : list Z) (cid : key) (v : Z)
| DBool (b : bool)
| DLargeInt (v : Z)
| DInt (os : Z) (v : Z)                                                     (* long / Idnt / indx *)
| DEnum (tid en : key)
| DRaw (os : Z) (b : list Z)                                                (* tdta / alis / Pth *)
| DName (name : list Z) (cid : key) (v : list Z).

Definition ostype_of (d : dval) : Z :=
  match d with
  | DDesc os _ _ _ => os | DObjArr _ _ _ _ => OS_ObAr | DList os _ => os | DProperty _ _ _ => OS_prop
  | DUnitFloat _ _ => OS_UntF | DUnitFloats _ _ => OS_UnFl | DDouble _ => OS_doub | DClass os _ _ => os
  | DString _ => OS_TEXT | DEnumRef _ _ _ _ => OS_Enmr | DOffset _ _ _ => OS_rele | DBool _ => OS_bool
  | DLargeInt _ => OS_comp | DInt os _ => os | DEnum _ _ => OS_enum | DRaw os _ => os | DName _ _ _ => OS_name
  end.

(* write_length_and_key *)
Definition write_key (t : terms) (k : key) : W :=
  w_fmt (pack_u 4 (if key_in k t then 0 else len k)) +++ w_bytes k.
(* read_length_and_key: returns the key and the (possibly grown) term set *)
(* since /repo 708c13e a key cut short by the end of the data is an IOError (the reader before it: Psd/Legacy.v read_key_v0) *)
Definition read_key (t : terms) (s : stream) : res (key * terms * stream) :=
  do (n, s1) <- read_u 4 s;
  let want := if n =? 0 then 4 else n in
  let d := read_upto want s1 in
  let k := fst d in
  if negb (len k =? want) then Err IOErr else
  Ok (k, if (n =? 0) && negb (key_in k t) then k :: t else t, snd d).

Fixpoint write_dval (t : terms) (d : dval) : W :=
  let body name cid items :=
    w_unicode name 1 +++ write_key t cid +++ w_fmt (pack_u 4 (len items)) +++
    w_concat (map (fun kv : key * dval =>
                     let (k, v) := kv in
                     write_key t k +++ w_fmt (pack_u 4 (ostype_of v)) +++ write_dval t v) items) in
  match d with
  | DDesc _ name cid items => body name cid items
  | DObjArr count name cid items => w_fmt (pack_u 4 count) +++ body name cid items
  | DList _ items =>
      w_fmt (pack_u 4 (len items)) +++
      w_concat (map (fun v => w_fmt (pack_u 4 (ostype_of v)) +++ write_dval t v) items)
  | DProperty name cid kid => w_unicode name 1 +++ write_key t cid +++ write_key t kid
  | DUnitFloat unit v => w_fmt (pk_cat [pack_u 4 unit; pack_u 8 v])
  | DUnitFloats unit vs => w_fmt (pk_cat (pack_u 4 unit :: pack_u 4 (len vs) :: map (pack_u 8) vs))
  | DDouble v => w_fmt (pack_u 8 v)
  | DClass _ name cid => w_unicode name 1 +++ write_key t cid
  | DString u => w_unicode u 1
  | DEnumRef name cid tid en => w_unicode name 1 +++ write_key t cid +++ write_key t tid +++ write_key t en
  | DOffset name cid v => w_unicode name 1 +++ write_key t cid +++ w_fmt (pack_u 4 v)
  | DBool b => w_fmt (pack_u 1 (if b then 1 else 0))
  | DLargeInt v => w_fmt (pack_s 8 v)
  | DInt _ v => w_fmt (pack_s 4 v)
  | DEnum tid en => write_key t tid +++ write_key t en
  | DRaw _ b => w_length_block 0 4 1 (w_bytes b)
  | DName name cid v => w_unicode name 1 +++ write_key t cid +++ w_unicode v 1
  end.

(* no huge unary numbers: a count larger than the bytes left fails with IOErr either way *)
Definition clampn (n : Z) (s : stream) : nat := Z.to_nat (Z.min n (len s + 1)).

Definition read_ostype (s : stream) : res (Z * stream) :=
  let d := read_upto 4 s in
  if ((len (fst d)) =? 4) && memz (be_val (fst d)) model_ostypes then Ok (be_val (fst d), snd d)
  else Err ValueErr.                                  (* OSType(fp.read(4)) *)

(* cls(items=[(key, value), ...]) builds an OrderedDict: a repeated key keeps its first position (and key
   object) and takes the last value *)
Fixpoint odk_insert (k : key) (v : dval) (d : list (key * dval)) : list (key * dval) :=
  match d with
  | [] => [(k, v)]
  | (k', v') :: t => if list_eqb k k' then (k', v) :: t else (k', v') :: odk_insert k v t
  end.
Definition odk_build (items : list (key * dval)) : list (key * dval) :=
  fold_left (fun d kv => odk_insert (fst kv) (snd kv) d) items [].

(* the item loops of _DescriptorMixin._read_body and List.read, over the reader of one value *)
Fixpoint read_items (rd : terms -> Z -> stream -> res (dval * terms * stream)) (n : nat) (t : terms) (s : stream)
  : res (list (key * dval) * terms * stream) :=
  match n with
  | O => Ok ([], t, s)
  | S n' =>
      do (kt, a1) <- read_key t s;
      do (o, a2) <- read_ostype a1;
      do (vt, a3) <- rd (snd kt) o a2;
      do (rt, a4) <- read_items rd n' (snd vt) a3;
      Ok ((fst kt, fst vt) :: fst rt, snd rt, a4)
  end.
Fixpoint read_list_items (rd : terms -> Z -> stream -> res (dval * terms * stream)) (n : nat) (t : terms) (s : stream)
  : res (list dval * terms * stream) :=
  match n with
  | O => Ok ([], t, s)
  | S n' =>
      do (o, a2) <- read_ostype s;
      do (vt, a3) <- rd t o a2;
      do (rt, a4) <- read_list_items rd n' (snd vt) a3;
      Ok (fst vt :: fst rt, snd rt, a4)
  end.

(* [units]: the 4-character codes of terminology.Unit and terminology.Enum (UnitFloat(s).read converts the unit) *)
Fixpoint read_dval (units : list Z) (fuel : nat) (t : terms) (os : Z) (s : stream) : res (dval * terms * stream) :=
  match fuel with
  | O => Err OutOfFuel
  | S f =>
      let body (t : terms) (s : stream) : res (list Z * key * list (key * dval) * terms * stream) :=
        do (name, s1) <- r_unicode 1 s;
        do (ct, s2) <- read_key t s1;
        do (count, s3) <- read_u 4 s2;
        do (r, s4) <- read_items (read_dval units f) (clampn count s3) (snd ct) s3;
        Ok (name, fst ct, odk_build (fst r), snd r, s4) in
      if (os =? OS_Objc) || (os =? OS_GlbO) then
        do (b, s1) <- body t s;
        let '(name, cid, items, t1) := b in Ok (DDesc os name cid items, t1, s1)
      else if os =? OS_ObAr then
        do (c, s0) <- read_u 4 s;
        do (b, s1) <- body t s0;
        let '(name, cid, items, t1) := b in Ok (DObjArr c name cid items, t1, s1)
      else if (os =? OS_VlLs) || (os =? OS_obj) then
        do (count, s1) <- read_u 4 s;
        do (r, s2) <- read_list_items (read_dval units f) (clampn count s1) t s1;
        Ok (DList os (fst r), snd r, s2)
      else if os =? OS_prop then
        do (name, s1) <- r_unicode 1 s;
        do (c, s2) <- read_key t s1;
        do (k, s3) <- read_key (snd c) s2;
        Ok (DProperty name (fst c) (fst k), snd k, s3)
      else if os =? OS_UntF then
        do (u, s1) <- read_u 4 s; do (v, s2) <- read_u 8 s1;
        if memz u units then Ok (DUnitFloat u v, t, s2) else Err ValueErr
      else if os =? OS_UnFl then
        do (u, s1) <- read_u 4 s; do (n, s2) <- read_u 4 s1;
        do (vs, s3) <- read_n (clampn n s2) (read_u 8) s2;
        if negb (len vs =? n) then Err IOErr else if memz u units then Ok (DUnitFloats u vs, t, s3) else Err ValueErr
      else if os =? OS_doub then
        do (v, s1) <- read_u 8 s; Ok (DDouble v, t, s1)
      else if (os =? OS_type) || (os =? OS_GlbC) || (os =? OS_Clss) then
        do (name, s1) <- r_unicode 1 s; do (c, s2) <- read_key t s1; Ok (DClass os name (fst c), snd c, s2)
      else if os =? OS_TEXT then
        do (u, s1) <- r_unicode 1 s; Ok (DString u, t, s1)
      else if os =? OS_Enmr then
        do (name, s1) <- r_unicode 1 s;
        do (c, s2) <- read_key t s1; do (ty, s3) <- read_key (snd c) s2; do (e, s4) <- read_key (snd ty) s3;
        Ok (DEnumRef name (fst c) (fst ty) (fst e), snd e, s4)
      else if os =? OS_rele then
        do (name, s1) <- r_unicode 1 s; do (c, s2) <- read_key t s1; do (v, s3) <- read_u 4 s2;
        Ok (DOffset name (fst c) v, snd c, s3)
      else if os =? OS_bool then
        do (v, s1) <- read_u 1 s; Ok (DBool (negb (v =? 0)), t, s1)
      else if os =? OS_comp then
        do (v, s1) <- read_s 8 s; Ok (DLargeInt v, t, s1)
      else if (os =? OS_long) || (os =? OS_Idnt) || (os =? OS_indx) then
        do (v, s1) <- read_s 4 s; Ok (DInt os v, t, s1)
      else if os =? OS_enum then
        do (ty, s1) <- read_key t s; do (e, s2) <- read_key (snd ty) s1; Ok (DEnum (fst ty) (fst e), snd e, s2)
      else if (os =? OS_tdta) || (os =? OS_alis) || (os =? OS_Pth) then
        do (b, s1) <- read_length_block 0 4 1 s; Ok (DRaw os b, t, s1)
      else if os =? OS_name then
        do (name, s1) <- r_unicode 1 s; do (c, s2) <- read_key t s1; do (v, s3) <- r_unicode 1 s2;
        Ok (DName name (fst c) v, snd c, s3)
      else Err KeyErr
  end.

(* DescriptorBlock (version) / DescriptorBlock2 (version, data_version): wrappers of a Descriptor body *)
Inductive dblock :=
| DBlock (version : Z) (d : dval)
| DBlock2 (version data_version : Z) (d : dval).

Definition write_dblock (t : terms) (padding : Z) (b : dblock) : W :=
  match b with
  | DBlock ver d => w_then_pad (w_fmt (pack_u 4 ver) +++ write_dval t d) padding
  | DBlock2 ver dv d => w_then_pad (w_fmt (pk_cat [pack_u 4 ver; pack_u 4 dv]) +++ write_dval t d) padding
  end.
(* [two] selects the class (the key of the block decides); validators: (data_)version in (16,) *)
Definition read_dblock (units : list Z) (two : bool) (t : terms) (s : stream) : res (dblock * terms) :=
  if two then
    do (ver, s1) <- read_u 4 s; do (dv, s2) <- read_u 4 s1;
    do (r, _) <- read_dval units (S (length s2)) t OS_Objc s2;
    if dv =? 16 then Ok (DBlock2 ver dv (fst r), snd r) else Err ValueErr
  else
    do (ver, s1) <- read_u 4 s;
    do (r, _) <- read_dval units (S (length s1)) t OS_Objc s1;
    if ver =? 16 then Ok (DBlock ver (fst r), snd r) else Err ValueErr.

(* ---- well-formedness: what the symmetric reading needs *)
Definition nonempty_key (k : key) : bool := negb (len k =? 0).
Fixpoint nodupk (l : list key) : bool :=
  match l with [] => true | k :: l' => negb (key_in k l') && nodupk l' end.
Fixpoint wf_dval (units : list Z) (d : dval) : bool :=
  let wf_items (items : list (key * dval)) :=
    forallb (fun kv : key * dval => let (k, v) := kv in nonempty_key k && wf_dval units v) items &&
    nodupk (map fst items) in
  match d with
  | DDesc os _ cid items => ((os =? OS_Objc) || (os =? OS_GlbO)) && nonempty_key cid && wf_items items
  | DObjArr _ _ cid items => nonempty_key cid && wf_items items
  | DList os items => ((os =? OS_VlLs) || (os =? OS_obj)) && forallb (wf_dval units) items
  | DProperty _ cid kid => nonempty_key cid && nonempty_key kid
  | DClass os _ cid => ((os =? OS_type) || (os =? OS_GlbC) || (os =? OS_Clss)) && nonempty_key cid
  | DEnumRef _ cid tid en => nonempty_key cid && nonempty_key tid && nonempty_key en
  | DOffset _ cid _ => nonempty_key cid
  | DInt os _ => (os =? OS_long) || (os =? OS_Idnt) || (os =? OS_indx)
  | DEnum tid en => nonempty_key tid && nonempty_key en
  | DRaw os _ => (os =? OS_tdta) || (os =? OS_alis) || (os =? OS_Pth)
  | DName _ cid _ => nonempty_key cid
  | DUnitFloat u _ => memz u units
  | DUnitFloats u _ => memz u units
  | _ => true
  end.
(* every term is a 4-byte code (true of psd_tools.terminology; the reader can only add 4-byte keys
   unless the input ends inside a key) *)
Definition wf_terms (t : terms) : bool := forallb (fun k => (length k =? 4)%nat) t.
Definition wf_dblock (units : list Z) (b : dblock) : bool :=
  match b with
  | DBlock ver d => (ver =? 16) && (match d with DDesc os _ _ _ => os =? OS_Objc | _ => false end) && wf_dval units d
  | DBlock2 _ dv d => (dv =? 16) && (match d with DDesc os _ _ _ => os =? OS_Objc | _ => false end) && wf_dval units d
  end.
