(* Stage 3 (4): psd_tools.psd.filter_effects - FilterEffects ('FXid' / 'FEid'), FilterEffect, FilterEffectChannel,
   FilterEffectExtra.  The uuid is a pascal string (ascii in the code) whose charset step is the Section codec;
   channel / extra data are opaque bytes.  Definitions only.  Mirrors the code as it is: a channel that is not written
   keeps nothing of its compression / data, a channel without compression writes an empty block whatever its data,
   the reader takes max_channels + 2 channels where the writer emits the ones present. *)
From PsdV Require Import Base.Prelude Psd.Codec Psd.Model Psd.Struct.
From Coq Require Import ZArith List Bool Lia.
Import ListNotations.
Open Scope Z_scope.

Definition L_rect4 : list fspec := [FS 4; FS 4; FS 4; FS 4].          (* "4i" *)

Record fchannel := mkFCh { fc_written : Z; fc_comp : option Z; fc_data : list Z }.
Record fextra := mkFEx { fx_written : Z; fx_rect : list Z; fx_comp : Z; fx_data : list Z }.
Record feffect := mkFE {
  fe_uuid : list Z; fe_version : Z; fe_rect : list Z; fe_depth : Z; fe_maxch : Z;
  fe_channels : list fchannel; fe_extra : option fextra }.

Definition write_fchannel (c : fchannel) : W :=
  w_fmt (pack_u 4 (fc_written c)) +++
  (if fc_written c =? 0 then w_nil
   else w_length_block 0 8 1 (match fc_comp c with
                              | None => w_nil
                              | Some k => w_fmt (pack_u 2 k) +++ w_bytes (fc_data c)
                              end)).
Definition read_fchannel (s : stream) : res (fchannel * stream) :=
  do (w, s1) <- read_u 4 s;
  if w =? 0 then Ok (mkFCh w None [], s1) else
  do (d, s2) <- read_length_block 0 8 1 s1;
  if len d =? 0 then Ok (mkFCh w None [], s2) else
  do (k, d1) <- read_u 2 d; Ok (mkFCh w (Some k) d1, s2).

Definition write_fextra (x : fextra) : W :=
  w_fmt (pack_u 1 (fx_written x)) +++
  (if fx_written x =? 0 then w_nil
   else w_fmt (pack_fields L_rect4 (fx_rect x)) +++
        w_length_block 0 8 1 (w_fmt (pack_u 2 (fx_comp x)) +++ w_bytes (fx_data x))).
Definition read_fextra (s : stream) : res (fextra * stream) :=
  do (w, s1) <- read_u 1 s;
  if w =? 0 then Ok (mkFEx w [0; 0; 0; 0] 0 [], s1) else
  do (rect, s2) <- unpack_fields L_rect4 s1;
  do (d, s3) <- read_length_block 0 8 1 s2;
  do (k, d1) <- read_u 2 d; Ok (mkFEx w rect k d1, s3).

Definition write_febody (e : feffect) : W :=
  w_fmt (pack_fields L_rect4 (fe_rect e)) +++ w_fmt (pk_cat [pack_u 4 (fe_depth e); pack_u 4 (fe_maxch e)]) +++
  w_concat (map write_fchannel (fe_channels e)).

Section FilterFx.
  Variable enc_s : list Z -> res (list Z).
  Variable dec_s : list Z -> res (list Z).

  Definition write_feffect (e : feffect) : W :=
    w_pascal enc_s (fe_uuid e) 1 +++ w_fmt (pack_u 4 (fe_version e)) +++ w_length_block 0 8 1 (write_febody e) +++
    (match fe_extra e with Some x => write_fextra x | None => w_nil end).
  (* range(max_channels + 2): the count is clamped by what the stream can hold (each channel takes at least 4 bytes),
     so that evaluation never builds a huge unary number; beyond that bound the reading fails either way *)
  Definition read_feffect (s : stream) : res feffect :=
    do (uuid, s1) <- r_pascal dec_s 1 s;
    do (version, s2) <- read_u 4 s1;
    if negb (version <=? 1) then Err AssertErr else
    do (d, s3) <- read_length_block 0 8 1 s2;
    do (rect, d1) <- unpack_fields L_rect4 d;
    do (depth, d2) <- read_u 4 d1; do (maxch, d3) <- read_u 4 d2;
    do (chs, _) <- read_n (Z.to_nat (Z.min (maxch + 2) (len d3 + 1))) read_fchannel d3;
    do (extra, _) <- r_opt (is_readable 1 s3) read_fextra s3;
    Ok (mkFE uuid version rect depth maxch chs extra).

  Definition write_feffects (version : Z) (l : list feffect) : W :=
    w_fmt (pack_u 4 version) +++ w_concat (map (fun e => w_length_block 0 8 4 (write_feffect e)) l).
  Fixpoint read_feitems (fuel : nat) (s : stream) : res (list feffect) :=
    match fuel with
    | O => Err OutOfFuel
    | S f =>
        if is_readable 8 s then
          do (d, s1) <- read_length_block 0 8 4 s;
          do e <- read_feffect d;
          do r <- read_feitems f s1; Ok (e :: r)
        else Ok []
    end.
  Definition read_feffects (s : stream) : res (Z * list feffect) :=
    do (version, s1) <- read_u 4 s;
    if negb (memz version [1; 2; 3]) then Err AssertErr else
    do l <- read_feitems (S (length s1)) s1; Ok (version, l).

  Definition wf_fchannel (c : fchannel) : bool :=
    match fc_comp c with
    | None => match fc_data c with [] => true | _ => false end
    | Some _ => negb (fc_written c =? 0)
    end.
  Definition wf_fextra (x : fextra) : bool :=
    if fx_written x =? 0 then list_eqb (fx_rect x) [0; 0; 0; 0] && (fx_comp x =? 0) && (match fx_data x with [] => true | _ => false end)
    else true.
  Definition wf_feffect (e : feffect) : bool :=
    wf_name enc_s dec_s (fe_uuid e) && (fe_version e <=? 1) && (len (fe_channels e) =? fe_maxch e + 2)
    && forallb wf_fchannel (fe_channels e)
    && match fe_extra e with Some x => wf_fextra x | None => true end.
  Definition wf_feffects (version : Z) (l : list feffect) : bool := memz version [1; 2; 3] && forallb wf_feffect l.
End FilterFx.
