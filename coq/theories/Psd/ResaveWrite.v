(* C02 - saving what was read SUCCEEDS: for every byte string (elements in [0,256)) smaller than 1 GiB that the
   reader accepts, every field the writer packs is in range and every length-prefixed block fits its length field.
   Invariant carried through all readers:  written <= 4 * consumed  (padding added by the writer where the reader
   was lenient is paid for by the bytes the element consumed). *)
From PsdV Require Import Base.Prelude Psd.Codec Psd.Model Psd.Proofs Psd.Resave Psd.ResaveProofs.
From Coq Require Import ZArith List Bool Lia ZifyBool.
Import ListNotations.
Open Scope Z_scope.

(* ------------------------------------------------------------------ writers that succeed within a bound *)
Definition wok (w : W) (B : Z) : Prop := exists bs n, w = Ok (bs, n) /\ 0 <= n <= B.

Lemma wok_nil : wok w_nil 0.
Proof. exists [], 0. split; [reflexivity|lia]. Qed.
Lemma wok_bytes b : wok (w_bytes b) (len b).
Proof. exists b, (len b). split; [reflexivity|]. pose proof (len_nonneg b). lia. Qed.
Lemma wok_fmt r b : r = Ok b -> wok (w_fmt r) (len b).
Proof. intros ->. apply wok_bytes. Qed.
Lemma wok_mono w A B : wok w A -> A <= B -> wok w B.
Proof. intros (bs & n & H & Hn) HAB. exists bs, n. split; [assumption|lia]. Qed.
Lemma wok_seq a b A B : wok a A -> wok b B -> wok (a +++ b) (A + B).
Proof.
  intros (x & nx & -> & Hx) (y & ny & -> & Hy). exists (x ++ y), (nx + ny). split; [reflexivity|lia].
Qed.
Lemma pad_count_lt size d : 0 < d -> 0 <= pad_count size d <= d - 1.
Proof. intros H. pose proof (pad_count_range size d H). lia. Qed.
Lemma wok_then_pad w A d : wok w A -> 0 < d -> wok (w_then_pad w d) (A + (d - 1)).
Proof.
  intros (x & nx & -> & Hx) Hd. unfold w_then_pad, w_pad, w_bytes. cbn [bind fst snd].
  eexists. eexists. split; [reflexivity|]. rewrite len_zeros. pose proof (pad_count_lt nx d Hd). lia.
Qed.
Lemma pack_u_ok' n v : 0 <= v < pow256 n -> exists b, pack_u n v = Ok b /\ len b = Z.of_nat n.
Proof.
  intros H. unfold pack_u, in_u. replace ((0 <=? v) && (v <? pow256 n)) with true by lia.
  eexists. split; [reflexivity|apply len_be_bytes].
Qed.
Lemma pack_s_ok' n v : - (pow256 n / 2) <= v < pow256 n / 2 -> exists b, pack_s n v = Ok b /\ len b = Z.of_nat n.
Proof.
  intros H. unfold pack_s, in_s. replace ((- (pow256 n / 2) <=? v) && (v <? pow256 n / 2)) with true by lia.
  eexists. split; [reflexivity|apply len_be_bytes].
Qed.
Lemma wok_length_block pre nb pad w A :
  wok w A -> A < pow256 nb -> 0 < pad ->
  wok (w_length_block pre nb pad w) (A + Z.of_nat (pre + nb) + (pad - 1)).
Proof.
  intros (x & nx & -> & Hx) HA Hp. unfold w_length_block. cbn [bind fst snd].
  destruct (pack_u_ok' nb nx ltac:(lia)) as (lb & -> & Hlb). cbn [bind]. unfold w_pad, w_bytes. cbn [bind fst snd].
  eexists. eexists. split; [reflexivity|]. rewrite len_zeros, len_app, len_zeros, Hlb.
  pose proof (pad_count_lt (nx + (Z.of_nat pre + Z.of_nat nb)) pad Hp). lia.
Qed.
Lemma wok_concat {A} (wr : A -> W) (f : A -> Z) l :
  Forall (fun a => wok (wr a) (f a)) l -> wok (w_concat (map wr l)) (fold_right (fun a acc => f a + acc) 0 l).
Proof.
  induction 1 as [|a l Ha Hl IH]; cbn [map w_concat fold_right]; [apply wok_nil|]. now apply wok_seq.
Qed.

(* ------------------------------------------------------------------ what a read consumes and yields *)
Lemma pow256_4 : pow256 4 = 4294967296. Proof. reflexivity. Qed.
Lemma pow256_1 : pow256 1 = 256. Proof. reflexivity. Qed.
Lemma pow256_2 : pow256 2 = 65536. Proof. reflexivity. Qed.
Lemma pow256_8 : pow256 8 = 18446744073709551616. Proof. reflexivity. Qed.

Lemma Forall_firstn {A} (P : A -> Prop) k l : Forall P l -> Forall P (firstn k l).
Proof.
  intros H. apply Forall_forall. intros x Hx. rewrite Forall_forall in H. apply H.
  rewrite <- (firstn_skipn k l). apply in_or_app. now left.
Qed.
Lemma take_props n s a r : take n s = Ok (a, r) -> bytes s ->
  bytes a /\ bytes r /\ len a = n /\ len r = len s - n /\ 0 <= n.
Proof.
  intros H Hs. pose proof (take_len _ _ _ _ H) as [Hsa Hl]. unfold take in H.
  destruct (_ && _) eqn:E; inversion H; subst a r. clear H.
  split; [now apply Forall_firstn|]. split; [now apply Forall_skipn|]. split; [assumption|].
  split; [|lia]. rewrite Hsa at 2. rewrite len_app. lia.
Qed.
Lemma be_val_range l : bytes l -> 0 <= be_val l < pow256 (length l).
Proof.
  intros H. unfold be_val, pow256. assert (Hr : Forall byte (rev l)).
  { apply Forall_forall. intros x Hx. apply in_rev in Hx. unfold bytes in H. rewrite Forall_forall in H. auto. }
  pose proof (le_val_bound _ Hr) as Hb. unfold len in Hb. now rewrite rev_length in Hb.
Qed.
Lemma read_u_props n s v r : read_u n s = Ok (v, r) -> bytes s ->
  0 <= v < pow256 n /\ bytes r /\ len r = len s - Z.of_nat n.
Proof.
  unfold read_u. intros H Hs. destruct (take (Z.of_nat n) s) as [[a r0]|] eqn:E; [|discriminate].
  cbn [bind fst snd] in H. inversion H; subst. destruct (take_props _ _ _ _ E Hs) as (Ha & Hr & Hl & Hlr & _).
  split; [|auto]. pose proof (be_val_range a Ha) as Hb. unfold len in Hl. apply Nat2Z.inj in Hl. now rewrite Hl in Hb.
Qed.
Lemma read_s_props n s v r : (0 < n)%nat -> read_s n s = Ok (v, r) -> bytes s ->
  - (pow256 n / 2) <= v < pow256 n / 2 /\ bytes r /\ len r = len s - Z.of_nat n.
Proof.
  unfold read_s. intros Hn H Hs. destruct (read_u n s) as [[u r0]|] eqn:E; [|discriminate].
  cbn [bind fst snd] in H. inversion H; subst. destruct (read_u_props _ _ _ _ E Hs) as (Hu & Hr & Hl).
  split; [|auto]. unfold unsign. pose proof (pow256_even n Hn). destruct (u <? pow256 n / 2) eqn:F; lia.
Qed.
Lemma read_upto_props n s : bytes s ->
  bytes (fst (read_upto n s)) /\ bytes (snd (read_upto n s)) /\
  len (fst (read_upto n s)) + len (snd (read_upto n s)) = len s.
Proof.
  intros Hs. unfold read_upto. destruct (n <? 0).
  - cbn [fst snd]. split; [assumption|]. split; [constructor|]. rewrite len_nil. lia.
  - cbn [fst snd]. split; [now apply Forall_firstn|]. split; [now apply Forall_skipn|].
    rewrite <- len_app, firstn_skipn. reflexivity.
Qed.
Lemma r_pad_props size d s : bytes s -> bytes (r_pad size d s) /\ len (r_pad size d s) <= len s.
Proof.
  intros Hs. unfold r_pad. split; [now apply Forall_skipn|]. unfold len. rewrite skipn_length. lia.
Qed.
Lemma skipz_props n s : bytes s -> bytes (skipz n s) /\ len (skipz n s) <= len s.
Proof. intros Hs. unfold skipz. split; [now apply Forall_skipn|]. unfold len. rewrite skipn_length. lia. Qed.

(* a length-prefixed block: the data, the rest, and the budget: header + data <= consumed *)
Lemma read_length_block_props pre nb pad s data r :
  read_length_block pre nb pad s = Ok (data, r) -> bytes s ->
  bytes data /\ bytes r /\ Z.of_nat (pre + nb) + len data <= len s - len r /\ len r <= len s /\
  (pre = 0%nat -> len data < pow256 nb).
Proof.
  unfold read_length_block. intros H Hs.
  destruct (take (Z.of_nat (pre + nb)) s) as [[h s1]|] eqn:E1; [|discriminate]. cbn [bind fst snd] in H.
  destruct (take (be_val (skipn pre h)) s1) as [[d s2]|] eqn:E2; [|discriminate]. cbn [bind fst snd] in H.
  inversion H; subst. clear H.
  destruct (take_props _ _ _ _ E1 Hs) as (Hh & Hs1 & Hlh & Hl1 & _).
  destruct (take_props _ _ _ _ E2 Hs1) as (Hd & Hs2 & Hld & Hl2 & Hn).
  destruct (r_pad_props (be_val (skipn pre h)) pad s2 Hs2) as [Hr Hlr].
  split; [assumption|]. split; [assumption|]. split; [lia|]. split; [lia|].
  intros ->. cbn [skipn] in Hld. pose proof (be_val_range h Hh) as Hb. unfold len in Hlh.
  apply Nat2Z.inj in Hlh. rewrite Hlh in Hb. cbn [plus] in Hb. lia.
Qed.

(* ------------------------------------------------------------------ struct.pack of several fields *)
Definition rok (r : res (list Z)) (n : Z) : Prop := exists b, r = Ok b /\ len b = n.
Lemma rok_pk_nil : rok (pk_cat []) 0.
Proof. exists []. auto. Qed.
Lemma rok_pk_cons r l n m : rok r n -> rok (pk_cat l) m -> rok (pk_cat (r :: l)) (n + m).
Proof. intros (a & -> & <-) (b & Hb & <-). exists (a ++ b). cbn [pk_cat bind]. rewrite Hb. cbn [bind]. split; [reflexivity|apply len_app]. Qed.
Lemma rok_pack_u n v : 0 <= v < pow256 n -> rok (pack_u n v) (Z.of_nat n).
Proof. intros H. destruct (pack_u_ok' n v H) as (b & E & L). now exists b. Qed.
Lemma rok_pack_s n v : - (pow256 n / 2) <= v < pow256 n / 2 -> rok (pack_s n v) (Z.of_nat n).
Proof. intros H. destruct (pack_s_ok' n v H) as (b & E & L). now exists b. Qed.
Lemma rok_zeros k : rok (Ok (zeros k)) (Z.of_nat k).
Proof. exists (zeros k). split; [reflexivity|apply len_zeros]. Qed.
Lemma wok_fmt_rok r n : rok r n -> wok (w_fmt r) n.
Proof. intros (b & -> & <-). apply wok_bytes. Qed.
Ltac rok_fields :=
  repeat first [ apply rok_pk_nil
               | eapply rok_pk_cons
               | apply rok_zeros
               | apply rok_pack_u; assumption
               | apply rok_pack_s; assumption ].

(* ------------------------------------------------------------------ header, colour mode data, image data *)
Lemma write_header_ok s h s' : read_header s = Ok (h, s') -> bytes s -> wok (write_header h) 26 /\ bytes s' /\ len s' <= len s.
Proof.
  unfold read_header. intros H Hs.
  dres H as sg s1 E1. dres H as ver s2 E2. dres H as z6 s3 E3. dres H as ch s4 E4. dres H as hh s5 E5.
  dres H as ww s6 E6. dres H as dp s7 E7. dres H as md s8 E8.
  destruct (header_valid _); [|discriminate]. inversion H; subst. clear H.
  destruct (read_u_props _ _ _ _ E1 Hs) as (R1 & B1 & L1). destruct (read_u_props _ _ _ _ E2 B1) as (R2 & B2 & L2).
  destruct (take_props _ _ _ _ E3 B2) as (_ & B3 & _ & L3 & _).
  destruct (read_u_props _ _ _ _ E4 B3) as (R4 & B4 & L4). destruct (read_u_props _ _ _ _ E5 B4) as (R5 & B5 & L5).
  destruct (read_u_props _ _ _ _ E6 B5) as (R6 & B6 & L6). destruct (read_u_props _ _ _ _ E7 B6) as (R7 & B7 & L7).
  destruct (read_u_props _ _ _ _ E8 B7) as (R8 & B8 & L8).
  split; [|split; [assumption|lia]].
  unfold write_header. cbn [h_sig h_version h_channels h_height h_width h_depth h_mode].
  eapply wok_mono; [apply wok_fmt_rok; rok_fields|]. cbn. lia.
Qed.

Lemma write_cmd_ok s v s' : read_cmd s = Ok (v, s') -> bytes s ->
  wok (write_cmd v) (len s - len s') /\ bytes s' /\ len s' <= len s.
Proof.
  unfold read_cmd. intros H Hs. destruct (read_length_block_props _ _ _ _ _ _ H Hs) as (Hd & Hr & Hc & Hl & Hn).
  split; [|auto]. unfold write_cmd. eapply wok_mono.
  - apply wok_length_block; [apply wok_bytes|apply Hn; reflexivity|lia].
  - cbn [plus Z.of_nat] in *. lia.
Qed.

Lemma memz_compressions_range c : memz c model_compressions = true -> 0 <= c < pow256 2.
Proof. unfold memz, model_compressions. cbn [existsb]. rewrite pow256_2. lia. Qed.
Lemma write_image_data_ok s c : read_image_data s = Ok c -> wok (write_image_data c) (len s).
Proof.
  unfold read_image_data. intros H. dres H as cp s1 E1.
  destruct (memz cp model_compressions) eqn:Em; [|discriminate]. inversion H; subst.
  unfold write_image_data, write_channel_data. cbn [cd_comp cd_data].
  unfold read_u in E1. destruct (take (Z.of_nat 2) s) as [[a r]|] eqn:Et; [|discriminate]. cbn [bind fst snd] in E1.
  inversion E1; subst. apply take_len in Et as [-> Hl]. rewrite len_app.
  eapply wok_mono; [apply wok_seq; [apply wok_fmt_rok, rok_pack_u, memz_compressions_range, Em|apply wok_bytes]|].
  change (Z.of_nat 2) with 2 in *. lia.
Qed.

(* ------------------------------------------------------------------ sums over dict-like lists *)
Fixpoint zsum {A} (f : A -> Z) (l : list A) : Z := match l with [] => 0 | a :: t => f a + zsum f t end.
Lemma zsum_nonneg {A} (f : A -> Z) l : (forall a, 0 <= f a) -> 0 <= zsum f l.
Proof. intros Hf. induction l as [|a l IH]; cbn [zsum]; [lia|]. specialize (Hf a). lia. Qed.
Lemma zsum_od_insert {A} (key : A -> Z) (f : A -> Z) x d :
  (forall a, 0 <= f a) -> zsum f (od_insert key x d) <= f x + zsum f d.
Proof.
  intros Hf. induction d as [|y t IH]; cbn [od_insert zsum]; [lia|].
  destruct (key x =? key y); cbn [zsum].
  - specialize (Hf y). lia.
  - lia.
Qed.
Lemma zsum_od_build {A} (key : A -> Z) (f : A -> Z) l :
  (forall a, 0 <= f a) -> zsum f (od_build key l) <= zsum f l.
Proof.
  intros Hf. unfold od_build.
  assert (G : forall d, zsum f (fold_left (fun d x => od_insert key x d) l d) <= zsum f l + zsum f d).
  { induction l as [|x l IH]; intros d; cbn [fold_left zsum]; [lia|].
    specialize (IH (od_insert key x d)). pose proof (zsum_od_insert key f x d Hf). lia. }
  specialize (G []). cbn [zsum] in G. lia.
Qed.
Lemma wok_concat_sum {A} (wr : A -> W) (f : A -> Z) l :
  Forall (fun a => wok (wr a) (f a)) l -> wok (w_concat (map wr l)) (zsum f l).
Proof. induction 1 as [|a l Ha Hl IH]; cbn [map w_concat zsum]; [apply wok_nil|]. now apply wok_seq. Qed.

(* ------------------------------------------------------------------ tagged blocks *)
Definition tbsize (v pad : Z) (b : tagged_block) : Z :=
  8 + Z.of_nat (tb_len_bytes v (tb_key b)) + len (tb_data b) + (pad - 1).
Lemma tbsize_nonneg v pad b : 0 < pad -> 0 <= tbsize v pad b.
Proof. intros H. unfold tbsize. pose proof (len_nonneg (tb_data b)). lia. Qed.

Lemma write_tagged_block_ok v pad s b s' :
  read_tagged_block v pad s = Ok (Some (b, s')) -> bytes s -> 0 < pad ->
  wok (write_tagged_block v pad b) (tbsize v pad b) /\ bytes s' /\
  8 + Z.of_nat (tb_len_bytes v (tb_key b)) + len (tb_data b) <= len s - len s'.
Proof.
  unfold read_tagged_block. intros H Hs Hp. dres H as sg s1 E1.
  destruct (negb (memz sg model_tb_sigs)); [discriminate|]. dres H as key s2 E2. dres H as data s3 E3.
  inversion H; subst. clear H.
  destruct (read_u_props _ _ _ _ E1 Hs) as (R1 & B1 & L1). destruct (read_u_props _ _ _ _ E2 B1) as (R2 & B2 & L2).
  destruct (read_length_block_props _ _ _ _ _ _ E3 B2) as (Hd & Hr & Hc & Hl & Hn).
  cbn [plus] in Hc. change (Z.of_nat 4) with 4 in *.
  split; [|split; [assumption|cbn [tb_key tb_data]; lia]].
  unfold write_tagged_block, tbsize. cbn [tb_sig tb_key tb_data].
  eapply wok_mono.
  - apply wok_seq; [apply wok_fmt_rok; rok_fields|].
    apply wok_length_block; [apply wok_bytes|apply Hn; reflexivity|assumption].
  - cbn [plus]. change (Z.of_nat 4) with 4. lia.
Qed.

Lemma write_tagged_items_ok v pad : 0 < pad -> forall fuel budget s l s',
  read_tagged_items fuel v pad budget s = Ok (l, s') -> bytes s ->
  Forall (fun b => wok (write_tagged_block v pad b) (tbsize v pad b)) l /\
  zsum (tbsize v pad) l <= (len s - len s') + (pad - 1) * len l /\ 12 * len l <= len s - len s' /\ bytes s'.
Proof.
  intros Hp. induction fuel as [|f IH]; intros budget s l s' H Hs; cbn [read_tagged_items] in H; [discriminate|].
  destruct (negb (is_readable 8 s)).
  { inversion H; subst. cbn [zsum]. change (len (@nil tagged_block)) with 0. repeat split; [constructor|lia|lia|assumption]. }
  destruct (match budget with Some b => b <=? 0 | None => false end).
  { inversion H; subst. cbn [zsum]. change (len (@nil tagged_block)) with 0. repeat split; [constructor|lia|lia|assumption]. }
  dres1 H as o Eo. destruct o as [[b s1]|].
  2:{ inversion H; subst. cbn [zsum]. change (len (@nil tagged_block)) with 0. repeat split; [constructor|lia|lia|assumption]. }
  dres H as bs s2 Eb. inversion H; subst. clear H.
  destruct (write_tagged_block_ok _ _ _ _ _ Eo Hs Hp) as (Hw & Hs1 & Hc).
  destruct (IH _ _ _ _ Eb Hs1) as (Hf & Hsum & Hcnt & Hs2).
  split; [constructor; assumption|]. cbn [zsum]. rewrite len_cons.
  pose proof (tb_len_bytes_cases v (tb_key b)) as Hnb.
  split; [unfold tbsize at 1; lia|]. split; [|assumption]. destruct Hnb as [Hnb|Hnb]; rewrite Hnb in Hc; pose proof (len_nonneg (tb_data b)); lia.
Qed.

Lemma write_tagged_blocks_ok v pad budget s l s' :
  read_tagged_blocks v pad budget s = Ok (l, s') -> bytes s -> 0 < pad <= 4 ->
  wok (write_tagged_blocks v pad l) (2 * (len s - len s')) /\ bytes s' /\ len s' <= len s.
Proof.
  unfold read_tagged_blocks. intros H Hs Hp. dres H as items s1 E. inversion H; subst. clear H.
  destruct (write_tagged_items_ok v pad ltac:(lia) _ _ _ _ _ E Hs) as (Hf & Hsum & Hcnt & Hs1).
  pose proof (len_nonneg items).
  split; [|split; [assumption|lia]].
  unfold write_tagged_blocks. eapply wok_mono.
  - apply wok_concat_sum with (f := tbsize v pad).
    destruct (od_build_props tb_key _ _ Hf) as [_ HF]. exact HF.
  - pose proof (zsum_od_build tb_key (tbsize v pad) items (fun a => tbsize_nonneg v pad a ltac:(lia))). nia.
Qed.

(* the size a writer reports, as a non-negative number (0 when it fails) *)
Definition wsz (w : W) : Z := match w with Ok (_, n) => Z.max 0 n | Err _ => 0 end.
Lemma wsz_nonneg w : 0 <= wsz w.
Proof. unfold wsz. destruct w as [[? ?]|]; lia. Qed.
Lemma wok_wsz w B : wok w B -> wok w (wsz w) /\ wsz w <= B.
Proof. intros (bs & n & -> & Hn). cbn [wsz]. split; [exists bs, n; split; [reflexivity|lia]|lia]. Qed.

Section WriteOk.
  Variable enc_s : list Z -> res (list Z).
  Variable dec_s : list Z -> res (list Z).
  Hypothesis Hcodec : codec_ok enc_s dec_s.

  (* ---------------------------------------------------------------- pascal strings *)
  Lemma write_pascal_ok pad s name s' :
    r_pascal dec_s pad s = Ok (name, s') -> bytes s -> 0 < pad ->
    wok (w_pascal enc_s name pad) (len s - len s' + (pad - 1)) /\ bytes s' /\ 1 <= len s - len s'.
  Proof.
    unfold r_pascal. intros H Hs Hp. dres1 H as x Ex. destruct x as [n s1]. cbn [fst snd] in H.
    destruct (read_u_props _ _ _ _ Ex Hs) as (Rn & B1 & L1). rewrite pow256_1 in Rn. change (Z.of_nat 1) with 1 in L1.
    destruct (len (fst (read_upto n s1)) =? n) eqn:El; [|discriminate]. apply Z.eqb_eq in El.
    dres1 H as nm En. inversion H; subst. clear H.
    destruct (read_upto_props n s1 B1) as (Bd & Br & Ld).
    match goal with |- context [r_pad ?a pad ?t] => destruct (r_pad_props a pad t Br) as [Bp Lp] end.
    pose proof (len_nonneg (fst (read_upto n s1))).
    split; [|split; [assumption|lia]].
    unfold w_pascal. rewrite (Hcodec _ _ En). cbn [bind].
    eapply wok_mono.
    - apply wok_then_pad; [|assumption]. apply wok_seq; [apply wok_fmt_rok, rok_pack_u; rewrite pow256_1; lia|apply wok_bytes].
    - change (Z.of_nat 1) with 1. lia.
  Qed.

  (* ---------------------------------------------------------------- image resources *)
  Lemma write_resource_ok s r s' :
    read_resource dec_s s = Ok (r, s') -> bytes s ->
    wok (write_resource enc_s r) (len s - len s' + 2) /\ bytes s' /\ 11 <= len s - len s'.
  Proof.
    unfold read_resource. intros H Hs. dres H as sg s1 E1. dres H as key s2 E2. dres H as name s3 E3.
    dres H as data s4 E4. destruct (memz sg model_res_sigs); [|discriminate]. inversion H; subst. clear H.
    destruct (read_u_props _ _ _ _ E1 Hs) as (R1 & B1 & L1). destruct (read_u_props _ _ _ _ E2 B1) as (R2 & B2 & L2).
    destruct (write_pascal_ok _ _ _ _ E3 B2 ltac:(lia)) as (Wn & B3 & L3).
    destruct (read_length_block_props _ _ _ _ _ _ E4 B3) as (Hd & B4 & Hc & Hl & Hn).
    cbn [plus] in Hc. change (Z.of_nat 4) with 4 in *. change (Z.of_nat 2) with 2 in *.
    pose proof (len_nonneg data).
    split; [|split; [assumption|lia]].
    unfold write_resource. cbn [ir_sig ir_key ir_name ir_data].
    eapply wok_mono.
    - apply wok_seq; [apply wok_seq; [apply wok_fmt_rok; rok_fields|exact Wn]|].
      apply wok_length_block; [apply wok_bytes|apply Hn; reflexivity|lia].
    - cbn [plus]. change (Z.of_nat 4) with 4. change (Z.of_nat 2) with 2. lia.
  Qed.
  Lemma write_resource_items_ok : forall fuel s l,
    read_resource_items dec_s fuel s = Ok l -> bytes s ->
    Forall (fun r => wok (write_resource enc_s r) (wsz (write_resource enc_s r))) l /\
    zsum (fun r => wsz (write_resource enc_s r)) l <= 2 * len s.
  Proof.
    induction fuel as [|f IH]; intros s l H Hs; cbn [read_resource_items] in H; [discriminate|].
    destruct (is_readable 4 s).
    2:{ inversion H; subst. cbn [zsum]. pose proof (len_nonneg s). split; [constructor|lia]. }
    dres H as r s1 Er. dres1 H as rs Ers. inversion H; subst. clear H.
    destruct (write_resource_ok _ _ _ Er Hs) as (Hw & B1 & L1).
    destruct (IH _ _ Ers B1) as [Hf Hsum]. destruct (wok_wsz _ _ Hw) as [Hw1 Hw2].
    split; [constructor; assumption|]. cbn [zsum]. lia.
  Qed.
  Lemma write_resources_ok s l s' :
    read_resources dec_s s = Ok (l, s') -> bytes s -> 2 * len s < pow256 4 ->
    wok (write_resources enc_s l) (4 + 2 * (len s - len s')) /\ bytes s' /\ len s' <= len s.
  Proof.
    unfold read_resources. intros H Hs Hsmall. dres H as data s1 E. dres1 H as items Ei. inversion H; subst. clear H.
    destruct (read_length_block_props _ _ _ _ _ _ E Hs) as (Hd & B1 & Hc & Hl & Hn).
    cbn [plus] in Hc. change (Z.of_nat 4) with 4 in *.
    destruct (write_resource_items_ok _ _ _ Ei Hd) as [Hf Hsum].
    pose proof (len_nonneg data). pose proof (len_nonneg s').
    split; [|split; [assumption|lia]].
    unfold write_resources.
    pose proof (zsum_od_build ir_key (fun r => wsz (write_resource enc_s r)) items (fun a => wsz_nonneg _)) as Hod.
    eapply wok_mono.
    - apply wok_length_block with (A := zsum (fun r => wsz (write_resource enc_s r)) (od_build ir_key items)); [|lia|lia].
      apply wok_concat_sum. destruct (od_build_props ir_key _ _ Hf) as [_ HF]. exact HF.
    - cbn [plus]. change (Z.of_nat 4) with 4. lia.
  Qed.
End WriteOk.

(* ------------------------------------------------------------------ mask data *)
Lemma r_opt_u_props c n s o s' : r_opt c (read_u n) s = Ok (o, s') -> bytes s ->
  match o with Some v => 0 <= v < pow256 n | None => True end /\ bytes s' /\ len s' <= len s.
Proof.
  unfold r_opt. intros H Hs. destruct c.
  - dres H as a s1 E. inversion H; subst. destruct (read_u_props _ _ _ _ E Hs) as (R & B & L). repeat split; try assumption; lia.
  - inversion H; subst. repeat split; try assumption; lia.
Qed.
Lemma wok_opt_u n o : match o with Some v => 0 <= v < pow256 n | None => True end ->
  wok (opt_w o (fun x => w_fmt (pack_u n x))) (Z.of_nat n).
Proof.
  destruct o as [v|]; intros H; cbn [opt_w].
  - apply wok_fmt_rok, rok_pack_u, H.
  - eapply wok_mono; [apply wok_nil|lia].
Qed.
Lemma b2z_range b w : 0 <= w -> 0 <= b2z b w <= w.
Proof. destruct b; cbn [b2z]; lia. Qed.

Lemma write_mask_params_ok s p s' : read_mask_params s = Ok (p, s') -> bytes s ->
  wok (write_mask_params p) 19 /\ bytes s' /\ len s' <= len s.
Proof.
  unfold read_mask_params. intros H Hs. dres H as pb s0 E0. dres H as a s1 E1. dres H as b s2 E2.
  dres H as c s3 E3. dres H as d s4 E4. inversion H; subst. clear H.
  destruct (read_u_props _ _ _ _ E0 Hs) as (R0 & B0 & L0).
  destruct (r_opt_u_props _ _ _ _ _ E1 B0) as (R1 & B1 & L1). destruct (r_opt_u_props _ _ _ _ _ E2 B1) as (R2 & B2 & L2).
  destruct (r_opt_u_props _ _ _ _ _ E3 B2) as (R3 & B3 & L3). destruct (r_opt_u_props _ _ _ _ _ E4 B3) as (R4 & B4 & L4).
  split; [|split; [assumption|lia]].
  unfold write_mask_params. cbn [mp_user_density mp_user_feather mp_vector_density mp_vector_feather].
  eapply wok_mono.
  - repeat apply wok_seq; [apply wok_fmt_rok, rok_pack_u|apply wok_opt_u; assumption..].
    rewrite pow256_1.
    pose proof (b2z_range (is_some a) 1 ltac:(lia)). pose proof (b2z_range (is_some b) 2 ltac:(lia)).
    pose proof (b2z_range (is_some c) 4 ltac:(lia)). pose proof (b2z_range (is_some d) 8 ltac:(lia)). lia.
  - cbn. lia.
Qed.

Lemma write_mask_real_ok s r s' : read_mask_real s = Ok (r, s') -> bytes s ->
  wok (write_mask_real r) 18 /\ bytes s' /\ len s' <= len s.
Proof.
  unfold read_mask_real. intros H Hs. dres H as f s1 E1. dres H as bg s2 E2. dres H as t s3 E3.
  dres H as l s4 E4. dres H as b s5 E5. dres H as rr s6 E6. inversion H; subst. clear H.
  destruct (read_u_props _ _ _ _ E1 Hs) as (R1 & B1 & L1). destruct (read_u_props _ _ _ _ E2 B1) as (R2 & B2 & L2).
  destruct (read_s_props 4 _ _ _ ltac:(lia) E3 B2) as (R3 & B3 & L3). destruct (read_s_props 4 _ _ _ ltac:(lia) E4 B3) as (R4 & B4 & L4).
  destruct (read_s_props 4 _ _ _ ltac:(lia) E5 B4) as (R5 & B5 & L5). destruct (read_s_props 4 _ _ _ ltac:(lia) E6 B5) as (R6 & B6 & L6).
  split; [|split; [assumption|lia]].
  unfold write_mask_real. cbn [mr_flags mr_bg mr_top mr_left mr_bottom mr_right].
  pose proof (flags_byte_range (flags_of f)) as Hfb.
  eapply wok_mono.
  - apply wok_seq; apply wok_fmt_rok; [apply rok_pack_u; rewrite pow256_1; lia|rok_fields].
  - cbn. lia.
Qed.

Lemma write_mask_opt_ok s om s' : read_mask s = Ok (om, s') -> bytes s ->
  wok (match om with Some m => write_mask m | None => w_fmt (pack_u 4 0) end) (4 * (len s - len s')) /\
  bytes s' /\ len s' <= len s.
Proof.
  unfold read_mask. intros H Hs. dres H as data s1 E.
  destruct (read_length_block_props _ _ _ _ _ _ E Hs) as (Hd & B1 & Hc & Hl & Hn). cbn [plus] in Hc.
  change (Z.of_nat 4) with 4 in Hc. pose proof (len_nonneg data).
  destruct (len data =? 0).
  { inversion H; subst. split; [|auto]. eapply wok_mono; [apply wok_fmt_rok, rok_pack_u; rewrite pow256_4; lia|].
    change (Z.of_nat 4) with 4. lia. }
  dres1 H as m Em. inversion H; subst. clear H. split; [|auto].
  unfold read_mask_body in Em.
  dres Em as t f1 E1. dres Em as l f2 E2. dres Em as b f3 E3. dres Em as r f4 E4. dres Em as bg f5 E5.
  dres Em as fl f6 E6. dres Em as real f7 E7. dres Em as params f8 E8. inversion Em; subst. clear Em.
  destruct (read_s_props 4 _ _ _ ltac:(lia) E1 Hd) as (R1 & D1 & L1). destruct (read_s_props 4 _ _ _ ltac:(lia) E2 D1) as (R2 & D2 & L2).
  destruct (read_s_props 4 _ _ _ ltac:(lia) E3 D2) as (R3 & D3 & L3). destruct (read_s_props 4 _ _ _ ltac:(lia) E4 D3) as (R4 & D4 & L4).
  destruct (read_u_props _ _ _ _ E5 D4) as (R5 & D5 & L5). destruct (read_u_props _ _ _ _ E6 D5) as (R6 & D6 & L6).
  assert (Hreal : wok (opt_w real write_mask_real) 18 /\ bytes f7).
  { unfold r_opt in E7. destruct (36 <=? len data).
    - dres E7 as rr g1 Er. inversion E7; subst. destruct (write_mask_real_ok _ _ _ Er D6) as (W & B & _). auto.
    - inversion E7; subst. split; [eapply wok_mono; [apply wok_nil|lia]|assumption]. }
  destruct Hreal as [Wreal D7].
  assert (Hpar : wok (if fb4 (flags_of fl) then opt_w params write_mask_params else w_nil) 19).
  { unfold r_opt in E8. destruct (fb4 (flags_of fl)).
    - dres E8 as pp g1 Ep. inversion E8; subst. destruct (write_mask_params_ok _ _ _ Ep D7) as (W & _). exact W.
    - eapply wok_mono; [apply wok_nil|lia]. }
  unfold write_mask, write_mask_body. cbn [m_top m_left m_bottom m_right m_bg m_flags m_real m_params].
  pose proof (flags_byte_range (flags_of fl)) as Hfb.
  change (Z.of_nat 4) with 4 in *. change (Z.of_nat 1) with 1 in *.
  eapply wok_mono.
  - apply wok_length_block with (A := 17 + 1 + 18 + 19 + (4 - 1)); [|rewrite pow256_4; lia|lia].
    apply wok_then_pad; [|lia]. repeat apply wok_seq; [eapply wok_mono; [apply wok_fmt_rok; rok_fields|cbn; lia]| |exact Wreal|exact Hpar].
    apply wok_fmt_rok, rok_pack_u. rewrite pow256_1. lia.
  - cbn [plus]. change (Z.of_nat 4) with 4. pose proof (len_nonneg f6). lia.
Qed.

(* ------------------------------------------------------------------ blending ranges *)
Lemma write_range_ok s c s' : read_range s = Ok (c, s') -> bytes s ->
  wok (w_range c) 8 /\ bytes s' /\ len s' = len s - 8.
Proof.
  unfold read_range. intros H Hs. dres H as a s1 E1. dres H as b s2 E2. dres H as c0 s3 E3. dres H as d s4 E4.
  inversion H; subst. clear H.
  destruct (read_u_props _ _ _ _ E1 Hs) as (R1 & B1 & L1). destruct (read_u_props _ _ _ _ E2 B1) as (R2 & B2 & L2).
  destruct (read_u_props _ _ _ _ E3 B2) as (R3 & B3 & L3). destruct (read_u_props _ _ _ _ E4 B3) as (R4 & B4 & L4).
  change (Z.of_nat 2) with 2 in *.
  split; [|split; [assumption|lia]].
  unfold w_range. cbn [map w_concat]. unfold w_pair. cbn [fst snd].
  eapply wok_mono; [repeat apply wok_seq; [apply wok_fmt_rok; rok_fields..|apply wok_nil]|]. cbn. lia.
Qed.
Lemma write_range_list_ok : forall fuel s l, read_range_list fuel s = Ok l -> bytes s ->
  wok (w_concat (map w_range l)) (len s).
Proof.
  induction fuel as [|f IH]; intros s l H Hs; cbn [read_range_list] in H; [discriminate|].
  destruct (is_readable 8 s).
  2:{ inversion H; subst. cbn [map w_concat]. eapply wok_mono; [apply wok_nil|apply len_nonneg]. }
  dres H as r s1 Er. dres1 H as rs Ers. inversion H; subst. clear H.
  destruct (write_range_ok _ _ _ Er Hs) as (W & B & L). cbn [map w_concat].
  eapply wok_mono; [apply wok_seq; [exact W|exact (IH _ _ Ers B)]|]. lia.
Qed.
Lemma write_ranges_ok s r s' : read_ranges s = Ok (r, s') -> bytes s ->
  wok (write_ranges r) (len s - len s') /\ bytes s' /\ len s' <= len s.
Proof.
  unfold read_ranges. intros H Hs. dres H as data s1 E.
  destruct (read_length_block_props _ _ _ _ _ _ E Hs) as (Hd & B1 & Hc & Hl & Hn). cbn [plus] in Hc.
  change (Z.of_nat 4) with 4 in Hc. pose proof (len_nonneg data). specialize (Hn eq_refl).
  destruct (len data =? 0).
  { inversion H; subst. split; [|auto]. unfold write_ranges. cbn [br_comp br_chan opt_w].
    eapply wok_mono; [apply wok_length_block with (A := 0 + 0); [apply wok_seq; apply wok_nil|rewrite pow256_4; lia|lia]|].
    cbn [plus]. change (Z.of_nat 4) with 4. lia. }
  dres H as c f1 Ec. dres1 H as ch Ech. inversion H; subst. clear H. split; [|auto].
  destruct (write_range_ok _ _ _ Ec Hd) as (Wc & Bf & Lf). pose proof (write_range_list_ok _ _ _ Ech Bf) as Wl.
  unfold write_ranges. cbn [br_comp br_chan opt_w].
  eapply wok_mono; [apply wok_length_block with (A := 8 + len f1); [apply wok_seq; assumption|lia|lia]|].
  cbn [plus]. change (Z.of_nat 4) with 4. lia.
Qed.

(* ------------------------------------------------------------------ channel info *)
Definition ci_ok (v : Z) (c : channel_info) : Prop :=
  exists nb, len_bytes v = Ok nb /\ - (pow256 2 / 2) <= ci_id c < pow256 2 / 2 /\ 0 <= ci_len c < pow256 nb.
Lemma write_channel_info_ok v c : ci_ok v c -> wok (write_channel_info v c) 10.
Proof.
  intros (nb & En & Hid & Hl). unfold write_channel_info. rewrite En. cbn [bind].
  destruct (len_bytes_cases v nb En) as [-> | ->];
    (eapply wok_mono; [apply wok_fmt_rok; rok_fields|cbn; lia]).
Qed.
Lemma read_channel_info_ok v s c s' : read_channel_info v s = Ok (c, s') -> bytes s ->
  ci_ok v c /\ bytes s' /\ 6 <= len s - len s'.
Proof.
  unfold read_channel_info. intros H Hs. dres1 H as nb En. dres H as id s1 E1. dres H as n s2 E2.
  destruct (memz id model_channel_ids); [|discriminate]. inversion H; subst. clear H.
  destruct (read_s_props 2 _ _ _ ltac:(lia) E1 Hs) as (R1 & B1 & L1). destruct (read_u_props _ _ _ _ E2 B1) as (R2 & B2 & L2).
  split; [exists nb; cbn [ci_id ci_len]; auto|]. split; [assumption|].
  change (Z.of_nat 2) with 2 in *. destruct (len_bytes_cases v nb En) as [-> | ->]; lia.
Qed.
Lemma read_n_channel_infos v : forall n s l s', read_n n (read_channel_info v) s = Ok (l, s') -> bytes s ->
  Forall (ci_ok v) l /\ bytes s' /\ 6 * len l <= len s - len s'.
Proof.
  induction n as [|n IH]; intros s l s' H Hs; cbn [read_n] in H.
  - inversion H; subst. change (len (@nil channel_info)) with 0. repeat split; [constructor|assumption|lia].
  - dres H as a s1 Ea. dres H as l1 s2 El. inversion H; subst. clear H.
    destruct (read_channel_info_ok _ _ _ _ Ea Hs) as (Ha & B1 & L1). destruct (IH _ _ _ El B1) as (Hl & B2 & L2).
    rewrite len_cons. repeat split; [constructor; assumption|assumption|lia].
Qed.

(* ------------------------------------------------------------------ layer record *)
Lemma zsum_const {A} (l : list A) k : zsum (fun _ => k) l = k * len l.
Proof. induction l as [|a l IH]; cbn [zsum]; [change (len (@nil A)) with 0; lia|rewrite len_cons, IH; lia]. Qed.

Section WriteOk2.
  Variable enc_s : list Z -> res (list Z).
  Variable dec_s : list Z -> res (list Z).
  Hypothesis Hcodec : codec_ok enc_s dec_s.

  Lemma write_record_ok v s r s' :
    read_record dec_s v s = Ok (r, s') -> bytes s -> 4 * len s < pow256 4 ->
    (forall cis, length cis = length (r_channels r) -> Forall (ci_ok v) cis ->
       wok (write_record enc_s v (set_channels r cis)) (4 * (len s - len s'))) /\
    Forall (ci_ok v) (r_channels r) /\ bytes s' /\ len s' <= len s.
  Proof.
    unfold read_record. intros H Hs Hsmall.
    dres H as top s1 E1. dres H as lft s2 E2. dres H as bottom s3 E3. dres H as rgt s4 E4.
    dres H as nch s5 E5. dres H as chans s6 E6. dres H as sg s7 E7. dres H as blend s8 E8.
    dres H as opacity s9 E9. dres H as clip s10 E10. dres H as fl s11 E11. dres H as data s12 E12.
    dres H as mask f1 F1. dres H as ranges f2 F2. dres H as name f3 F3. dres H as blocks f4 F4.
    destruct (memz sg model_record_sigs && memz blend model_blend_modes && memz clip model_clippings); [|discriminate].
    inversion H; subst. clear H.
    destruct (read_s_props 4 _ _ _ ltac:(lia) E1 Hs) as (R1 & B1 & L1). destruct (read_s_props 4 _ _ _ ltac:(lia) E2 B1) as (R2 & B2 & L2).
    destruct (read_s_props 4 _ _ _ ltac:(lia) E3 B2) as (R3 & B3 & L3). destruct (read_s_props 4 _ _ _ ltac:(lia) E4 B3) as (R4 & B4 & L4).
    destruct (read_u_props _ _ _ _ E5 B4) as (R5 & B5 & L5).
    destruct (read_n_channel_infos v _ _ _ _ E6 B5) as (Hci & B6 & L6).
    destruct (read_n_props (read_channel_info v) (fun _ => True) (fun _ _ _ _ => I) _ _ _ _ E6) as [_ Hnch].
    destruct (read_u_props _ _ _ _ E7 B6) as (R7 & B7 & L7). destruct (read_u_props _ _ _ _ E8 B7) as (R8 & B8 & L8).
    destruct (read_u_props _ _ _ _ E9 B8) as (R9 & B9 & L9). destruct (read_u_props _ _ _ _ E10 B9) as (R10 & B10 & L10).
    destruct (read_u_props _ _ _ _ E11 B10) as (R11 & B11 & L11).
    destruct (read_length_block_props _ _ _ _ _ _ E12 B11) as (Hd & B12 & Hc & Hl & _).
    destruct (write_mask_opt_ok _ _ _ F1 Hd) as (Wm & D1 & M1).
    destruct (write_ranges_ok _ _ _ F2 D1) as (Wr & D2 & M2).
    destruct (write_pascal_ok enc_s dec_s Hcodec _ _ _ _ F3 D2 ltac:(lia)) as (Wn & D3 & M3).
    destruct (write_tagged_blocks_ok _ _ _ _ _ _ F4 D3 ltac:(lia)) as (Wb & D4 & M4).
    change (Z.of_nat 4) with 4 in *. change (Z.of_nat 2) with 2 in *. change (Z.of_nat 1) with 1 in *.
    change (Z.of_nat (1 + 4)) with 5 in *.
    pose proof (len_nonneg data). pose proof (len_nonneg f4). pose proof (len_nonneg chans). pose proof (len_nonneg s').
    split; [|cbn [r_channels]; repeat split; [assumption|assumption|lia]].
    intros cis Hlen Hok. cbn [r_channels] in Hlen. unfold write_record, write_record_extra.
    cbn [set_channels r_top r_left r_bottom r_right r_channels r_sig r_blend r_opacity r_clip r_flags r_mask r_ranges r_name r_blocks].
    assert (Hcl : len cis = nch) by (unfold len; rewrite Hlen, Hnch; lia).
    assert (Hcc : len cis = len chans) by (unfold len; now rewrite Hlen).
    pose proof (flags_byte_range (flip1 (lflags_of fl))) as Hfb.
    eapply wok_mono.
    - repeat apply wok_seq.
      + apply wok_fmt_rok. rewrite Hcl. rok_fields.
      + apply wok_concat_sum with (f := fun _ => 10). eapply Forall_impl; [|exact Hok]. intros a Ha. now apply write_channel_info_ok.
      + apply wok_fmt_rok. rok_fields.
      + apply wok_fmt_rok, rok_pack_u. unfold lflags_byte. rewrite pow256_1. lia.
      + apply wok_length_block with (A := 4 * (len data - len f1) + (len f1 - len f2) + (len f2 - len f3 + (4 - 1)) + 2 * (len f3 - len f4) + (2 - 1));
          [|rewrite pow256_4 in *; lia|lia].
        apply wok_then_pad; [|lia]. repeat apply wok_seq; assumption.
    - rewrite zsum_const. cbn [plus Z.of_nat Pos.of_succ_nat Pos.succ]. lia.
  Qed.
End WriteOk2.

(* ------------------------------------------------------------------ channel data, layer info *)
Lemma Forall2_impl {A B} (P Q : A -> B -> Prop) l1 l2 :
  (forall a b, P a b -> Q a b) -> Forall2 P l1 l2 -> Forall2 Q l1 l2.
Proof. intros H. induction 1; constructor; auto. Qed.
Lemma write_channel_data_ok n s c s' : read_channel_data n s = Ok (c, s') -> bytes s ->
  wok (write_channel_data c) (len s - len s') /\ bytes s' /\ len s' <= len s /\ 2 + len (cd_data c) <= len s.
Proof.
  unfold read_channel_data. intros H Hs. dres H as cp s1 E1.
  destruct (memz cp model_compressions) eqn:Em; [|discriminate]. inversion H; subst. clear H.
  destruct (read_u_props _ _ _ _ E1 Hs) as (R1 & B1 & L1). destruct (read_upto_props n s1 B1) as (Bd & Br & Ld).
  change (Z.of_nat 2) with 2 in *.
  pose proof (len_nonneg (fst (read_upto n s1))). pose proof (len_nonneg (snd (read_upto n s1))).
  split; [|repeat split; [assumption|lia|cbn [cd_data]; lia]].
  unfold write_channel_data. cbn [cd_comp cd_data].
  eapply wok_mono; [apply wok_seq; [apply wok_fmt_rok, rok_pack_u, memz_compressions_range, Em|apply wok_bytes]|].
  change (Z.of_nat 2) with 2. lia.
Qed.
Lemma write_channel_list_ok : forall cis s l s', read_channel_list cis s = Ok (l, s') -> bytes s ->
  wok (write_channel_list l) (len s - len s') /\ bytes s' /\ len s' <= len s /\ length l = length cis /\
  Forall (fun c => 2 + len (cd_data c) <= len s) l.
Proof.
  induction cis as [|ci cis IH]; intros s l s' H Hs; cbn [read_channel_list] in H.
  - inversion H; subst. split; [eapply wok_mono; [apply wok_nil|lia]|]. repeat split; [assumption|lia|constructor].
  - dres H as c s1 Ec. dres H as l1 s2 El. inversion H; subst. clear H.
    destruct (write_channel_data_ok _ _ _ _ Ec Hs) as (W & B1 & L1 & D1).
    destruct (IH _ _ _ El B1) as (Wl & B2 & L2 & Hlen & HF).
    split; [unfold write_channel_list; cbn [map w_concat]; eapply wok_mono; [apply wok_seq; [exact W|exact Wl]|lia]|].
    repeat split; [assumption|lia|cbn [length]; now rewrite Hlen|].
    constructor; [assumption|]. eapply Forall_impl; [|exact HF]. cbn beta. intros a Ha. lia.
Qed.
Lemma write_channel_lists_ok : forall rs s cs s', read_channel_lists rs s = Ok (cs, s') -> bytes s ->
  wok (w_concat (map write_channel_list cs)) (len s - len s') /\ bytes s' /\ len s' <= len s /\
  Forall2 (fun r c => length c = length (r_channels r) /\ Forall (fun x => 2 + len (cd_data x) <= len s) c) rs cs.
Proof.
  induction rs as [|r rs IH]; intros s cs s' H Hs; cbn [read_channel_lists] in H.
  - inversion H; subst. split; [eapply wok_mono; [apply wok_nil|lia]|]. repeat split; [assumption|lia|constructor].
  - dres H as l s1 El. dres H as ls s2 Els. inversion H; subst. clear H.
    destruct (write_channel_list_ok _ _ _ _ El Hs) as (W & B1 & L1 & Hlen & HF).
    destruct (IH _ _ _ Els B1) as (Wl & B2 & L2 & HF2).
    split; [cbn [map w_concat]; eapply wok_mono; [apply wok_seq; [exact W|exact Wl]|lia]|].
    repeat split; [assumption|lia|]. constructor; [auto|].
    eapply Forall2_impl; [|exact HF2]. cbn beta. intros a b0 [Ha Hb]. split; [assumption|].
    eapply Forall_impl; [|exact Hb]. cbn beta. intros x Hx. lia.
Qed.

Lemma upd_ci_ok v nb : len_bytes v = Ok nb -> forall cis cl,
  Forall (ci_ok v) cis -> length cl = length cis -> Forall (fun x => 0 <= 2 + len (cd_data x) < pow256 nb) cl ->
  Forall (ci_ok v) (upd_ci cis cl) /\ length (upd_ci cis cl) = length cis.
Proof.
  intros En. induction cis as [|ci cis IH]; intros [|cd cl] Hok Hlen Hd; cbn [upd_ci length] in *; try discriminate; auto.
  inversion Hok as [|? ? Hci Hcis]; subst. inversion Hd as [|? ? Hcd Hcl]; subst.
  destruct (IH cl Hcis ltac:(lia) Hcl) as [H1 H2]. split; [|now rewrite H2].
  constructor; [|assumption]. destruct Hci as (nb' & En' & Hid & _). exists nb. cbn [ci_id ci_len]. auto.
Qed.

Section WriteOk3.
  Variable enc_s : list Z -> res (list Z).
  Variable dec_s : list Z -> res (list Z).
  Hypothesis Hcodec : codec_ok enc_s dec_s.

  Lemma write_records_ok v nb : len_bytes v = Ok nb -> forall n s recs s',
    read_n n (read_record dec_s v) s = Ok (recs, s') -> bytes s -> 4 * len s < pow256 4 ->
    (forall cs, Forall2 (fun r c => length c = length (r_channels r) /\
                                    Forall (fun x => 0 <= 2 + len (cd_data x) < pow256 nb) c) recs cs ->
       wok (w_concat (map (write_record enc_s v) (upd_recs recs cs))) (4 * (len s - len s'))) /\
    bytes s' /\ len s' <= len s /\ length recs = n.
  Proof.
    intros En. induction n as [|n IH]; intros s recs s' H Hs Hsmall; cbn [read_n] in H.
    - inversion H; subst. split; [|repeat split; [assumption|lia]].
      intros cs _. cbn [upd_recs map w_concat]. eapply wok_mono; [apply wok_nil|lia].
    - dres H as r s1 Er. dres H as l s2 El. inversion H; subst. clear H.
      destruct (write_record_ok enc_s dec_s Hcodec _ _ _ _ Er Hs Hsmall) as (Wr & Hci & B1 & L1).
      pose proof (len_nonneg s1).
      destruct (IH _ _ _ El B1 ltac:(lia)) as (Wl & B2 & L2 & Hn).
      split; [|repeat split; [assumption|lia|cbn [length]; now rewrite Hn]].
      intros cs HF. inversion HF as [|? c ? cs' [Hlc Hdc] HF']; subst. cbn [upd_recs map w_concat].
      destruct (upd_ci_ok v nb En _ _ Hci Hlc Hdc) as [Hok Hlen].
      eapply wok_mono; [apply wok_seq; [apply Wr; [exact Hlen|exact Hok]|apply Wl; exact HF']|]. lia.
  Qed.

  Lemma write_layer_info_ok v pad s li s' :
    read_layer_info dec_s v s = Ok (li, s') -> bytes s -> 0 < pad -> 4 * len s + pad < pow256 4 ->
    wok (write_layer_info enc_s v pad li) (4 * (len s - len s') + pad) /\ bytes s' /\ len s' <= len s.
  Proof.
    unfold read_layer_info. intros H Hs Hp Hsmall. dres1 H as nb En. dres H as length s1 E1.
    destruct (read_u_props _ _ _ _ E1 Hs) as (R1 & B1 & L1). pose proof (len_bytes_cases v nb En) as Hnb.
    unfold write_layer_info. rewrite En. cbn [bind]. pose proof (len_nonneg s1). pose proof (pow256_pos nb).
    destruct (length =? 0) eqn:E0.
    { inversion H; subst. cbn [li_count]. change (0 =? 0) with true. cbn iota.
      split; [|split; [assumption|lia]]. eapply wok_mono; [apply wok_fmt_rok, rok_pack_u; lia|lia]. }
    dres H as li0 s2 Eb. destruct (len s1 - len s2 <=? length) eqn:Ea; [|discriminate]. inversion H; subst. clear H.
    destruct (skipz_props length s1 B1) as [Bz Lz]. split; [|split; [assumption|lia]].
    unfold read_li_body in Eb. dres Eb as count t1 Ec. dres Eb as recs t2 Er. dres Eb as chans t3 Eh.
    injection Eb as <- <-. cbn [li_count].
    destruct (read_s_props 2 _ _ _ ltac:(lia) Ec B1) as (Rc & T1 & Lt1). change (Z.of_nat 2) with 2 in *.
    destruct (count =? 0) eqn:Ecz.
    { eapply wok_mono; [apply wok_fmt_rok, rok_pack_u; lia|]. lia. }
    pose proof (len_nonneg t1).
    destruct (write_records_ok v nb En _ _ _ _ Er T1 ltac:(lia)) as (Wr & T2 & Lt2 & Hn).
    destruct (write_channel_lists_ok _ _ _ _ Eh T2) as (Wc & T3 & Lt3 & HF).
    pose proof (len_nonneg t3).
    assert (HF' : Forall2 (fun r c => Datatypes.length c = Datatypes.length (r_channels r) /\
                                      Forall (fun x => 0 <= 2 + len (cd_data x) < pow256 nb) c) recs chans).
    { eapply Forall2_impl; [|exact HF]. cbn beta. intros a b0 [Ha Hb]. split; [assumption|].
      eapply Forall_impl; [|exact Hb]. cbn beta. intros x Hx. pose proof (len_nonneg (cd_data x)).
      rewrite pow256_4 in Hsmall. destruct Hnb as [-> | ->]; [rewrite pow256_4|rewrite pow256_8]; lia. }
    (* |count| >= 1 records: both lists are non-empty, write() refreshes the channel lengths *)
    assert (Hne : exists r rs c cs, recs = r :: rs /\ chans = c :: cs).
    { destruct recs as [|r rs]; [cbn [Datatypes.length] in Hn; lia|]. inversion HF; subst. eauto 8. }
    destruct Hne as (r & rs & c & cs & -> & ->).
    assert (Hlt : length <= len s1 -> len s1 - len (skipz length s1) = length).
    { intros Hle. unfold skipz, len. rewrite skipn_length. unfold len in Hle. lia. }
    assert (Hcons : len s1 - len t3 <= len s1 - len (skipz length s1)).
    { unfold skipz, len. rewrite skipn_length. unfold len in *. lia. }
    unfold write_li_body, li_update. cbn [li_records li_chans li_count truthy opt_w].
    change (upd_recs (r :: rs) (c :: cs)) with (set_channels r (upd_ci (r_channels r) c) :: upd_recs rs cs).
    cbn [truthy opt_w]. change (set_channels r (upd_ci (r_channels r) c) :: upd_recs rs cs) with (upd_recs (r :: rs) (c :: cs)).
    eapply wok_mono.
    - apply wok_length_block with (A := 2 + 4 * (len t1 - len t2) + (len t2 - len t3) + (pad - 1)); [|destruct Hnb as [-> | ->]; [|rewrite pow256_8; rewrite pow256_4 in Hsmall]; lia|lia].
      apply wok_then_pad; [|assumption]. apply wok_seq; [apply wok_seq; [apply wok_fmt_rok, rok_pack_s; exact Rc|apply Wr; exact HF']|exact Wc].
    - cbn [plus]. change (Z.of_nat 2) with 2. lia.
  Qed.
End WriteOk3.

(* ------------------------------------------------------------------ global layer mask info *)
Lemma read_n_u2 : forall n s l s', read_n n (read_u 2) s = Ok (l, s') -> bytes s ->
  rok (pk_cat (map (pack_u 2) l)) (2 * Z.of_nat n) /\ length l = n /\ bytes s'.
Proof.
  induction n as [|n IH]; intros s l s' H Hs; cbn [read_n] in H.
  - inversion H; subst. cbn [map]. split; [apply rok_pk_nil|auto].
  - dres H as a s1 Ea. dres H as l1 s2 El. inversion H; subst. clear H.
    destruct (read_u_props _ _ _ _ Ea Hs) as (Ra & B1 & _). destruct (IH _ _ _ El B1) as (Hr & Hl & B2).
    split; [|split; [cbn [length]; now rewrite Hl|assumption]].
    cbn [map]. replace (2 * Z.of_nat (S n)) with (Z.of_nat 2 + 2 * Z.of_nat n) by lia.
    apply rok_pk_cons; [now apply rok_pack_u|assumption].
Qed.
Lemma wok_glmi_empty : wok (write_glmi glmi_empty) 20.
Proof. unfold write_glmi, glmi_empty. cbn [g_overlay]. eapply wok_mono; [apply wok_length_block with (A := 0); [apply wok_nil|rewrite pow256_4; lia|lia]|cbn; lia]. Qed.
Lemma write_glmi_ok s g s' : read_glmi s = Ok (g, s') -> bytes s ->
  wok (write_glmi g) 20 /\ bytes s' /\ len s' <= len s.
Proof.
  unfold read_glmi. intros H Hs. dres H as data s1 E.
  destruct (read_length_block_props _ _ _ _ _ _ E Hs) as (Hd & B1 & Hc & Hl & _).
  destruct (len data =? 0); [inversion H; subst; split; [apply wok_glmi_empty|auto]|].
  destruct (len data <? 13); [inversion H; subst; split; [apply wok_glmi_empty|split; [assumption|lia]]|].
  dres1 H as g0 Eg. inversion H; subst. clear H. split; [|auto].
  unfold read_glmi_body in Eg. dres Eg as ov f1 E1. dres Eg as op f2 E2. dres Eg as k f3 E3.
  destruct (memz k model_glmi_kinds); [|discriminate]. inversion Eg; subst. clear Eg.
  destruct (read_n_u2 _ _ _ _ E1 Hd) as (Rov & Hlen & F1).
  destruct (read_u_props _ _ _ _ E2 F1) as (R2 & F2 & _). destruct (read_u_props _ _ _ _ E3 F2) as (R3 & F3 & _).
  unfold write_glmi. cbn [g_overlay g_opacity g_kind]. rewrite Hlen. change (5 =? 5)%nat with true. cbn iota.
  eapply wok_mono.
  - apply wok_length_block with (A := 2 * Z.of_nat 5 + (Z.of_nat 2 + (Z.of_nat 1 + 0)) + (4 - 1)); [|rewrite pow256_4; cbn; lia|lia].
    apply wok_then_pad; [|lia]. apply wok_seq; apply wok_fmt_rok; [exact Rov|rok_fields].
  - cbn. lia.
Qed.

(* ------------------------------------------------------------------ the section, the document *)
Section WriteOk4.
  Variable enc_s : list Z -> res (list Z).
  Variable dec_s : list Z -> res (list Z).
  Hypothesis Hcodec : codec_ok enc_s dec_s.

  Lemma write_lami_ok v pad s l s' :
    read_lami dec_s v s = Ok (l, s') -> bytes s -> 0 < pad -> 4 * len s + pad + 20 < pow256 4 ->
    wok (write_lami enc_s v pad l) (4 * len s + pad + 32) /\ bytes s' /\ len s' <= len s.
  Proof.
    unfold read_lami. intros H Hs Hp Hsmall. dres1 H as nb En. dres H as length s1 E1.
    destruct (read_u_props _ _ _ _ E1 Hs) as (R1 & B1 & L1). pose proof (len_bytes_cases v nb En) as Hnb.
    pose proof (len_nonneg s1). rewrite pow256_4 in Hsmall.
    unfold write_lami. rewrite En. cbn [bind].
    destruct (length =? 0).
    { inversion H; subst. split; [|split; [assumption|lia]]. unfold write_lami_body. cbn [la_info la_glmi la_blocks opt_w truthy].
      eapply wok_mono; [apply wok_length_block with (A := 0 + 0 + 0); [repeat apply wok_seq; apply wok_nil|destruct Hnb as [-> | ->]; [rewrite pow256_4|rewrite pow256_8]; lia|lia]|].
      destruct Hnb as [-> | ->]; [change (Z.of_nat (0 + 4)) with 4; change (Z.of_nat 4) with 4 in *|change (Z.of_nat (0 + 8)) with 8; change (Z.of_nat 8) with 8 in *]; lia. }
    dres1 H as l0 El. inversion H; subst. clear H.
    destruct (skipz_props length s1 B1) as [Bz Lz]. split; [|split; [assumption|lia]].
    unfold read_lami_body in El. dres El as li s2 Eli. dres El as g s3 Eg. dres1 El as tb Et. inversion El; subst. clear El.
    destruct (write_layer_info_ok enc_s dec_s Hcodec v pad _ _ _ Eli B1 Hp ltac:(rewrite pow256_4; lia)) as (Wli & B2 & L2).
    assert (Hg : wok (opt_w g write_glmi) 20 /\ bytes s3 /\ len s3 <= len s2).
    { unfold r_opt in Eg. match type of Eg with (if ?c then _ else _) = _ => destruct c end.
      - dres Eg as g0 s4 Eg0. inversion Eg; subst. cbn [opt_w]. eapply write_glmi_ok; eassumption.
      - inversion Eg; subst. cbn [opt_w]. split; [eapply wok_mono; [apply wok_nil|lia]|split; [assumption|lia]]. }
    destruct Hg as (Wg & B3 & L3).
    assert (Hb : wok (if truthy tb then opt_w tb (write_tagged_blocks v 4) else w_nil) (2 * len s3)).
    { pose proof (len_nonneg s3). destruct (is_readable 1 s3).
      - dres Et as bs s5 Eb. inversion Et; subst.
        destruct (write_tagged_blocks_ok _ _ _ _ _ _ Eb B3 ltac:(lia)) as (Wb & B5 & L5). pose proof (len_nonneg s5).
        destruct bs as [|b0 bs]; cbn [truthy opt_w]; [eapply wok_mono; [apply wok_nil|lia]|eapply wok_mono; [exact Wb|lia]].
      - inversion Et; subst. cbn [truthy]. eapply wok_mono; [apply wok_nil|lia]. }
    unfold write_lami_body. cbn [la_info la_glmi la_blocks opt_w].
    pose proof (len_nonneg s2). pose proof (len_nonneg s3).
    eapply wok_mono.
    - apply wok_length_block with (A := 4 * (len s1 - len s2) + pad + 20 + 2 * len s3);
        [|destruct Hnb as [-> | ->]; [rewrite pow256_4|rewrite pow256_8]; lia|lia].
      apply wok_seq; [apply wok_seq; assumption|assumption].
    - destruct Hnb as [-> | ->]; [change (Z.of_nat (0 + 4)) with 4; change (Z.of_nat 4) with 4 in *|change (Z.of_nat (0 + 8)) with 8; change (Z.of_nat 8) with 8 in *]; lia.
  Qed.

  Theorem write_psd_ok pad b d :
    bytes b -> 0 < pad -> 4 * len b + pad + 20 < pow256 4 ->
    read_psd dec_s b = Ok d -> exists s n, write_psd enc_s pad d = Ok (s, n).
  Proof.
    unfold read_psd. intros Hb Hp Hsmall H. dres H as h s1 Eh. dres H as cmd s2 Ec. dres H as rs s3 Er.
    dres H as l s4 El. dres1 H as img Ei. inversion H; subst. clear H.
    destruct (write_header_ok _ _ _ Eh Hb) as (Wh & B1 & L1).
    destruct (write_cmd_ok _ _ _ Ec B1) as (Wc & B2 & L2).
    pose proof (len_nonneg s1). pose proof (len_nonneg s2). pose proof (len_nonneg s3).
    destruct (write_resources_ok enc_s dec_s Hcodec _ _ _ Er B2 ltac:(lia)) as (Wr & B3 & L3).
    destruct (write_lami_ok _ pad _ _ _ El B3 Hp ltac:(lia)) as (Wl & B4 & L4).
    pose proof (write_image_data_ok _ _ Ei) as Wi.
    unfold write_psd. cbn [p_header p_cmd p_res p_lami p_img].
    destruct (wok_seq _ _ _ _ (wok_seq _ _ _ _ (wok_seq _ _ _ _ (wok_seq _ _ _ _ Wh Wc) Wr) Wl) Wi) as (bs & n & Hw & _).
    eauto.
  Qed.
End WriteOk4.
