(* Stage 3 (6): psd_tools.psd.tagged_blocks - UserMask, SmartObjectLayerData, PlacedLayerData, TypeToolObjectSetting,
   PixelSourceData2.  Doubles are bit patterns; descriptor blocks reuse Psd/Descriptor.v with the _TERMS state
   threaded; the engine data inside a type tool descriptor is opaque (a RawData value like any other: the model does
   not parse it).  Definitions only. *)
From PsdV Require Import Base.Prelude Psd.Codec Psd.Model Psd.Leaf Psd.Descriptor Psd.Struct Psd.Linked.
From Coq Require Import ZArith List Bool Lia.
Import ListNotations.
Open Scope Z_scope.

(* DescriptorBlock2.read(fp, padding=1) in the middle of a stream *)
Definition read_dblock2_s (units : list Z) (t : terms) (s : stream) : res (dblock * terms * stream) :=
  do (ver, s1) <- read_u 4 s; do (dv, s2) <- read_u 4 s1;
  do (r, s3) <- read_dval units (S (length s2)) t OS_Objc s2;
  if dv =? 16 then Ok (DBlock2 ver dv (fst r), snd r, s3) else Err ValueErr.

(* ---- UserMask: Color + "HBx" *)
Definition write_user_mask (cid : Z) (vals : list Z) (opacity flag : Z) : W :=
  write_color cid vals +++ w_fmt (pack_fields [FU 2; FU 1; FX 1] [opacity; flag]).
Definition read_user_mask (s : stream) : res (Z * list Z * Z * Z) :=
  do (c, s1) <- read_color s; do (h, _) <- unpack_fields [FU 2; FU 1; FX 1] s1;
  Ok (fst c, snd c, nth 0 h 0, nth 1 h 0).

(* ---- SmartObjectLayerData: "4sI" + DescriptorBlock + padding; validators kind = 'soLD', version in (4, 5) *)
Definition K_soLD : Z := 0x736f4c44.
Definition write_sold (t : terms) (padding kind version : Z) (b : dblock) : W :=
  w_then_pad (w_fmt (pk_cat [pack_u 4 kind; pack_u 4 version]) +++ write_dblock t 1 b) padding.
Definition read_sold (units : list Z) (t : terms) (s : stream) : res (Z * Z * dblock * terms) :=
  do (kind, s1) <- read_u 4 s; do (version, s2) <- read_u 4 s1;
  do (r, _) <- read_dblock_s units t s2;
  if (kind =? K_soLD) && memz version [4; 5] then Ok (kind, version, fst r, snd r) else Err ValueErr.

(* ---- TypeToolObjectSetting: "H6d" "H" block "H" block "4i" + padding; validators text_version = 50, warp_version = 1 *)
Definition L_4I_u : list fspec := [FU 4; FU 4; FU 4; FU 4].
Definition L_6d : list fspec := [FU 8; FU 8; FU 8; FU 8; FU 8; FU 8].
Definition L_4i : list fspec := [FS 4; FS 4; FS 4; FS 4].
Record typetool := mkTySh {
  ty_version : Z; ty_transform : list Z; ty_text_version : Z; ty_text : dblock; ty_warp_version : Z; ty_warp : dblock;
  ty_box : list Z }.
Definition write_typetool (t : terms) (padding : Z) (x : typetool) : W :=
  w_then_pad
    (* "H6d" is one write_fmt call in the code: the same bytes and the same struct.error as the two parts *)
    (w_fmt (pack_u 2 (ty_version x)) +++ w_fmt (pack_fields L_6d (ty_transform x)) +++ w_fmt (pack_u 2 (ty_text_version x)) +++
     write_dblock t 1 (ty_text x) +++ w_fmt (pack_u 2 (ty_warp_version x)) +++ write_dblock t 1 (ty_warp x) +++
     w_fmt (pack_fields L_4i (ty_box x))) padding.
Definition read_typetool (units : list Z) (t : terms) (s : stream) : res (typetool * terms) :=
  do (version, s1) <- read_u 2 s;
  do (transform, s2) <- unpack_fields L_6d s1;
  do (tv, s3) <- read_u 2 s2;
  do (text, s4) <- read_dblock_s units t s3;
  do (wv, s5) <- read_u 2 s4;
  do (warp, s6) <- read_dblock_s units (snd text) s5;
  do (box, _) <- unpack_fields L_4i s6;
  if (tv =? 50) && (wv =? 1) then Ok (mkTySh version transform tv (fst text) wv (fst warp) box, snd warp) else Err ValueErr.

(* ---- PixelSourceData2: byte strings in 8-byte length blocks, then padding *)
Definition write_pixel_sources (padding : Z) (l : list (list Z)) : W :=
  w_then_pad (w_concat (map (fun d => w_length_block 0 8 1 (w_bytes d)) l)) padding.
Fixpoint read_pixel_sources (fuel : nat) (s : stream) : res (list (list Z)) :=
  match fuel with
  | O => Err OutOfFuel
  | S f => if is_readable 8 s then do (d, s1) <- read_length_block 0 8 1 s; do r <- read_pixel_sources f s1; Ok (d :: r)
           else Ok []
  end.

Section Misc.
  Variable enc_s : list Z -> res (list Z).
  Variable dec_s : list Z -> res (list Z).

  (* ---- PlacedLayerData: "4sI" pascal uuid "4I" "8d" DescriptorBlock2 + padding; validators version = 3, layer type *)
  Definition model_placed_types : list Z := [0; 1; 2; 3].            (* PlacedLayerType *)
  Definition L_8d : list fspec := [FU 8; FU 8; FU 8; FU 8; FU 8; FU 8; FU 8; FU 8].
  Record placed := mkPlaced {
    pl_kind : Z; pl_version : Z; pl_uuid : list Z; pl_info : list Z (* page, total_pages, anti_alias, layer_type *);
    pl_transform : list Z; pl_warp : dblock }.
  Definition write_placed (t : terms) (padding : Z) (x : placed) : W :=
    if negb (memz (nth 3 (pl_info x) (-1)) model_placed_types) then Err ValueErr else       (* layer_type.value: members only *)
    w_then_pad
      (w_fmt (pk_cat [pack_u 4 (pl_kind x); pack_u 4 (pl_version x)]) +++ w_pascal enc_s (pl_uuid x) 1 +++
       w_fmt (pack_fields L_4I_u (pl_info x)) +++ w_fmt (pack_fields L_8d (pl_transform x)) +++ write_dblock t 1 (pl_warp x))
      padding.
  Definition read_placed (units : list Z) (t : terms) (s : stream) : res (placed * terms) :=
    do (kind, s1) <- read_u 4 s; do (version, s2) <- read_u 4 s1;
    do (uuid, s3) <- r_pascal dec_s 1 s2;
    do (info, s4) <- unpack_fields L_4I_u s3;
    do (transform, s5) <- unpack_fields L_8d s4;
    do (warp, _) <- read_dblock2_s units t s5;
    if (version =? 3) && memz (nth 3 info (-1)) model_placed_types
    then Ok (mkPlaced kind version uuid info transform (fst warp), snd warp) else Err ValueErr.
  Definition wf_placed (units : list Z) (x : placed) : bool :=
    (pl_version x =? 3) && memz (nth 3 (pl_info x) (-1)) model_placed_types && wf_name enc_s dec_s (pl_uuid x) &&
    match pl_warp x with DBlock2 _ _ _ => wf_dblock units (pl_warp x) | _ => false end.
End Misc.

Definition wf_typetool (units : list Z) (x : typetool) : bool :=
  (ty_text_version x =? 50) && (ty_warp_version x =? 1) && wf_opt_dblock units (Some (ty_text x)) && wf_opt_dblock units (Some (ty_warp x)).
Definition wf_sold (units : list Z) (kind version : Z) (b : dblock) : bool :=
  (kind =? K_soLD) && memz version [4; 5] && wf_opt_dblock units (Some b).
