(* Stage 3 (3): psd_tools.psd.linked_layer - LinkedLayers ('lnkD' / 'lnk2' / 'lnk3' / 'lnkE') and LinkedLayer
   versions 1..7 of the three kinds (data / external / alias).  Strings: the uuid is a pascal string whose charset step
   is the Section codec (macroman in the code), file name and child id are UTF-16 code unit lists, doubles are 64-bit
   patterns, the two descriptor blocks reuse Psd/Descriptor.v (with the _TERMS state threaded through).
   Definitions only.  Mirrors the code as it is: the writer emits child_id / mod_time / lock_state when they are
   present whatever the version says, the reader takes them by version; data of an alias is counted, never written. *)
From PsdV Require Import Base.Prelude Psd.Codec Psd.Model Psd.Descriptor Psd.Struct.
From Coq Require Import ZArith List Bool Lia.
Import ListNotations.
Open Scope Z_scope.

Definition K_liFD : Z := 0x6c694644.
Definition K_liFE : Z := 0x6c694645.
Definition K_liFA : Z := 0x6c694641.
Definition model_linked_kinds : list Z := [K_liFD; K_liFE; K_liFA].      (* LinkedLayerType *)
Definition L_timestamp : list fspec := [FU 4; FU 1; FU 1; FU 1; FU 1; FU 8].   (* "I4Bd" *)

Record linked := mkLinked {
  ll_kind : Z; ll_version : Z; ll_uuid : list Z; ll_filename : list Z; ll_filetype : Z; ll_creator : Z;
  ll_filesize : option Z; ll_open : option dblock; ll_linked : option dblock; ll_timestamp : option (list Z);
  ll_data : option (list Z); ll_child : option (list Z); ll_mod : option Z; ll_lock : option Z }.

(* a field the branch dereferences / packs: absent = the exception the code raises there *)
Definition w_req {A} (e : err) (o : option A) (w : A -> W) : W := match o with Some a => w a | None => Err e end.
(* "if self.x is not None: written += ..." *)
Definition w_opt {A} (o : option A) (w : A -> W) : W := match o with Some a => w a | None => w_nil end.

(* DescriptorBlock.read(fp, padding=1) in the middle of a stream *)
Definition read_dblock_s (units : list Z) (t : terms) (s : stream) : res (dblock * terms * stream) :=
  do (ver, s1) <- read_u 4 s;
  do (r, s2) <- read_dval units (S (length s1)) t OS_Objc s1;
  if ver =? 16 then Ok (DBlock ver (fst r), snd r, s2) else Err ValueErr.
(* fp.read(datasize): BytesIO refuses a count beyond ssize_t *)
Definition read_data (n : Z) (s : stream) : res (list Z * stream) :=
  if 2 ^ 63 <=? n then Err OverflowErr else Ok (read_upto n s).

Section Linked.
  Variable enc_s : list Z -> res (list Z).
  Variable dec_s : list Z -> res (list Z).

  Definition w_ext (t : terms) (l : linked) : W :=
    w_req TypeErr (ll_linked l) (write_dblock t 1)                                   (* AttributeError in the code *)
    +++ (if 3 <? ll_version l then w_req TypeErr (ll_timestamp l) (fun ts => w_fmt (pack_fields L_timestamp ts)) else w_nil)
    +++ w_req StructErr (ll_filesize l) (fun x => w_fmt (pack_u 8 x))
    +++ (if 2 <? ll_version l then w_req TypeErr (ll_data l) w_bytes else w_nil).
  Definition w_tail (l : linked) : W :=
    w_opt (ll_child l) (fun u => w_unicode u 1) +++ w_opt (ll_mod l) (fun x => w_fmt (pack_u 8 x))
    +++ w_opt (ll_lock l) (fun x => w_fmt (pack_u 1 x)).

  Definition write_linked (t : terms) (padding : Z) (l : linked) : W :=
    if negb (memz (ll_kind l) model_linked_kinds) then Err ValueErr else     (* not constructible: validator in_(LinkedLayerType) *)
    w_then_pad
      (w_fmt (pk_cat [pack_u 4 (ll_kind l); pack_u 4 (ll_version l)])
       +++ w_pascal enc_s (ll_uuid l) 1
       +++ w_unicode (ll_filename l) 1
       +++ w_fmt (pk_cat [pack_u 4 (ll_filetype l); pack_u 4 (ll_creator l);
                          pack_u 8 (match ll_data l with Some d => len d | None => 0 end);
                          pack_u 1 (if is_some (ll_open l) then 1 else 0)])
       +++ w_opt (ll_open l) (write_dblock t 1)
       +++ (if ll_kind l =? K_liFE then w_ext t l else if ll_kind l =? K_liFA then w_bytes (zeros 8) else w_nil)
       +++ (if ll_kind l =? K_liFD then w_req TypeErr (ll_data l) w_bytes else w_nil)
       +++ w_tail l
       +++ (if (ll_kind l =? K_liFE) && (ll_version l =? 2) then w_req TypeErr (ll_data l) w_bytes else w_nil))
      padding.

  Definition r_ext (units : list Z) (t : terms) (version datasize : Z) (s : stream)
    : res (dblock * option (list Z) * Z * option (list Z) * terms * stream) :=
    do (lf, s1) <- read_dblock_s units t s;
    do (ts, s2) <- r_opt (3 <? version) (unpack_fields L_timestamp) s1;
    do (fsz, s3) <- read_u 8 s2;
    do (dat, s4) <- r_opt (2 <? version) (read_data datasize) s3;
    Ok (fst lf, ts, fsz, dat, snd lf, s4).
  Definition r_tail (version : Z) (s : stream) : res (option (list Z) * option Z * option Z * stream) :=
    do (c, s1) <- r_opt (5 <=? version) (r_unicode 1) s;
    do (m, s2) <- r_opt (6 <=? version) (read_u 8) s1;
    do (k, s3) <- r_opt (7 <=? version) (read_u 1) s2;
    Ok (c, m, k, s3).

  Definition read_linked (units : list Z) (t : terms) (s : stream) : res (linked * terms * stream) :=
    do (kind, s1) <- read_u 4 s;
    if negb (memz kind model_linked_kinds) then Err ValueErr else
    do (version, s2) <- read_u 4 s1;
    if negb ((1 <=? version) && (version <=? 7)) then Err AssertErr else
    do (uuid, s3) <- r_pascal dec_s 1 s2;
    do (filename, s4) <- r_unicode 1 s3;
    do (filetype, s5) <- read_u 4 s4; do (creator, s6) <- read_u 4 s5;
    do (datasize, s7) <- read_u 8 s6; do (has_open, s8) <- read_u 1 s7;
    do (op, s9) <- (if has_open =? 0 then Ok (None, t, s8)
                    else do (b, sa) <- read_dblock_s units t s8; Ok (Some (fst b), snd b, sa));
    let t1 := snd op in
    do (mid, sb) <-
      (if kind =? K_liFE then
         do (x, sx) <- r_ext units t1 version datasize s9;
         let '(lf, ts, fsz, dat, t2) := x in Ok ((Some lf, ts, Some fsz, dat, t2), sx)
       else if kind =? K_liFA then do (_, sx) <- take 8 s9; Ok ((None, None, None, None, t1), sx)
       else Ok ((None, None, None, None, t1), s9));
    let '(lf, ts, fsz, dat0, t2) := mid in
    do (dat1, sc) <-
      (if kind =? K_liFD then
         do (d, sx) <- read_data datasize sb;
         if len d =? datasize then Ok (Some d, sx) else Err AssertErr
       else Ok (dat0, sb));
    do (tl, sd) <- r_tail version sc;
    let '(child, md, lk) := tl in
    do (dat2, se) <-
      (if (kind =? K_liFE) && (version =? 2) then do (d, sx) <- read_data datasize sd; Ok (Some d, sx) else Ok (dat1, sd));
    Ok (mkLinked kind version uuid filename filetype creator fsz (fst op) lf ts dat2 child md lk, t2, se).

  (* LinkedLayers: items in 8-byte length blocks padded to 4; the item writer runs with its default padding = 1 *)
  Definition write_linked_layers (t : terms) (l : list linked) : W :=
    w_concat (map (fun x => w_length_block 0 8 4 (write_linked t 1 x)) l).
  Fixpoint read_linked_layers (fuel : nat) (units : list Z) (t : terms) (s : stream) : res (list linked * terms) :=
    match fuel with
    | O => Err OutOfFuel
    | S f =>
        if is_readable 8 s then
          do (d, s1) <- read_length_block 0 8 4 s;
          do (x, _) <- read_linked units t d;
          do (r, t') <- read_linked_layers f units (snd x) s1;
          Ok (fst x :: r, t')
        else Ok ([], t)
    end.

  Definition wf_opt_dblock (units : list Z) (o : option dblock) : bool :=
    match o with Some (DBlock v d) => wf_dblock units (DBlock v d) | Some _ => false | None => true end.
  Definition wf_linked (units : list Z) (l : linked) : bool :=
    memz (ll_kind l) model_linked_kinds && (1 <=? ll_version l) && (ll_version l <=? 7)
    && wf_name enc_s dec_s (ll_uuid l) && wf_opt_dblock units (ll_open l)
    && (if ll_kind l =? K_liFE then
          is_some (ll_linked l) && wf_opt_dblock units (ll_linked l)
          && Bool.eqb (is_some (ll_timestamp l)) (3 <? ll_version l)
          && is_some (ll_filesize l) && Bool.eqb (is_some (ll_data l)) (2 <=? ll_version l)
        else
          negb (is_some (ll_linked l)) && negb (is_some (ll_timestamp l)) && negb (is_some (ll_filesize l))
          && Bool.eqb (is_some (ll_data l)) (ll_kind l =? K_liFD))
    && (match ll_data l with Some d => len d <? 2 ^ 63 | None => true end)       (* BytesIO.read refuses more *)
    && Bool.eqb (is_some (ll_child l)) (5 <=? ll_version l)
    && Bool.eqb (is_some (ll_mod l)) (6 <=? ll_version l)
    && Bool.eqb (is_some (ll_lock l)) (7 <=? ll_version l).
End Linked.
