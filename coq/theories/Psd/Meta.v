(* Stage 3 (6): psd_tools.psd.tagged_blocks - MetadataSettings / MetadataSetting ('shmd'), Annotations / Annotation
   ('Anno').  Definitions only.  Mirrors the code as it is: the writer of a metadata item goes by the type of its data
   (descriptor block / int / bytes), the reader by its key. *)
From PsdV Require Import Base.Prelude Psd.Codec Psd.Model Psd.Leaf Psd.Descriptor Psd.Struct Psd.Linked.
From Coq Require Import ZArith List Bool Lia.
Import ListNotations.
Open Scope Z_scope.

(* ---- MetadataSetting *)
Inductive mdata := MInt (v : Z) | MDesc (b : dblock) | MRaw (d : list Z).
Record msetting := mkMeta { ms_sig : Z; ms_key : Z; ms_copy : Z; ms_data : mdata }.

Definition sig_8ELE : Z := 0x38454c45.
Definition model_meta_sigs : list Z := [sig_8BIM; sig_8ELE].
Definition model_meta_int_keys : list Z := [0x6d64796e; 0x73677270].                               (* mdyn sgrp *)
Definition model_meta_desc_keys : list Z := [0x63757374; 0x636d6c73; 0x6578746e; 0x6d6c7374; 0x746d6c6e; 0x73677270].
                                                                                                   (* cust cmls extn mlst tmln sgrp *)
Definition write_msetting (t : terms) (m : msetting) : W :=
  w_fmt (pack_fields [FU 4; FU 4; FB; FX 3] [ms_sig m; ms_key m; ms_copy m]) +++
  w_length_block 0 4 1 (match ms_data m with
                        | MDesc b => write_dblock t 4 b
                        | MInt v => w_fmt (pack_u 4 v)
                        | MRaw d => w_bytes d
                        end).
Definition read_msetting (units : list Z) (t : terms) (s : stream) : res (msetting * terms * stream) :=
  do (sg, s1) <- read_u 4 s;
  if negb (memz sg model_meta_sigs) then Err AssertErr else
  do (h, s2) <- unpack_fields [FU 4; FB; FX 3] s1;
  let key := nth 0 h 0 in
  do (d, s3) <- read_length_block 0 4 1 s2;
  do (x, t') <- (if memz key model_meta_int_keys then do (v, _) <- read_u 4 d; Ok (MInt v, t)
                 else if memz key model_meta_desc_keys then do (r, _) <- read_dblock_s units t d; Ok (MDesc (fst r), snd r)
                 else Ok (MRaw d, t));
  Ok (mkMeta sg key (nth 1 h 0) x, t', s3).
Definition write_msettings (t : terms) (l : list msetting) : W :=
  w_fmt (pack_u 4 (len l)) +++ w_concat (map (write_msetting t) l).
Fixpoint read_msettings_n (n : nat) (units : list Z) (t : terms) (s : stream) : res (list msetting * terms * stream) :=
  match n with
  | O => Ok ([], t, s)
  | S n' => do (x, s1) <- read_msetting units t s;
            do (r, s2) <- read_msettings_n n' units (snd x) s1;
            Ok (fst x :: fst r, snd r, s2)
  end.
Definition read_msettings (units : list Z) (t : terms) (s : stream) : res (list msetting * terms) :=
  do (n, s1) <- read_u 4 s;
  do (r, _) <- read_msettings_n (Z.to_nat (Z.min n (len s1 + 1))) units t s1; Ok r.
Definition wf_msetting (units : list Z) (m : msetting) : bool :=
  memz (ms_sig m) model_meta_sigs && ((ms_copy m =? 0) || (ms_copy m =? 1)) &&
  match ms_data m with
  | MInt _ => memz (ms_key m) model_meta_int_keys
  | MDesc b => negb (memz (ms_key m) model_meta_int_keys) && memz (ms_key m) model_meta_desc_keys && wf_opt_dblock units (Some b)
  | MRaw _ => negb (memz (ms_key m) model_meta_int_keys) && negb (memz (ms_key m) model_meta_desc_keys)
  end.

Section Meta.
  Variable enc_s : list Z -> res (list Z).
  Variable dec_s : list Z -> res (list Z).

  (* ---- Annotation *)
  Record annotation := mkAnno {
    an_head : list Z  (* kind, is_open, flags, optional_blocks *); an_icon : list Z; an_popup : list Z;
    an_color : Z * list Z; an_author : list Z; an_name : list Z; an_date : list Z; an_marker : Z; an_data : list Z }.
  Definition model_anno_kinds : list Z := [0x74787441; 0x736e644d].       (* txtA sndM *)
  Definition model_anno_markers : list Z := [0x74787443; 0x736e644d].     (* txtC sndM *)
  Definition L_anno : list fspec := [FU 4; FU 1; FU 1; FU 2].            (* "4s2BH" *)
  Definition L_4i' : list fspec := [FS 4; FS 4; FS 4; FS 4].
  Definition write_annotation (a : annotation) : W :=
    w_fmt (pack_fields L_anno (an_head a)) +++ w_fmt (pack_fields L_4i' (an_icon a)) +++ w_fmt (pack_fields L_4i' (an_popup a)) +++
    write_color (fst (an_color a)) (snd (an_color a)) +++
    w_pascal enc_s (an_author a) 2 +++ w_pascal enc_s (an_name a) 2 +++ w_pascal enc_s (an_date a) 2 +++
    w_fmt (pk_cat [pack_u 4 (len (an_data a) + 12); pack_u 4 (an_marker a)]) +++ w_length_block 0 4 1 (w_bytes (an_data a)).
  Definition read_annotation (s : stream) : res annotation :=
    do (head, s1) <- unpack_fields L_anno s;
    do (icon, s2) <- unpack_fields L_4i' s1; do (popup, s3) <- unpack_fields L_4i' s2;
    do (c, s4) <- read_color s3;
    do (author, s5) <- r_pascal dec_s 2 s4; do (name, s6) <- r_pascal dec_s 2 s5; do (date, s7) <- r_pascal dec_s 2 s6;
    do (_, s8) <- read_u 4 s7; do (marker, s9) <- read_u 4 s8;
    do (d, _) <- read_length_block 0 4 1 s9;
    if memz (nth 0 head (-1)) model_anno_kinds && memz marker model_anno_markers
    then Ok (mkAnno head icon popup c author name date marker d) else Err ValueErr.

  (* ---- Annotations: "2HI", each item as length (+4) and bytes, padding to 4 at the end *)
  Definition write_annotations (major minor : Z) (l : list annotation) : W :=
    w_then_pad
      (w_fmt (pk_cat [pack_u 2 major; pack_u 2 minor; pack_u 4 (len l)]) +++
       w_concat (map (fun a => do x <- write_annotation a; w_fmt (pack_u 4 (len (fst x) + 4)) +++ w_bytes (fst x)) l)) 4.
  Fixpoint read_anno_items (n : nat) (s : stream) : res (list annotation) :=
    match n with
    | O => Ok []
    | S n' =>
        do (l4, s1) <- read_u 4 s;
        let length := l4 - 4 in
        if 0 <? length then
          let d := read_upto length s1 in
          do a <- read_annotation (fst d); do r <- read_anno_items n' (snd d); Ok (a :: r)
        else read_anno_items n' s1
    end.
  Definition read_annotations (s : stream) : res (Z * Z * list annotation) :=
    do (major, s1) <- read_u 2 s; do (minor, s2) <- read_u 2 s1; do (count, s3) <- read_u 4 s2;
    do l <- read_anno_items (Z.to_nat (Z.min count (len s3 + 1))) s3; Ok (major, minor, l).
  Definition wf_annotation (a : annotation) : bool :=
    memz (nth 0 (an_head a) (-1)) model_anno_kinds && memz (an_marker a) model_anno_markers &&
    wf_name enc_s dec_s (an_author a) && wf_name enc_s dec_s (an_name a) && wf_name enc_s dec_s (an_date a).
End Meta.
