(* An independent walker over a PSD/PSB byte string, written from the Adobe "Photoshop File Formats
   Specification" (File Header / Color Mode Data / Image Resources / Layer and Mask Information /
   Image Data), NOT from psd_tools: it navigates purely by the length fields of the format and
   checks that every region is filled exactly - each length prefix is followed by that many bytes
   inside its enclosing region, counts match the items present, paddings are where the format puts
   them and are zero, per-channel lengths add up to the end of the layer info, the sections add up
   to the file size (the merged image takes what is left).
   It uses only the generic stream primitives of Codec.v (take / read_u / read_s).
   Output: the blocks it found, in pre-order, as (kind, size in bytes).  Twin: format_common.walk
   (which also knows offsets and checks RLE row tables).  Definitions only. *)
From PsdV Require Import Base.Prelude Psd.Codec.
From Coq Require Import ZArith List Bool Lia.
Import ListNotations.
Open Scope Z_scope.

Definition K_HEADER := 1.   Definition K_CMD := 2.     Definition K_RESOURCES := 3.
Definition K_RES := 4.      Definition K_LAMI := 5.    Definition K_LAYERINFO := 6.
Definition K_RECORD := 7.   Definition K_CHANNEL := 8. Definition K_GLMI := 9.
Definition K_GTB := 10.     Definition K_LTB := 11.    Definition K_IMAGE := 12.
Definition K_MASK := 13.    Definition K_RANGES := 14. Definition K_NAME := 15.

Definition layout := list (Z * Z).

(* keys whose length field has 8 bytes in a PSB: the list of the specification (LMsk Lr16 Lr32 Layr
   Mt16 Mt32 Mtrn Alph FMsk lnk2 FEid FXid PxSD) and the keys found with 8-byte lengths in PSB files
   written by Photoshop CC (lnk3 lnkE FELS extd extn pths cinf artd); as numbers, sorted *)
Definition walk_big_keys : list Z :=
  [1097625704; 1178946643; 1178954084; 1179480939; 1180199268; 1280144235; 1281456498;
   1282552118; 1282552626; 1299460406; 1299460914; 1299477102; 1350062916; 1634890852;
   1667853926; 1702392932; 1702392942; 1819175730; 1819175731; 1819175749; 1886677107].
Definition w_8BPS : Z := 0x38425053.
Definition w_8BIM : Z := 0x3842494d.
Definition w_8B64 : Z := 0x38423634.

Definition inz (x : Z) (l : list Z) : bool := existsb (Z.eqb x) l.
Definition all_zero (l : list Z) : bool := forallb (Z.eqb 0) l.
Definition check (b : bool) : res unit := if b then Ok tt else Err ValueErr.

(* a length field of nb bytes, then that many bytes, then padding of the data to a multiple of pad;
   everything must be there (strict) *)
Definition skip_block (nb : nat) (pad : Z) (s : stream) : res (Z * stream) :=
  do (n, s1) <- read_u nb s;
  do (_, s2) <- take (n + pad_count n pad) s1;
  Ok (n, s2).

(* pascal string: one length byte, the characters, padding of the whole to a multiple of pad *)
Definition skip_pascal (pad : Z) (s : stream) : res stream :=
  do (n, s1) <- read_u 1 s;
  do (_, s2) <- take (n + pad_count (1 + n) pad) s1;
  Ok s2.

(* ---- image resources: blocks until the region is used up *)
Fixpoint walk_resources (fuel : nat) (reg : stream) : res layout :=
  match fuel with
  | O => Err OutOfFuel
  | S f =>
      if len reg =? 0 then Ok []
      else
        do (_, s1) <- take 6 reg;                       (* signature, id *)
        do s2 <- skip_pascal 2 s1;
        do (_, s3) <- skip_block 4 2 s2;
        do rest <- walk_resources f s3;
        Ok ((K_RES, len reg - len s3) :: rest)
  end.

(* ---- one tagged block ("additional layer information") *)
Definition walk_block (v : Z) (pad : Z) (s : stream) : res stream :=
  do (sg, s1) <- read_u 4 s;
  do _ <- check (inz sg [w_8BIM; w_8B64]);
  do (key, s2) <- read_u 4 s1;
  let nb := if (v =? 2) && inz key walk_big_keys then 8%nat else 4%nat in
  do (_, s3) <- skip_block nb pad s2;
  Ok s3.

(* global blocks: padded to 4, fill the region exactly *)
Fixpoint walk_gblocks (fuel : nat) (v : Z) (reg : stream) : res layout :=
  match fuel with
  | O => Err OutOfFuel
  | S f =>
      if len reg =? 0 then Ok []
      else do s1 <- walk_block v 4 reg;
           do rest <- walk_gblocks f v s1;
           Ok ((K_GTB, len reg - len s1) :: rest)
  end.
(* blocks of a layer record: not padded; what is left of the extra data must be padding (< 2, zero) *)
Fixpoint walk_lblocks (fuel : nat) (v : Z) (reg : stream) : res layout :=
  match fuel with
  | O => Err OutOfFuel
  | S f =>
      if len reg <? 12 then
        do _ <- check ((len reg <? 2) && all_zero reg); Ok []
      else do s1 <- walk_block v 1 reg;
           do rest <- walk_lblocks f v s1;
           Ok ((K_LTB, len reg - len s1) :: rest)
  end.

(* ---- a layer record; returns its blocks, the channel lengths it declares, the rest *)
Definition walk_chan_decl (nb : nat) (s : stream) : res (Z * stream) :=
  do (_, s1) <- take 2 s; read_u nb s1.
Fixpoint walk_n {A} (n : nat) (rd : stream -> res (A * stream)) (s : stream) : res (list A * stream) :=
  match n with
  | O => Ok ([], s)
  | S n' => do (a, s1) <- rd s; do (l, s2) <- walk_n n' rd s1; Ok (a :: l, s2)
  end.

Definition walk_record (v : Z) (nb : nat) (s : stream) : res (layout * list Z * stream) :=
  do (_, r1) <- read_u 4 s;                              (* rectangle: top, left, bottom, right *)
  do (_, r2) <- read_u 4 r1;
  do (_, r3) <- read_u 4 r2;
  do (_, s1) <- read_u 4 r3;
  do (nch, s2) <- read_u 2 s1;
  do (lens, s3) <- walk_n (Z.to_nat nch) (walk_chan_decl nb) s2;
  do (sg, s4) <- read_u 4 s3;
  do _ <- check (sg =? w_8BIM);
  do (_, k1) <- read_u 4 s4;                             (* blend mode key *)
  do (_, k2) <- read_u 1 k1;                             (* opacity *)
  do (_, k3) <- read_u 1 k2;                             (* clipping *)
  do (_, k4) <- read_u 1 k3;                             (* flags *)
  do (_, s5) <- take 1 k4;                               (* filler *)
  do (xl, s6) <- read_u 4 s5;
  do (x, s7) <- take xl s6;                              (* the extra data region *)
  do (ml, x1) <- skip_block 4 1 x;                       (* layer mask data *)
  do (rl, x2) <- skip_block 4 1 x1;                      (* blending ranges *)
  do _ <- check (rl mod 8 =? 0);
  do x3 <- skip_pascal 4 x2;                             (* name, padded to 4 *)
  do blocks <- walk_lblocks (S (length x3)) v x3;
  Ok ((K_RECORD, len s - len s7) :: (K_MASK, 4 + ml) :: (K_RANGES, 4 + rl) :: (K_NAME, len x2 - len x3) :: blocks,
      lens, s7).

Fixpoint walk_records (n : nat) (v : Z) (nb : nat) (s : stream) : res (layout * list Z * stream) :=
  match n with
  | O => Ok ([], [], s)
  | S n' =>
      do (r, s1) <- walk_record v nb s;
      do (rs, s2) <- walk_records n' v nb s1;
      Ok (fst r ++ fst rs, snd r ++ snd rs, s2)
  end.

(* channel image data: for every declared length: 2 bytes of compression, length - 2 bytes of data *)
Fixpoint walk_channels (lens : list Z) (s : stream) : res (layout * stream) :=
  match lens with
  | [] => Ok ([], s)
  | l :: lens' =>
      do _ <- check (2 <=? l);
      do (c, s1) <- read_u 2 s;
      do _ <- check (c <=? 3);
      do (_, s2) <- take (l - 2) s1;
      do (rest, s3) <- walk_channels lens' s2;
      Ok ((K_CHANNEL, l) :: rest, s3)
  end.

Definition walk_layer_info (v : Z) (nb : nat) (reg : stream) : res layout :=
  do (count, s1) <- read_s 2 reg;
  do (rs, s2) <- walk_records (Z.to_nat (Z.abs count)) v nb s1;
  do (cs, s3) <- walk_channels (snd rs) s2;
  do _ <- check ((len s3 <? 4) && all_zero s3);          (* rounding of the section *)
  Ok (fst rs ++ cs).

Definition walk_lami (v : Z) (nb : nat) (reg : stream) : res layout :=
  if len reg =? 0 then Ok []
  else
    do (ll, s1) <- read_u nb reg;
    do (li, s2) <- take ll s1;
    do lay <- (if ll =? 0 then Ok [] else walk_layer_info v nb li);
    do rest <-
      (if len s2 =? 0 then Ok []
       else do (gl, s3) <- skip_block 4 1 s2;             (* global layer mask info *)
            do bl <- walk_gblocks (S (length s3)) v s3;
            Ok ((K_GLMI, 4 + gl) :: bl));
    Ok ((K_LAYERINFO, Z.of_nat nb + ll) :: lay ++ rest).

Definition walk (data : stream) : res layout :=
  do (hd, s1) <- take 26 data;
  do (sg, h1) <- read_u 4 hd;
  do (v, h2) <- read_u 2 h1;
  do _ <- check ((sg =? w_8BPS) && ((v =? 1) || (v =? 2)) && all_zero (firstn 6 h2));
  let nb := if v =? 1 then 4%nat else 8%nat in
  do (cl, s2) <- skip_block 4 1 s1;                      (* color mode data *)
  do (rl, s3) <- read_u 4 s2;                            (* image resources *)
  do (rreg, s4) <- take rl s3;
  do rlay <- walk_resources (S (length rreg)) rreg;
  do (ll, s5) <- read_u nb s4;                           (* layer and mask information *)
  do (lreg, s6) <- take ll s5;
  do llay <- walk_lami v nb lreg;
  do (c, s7) <- read_u 2 s6;                             (* image data: the rest of the file *)
  do _ <- check (c <=? 3);
  Ok ([(K_HEADER, 26); (K_CMD, 4 + cl); (K_RESOURCES, 4 + rl)] ++ rlay ++
      [(K_LAMI, Z.of_nat nb + ll)] ++ llay ++ [(K_IMAGE, len s6)]).
