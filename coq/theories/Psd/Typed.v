(* A modelled payload inside its container: TaggedBlock.write serialises the payload object into the length block,
   TaggedBlock.read hands the bytes of the block to the class registered for the key (TYPES).  Generic in the payload:
   any writer [w] whose reported count is truthful and any reader [rd] that inverts it on the block content. *)
From PsdV Require Import Base.Prelude Psd.Codec Psd.Model Psd.Proofs.
From Coq Require Import ZArith List Bool Lia.
Import ListNotations.
Open Scope Z_scope.

Definition write_payload_block (v padding sg key : Z) (w : W) : W :=
  w_fmt (pk_cat [pack_u 4 sg; pack_u 4 key]) +++ w_length_block 0 (tb_len_bytes v key) padding w.
Definition read_payload_block {X} (rd : stream -> res X) (v padding : Z) (s : stream) : res (option (Z * Z * X * stream)) :=
  do r <- read_tagged_block v padding s;
  match r with
  | None => Ok None
  | Some (b, s1) => do x <- rd (tb_data b); Ok (Some (tb_sig b, tb_key b, x, s1))
  end.

Theorem payload_block_rt {X} v pad sg key (w : W) (rd : stream -> res X) (x : X) bs n rest :
  (pad = 1 \/ pad = 2 \/ pad = 4) -> memz sg model_tb_sigs = true -> wtruth w ->
  (forall body m, w = Ok (body, m) -> rd body = Ok x) ->
  write_payload_block v pad sg key w = Ok (bs, n) ->
  read_payload_block rd v pad (bs ++ rest) = Ok (Some (sg, key, x, rest)).
Proof.
  intros Hpad Hsg Hw Hrd H. unfold write_payload_block in H.
  apply w_seq_inv in H as (b1 & n1 & b2 & n2 & H1 & H2 & -> & ->).
  pose proof (fun hd => length_block_rt 0 (tb_len_bytes v key) pad w b2 n2 rest ltac:(lia) hd Hw H2) as X0.
  destruct X0 as (body & Hb & Hr).
  { destruct (tb_len_bytes_cases v key) as [-> | ->]; destruct Hpad as [-> | [-> | ->]]; reflexivity. }
  assert (Hwb : write_tagged_block v pad (mkTB sg key body) = Ok (b1 ++ b2, n1 + n2)).
  { unfold write_tagged_block. cbn [tb_sig tb_key tb_data]. rewrite H1.
    unfold w_length_block in *. rewrite Hb in H2. cbn [bind fst snd w_bytes] in *.
    destruct (pack_u (tb_len_bytes v key) (len body)); [|discriminate]. cbn [bind] in *.
    unfold w_seq. cbn [bind fst snd]. inversion H2; subst. reflexivity. }
  unfold read_payload_block.
  rewrite (tagged_block_rt v pad (mkTB sg key body) _ _ rest Hpad Hsg Hwb). cbn [bind tb_data tb_sig tb_key].
  rewrite (Hrd body _ Hb). reflexivity.
Qed.

(* the same for an image resource: ImageResource.write (payload.write(f, padding=1)) / read (TYPES[key].frombytes) *)
Section Res.
  Variable enc_s : list Z -> res (list Z).
  Variable dec_s : list Z -> res (list Z).
  Definition write_payload_resource (sg key : Z) (name : list Z) (w : W) : W :=
    w_fmt (pk_cat [pack_u 4 sg; pack_u 2 key]) +++ w_pascal enc_s name 2 +++ w_length_block 0 4 2 w.
  Definition read_payload_resource {X} (rd : stream -> res X) (s : stream) : res (Z * Z * list Z * X * stream) :=
    do (r, s1) <- read_resource dec_s s; do x <- rd (ir_data r); Ok (ir_sig r, ir_key r, ir_name r, x, s1).

  Theorem payload_resource_rt {X} sg key name (w : W) (rd : stream -> res X) (x : X) bs n rest :
    memz sg model_res_sigs = true -> wf_name enc_s dec_s name = true -> wtruth w ->
    (forall body m, w = Ok (body, m) -> rd body = Ok x) ->
    write_payload_resource sg key name w = Ok (bs, n) ->
    read_payload_resource rd (bs ++ rest) = Ok (sg, key, name, x, rest).
  Proof.
    intros Hsg Hname Hw Hrd H. unfold write_payload_resource in H.
    apply w_seq_inv in H as (b12 & n12 & b3 & n3 & H & H3 & -> & ->).
    pose proof (length_block_rt 0 4 2 w b3 n3 rest ltac:(lia) eq_refl Hw H3) as (body & Hb & Hr).
    assert (Hwr : write_resource enc_s (mkRes sg key name body) = Ok (b12 ++ b3, n12 + n3)).
    { unfold write_resource. cbn [ir_sig ir_key ir_name ir_data]. rewrite H.
      unfold w_length_block in *. rewrite Hb in H3. cbn [bind fst snd w_bytes] in *.
      destruct (pack_u 4 (len body)); [|discriminate]. cbn [bind] in *.
      unfold w_seq. cbn [bind fst snd]. inversion H3; subst. reflexivity. }
    unfold read_payload_resource.
    assert (Hwfr : wf_resource enc_s dec_s (mkRes sg key name body) = true)
      by (unfold wf_resource; cbn [ir_sig ir_name]; now rewrite Hsg, Hname).
    destruct (resource_rt enc_s dec_s (mkRes sg key name body) (b12 ++ b3) (n12 + n3) rest Hwfr Hwr) as [Hrr _].
    rewrite Hrr. cbn [bind ir_data ir_sig ir_key ir_name]. rewrite (Hrd body _ Hb). reflexivity.
  Qed.
End Res.
