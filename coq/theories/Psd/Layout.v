(* The block layout of a document as the WRITER emits it: for every block the walker of Walk.v is
   supposed to find, its kind and the number of bytes its writer produced, in pre-order.
   (Sizes are taken from the writers themselves - [blen] - so that the theorem
   [walk (write d) = layout_of d] says: navigating by the length fields alone one finds exactly the
   blocks that were written, where they were written.)  Definitions only. *)
From PsdV Require Import Base.Prelude Psd.Codec Psd.Model Psd.Walk.
From Coq Require Import ZArith List Bool.
Import ListNotations.
Open Scope Z_scope.

Definition blen (w : W) : Z := match w with Ok (b, _) => len b | Err _ => 0 end.

Section Layout.
  Variable enc_s : list Z -> res (list Z).

  Definition write_mask_opt (o : option mask_data) : W :=
    match o with Some m => write_mask m | None => w_fmt (pack_u 4 0) end.
  Definition lay_record (v : Z) (r : layer_record) : layout :=
    (K_RECORD, blen (write_record enc_s v r)) ::
    (K_MASK, blen (write_mask_opt (r_mask r))) ::
    (K_RANGES, blen (write_ranges (r_ranges r))) ::
    (K_NAME, blen (w_pascal enc_s (r_name r) 4)) ::
    map (fun b => (K_LTB, blen (write_tagged_block v 1 b))) (r_blocks r).
  Definition lay_channels (cs : list (list channel_data)) : layout :=
    flat_map (map (fun c => (K_CHANNEL, blen (write_channel_data c)))) cs.
  Definition opt_list {A} (o : option (list A)) : list A := match o with Some l => l | None => [] end.
  Definition lay_li (v pad : Z) (li : layer_info) : layout :=
    (K_LAYERINFO, blen (write_layer_info enc_s v pad li)) ::
    (if li_count li =? 0 then []
     else flat_map (lay_record v) (opt_list (li_records (li_update li))) ++
          lay_channels (opt_list (li_chans (li_update li)))).
  Definition lay_lami (v pad : Z) (l : lami) : layout :=
    match la_info l with
    | None => []
    | Some li =>
        lay_li v pad li ++
        match la_glmi l with
        | None => []
        | Some g => (K_GLMI, blen (write_glmi g)) ::
                    map (fun b => (K_GTB, blen (write_tagged_block v 4 b))) (opt_list (la_blocks l))
        end
    end.
  Definition layout_of (pad : Z) (d : psd) : layout :=
    let v := h_version (p_header d) in
    [(K_HEADER, blen (write_header (p_header d))); (K_CMD, blen (write_cmd (p_cmd d)));
     (K_RESOURCES, blen (write_resources enc_s (p_res d)))] ++
    map (fun r => (K_RES, blen (write_resource enc_s r))) (p_res d) ++
    [(K_LAMI, blen (write_lami enc_s v pad (p_lami d)))] ++ lay_lami v pad (p_lami d) ++
    [(K_IMAGE, blen (write_image_data (p_img d)))].
End Layout.
