(* Stage 3 (2): psd_tools.psd.vector - Path and its 26-byte records (PathFillRule, InitialFillRule,
   ClipboardRecord, ClosedPath / OpenPath with their knots, the four Knot kinds), VectorMaskSetting ('vmsk' /
   'vsms'), VectorStrokeContentSetting ('vscg', descriptor based).  Fixed-point coordinates are carried as the
   signed 32-bit integers on disk (decode_fixed_point / encode_fixed_point are exact on them).
   Deviation: the items of a Subpath are knots here; the code would read ANY record type inside a Subpath (also a
   nested Subpath) - a nested record makes this reader fail with KeyErr.  Definitions only. *)
From PsdV Require Import Base.Prelude Psd.Codec Psd.Model Psd.Struct Psd.Descriptor.
From Coq Require Import ZArith List Bool Lia.
Import ListNotations.
Open Scope Z_scope.

Definition L_fill : list fspec := [FX 24].                                  (* PathFillRule "24x" *)
Definition L_init : list fspec := [FU 2; FX 22].                            (* InitialFillRule "H22x" *)
Definition L_clip : list fspec := rep 5 (FS 4) ++ [FX 4].                   (* ClipboardRecord "5i4x" *)
Definition L_knot : list fspec := rep 6 (FS 4).                             (* Knot "6i" *)
Definition L_subhdr : list fspec := [FU 2; FS 2; FU 2; FU 4; FU 4] ++ rep 10 (FU 1).   (* Subpath "HhH2I10s" *)
Definition model_path_selectors : list Z := [0; 1; 2; 3; 4; 5; 6; 7; 8].   (* PathResourceID *)
Definition is_knot_sel (sel : Z) : bool := memz sel [1; 2; 4; 5].
Definition is_sub_sel (sel : Z) : bool := memz sel [0; 3].
Definition plain_layout (sel : Z) : option (list fspec) :=
  if sel =? 6 then Some L_fill else if sel =? 8 then Some L_init else if sel =? 7 then Some L_clip
  else if is_knot_sel sel then Some L_knot else None.

Inductive prec :=
| PRec (sel : Z) (vals : list Z)                                   (* fill rule, initial fill, clipboard, a knot *)
| PSub (sel : Z) (hdr : list Z) (knots : list (Z * list Z)).       (* Closed/OpenPath: operation, unknown1, unknown2, index,
                                                                      the 10 undocumented bytes; its knots *)
Definition w_knot (k : Z * list Z) : W := w_fmt (pack_u 2 (fst k)) +++ w_fmt (pack_fields L_knot (snd k)).
Definition write_prec (r : prec) : W :=
  match r with
  | PRec sel vals =>
      w_fmt (pack_u 2 sel) +++
      w_fmt (match plain_layout sel with Some sp => pack_fields sp vals | None => Err KeyErr end)
  | PSub sel hdr knots =>
      w_fmt (pack_u 2 sel) +++ w_fmt (pack_fields L_subhdr (len knots :: hdr)) +++ w_concat (map w_knot knots)
  end.
Definition write_path (padding : Z) (p : list prec) : W := w_then_pad (w_concat (map write_prec p)) padding.

Definition r_knot (s : stream) : res (Z * list Z * stream) :=
  do (sel, s1) <- read_u 2 s;
  if negb (memz sel model_path_selectors) then Err ValueErr else
  if negb (is_knot_sel sel) then Err KeyErr else
  do (vals, s2) <- unpack_fields L_knot s1; Ok ((sel, vals), s2).
Definition read_prec (s : stream) : res (prec * stream) :=
  do (sel, s1) <- read_u 2 s;
  if negb (memz sel model_path_selectors) then Err ValueErr else          (* PathResourceID(...) *)
  if is_sub_sel sel then
    do (h, s2) <- unpack_fields L_subhdr s1;
    do (knots, s3) <- read_n (Z.to_nat (hd 0 h)) r_knot s2;
    Ok (PSub sel (tl h) knots, s3)
  else
    match plain_layout sel with
    | Some sp => do (vals, s2) <- unpack_fields sp s1; Ok (PRec sel vals, s2)
    | None => Err KeyErr
    end.
Fixpoint read_path (fuel : nat) (s : stream) : res (list prec) :=
  match fuel with
  | O => Err OutOfFuel
  | S f => if is_readable 26 s then do (r, s1) <- read_prec s; do rs <- read_path f s1; Ok (r :: rs) else Ok []
  end.

Definition wf_prec (r : prec) : bool :=
  match r with
  | PRec sel vals => match plain_layout sel with Some sp => wf_fields sp vals | None => false end
  | PSub sel hdr knots => is_sub_sel sel && forallb (fun k : Z * list Z => is_knot_sel (fst k)) knots
  end.

(* VectorMaskSetting: "2I" (version, flags) then the path, padded to 4 *)
Definition write_vmask (version flags : Z) (p : list prec) : W :=
  w_fmt (pk_cat [pack_u 4 version; pack_u 4 flags]) +++ write_path 4 p.
Definition read_vmask (s : stream) : res (Z * Z * list prec) :=
  do (version, s1) <- read_u 4 s; do (flags, s2) <- read_u 4 s1;
  if negb (version =? 3) then Err AssertErr else
  do p <- read_path (S (length s2)) s2; Ok (version, flags, p).

(* VectorStrokeContentSetting: "4sI" (key, version) + descriptor body + padding *)
Definition write_vscg (t : terms) (padding : Z) (key version : Z) (d : dval) : W :=
  w_then_pad (w_fmt (pk_cat [pack_u 4 key; pack_u 4 version]) +++ write_dval t d) padding.
Definition read_vscg (units : list Z) (t : terms) (s : stream) : res (Z * Z * dval * terms) :=
  do (key, s1) <- read_u 4 s; do (version, s2) <- read_u 4 s1;
  do (r, _) <- read_dval units (S (length s2)) t OS_Objc s2;
  Ok (key, version, fst r, snd r).
