(* C02 stage 2/3 - the modelled payload classes (Psd/Effects.v, Patterns.v, Adjust.v, Vector.v, Descriptor.v,
   Linked.v): for every byte string their class reader accepts, the value read lies in the domain of the class round trip
   (the wf predicates), hence - by the _rt theorems of the class files - whatever the writer emits for it re-reads to the same value
   and re-writes identically.  Where the reader's range is larger than wf, the exact guard is defined here and the
   refutation is in Properties/C02.v.  The container level (payload inside TaggedBlock / ImageResource) comes from
   Psd/Typed.v. *)
From PsdV Require Import Base.Prelude Psd.Codec Psd.Model Psd.Proofs Psd.Leaf Psd.Struct Psd.Typed
  Psd.Effects Psd.EffectsProofs Psd.Descriptor Psd.DescriptorProofs Psd.Adjust Psd.AdjustProofs Psd.Vector Psd.VectorProofs Psd.Patterns Psd.PatternsProofs Psd.Linked Psd.LinkedProofs Psd.Resave Psd.ResaveProofs Psd.ResaveWrite.
From Coq Require Import ZArith List Bool Lia ZifyBool.
Import ListNotations.
Open Scope Z_scope.

(* open every bind of a hypothesis, names chosen by Coq *)
Ltac dall H := repeat dskip H.
Ltac dchk H :=
  match type of H with
  | bind (chk_sig ?x) _ = Ok _ => let E := fresh "Esig" in destruct (chk_sig x) as [[]|] eqn:E; [cbn [bind] in H|discriminate H]
  | bind (chk_blend ?x) _ = Ok _ => let E := fresh "Ebl" in destruct (chk_blend x) as [[]|] eqn:E; [cbn [bind] in H|discriminate H]
  end.
Lemma chk_blend_ok b : chk_blend b = Ok tt -> memz b model_blend_modes = true.
Proof. unfold chk_blend. destruct (memz b model_blend_modes); [reflexivity|discriminate]. Qed.

(* ------------------------------------------------------------------ EffectsLayer *)
Lemma read_effect_wf kind s e : read_effect kind s = Ok e -> effect_kind e = kind /\ wf_effect e = true.
Proof.
  unfold read_effect. intros H.
  destruct (kind =? 1) eqn:K1; [apply Z.eqb_eq in K1; subst|].
  { dall H. inversion H; subst. auto. }
  destruct (kind =? 2) eqn:K2; [apply Z.eqb_eq in K2; subst|].
  { do 6 dskip H. dskip H. dchk H. dskip H. dchk H. dall H. inversion H; subst. split; [reflexivity|]. cbn [wf_effect]. now apply chk_blend_ok. }
  destruct (kind =? 3) eqn:K3; [apply Z.eqb_eq in K3; subst|].
  { dres H as b s1 Eb. destruct b as [[[[[[version blur] intensity] col] blend] enabled] opacity].
    dres H as native s2 En. inversion H; subst. split; [reflexivity|]. cbn [wf_effect].
    dres1 Eb as x Ex. destruct x as [[[[[[[a b] c] d] e0] f] g] t1]. inversion Eb; subst. clear Eb.
    unfold r_glow_body in Ex. do 4 dskip Ex. dskip Ex. dchk Ex. dskip Ex. dchk Ex. dall Ex. inversion Ex; subst.
    rewrite (chk_blend_ok _ Ebl). cbn [andb]. unfold r_opt in En. destruct (2 <=? version).
    - dskip En. inversion En; subst. reflexivity.
    - inversion En; subst. reflexivity. }
  destruct (kind =? 4) eqn:K4; [apply Z.eqb_eq in K4; subst|].
  { dres H as b s1 Eb. destruct b as [[[[[[version blur] intensity] col] blend] enabled] opacity].
    dres1 Eb as x Ex. destruct x as [[[[[[[a b] c] d] e0] f] g] t1]. inversion Eb; subst. clear Eb.
    unfold r_glow_body in Ex. do 4 dskip Ex. dskip Ex. dchk Ex. dskip Ex. dchk Ex. dall Ex. inversion Ex; subst.
    destruct (2 <=? version) eqn:Ev.
    - dall H. inversion H; subst. split; [reflexivity|]. cbn [wf_effect is_some]. now rewrite (chk_blend_ok _ Ebl), Ev.
    - inversion H; subst. split; [reflexivity|]. cbn [wf_effect is_some]. now rewrite (chk_blend_ok _ Ebl), Ev. }
  destruct (kind =? 5) eqn:K5; [apply Z.eqb_eq in K5; subst|].
  { do 6 dskip H. dchk H. do 2 dskip H. dchk H. do 8 dskip H. dres H as real s17 Er. dchk H. dchk H.
    inversion H; subst. split; [reflexivity|]. cbn [wf_effect].
    rewrite (chk_blend_ok _ Ebl), (chk_blend_ok _ Ebl0). cbn [andb]. unfold r_opt in Er.
    match type of Er with (if ?c then _ else _) = _ => destruct c end.
    - dskip Er. inversion Er; subst. reflexivity.
    - inversion Er; subst. reflexivity. }
  destruct (kind =? 6) eqn:K6; [apply Z.eqb_eq in K6; subst|discriminate].
  { do 3 dskip H. dchk H. do 4 dskip H. dchk H. inversion H; subst. split; [reflexivity|]. cbn [wf_effect]. now apply chk_blend_ok. }
Qed.

Definition fx_item_ok (ke : Z * effect) : bool :=
  match assocz (fst ke) model_effect_types with
  | Some k => (k =? effect_kind (snd ke)) && wf_effect (snd ke)
  | None => false
  end.
Lemma read_effect_items_wf : forall n s items s', read_effect_items n s = Ok (items, s') ->
  Forall (fun ke => fx_item_ok ke = true) items.
Proof.
  induction n as [|n IH]; intros s items s' H; cbn [read_effect_items] in H.
  - inversion H. constructor.
  - dskip H. dchk H. dres H as key s2 Ek. destruct (assocz key model_effect_types) as [kind|] eqn:Ea; [|discriminate].
    dskip H. dres1 H as e Ee. dres H as r s4 Er. inversion H; subst.
    constructor; [|eapply IH; eassumption]. unfold fx_item_ok. cbn [fst snd]. rewrite Ea.
    destruct (read_effect_wf _ _ _ Ee) as [-> Hw]. now rewrite Z.eqb_refl, Hw.
Qed.
Theorem read_effects_wf b l : read_effects b = Ok l -> wf_effects l = true.
Proof.
  unfold read_effects. intros H. dskip H. dskip H. dres H as items s3 Ei. inversion H; subst.
  apply read_effect_items_wf in Ei. destruct (od_build_props fst _ _ Ei) as [Hn Hf].
  unfold wf_effects. cbn [fx_items]. rewrite Hn, andb_true_r. apply Forall_forallb. exact Hf.
Qed.
Theorem effects_resave b l s n : read_effects b = Ok l -> write_effects l = Ok (s, n) -> read_effects s = Ok l.
Proof. intros Hr Hw. exact (effects_rt l s n (read_effects_wf b l Hr) Hw). Qed.

(* ------------------------------------------------------------------ fixed layouts: what unpack_fields yields is well-formed *)
Definition fs_ok (sp : list fspec) : bool :=
  forallb (fun f => match f with FS n => negb (n =? 0)%nat | _ => true end) sp.
Lemma unpack_wf sp : fs_ok sp = true -> forall s vs s', unpack_fields sp s = Ok (vs, s') -> wf_fields sp vs = true.
Proof.
  induction sp as [|f sp IH]; intros Hok s vs s' H; [reflexivity|].
  cbn [fs_ok forallb] in Hok. apply andb_prop in Hok as [Hf Hok].
  destruct f as [n|n|n|]; cbn [unpack_fields] in H.
  - dres H as v s1 E1. dres H as r s2 E2. inversion H; subst. cbn [wf_fields]. eapply IH; eassumption.
  - dres H as v s1 E1. dres H as r s2 E2. inversion H; subst. cbn [wf_fields]. rewrite Hf. eapply IH; eassumption.
  - dres H as v s1 E1. cbn [wf_fields]. eapply IH; eassumption.
  - dres H as v s1 E1. dres H as r s2 E2. inversion H; subst. cbn [wf_fields].
    rewrite (IH Hok _ _ _ E2), andb_true_r. destruct (v =? 0); reflexivity.
Qed.
Lemma unpack_rows_wf sp : fs_ok sp = true -> forall n s rows s', unpack_rows sp n s = Ok (rows, s') ->
  forallb (wf_fields sp) rows = true /\ length rows = n.
Proof.
  intros Hok. induction n as [|n IH]; intros s rows s' H; cbn [unpack_rows] in H.
  - inversion H. auto.
  - dres H as r s1 E1. dres H as rs s2 E2. inversion H; subst. destruct (IH _ _ _ E2) as [H1 H2].
    cbn [forallb length]. now rewrite (unpack_wf sp Hok _ _ _ E1), H1, H2.
Qed.
Lemma unpack_join h t s a s1 b s2 :
  unpack_fields h s = Ok (a, s1) -> unpack_fields t s1 = Ok (b, s2) -> unpack_fields (h ++ t) s = Ok (a ++ b, s2).
Proof. intros Ha Hb. rewrite unpack_app, Ha. cbn [bind]. rewrite Hb. reflexivity. Qed.

Ltac use_unpack Hj :=
  match type of Hj with unpack_fields ?sp _ = Ok _ => rewrite (unpack_wf sp ltac:(first [reflexivity|assumption]) _ _ _ Hj) end.

(* ------------------------------------------------------------------ adjustments: struct-like classes *)
Theorem read_astruct_wf k s vals : read_astruct k s = Ok vals -> wf_astruct k vals = true.
Proof.
  unfold read_astruct. intros H. dres H as hv s1 E1.
  match type of H with bind ?c _ = _ => destruct c as [[]|] eqn:Ec; [cbn [bind] in H|discriminate H] end.
  dres H as tl s2 E2.
  assert (Hres : vals = hv ++ tl /\ (k = SSelc -> hd 0 hv = 1)).
  { destruct k; try (inversion H; split; [reflexivity|discriminate]).
    destruct (hd 0 hv =? 1) eqn:Ev; [|discriminate]. inversion H. split; [reflexivity|]. intros _. lia. }
  destruct Hres as [-> Hsel]. clear H.
  pose proof (unpack_join _ _ _ _ _ _ _ E1 E2) as Hj.
  unfold wf_astruct.
  destruct k; cbn [astruct_layout fst snd] in *.
  - use_unpack Hj. reflexivity.
  - use_unpack Hj. reflexivity.
  - use_unpack Hj. reflexivity.
  - use_unpack Hj. cbn [andb].
    destruct (unpack_FU_cons _ _ _ _ _ E1) as (v & a' & ->). cbn [hd app] in *. destruct (v =? 2); [reflexivity|discriminate].
  - use_unpack Hj. cbn [andb].
    destruct (unpack_FU_cons _ _ _ _ _ E1) as (v & a' & ->). cbn [hd app] in *. specialize (Hsel eq_refl). lia.
  - destruct (unpack_FU_cons _ _ _ _ _ E1) as (v & a' & ->). cbn [hd app] in *.
    assert (Hok : fs_ok ([FU 2] ++ (if v =? 3 then L_phfl3 else L_phfl2)) = true) by (destruct (v =? 3); reflexivity).
    change (FU 2 :: (if v =? 3 then L_phfl3 else L_phfl2)) with ([FU 2] ++ (if v =? 3 then L_phfl3 else L_phfl2)).
    rewrite (unpack_wf _ Hok _ _ _ Hj). cbn [andb].
    destruct ((v =? 2) || (v =? 3)); [reflexivity|discriminate].
Qed.
Theorem astruct_resave pad k b vals s n :
  read_astruct k b = Ok vals -> write_astruct pad k vals = Ok (s, n) -> read_astruct k s = Ok vals.
Proof. intros Hr Hw. exact (astruct_rt pad k vals s n (read_astruct_wf k b vals Hr) Hw). Qed.

Theorem read_mixer_wf s vals tail : read_mixer s = Ok (vals, tail) -> wf_fields L_mixr vals = true /\ hd 0 vals = 1.
Proof.
  unfold read_mixer. intros H. dres H as v s1 E. destruct (hd 0 v =? 1) eqn:Ev; [|discriminate]. inversion H; subst.
  split; [exact (unpack_wf L_mixr eq_refl _ _ _ E)|lia].
Qed.
Theorem mixer_resave b vals tail s n :
  read_mixer b = Ok (vals, tail) -> write_mixer vals tail = Ok (s, n) -> read_mixer s = Ok (vals, tail).
Proof. intros Hr Hw. destruct (read_mixer_wf _ _ _ Hr) as [H1 H2]. exact (mixer_rt vals tail s n H1 H2 Hw). Qed.

(* ------------------------------------------------------------------ Levels, Curves, GradientMap *)
Theorem read_levels_wf s version recs extra :
  read_levels s = Ok (version, recs, extra) -> wf_levels version recs extra = true.
Proof.
  unfold read_levels. intros H. dres H as v s1 E1. destruct (negb (v =? 2)) eqn:Ev; [discriminate|].
  apply negb_false_iff in Ev. dres H as rows s2 E2.
  destruct (unpack_rows_wf L_level eq_refl _ _ _ _ E2) as [_ Hl].
  assert (Hlen : len rows = 29) by (unfold len; rewrite Hl; reflexivity).
  unfold wf_levels. destruct (is_readable 6 s2).
  - dres H as sg s3 E3. dres H as ev s4 E4. destruct (negb (sg =? sig_Lvls)); [discriminate|].
    destruct (negb (ev =? 3)) eqn:Ee; [discriminate|]. apply negb_false_iff in Ee.
    dres H as count s5 E5. dres H as more s6 E6. inversion H; subst. rewrite Ev, Ee, len_app, Hlen.
    pose proof (len_nonneg more). cbn [andb]. rewrite andb_true_r. lia.
  - inversion H; subst. rewrite Ev, Hlen. reflexivity.
Qed.
Theorem levels_resave b version recs extra s n :
  read_levels b = Ok (version, recs, extra) -> write_levels version recs extra = Ok (s, n) ->
  read_levels s = Ok (version, recs, extra).
Proof. intros Hr Hw. exact (levels_rt version recs extra s n (read_levels_wf _ _ _ _ Hr) Hw). Qed.

Lemma read_n_length {A} (rd : stream -> res (A * stream)) n s l s' : read_n n rd s = Ok (l, s') -> length l = n.
Proof. intros H. exact (proj2 (read_n_props rd (fun _ => True) (fun _ _ _ _ => I) n s l s' H)). Qed.
Lemma even_len_double (l : list Z) k : len l = 2 * k -> even_len l = true /\ len l / 2 = k.
Proof.
  intros H. unfold even_len. rewrite H. replace (2 * k) with (k * 2) by lia.
  rewrite Z.mod_mul, Z.div_mul by lia. auto.
Qed.
Lemma r_points_even s c s' : r_points s = Ok (c, s') -> even_len c = true.
Proof.
  unfold r_points. intros H. dres H as pc s1 E1. apply read_n_length in H.
  apply (proj1 (even_len_double c (Z.max 0 pc) ltac:(unfold len; rewrite H; lia))).
Qed.
Lemma r_map256_len s m s' : r_map256 s = Ok (m, s') -> length m = 256%nat.
Proof. unfold r_map256. apply read_n_length. Qed.

Definition curve_ok (is_map : bool) (x : list Z) : bool :=
  if is_map then (length x =? 256)%nat else even_len x && (2 <=? len x / 2) && (len x / 2 <=? 19).
Lemma read_curve_list_wf is_map : forall n s data s', read_curve_list n is_map s = Ok (data, s') ->
  forallb (curve_ok is_map) data = true.
Proof.
  induction n as [|n IH]; intros s data s' H; cbn [read_curve_list] in H.
  - inversion H. reflexivity.
  - dres H as c s1 Ec. dres H as cs s2 Ecs. inversion H; subst. cbn [forallb]. rewrite (IH _ _ _ Ecs), andb_true_r.
    unfold curve_ok. destruct is_map.
    + rewrite (r_map256_len _ _ _ Ec). reflexivity.
    + dres Ec as pc a Ep. destruct ((2 <=? pc) && (pc <=? 19)) eqn:Er; [|discriminate].
      apply read_n_length in Ec.
      destruct (even_len_double c pc ltac:(unfold len; rewrite Ec; lia)) as [He Hd]. rewrite He, Hd. cbn [andb]. exact Er.
Qed.
Lemma extra_items_wf is_map : forall n s items s', read_n n (r_extra_item is_map) s = Ok (items, s') ->
  forallb (fun it : extra_item => let '(_, as_map, vals) := it in
             Bool.eqb as_map is_map && (if as_map then (length vals =? 256)%nat else even_len vals)) items = true.
Proof.
  induction n as [|n IH]; intros s items s' H; cbn [read_n] in H.
  - inversion H. reflexivity.
  - dres H as it s1 Ei. dres H as r s2 Er. inversion H; subst. cbn [forallb]. rewrite (IH _ _ _ Er), andb_true_r.
    unfold r_extra_item in Ei. dres Ei as ch t1 E1. dres Ei as vals t2 E2. inversion Ei; subst.
    rewrite eqb_reflx. cbn [andb]. destruct is_map.
    + now rewrite (r_map256_len _ _ _ E2).
    + exact (r_points_even _ _ _ E2).
Qed.
Theorem read_curves_wf s c : read_curves s = Ok c -> wf_curves c = true.
Proof.
  unfold read_curves. intros H. dres H as im s1 E1. dres H as version s2 E2. dres H as cm s3 E3.
  destruct (negb ((version =? 1) || (version =? 4))) eqn:Ev; [discriminate|]. apply negb_false_iff in Ev.
  dres H as data s4 Ed. destruct (negb (len data =? _)) eqn:El; [discriminate|]. apply negb_false_iff in El.
  dres1 H as extra Ex. inversion H; subst. clear H.
  unfold wf_curves. cbn [cv_version cv_count_map cv_data cv_is_map cv_extra]. rewrite Ev, El. cbn [andb].
  pose proof (read_curve_list_wf _ _ _ _ _ Ed) as Hd. unfold curve_ok in Hd. rewrite Hd. cbn [andb].
  destruct (version =? 1) eqn:E1v.
  - destruct (read_marker (negb (im =? 0)) s4) as [m|e] eqn:Em.
    + inversion Ex; subst. destruct m as [mv items]. cbn [andb].
      unfold read_marker in Em. dres Em as sg t1 F1. dres Em as mv0 t2 F2. dres Em as count t3 F3.
      destruct (negb (sg =? sig_Crv)); [discriminate|]. dres Em as its t4 F4.
      destruct (negb (len its =? count)); [discriminate|].
      destruct ((mv0 =? 3) || (mv0 =? 4)) eqn:Emv; [|discriminate]. inversion Em; subst. rewrite Emv. cbn [andb].
      exact (extra_items_wf _ _ _ _ _ F4).
    + destruct e; try discriminate. inversion Ex; subst. reflexivity.
  - inversion Ex; subst. reflexivity.
Qed.
Theorem curves_resave b c s n : read_curves b = Ok c -> write_curves c = Ok (s, n) -> read_curves s = Ok c.
Proof. intros Hr Hw. exact (curves_rt c s n (read_curves_wf b c Hr) Hw). Qed.

Theorem read_gradient_wf s g : read_gradient s = Ok g -> wf_gradient g = true.
Proof.
  unfold read_gradient. intros H. dres H as head s1 E1.
  destruct (negb ((hd 0 head =? 1) || (hd 0 head =? 3))) eqn:Ev; [discriminate|]. apply negb_false_iff in Ev.
  dres H as method s2 E2. dres H as name s3 E3. dres H as nc s4 E4. dres H as cst s5 E5. dres H as nt s6 E6.
  dres H as tst s7 E7. dres H as t1 s8 E8. destruct (negb (hd 0 t1 =? 2)) eqn:Et; [discriminate|]. apply negb_false_iff in Et.
  dres H as t2 s9 E9.
  destruct (memz method model_gradient_methods && (nth 2 (t1 ++ t2) 0 =? 32)) eqn:Em; [|discriminate].
  inversion H; subst. clear H. apply andb_prop in Em as [Hm Hn].
  unfold wf_gradient. cbn [gm_head gm_method gm_tail]. rewrite Ev, Hm, Hn. cbn [andb]. rewrite andb_true_r.
  destruct (unpack_FU_cons _ _ _ _ _ E8) as (v & a' & ->). cbn [hd app] in *. rewrite Et, andb_true_r.
  destruct (hd 0 head =? 3) eqn:E3v; [reflexivity|]. inversion E2; subst. reflexivity.
Qed.
Theorem gradient_resave b g s n : read_gradient b = Ok g -> write_gradient g = Ok (s, n) -> read_gradient s = Ok g.
Proof. intros Hr Hw. exact (gradient_rt g s n (read_gradient_wf b g Hr) Hw). Qed.

(* ------------------------------------------------------------------ vector paths, VectorMaskSetting *)
Lemma plain_layout_ok sel sp : plain_layout sel = Some sp -> fs_ok sp = true.
Proof.
  unfold plain_layout. destruct (sel =? 6); [intros H; inversion H; reflexivity|].
  destruct (sel =? 8); [intros H; inversion H; reflexivity|]. destruct (sel =? 7); [intros H; inversion H; reflexivity|].
  destruct (is_knot_sel sel); [intros H; inversion H; reflexivity|discriminate].
Qed.
Lemma read_prec_wf s r s' : read_prec s = Ok (r, s') -> wf_prec r = true.
Proof.
  unfold read_prec. intros H. dres H as sel s1 E1. destruct (negb (memz sel model_path_selectors)); [discriminate|].
  destruct (is_sub_sel sel) eqn:Es.
  - dres H as h s2 E2. dres H as knots s3 E3. inversion H; subst. cbn [wf_prec]. rewrite Es. cbn [andb].
    apply Forall_forallb.
    refine (proj1 (read_n_props r_knot (fun k => is_knot_sel (fst k) = true) _ _ _ _ _ E3)).
    intros t a t' Ha. unfold r_knot in Ha. dres Ha as sl u1 F1. destruct (negb (memz sl model_path_selectors)); [discriminate|].
    destruct (negb (is_knot_sel sl)) eqn:Ek; [discriminate|]. apply negb_false_iff in Ek.
    dres Ha as vals u2 F2. inversion Ha; subst. exact Ek.
  - destruct (plain_layout sel) as [sp|] eqn:El; [|discriminate]. dres H as vals s2 E2. inversion H; subst.
    cbn [wf_prec]. rewrite El. exact (unpack_wf sp (plain_layout_ok sel sp El) _ _ _ E2).
Qed.
Lemma read_path_wf : forall fuel s p, read_path fuel s = Ok p -> forallb wf_prec p = true.
Proof.
  induction fuel as [|f IH]; intros s p H; cbn [read_path] in H; [discriminate|].
  destruct (is_readable 26 s); [|inversion H; reflexivity].
  dres H as r s1 Er. dres1 H as rs Ers. inversion H; subst. cbn [forallb].
  now rewrite (read_prec_wf _ _ _ Er), (IH _ _ Ers).
Qed.
Theorem read_vmask_wf s version flags p : read_vmask s = Ok (version, flags, p) -> version = 3 /\ forallb wf_prec p = true.
Proof.
  unfold read_vmask. intros H. dres H as v s1 E1. dres H as fl s2 E2.
  destruct (negb (v =? 3)) eqn:Ev; [discriminate|]. apply negb_false_iff in Ev. dres1 H as pp Ep. inversion H; subst.
  split; [lia|exact (read_path_wf _ _ _ Ep)].
Qed.
Theorem vmask_resave b version flags p s n :
  read_vmask b = Ok (version, flags, p) -> write_vmask version flags p = Ok (s, n) -> read_vmask s = Ok (version, flags, p).
Proof. intros Hr Hw. destruct (read_vmask_wf _ _ _ _ Hr) as [Hv Hp]. exact (vmask_rt version flags p s n Hv Hp Hw). Qed.

(* ------------------------------------------------------------------ Patterns *)
Lemma read_vma_wf s a s' : read_vma s = Ok (a, s') -> wf_vma a = true.
Proof.
  unfold read_vma. intros H. dres H as w s1 E1. destruct (w =? 0) eqn:Ew; [inversion H; reflexivity|].
  dres H as length s2 E2. destruct (length =? 0); [inversion H; subst; cbn [wf_vma]; now rewrite Ew|].
  dres H as depth s3 E3. dres H as rect s4 E4. dres H as pd s5 E5. dres H as comp s6 E6.
  destruct (memz comp model_compressions) eqn:Em; [|discriminate]. inversion H; subst. cbn [wf_vma]. now rewrite Ew, Em.
Qed.
Lemma read_n_u_bytes k : forall n s l s', read_n n (read_u k) s = Ok (l, s') -> bytes s -> bytes s'.
Proof.
  induction n as [|n IH]; intros s l s' H Hs; cbn [read_n] in H; [inversion H; now subst|].
  dres H as a s1 Ea. dres H as r s2 Er. inversion H; subst.
  destruct (read_u_props _ _ _ _ Ea Hs) as (_ & B1 & _). eapply IH; eassumption.
Qed.
Lemma read_vmal_wf s l s' : read_vmal s = Ok (l, s') -> bytes s -> wf_vmal l = true.
Proof.
  unfold read_vmal. intros H Hs. dres H as version s1 E1. destruct (negb (version =? 3)) eqn:Ev; [discriminate|].
  apply negb_false_iff in Ev. dres H as data s2 E2. dres H as rect f1 F1. dres H as n f2 F2. dres H as chs f3 F3.
  destruct (len chs =? n + 2) eqn:El; [|discriminate]. inversion H; subst.
  unfold wf_vmal. cbn [vl_version vl_channels]. rewrite Ev. cbn [andb].
  assert (Hf : forallb wf_vma chs = true).
  { apply Forall_forallb. exact (proj1 (read_n_props read_vma (fun a => wf_vma a = true) read_vma_wf _ _ _ _ F3)). }
  rewrite Hf, andb_true_r.
  destruct (read_u_props _ _ _ _ E1 Hs) as (_ & B1 & _).
  destruct (read_length_block_props _ _ _ _ _ _ E2 B1) as (Bd & _).
  pose proof (read_n_u_bytes _ _ _ _ _ F1 Bd) as Bf1.
  destruct (read_u_props _ _ _ _ F2 Bf1) as (Rn & _). lia.
Qed.

Lemma r_unicode_bytes pad s u s' : r_unicode pad s = Ok (u, s') -> bytes s -> bytes s'.
Proof.
  unfold r_unicode. intros H Hs. dres1 H as x Ex. destruct x as [n s1]. cbn [fst snd] in H.
  destruct (read_u_props _ _ _ _ Ex Hs) as (_ & B1 & _). dres1 H as units Eu. inversion H; subst.
  destruct (read_upto_props (n * 2) s1 B1) as (_ & Br & _). apply r_pad_props. exact Br.
Qed.
Lemma read_n_bytes {A} (rd : stream -> res (A * stream)) :
  (forall s a s', rd s = Ok (a, s') -> bytes s -> bytes s') ->
  forall n s l s', read_n n rd s = Ok (l, s') -> bytes s -> bytes s'.
Proof.
  intros Hrd. induction n as [|n IH]; intros s l s' H Hs; cbn [read_n] in H; [inversion H; now subst|].
  dres H as a s1 Ea. dres H as r s2 Er. inversion H; subst. eapply IH; [eassumption|]. eapply Hrd; eassumption.
Qed.

Section PattWf.
  Variable enc_s : list Z -> res (list Z).
  Variable dec_s : list Z -> res (list Z).
  Hypothesis Hcodec : codec_ok enc_s dec_s.

  Lemma r_rgb3_bytes s a s' : r_rgb3 s = Ok (a, s') -> bytes s -> bytes s'.
  Proof.
    unfold r_rgb3, r_rgb. intros H Hs. dres1 H as x Ex. destruct x as [[[r g] b] t]. inversion H; subst.
    dres Ex as r0 s1 E1. dres Ex as g0 s2 E2. dres Ex as b0 s3 E3. inversion Ex; subst.
    destruct (read_u_props _ _ _ _ E1 Hs) as (_ & B1 & _). destruct (read_u_props _ _ _ _ E2 B1) as (_ & B2 & _).
    destruct (read_u_props _ _ _ _ E3 B2) as (_ & B3 & _). exact B3.
  Qed.

  Theorem read_pattern_wf s p : read_pattern dec_s s = Ok p -> bytes s -> wf_pattern enc_s dec_s p = true.
  Proof.
    unfold read_pattern. intros H Hs. dres H as version s1 E1. destruct (negb (version =? 1)) eqn:Ev; [discriminate|].
    apply negb_false_iff in Ev. dres H as mode s2 E2. destruct (negb (memz mode model_color_modes)) eqn:Em; [discriminate|].
    apply negb_false_iff in Em. dres H as px s3 E3. dres H as py s4 E4. dres H as name s5 E5. dres H as pid s6 E6.
    dres H as tbl s7 E7. dres H as data s8 E8. inversion H; subst. clear H.
    destruct (read_u_props _ _ _ _ E1 Hs) as (_ & B1 & _). destruct (read_u_props _ _ _ _ E2 B1) as (_ & B2 & _).
    destruct (read_s_props 2 _ _ _ ltac:(lia) E3 B2) as (_ & B3 & _). destruct (read_s_props 2 _ _ _ ltac:(lia) E4 B3) as (_ & B4 & _).
    pose proof (r_unicode_bytes _ _ _ _ E5 B4) as B5.
    destruct (write_pascal_ok enc_s dec_s Hcodec _ _ _ _ E6 B5 ltac:(lia)) as (_ & B6 & _).
    unfold wf_pattern. cbn [pt_version pt_mode pt_id pt_table pt_data].
    rewrite Ev, Em, (r_pascal_wf enc_s dec_s Hcodec _ _ _ _ E6). cbn [andb].
    assert (Ht : match tbl with
                 | Some t => (mode =? model_indexed_mode) && (length t =? 256)%nat
                 | None => negb (mode =? model_indexed_mode)
                 end = true /\ bytes s7).
    { unfold r_opt in E7. destruct (mode =? model_indexed_mode).
      - dres E7 as t a Et. inversion E7; subst. dres Et as t0 a0 Et0. dres Et as z a2 Ez. inversion Et; subst.
        rewrite (read_n_length _ _ _ _ _ Et0). split; [reflexivity|].
        pose proof (read_n_bytes r_rgb3 r_rgb3_bytes _ _ _ _ Et0 B6) as Ba.
        exact (proj1 (proj2 (take_props _ _ _ _ Ez Ba))).
      - inversion E7; subst. auto. }
    destruct Ht as [Ht B7]. rewrite Ht. cbn [andb]. exact (read_vmal_wf _ _ _ E8 B7).
  Qed.
  Lemma read_patterns_wf : forall fuel s l, read_patterns dec_s fuel s = Ok l -> bytes s ->
    forallb (wf_pattern enc_s dec_s) l = true.
  Proof.
    induction fuel as [|f IH]; intros s l H Hs; cbn [read_patterns] in H; [discriminate|].
    destruct (is_readable 4 s); [|inversion H; reflexivity].
    dres H as data s1 Ed. dres1 H as p Ep. dres1 H as r Er. inversion H; subst.
    destruct (read_length_block_props _ _ _ _ _ _ Ed Hs) as (Bd & B1 & _).
    cbn [forallb]. now rewrite (read_pattern_wf _ _ Ep Bd), (IH _ _ Er B1).
  Qed.
  Theorem patterns_resave b l s n :
    bytes b -> read_patterns dec_s (S (length b)) b = Ok l -> write_patterns enc_s l = Ok (s, n) ->
    read_patterns dec_s (S (length s)) s = Ok l.
  Proof. intros Hb Hr Hw. exact (patterns_rt enc_s dec_s l s n (read_patterns_wf _ _ _ Hr Hb) Hw). Qed.
End PattWf.

(* ------------------------------------------------------------------ the descriptor family
   Until /repo 708c13e the reader's range was larger than wf_dval in one respect (finding F-C02-7, fixed): a key that the
   input ended inside was taken as it came - short or empty - and, when its length field was 0, ADDED TO _TERMS; the
   writer then emitted it with length 0 and the re-read took four bytes for it.  [dkeys] (every key non-empty) and
   wf_terms of the grown term set describe what was missing; since the fix both hold for everything the reader
   produces ([read_dval_keys]): the only hypothesis left is that the term table the library starts with is well
   formed (every term 4 bytes: true of psd_tools.terminology, checked by the C01 harness). *)
Fixpoint dkeys (d : dval) : bool :=
  let ok_items (items : list (key * dval)) :=
    forallb (fun kv : key * dval => let (k, v) := kv in nonempty_key k && dkeys v) items in
  match d with
  | DDesc _ _ cid items => nonempty_key cid && ok_items items
  | DObjArr _ _ cid items => nonempty_key cid && ok_items items
  | DList _ items => forallb dkeys items
  | DProperty _ cid kid => nonempty_key cid && nonempty_key kid
  | DClass _ _ cid => nonempty_key cid
  | DEnumRef _ cid tid en => nonempty_key cid && nonempty_key tid && nonempty_key en
  | DOffset _ cid _ => nonempty_key cid
  | DEnum tid en => nonempty_key tid && nonempty_key en
  | DName _ cid _ => nonempty_key cid
  | _ => true
  end.

(* OrderedDict of (key, value) pairs: keys distinct, every value is one of the values read *)
Lemma key_in_odk_insert k v d x :
  key_in x (map fst (odk_insert k v d)) = key_in x (map fst d) || (list_eqb x k && negb (key_in k (map fst d))).
Proof.
  induction d as [|[k' v'] t IH]; cbn [odk_insert map fst key_in].
  - now rewrite orb_false_r, andb_true_r.
  - destruct (list_eqb k k') eqn:E.
    + cbn [map fst key_in orb negb]. now rewrite andb_false_r, orb_false_r.
    + cbn [map fst key_in orb]. rewrite IH. now rewrite orb_assoc.
Qed.
Lemma nodupk_odk_insert k v d : nodupk (map fst d) = true -> nodupk (map fst (odk_insert k v d)) = true.
Proof.
  induction d as [|[k' v'] t IH]; intros H; cbn [odk_insert map fst nodupk]; [reflexivity|].
  cbn [map fst nodupk] in H. apply andb_prop in H as [H1 H2].
  destruct (list_eqb k k') eqn:E.
  - cbn [map fst nodupk]. now rewrite H1, H2.
  - cbn [map fst nodupk]. rewrite (IH H2), andb_true_r, key_in_odk_insert.
    apply negb_true_iff in H1. rewrite H1. cbn [orb].
    destruct (list_eqb k' k) eqn:E2; [apply list_eqb_eq in E2; subst; rewrite list_eqb_refl in E; discriminate|reflexivity].
Qed.
Lemma Forall_odk_insert (Q : dval -> Prop) k v d :
  Q v -> Forall (fun kv => Q (snd kv)) d -> Forall (fun kv : key * dval => Q (snd kv)) (odk_insert k v d).
Proof.
  intros Hv. induction 1 as [|[k' v'] t Hy Ht IH]; cbn [odk_insert]; [repeat constructor; exact Hv|].
  destruct (list_eqb k k'); constructor; auto.
Qed.
Lemma odk_build_props (Q : dval -> Prop) l : Forall (fun kv => Q (snd kv)) l ->
  nodupk (map fst (odk_build l)) = true /\ Forall (fun kv : key * dval => Q (snd kv)) (odk_build l).
Proof.
  unfold odk_build. intros H.
  assert (G : forall d, nodupk (map fst d) = true -> Forall (fun kv : key * dval => Q (snd kv)) d ->
              nodupk (map fst (fold_left (fun d kv => odk_insert (fst kv) (snd kv) d) l d)) = true /\
              Forall (fun kv : key * dval => Q (snd kv)) (fold_left (fun d kv => odk_insert (fst kv) (snd kv) d) l d)).
  { induction H as [|x l Hx Hl IH]; intros d Hd HQ; cbn [fold_left]; [auto|].
    apply IH; [now apply nodupk_odk_insert|now apply Forall_odk_insert]. }
  apply G; [reflexivity|constructor].
Qed.

(* since 708c13e: a key that was read is complete - never empty, and a key added to the terms is 4 bytes long *)
Lemma read_key_props t s k t' s' : read_key t s = Ok (k, t', s') ->
  nonempty_key k = true /\ (wf_terms t = true -> wf_terms t' = true).
Proof.
  unfold read_key. intros H. dres H as n s1 E1.
  destruct (negb (len (fst (read_upto (if n =? 0 then 4 else n) s1)) =? (if n =? 0 then 4 else n))) eqn:El; [discriminate|].
  apply negb_false_iff in El. apply Z.eqb_eq in El. inversion H; subst. clear H.
  set (k := fst (read_upto (if n =? 0 then 4 else n) s1)) in *.
  split.
  - unfold nonempty_key. destruct (n =? 0) eqn:En.
    + rewrite El. reflexivity.
    + pose proof (len_nonneg k). destruct (len k =? 0) eqn:E0; [|reflexivity]. lia.
  - intros Ht. destruct ((n =? 0) && negb (key_in k t)) eqn:Ea; [|exact Ht].
    apply andb_prop in Ea as [En _]. rewrite En in El. unfold wf_terms in *. cbn [forallb]. rewrite Ht, andb_true_r.
    unfold len in El. apply Nat.eqb_eq. lia.
Qed.
Lemma Forall_odk_insert2 (Pk : key -> Prop) (Pv : dval -> Prop) k v d :
  Pk k -> Pv v -> Forall (fun kv => Pk (fst kv) /\ Pv (snd kv)) d ->
  Forall (fun kv : key * dval => Pk (fst kv) /\ Pv (snd kv)) (odk_insert k v d).
Proof.
  intros Hk Hv. induction 1 as [|[k' v'] t [Hy1 Hy2] Ht IH]; cbn [odk_insert]; [repeat constructor; assumption|].
  destruct (list_eqb k k'); constructor; auto.
Qed.
Lemma odk_build_Forall2 (Pk : key -> Prop) (Pv : dval -> Prop) l :
  Forall (fun kv => Pk (fst kv) /\ Pv (snd kv)) l ->
  Forall (fun kv : key * dval => Pk (fst kv) /\ Pv (snd kv)) (odk_build l).
Proof.
  unfold odk_build. intros H.
  assert (G : forall d, Forall (fun kv : key * dval => Pk (fst kv) /\ Pv (snd kv)) d ->
              Forall (fun kv : key * dval => Pk (fst kv) /\ Pv (snd kv)) (fold_left (fun d kv => odk_insert (fst kv) (snd kv) d) l d)).
  { induction H as [|x l [Hx1 Hx2] Hl IH]; intros d Hd; cbn [fold_left]; [exact Hd|].
    apply IH. now apply Forall_odk_insert2. }
  apply G. constructor.
Qed.

Section DvalKeys.
  Variable units : list Z.
  Definition Pkeys (t : terms) (d : dval) (t' : terms) : Prop := dkeys d = true /\ (wf_terms t = true -> wf_terms t' = true).
  Definition rdk_ok (rd : terms -> Z -> stream -> res (dval * terms * stream)) : Prop :=
    forall t os s d t' s', rd t os s = Ok (d, t', s') -> Pkeys t d t'.

  Lemma read_items_keys rd : rdk_ok rd -> forall n t s items t' s',
    read_items rd n t s = Ok (items, t', s') ->
    Forall (fun kv : key * dval => nonempty_key (fst kv) = true /\ dkeys (snd kv) = true) items /\
    (wf_terms t = true -> wf_terms t' = true).
  Proof.
    intros Hrd. induction n as [|n IH]; intros t s items t' s' H; cbn [read_items] in H.
    - inversion H; subst. split; [constructor|auto].
    - dres H as kt a1 E1. dres H as o a2 E2. dres H as vt a3 E3. dres H as rt a4 E4. inversion H; subst.
      destruct kt as [k tk]. destruct vt as [v tv]. destruct rt as [r tr]. cbn [fst snd] in *.
      destruct (read_key_props _ _ _ _ _ E1) as [Hk Ht1]. destruct (Hrd _ _ _ _ _ _ E3) as [Hv Ht2].
      destruct (IH _ _ _ _ _ E4) as [Hr Ht3]. split; [constructor; auto|auto].
  Qed.
  Lemma read_list_items_keys rd : rdk_ok rd -> forall n t s items t' s',
    read_list_items rd n t s = Ok (items, t', s') ->
    forallb dkeys items = true /\ (wf_terms t = true -> wf_terms t' = true).
  Proof.
    intros Hrd. induction n as [|n IH]; intros t s items t' s' H; cbn [read_list_items] in H.
    - inversion H; subst. auto.
    - dres H as o a2 E2. dres H as vt a3 E3. dres H as rt a4 E4. inversion H; subst.
      destruct vt as [v tv]. destruct rt as [r tr]. cbn [fst snd] in *.
      destruct (Hrd _ _ _ _ _ _ E3) as [Hv Ht2]. destruct (IH _ _ _ _ _ E4) as [Hr Ht3].
      cbn [forallb]. rewrite Hv, Hr. auto.
  Qed.
  Lemma items_keys (items : list (key * dval)) :
    Forall (fun kv : key * dval => nonempty_key (fst kv) = true /\ dkeys (snd kv) = true) items ->
    forallb (fun kv : key * dval => let (k, v) := kv in nonempty_key k && dkeys v) items = true.
  Proof. induction 1 as [|[k v] l [H1 H2] Hl IH]; [reflexivity|]. cbn [forallb fst snd] in *. now rewrite H1, H2, IH. Qed.

  Lemma read_dval_keys : forall fuel, rdk_ok (read_dval units fuel).
  Proof.
    induction fuel as [|f IH]; intros t os s d t' s' H; [discriminate|]. cbn [read_dval] in H.
    set (body := fun (t : terms) (s : stream) =>
        do (name, s1) <- r_unicode 1 s; do (ct, s2) <- read_key t s1; do (count, s3) <- read_u 4 s2;
        do (r, s4) <- read_items (read_dval units f) (clampn count s3) (snd ct) s3;
        Ok (name, fst ct, odk_build (fst r), snd r, s4)) in H.
    assert (Hbody : forall t s name cid items t1 s1, body t s = Ok (name, cid, items, t1, s1) ->
              nonempty_key cid = true /\
              forallb (fun kv : key * dval => let (k, v) := kv in nonempty_key k && dkeys v) items = true /\
              (wf_terms t = true -> wf_terms t1 = true)).
    { intros t0 s0 name cid items t1 s1 Hb. unfold body in Hb.
      dres Hb as nm u1 F1. dres Hb as ct u2 F2. dres Hb as count u3 F3. dres Hb as r u4 F4. inversion Hb; subst.
      destruct ct as [c tc]. destruct r as [its tr]. cbn [fst snd] in *.
      destruct (read_key_props _ _ _ _ _ F2) as [Hc Ht1]. destruct (read_items_keys _ IH _ _ _ _ _ _ F4) as [Hi Ht2].
      split; [exact Hc|]. split; [|auto]. apply items_keys.
      exact (odk_build_Forall2 (fun k => nonempty_key k = true) (fun v => dkeys v = true) _ Hi). }
    destruct ((os =? OS_Objc) || (os =? OS_GlbO)) eqn:K1.
    { dres H as b s1 Eb. destruct b as [[[name cid] items] t1]. inversion H; subst.
      destruct (Hbody _ _ _ _ _ _ _ Eb) as (Hc & Hi & Ht). split; [cbn [dkeys]; now rewrite Hc, Hi|exact Ht]. }
    destruct (os =? OS_ObAr) eqn:K2.
    { dres H as c s0 Ec. dres H as b s1 Eb. destruct b as [[[name cid] items] t1]. inversion H; subst.
      destruct (Hbody _ _ _ _ _ _ _ Eb) as (Hc & Hi & Ht). split; [cbn [dkeys]; now rewrite Hc, Hi|exact Ht]. }
    destruct ((os =? OS_VlLs) || (os =? OS_obj)) eqn:K3.
    { dres H as count s1 Ec. dres H as r s2 Er. inversion H; subst. destruct r as [its tr]. cbn [fst snd] in *.
      destruct (read_list_items_keys _ IH _ _ _ _ _ _ Er) as [Hi Ht]. split; [exact Hi|exact Ht]. }
    destruct (os =? OS_prop) eqn:K4.
    { dres H as name s1 E1. dres H as c s2 E2. dres H as k s3 E3. inversion H; subst.
      destruct c as [ck tc]. destruct k as [kk tk]. cbn [fst snd] in *.
      destruct (read_key_props _ _ _ _ _ E2) as [H1 T1]. destruct (read_key_props _ _ _ _ _ E3) as [H2 T2].
      split; [cbn [dkeys]; now rewrite H1, H2|auto]. }
    destruct (os =? OS_UntF) eqn:K5.
    { dres H as u s1 E1. dres H as v s2 E2. destruct (memz u units); [|discriminate]. inversion H; subst. split; auto. }
    destruct (os =? OS_UnFl) eqn:K6.
    { dres H as u s1 E1. dres H as n s2 E2. dres H as vs s3 E3. destruct (negb (len vs =? n)); [discriminate|].
      destruct (memz u units); [|discriminate]. inversion H; subst. split; auto. }
    destruct (os =? OS_doub) eqn:K7.
    { dres H as v s1 E1. inversion H; subst. split; auto. }
    destruct ((os =? OS_type) || (os =? OS_GlbC) || (os =? OS_Clss)) eqn:K8.
    { dres H as name s1 E1. dres H as c s2 E2. inversion H; subst. destruct c as [ck tc]. cbn [fst snd] in *.
      destruct (read_key_props _ _ _ _ _ E2) as [H1 T1]. split; [exact H1|exact T1]. }
    destruct (os =? OS_TEXT) eqn:K9.
    { dres H as u s1 E1. inversion H; subst. split; auto. }
    destruct (os =? OS_Enmr) eqn:K10.
    { dres H as name s1 E1. dres H as c s2 E2. dres H as ty s3 E3. dres H as e s4 E4. inversion H; subst.
      destruct c as [ck tc]. destruct ty as [tk tt]. destruct e as [ek te]. cbn [fst snd] in *.
      destruct (read_key_props _ _ _ _ _ E2) as [H1 T1]. destruct (read_key_props _ _ _ _ _ E3) as [H2 T2].
      destruct (read_key_props _ _ _ _ _ E4) as [H3 T3]. split; [cbn [dkeys]; now rewrite H1, H2, H3|auto]. }
    destruct (os =? OS_rele) eqn:K11.
    { dres H as name s1 E1. dres H as c s2 E2. dres H as v s3 E3. inversion H; subst. destruct c as [ck tc]. cbn [fst snd] in *.
      destruct (read_key_props _ _ _ _ _ E2) as [H1 T1]. split; [exact H1|exact T1]. }
    destruct (os =? OS_bool) eqn:K12.
    { dres H as v s1 E1. inversion H; subst. split; auto. }
    destruct (os =? OS_comp) eqn:K13.
    { dres H as v s1 E1. inversion H; subst. split; auto. }
    destruct ((os =? OS_long) || (os =? OS_Idnt) || (os =? OS_indx)) eqn:K14.
    { dres H as v s1 E1. inversion H; subst. split; auto. }
    destruct (os =? OS_enum) eqn:K15.
    { dres H as ty s1 E1. dres H as e s2 E2. inversion H; subst. destruct ty as [tk tt]. destruct e as [ek te]. cbn [fst snd] in *.
      destruct (read_key_props _ _ _ _ _ E1) as [H1 T1]. destruct (read_key_props _ _ _ _ _ E2) as [H2 T2].
      split; [cbn [dkeys]; now rewrite H1, H2|auto]. }
    destruct ((os =? OS_tdta) || (os =? OS_alis) || (os =? OS_Pth)) eqn:K16.
    { dres H as b s1 E1. inversion H; subst. split; auto. }
    destruct (os =? OS_name) eqn:K17; [|discriminate].
    { dres H as name s1 E1. dres H as c s2 E2. dres H as v s3 E3. inversion H; subst. destruct c as [ck tc]. cbn [fst snd] in *.
      destruct (read_key_props _ _ _ _ _ E2) as [H1 T1]. split; [exact H1|exact T1]. }
  Qed.
End DvalKeys.

Section DvalWf.
  Variable units : list Z.
  Definition Pwf (d : dval) (os : Z) : Prop := ostype_of d = os /\ (dkeys d = true -> wf_dval units d = true).
  Definition rd_ok (rd : terms -> Z -> stream -> res (dval * terms * stream)) : Prop :=
    forall t os s d t' s', rd t os s = Ok (d, t', s') -> Pwf d os.

  Lemma read_items_wf rd : rd_ok rd -> forall n t s items t' s',
    read_items rd n t s = Ok (items, t', s') ->
    Forall (fun kv : key * dval => dkeys (snd kv) = true -> wf_dval units (snd kv) = true) items.
  Proof.
    intros Hrd. induction n as [|n IH]; intros t s items t' s' H; cbn [read_items] in H.
    - inversion H. constructor.
    - dres H as kt a1 E1. dres H as o a2 E2. dres H as vt a3 E3. dres H as rt a4 E4. inversion H; subst.
      destruct vt as [v tv]. destruct rt as [r tr]. cbn [fst snd] in *.
      constructor; [exact (proj2 (Hrd _ _ _ _ _ _ E3))|eapply IH; eassumption].
  Qed.
  Lemma read_list_items_wf rd : rd_ok rd -> forall n t s items t' s',
    read_list_items rd n t s = Ok (items, t', s') ->
    Forall (fun v => dkeys v = true -> wf_dval units v = true) items.
  Proof.
    intros Hrd. induction n as [|n IH]; intros t s items t' s' H; cbn [read_list_items] in H.
    - inversion H. constructor.
    - dres H as o a2 E2. dres H as vt a3 E3. dres H as rt a4 E4. inversion H; subst.
      destruct vt as [v tv]. destruct rt as [r tr]. cbn [fst snd] in *.
      constructor; [exact (proj2 (Hrd _ _ _ _ _ _ E3))|eapply IH; eassumption].
  Qed.
  (* the items of a dict-like value, after OrderedDict *)
  Lemma items_wf (items : list (key * dval)) :
    nodupk (map fst items) = true ->
    Forall (fun kv : key * dval => dkeys (snd kv) = true -> wf_dval units (snd kv) = true) items ->
    forallb (fun kv : key * dval => let (k, v) := kv in nonempty_key k && dkeys v) items = true ->
    forallb (fun kv : key * dval => let (k, v) := kv in nonempty_key k && wf_dval units v) items && nodupk (map fst items) = true.
  Proof.
    intros Hn HF Hg. rewrite Hn, andb_true_r. clear Hn.
    induction HF as [|[k v] l Hv Hl IH]; [reflexivity|]. cbn [forallb] in *. apply andb_prop in Hg as [Hkv Hg].
    apply andb_prop in Hkv as [Hk Hd]. cbn [snd] in Hv. now rewrite Hk, (Hv Hd), (IH Hg).
  Qed.

  Lemma read_dval_wf : forall fuel, rd_ok (read_dval units fuel).
  Proof.
    induction fuel as [|f IH]; intros t os s d t' s' H; [discriminate|]. cbn [read_dval] in H.
    set (body := fun (t : terms) (s : stream) =>
        do (name, s1) <- r_unicode 1 s; do (ct, s2) <- read_key t s1; do (count, s3) <- read_u 4 s2;
        do (r, s4) <- read_items (read_dval units f) (clampn count s3) (snd ct) s3;
        Ok (name, fst ct, odk_build (fst r), snd r, s4)) in H.
    assert (Hbody : forall t s name cid items t1 s1, body t s = Ok (name, cid, items, t1, s1) ->
              nodupk (map fst items) = true /\
              Forall (fun kv : key * dval => dkeys (snd kv) = true -> wf_dval units (snd kv) = true) items).
    { intros t0 s0 name cid items t1 s1 Hb. unfold body in Hb.
      dres Hb as nm u1 F1. dres Hb as ct u2 F2. dres Hb as count u3 F3. dres Hb as r u4 F4. inversion Hb; subst.
      destruct r as [its tr]. cbn [fst snd] in *.
      apply (odk_build_props (fun v => dkeys v = true -> wf_dval units v = true)).
      exact (read_items_wf _ IH _ _ _ _ _ _ F4). }
    destruct ((os =? OS_Objc) || (os =? OS_GlbO)) eqn:K1.
    { dres H as b s1 Eb. destruct b as [[[name cid] items] t1]. inversion H; subst.
      destruct (Hbody _ _ _ _ _ _ _ Eb) as [Hn HF]. split; [reflexivity|]. cbn [dkeys wf_dval]. intros Hg.
      apply andb_prop in Hg as [Hc Hi]. rewrite K1, Hc. cbn [andb]. now apply items_wf. }
    destruct (os =? OS_ObAr) eqn:K2.
    { apply Z.eqb_eq in K2. dres H as c s0 Ec. dres H as b s1 Eb. destruct b as [[[name cid] items] t1]. inversion H; subst.
      destruct (Hbody _ _ _ _ _ _ _ Eb) as [Hn HF]. split; [reflexivity|]. cbn [dkeys wf_dval]. intros Hg.
      apply andb_prop in Hg as [Hc Hi]. rewrite Hc. cbn [andb]. now apply items_wf. }
    destruct ((os =? OS_VlLs) || (os =? OS_obj)) eqn:K3.
    { dres H as count s1 Ec. dres H as r s2 Er. inversion H; subst. destruct r as [its tr]. cbn [fst snd] in *.
      split; [reflexivity|]. cbn [dkeys wf_dval]. intros Hg. rewrite K3. cbn [andb].
      pose proof (read_list_items_wf _ IH _ _ _ _ _ _ Er) as HF. clear Er H.
      induction HF as [|v l Hv Hl IHl]; [reflexivity|]. cbn [forallb] in *. apply andb_prop in Hg as [H1 H2].
      now rewrite (Hv H1), (IHl H2). }
    destruct (os =? OS_prop) eqn:K4.
    { apply Z.eqb_eq in K4. dres H as name s1 E1. dres H as c s2 E2. dres H as k s3 E3. inversion H; subst.
      split; [reflexivity|]. cbn [dkeys wf_dval]. auto. }
    destruct (os =? OS_UntF) eqn:K5.
    { apply Z.eqb_eq in K5. dres H as u s1 E1. dres H as v s2 E2. destruct (memz u units) eqn:Eu; [|discriminate].
      inversion H; subst. split; [reflexivity|]. cbn [wf_dval]. auto. }
    destruct (os =? OS_UnFl) eqn:K6.
    { apply Z.eqb_eq in K6. dres H as u s1 E1. dres H as n s2 E2. dres H as vs s3 E3.
      destruct (negb (len vs =? n)); [discriminate|]. destruct (memz u units) eqn:Eu; [|discriminate].
      inversion H; subst. split; [reflexivity|]. cbn [wf_dval]. auto. }
    destruct (os =? OS_doub) eqn:K7.
    { apply Z.eqb_eq in K7. dres H as v s1 E1. inversion H; subst. split; [reflexivity|]. auto. }
    destruct ((os =? OS_type) || (os =? OS_GlbC) || (os =? OS_Clss)) eqn:K8.
    { dres H as name s1 E1. dres H as c s2 E2. inversion H; subst. split; [reflexivity|]. cbn [dkeys wf_dval].
      intros Hg. now rewrite K8, Hg. }
    destruct (os =? OS_TEXT) eqn:K9.
    { apply Z.eqb_eq in K9. dres H as u s1 E1. inversion H; subst. split; [reflexivity|]. auto. }
    destruct (os =? OS_Enmr) eqn:K10.
    { apply Z.eqb_eq in K10. dres H as name s1 E1. dres H as c s2 E2. dres H as ty s3 E3. dres H as e s4 E4.
      inversion H; subst. split; [reflexivity|]. cbn [dkeys wf_dval]. auto. }
    destruct (os =? OS_rele) eqn:K11.
    { apply Z.eqb_eq in K11. dres H as name s1 E1. dres H as c s2 E2. dres H as v s3 E3. inversion H; subst.
      split; [reflexivity|]. cbn [dkeys wf_dval]. auto. }
    destruct (os =? OS_bool) eqn:K12.
    { apply Z.eqb_eq in K12. dres H as v s1 E1. inversion H; subst. split; [reflexivity|]. auto. }
    destruct (os =? OS_comp) eqn:K13.
    { apply Z.eqb_eq in K13. dres H as v s1 E1. inversion H; subst. split; [reflexivity|]. auto. }
    destruct ((os =? OS_long) || (os =? OS_Idnt) || (os =? OS_indx)) eqn:K14.
    { dres H as v s1 E1. inversion H; subst. split; [reflexivity|]. cbn [wf_dval]. auto. }
    destruct (os =? OS_enum) eqn:K15.
    { apply Z.eqb_eq in K15. dres H as ty s1 E1. dres H as e s2 E2. inversion H; subst.
      split; [reflexivity|]. cbn [dkeys wf_dval]. auto. }
    destruct ((os =? OS_tdta) || (os =? OS_alis) || (os =? OS_Pth)) eqn:K16.
    { dres H as b s1 E1. inversion H; subst. split; [reflexivity|]. cbn [wf_dval]. auto. }
    destruct (os =? OS_name) eqn:K17; [|discriminate].
    { apply Z.eqb_eq in K17. dres H as name s1 E1. dres H as c s2 E2. dres H as v s3 E3. inversion H; subst.
      split; [reflexivity|]. cbn [dkeys wf_dval]. auto. }
  Qed.

  (* re-saving a descriptor value: written under the term set AFTER the read (the global _TERMS has grown) *)
  Theorem dval_resave fuel t os b d t' r s n rest :
    read_dval units fuel t os b = Ok (d, t', r) -> dkeys d = true -> wf_terms t' = true ->
    write_dval t' d = Ok (s, n) -> read_dval units (S (length s)) t' os (s ++ rest) = Ok (d, t', rest).
  Proof.
    intros Hr Hk Ht Hw. destruct (read_dval_wf _ _ _ _ _ _ _ Hr) as [Hos Hwf]. rewrite <- Hos.
    apply (dval_rt units t' Ht d (Hwf Hk) s n rest (S (length s)) Hw).
    pose proof (dsize_le t' d s n Hw). lia.
  Qed.
End DvalWf.

(* ------------------------------------------------------------------ descriptor based payloads *)
Definition dblock_val (b : dblock) : dval := match b with DBlock _ d => d | DBlock2 _ _ d => d end.
Definition dguard (t' : terms) (d : dval) : bool := dkeys d && wf_terms t'.

Lemma objc_is_desc units d : ostype_of d = OS_Objc -> wf_dval units d = true ->
  match d with DDesc os _ _ _ => os =? OS_Objc | _ => false end = true.
Proof.
  intros Hos Hw. destruct d; cbn [ostype_of] in Hos; try (vm_compute in Hos; discriminate); subst;
    try reflexivity; cbn [wf_dval] in Hw; apply andb_prop in Hw as [Hw _]; vm_compute in Hw; discriminate.
Qed.
Theorem read_dblock_wf units two t s blk t' :
  read_dblock units two t s = Ok (blk, t') -> dkeys (dblock_val blk) = true -> wf_dblock units blk = true.
Proof.
  unfold read_dblock. intros H Hk. destruct two.
  - dres H as ver s1 E1. dres H as dv s2 E2. dres H as r s3 E3. destruct (dv =? 16) eqn:Ev; [|discriminate].
    inversion H; subst. destruct r as [d tr]. cbn [fst snd dblock_val] in *.
    destruct (read_dval_wf units _ _ _ _ _ _ _ E3) as [Hos Hwf]. cbn [wf_dblock]. rewrite Ev, (Hwf Hk), andb_true_r. cbn [andb].
    exact (objc_is_desc units d Hos (Hwf Hk)).
  - dres H as ver s1 E1. dres H as r s3 E3. destruct (ver =? 16) eqn:Ev; [|discriminate].
    inversion H; subst. destruct r as [d tr]. cbn [fst snd dblock_val] in *.
    destruct (read_dval_wf units _ _ _ _ _ _ _ E3) as [Hos Hwf]. cbn [wf_dblock]. rewrite Ev, (Hwf Hk), andb_true_r. cbn [andb].
    exact (objc_is_desc units d Hos (Hwf Hk)).
Qed.
Theorem dblock_resave units two t b blk t' pad s n :
  0 < pad -> read_dblock units two t b = Ok (blk, t') -> dguard t' (dblock_val blk) = true ->
  write_dblock t' pad blk = Ok (s, n) ->
  read_dblock units two t' s = Ok (blk, t').
Proof.
  intros Hp Hr Hg Hw. apply andb_prop in Hg as [Hk Ht].
  pose proof (dblock_rt units t' pad blk s n Hp Ht (read_dblock_wf _ _ _ _ _ _ Hr Hk) Hw) as Hrt.
  replace two with (match blk with DBlock _ _ => false | DBlock2 _ _ _ => true end); [exact Hrt|].
  unfold read_dblock in Hr. destruct two.
  - dres Hr as ver s1 E1. dres Hr as dv s2 E2. dres Hr as r s3 E3. destruct (dv =? 16); [|discriminate]. inversion Hr; subst; reflexivity.
  - dres Hr as ver s1 E1. dres Hr as r s3 E3. destruct (ver =? 16); [|discriminate]. inversion Hr; subst; reflexivity.
Qed.

Theorem color_lookup_resave units t b ver dv d t' pad s n :
  read_color_lookup units t b = Ok (ver, dv, d, t') -> dguard t' d = true ->
  write_color_lookup t' pad ver dv d = Ok (s, n) -> read_color_lookup units t' s = Ok (ver, dv, d, t').
Proof.
  unfold read_color_lookup at 1. intros H Hg Hw. apply andb_prop in Hg as [Hk Ht].
  dres H as ver0 s1 E1. dres H as dv0 s2 E2. dres H as r s3 E3. destruct (dv0 =? 16) eqn:Ev; [|discriminate].
  inversion H; subst. destruct r as [d0 tr]. cbn [fst snd] in *. apply Z.eqb_eq in Ev. subst dv.
  destruct (read_dval_wf units _ _ _ _ _ _ _ E3) as [Hos Hwf].
  eapply color_lookup_rt; [exact Ht|exact (Hwf Hk)|exact Hos|exact Hw].
Qed.
Theorem vscg_resave units t b key version d t' pad s n :
  read_vscg units t b = Ok (key, version, d, t') -> dguard t' d = true ->
  write_vscg t' pad key version d = Ok (s, n) -> read_vscg units t' s = Ok (key, version, d, t').
Proof.
  unfold read_vscg at 1. intros H Hg Hw. apply andb_prop in Hg as [Hk Ht].
  dres H as key0 s1 E1. dres H as ver0 s2 E2. dres H as r s3 E3. inversion H; subst. destruct r as [d0 tr]. cbn [fst snd] in *.
  destruct (read_dval_wf units _ _ _ _ _ _ _ E3) as [Hos Hwf].
  eapply vscg_rt; [exact Ht|exact (Hwf Hk)|exact Hos|exact Hw].
Qed.

(* ------------------------------------------------------------------ the container level for free (Psd/Typed.v):
   a payload read out of a tagged block / an image resource by ANY class reader [rd] whose values re-save (the
   theorems above), written back through the class writer [w]: the block read from the saved bytes holds the same
   signature, key and value, whatever follows *)
Theorem payload_block_resave {X} (rd : stream -> res X) (w : X -> W) v pad b sg key x s' bs n rest :
  (pad = 1 \/ pad = 2 \/ pad = 4) ->
  read_payload_block rd v pad b = Ok (Some (sg, key, x, s')) ->
  wtruth (w x) -> (forall body m, w x = Ok (body, m) -> rd body = Ok x) ->
  write_payload_block v pad sg key (w x) = Ok (bs, n) ->
  read_payload_block rd v pad (bs ++ rest) = Ok (Some (sg, key, x, rest)).
Proof.
  intros Hpad Hr Hw Hrd Hwr. unfold read_payload_block in Hr. dres1 Hr as o Eo. destruct o as [[tb s1]|]; [|discriminate].
  dres1 Hr as x0 Ex. inversion Hr; subst.
  apply (payload_block_rt v pad (tb_sig tb) (tb_key tb) (w x) rd x bs n rest Hpad (read_tagged_block_wf _ _ _ _ _ Eo) Hw Hrd Hwr).
Qed.

(* ------------------------------------------------------------------ LinkedLayer (one item of 'lnkD' / 'lnk2' / 'lnk3' / 'lnkE') *)
Definition odkeys (o : option dblock) : bool := match o with Some b => dkeys (dblock_val b) | None => true end.
(* the guard: the descriptor guard on the two descriptor blocks and on the grown term set; the embedded data shorter
   than 2^63 bytes (BytesIO.read refuses more; no such input exists) *)
Definition lguard (t' : terms) (l : linked) : bool :=
  odkeys (ll_open l) && odkeys (ll_linked l) && wf_terms t' &&
  match ll_data l with Some d => len d <? 2 ^ 63 | None => true end.

Lemma read_dblock_s_wf units t s b t' s' :
  read_dblock_s units t s = Ok (b, t', s') -> dkeys (dblock_val b) = true -> wf_opt_dblock units (Some b) = true.
Proof.
  unfold read_dblock_s. intros H Hk. dres H as ver s1 E1. dres H as r s2 E2. destruct (ver =? 16) eqn:Ev; [|discriminate].
  inversion H; subst. destruct r as [d tr]. cbn [fst snd dblock_val] in *.
  destruct (read_dval_wf units _ _ _ _ _ _ _ E2) as [Hos Hwf].
  cbn [wf_opt_dblock wf_dblock]. rewrite Ev, (Hwf Hk), andb_true_r. cbn [andb]. exact (objc_is_desc units d Hos (Hwf Hk)).
Qed.

Section LinkedWf.
  Variable enc_s : list Z -> res (list Z).
  Variable dec_s : list Z -> res (list Z).
  Hypothesis Hcodec : codec_ok enc_s dec_s.

  Theorem read_linked_wf units t s l t' s' :
    read_linked dec_s units t s = Ok (l, t', s') -> lguard t' l = true -> wf_linked enc_s dec_s units l = true.
  Proof.
    unfold read_linked. intros H Hg.
    dres H as kind s1 E1. destruct (negb (memz kind model_linked_kinds)) eqn:Ek; [discriminate|]. apply negb_false_iff in Ek.
    dres H as version s2 E2. destruct (negb ((1 <=? version) && (version <=? 7))) eqn:Ev; [discriminate|].
    apply negb_false_iff in Ev. apply andb_prop in Ev as [Ev1 Ev7].
    dres H as uuid s3 E3. dres H as filename s4 E4. dres H as filetype s5 E5. dres H as creator s6 E6.
    dres H as datasize s7 E7. dres H as has_open s8 E8. dres H as op s9 E9. destruct op as [oo t1]. cbn [fst snd] in H.
    dres H as mid sb Em. destruct mid as [[[[lf ts] fsz] dat0] t2].
    dres H as dat1 sc Ed. dres H as tl sd Et. destruct tl as [[child md] lk]. dres H as dat2 se Ee.
    inversion H; subst. clear H.
    unfold lguard in Hg. cbn [ll_open ll_linked ll_data] in Hg.
    apply andb_prop in Hg as [Hg Hdl]. apply andb_prop in Hg as [Hg Hterms]. apply andb_prop in Hg as [Hko Hkl].
    unfold wf_linked. cbn [ll_kind ll_version ll_uuid ll_open ll_linked ll_timestamp ll_filesize ll_data ll_child ll_mod ll_lock].
    rewrite Ek, Ev1, Ev7, (r_pascal_wf enc_s dec_s Hcodec _ _ _ _ E3), Hdl. cbn [andb].
    (* the open descriptor *)
    assert (Hop : wf_opt_dblock units oo = true).
    { destruct (has_open =? 0); [inversion E9; reflexivity|].
      dres E9 as b sa Eb. destruct b as [bb tb]. inversion E9; subst. cbn [fst snd odkeys] in *.
      exact (read_dblock_s_wf _ _ _ _ _ _ Eb Hko). }
    rewrite Hop. cbn [andb].
    (* the tail fields follow the version *)
    unfold r_tail in Et. dres Et as c u1 F1. dres Et as m u2 F2. dres Et as k u3 F3. inversion Et; subst. clear Et.
    assert (Hc : Bool.eqb (is_some child) (5 <=? version) = true).
    { unfold r_opt in F1. destruct (5 <=? version); [dskip F1; inversion F1|inversion F1]; reflexivity. }
    assert (Hm : Bool.eqb (is_some md) (6 <=? version) = true).
    { unfold r_opt in F2. destruct (6 <=? version); [dskip F2; inversion F2|inversion F2]; reflexivity. }
    assert (Hl : Bool.eqb (is_some lk) (7 <=? version) = true).
    { unfold r_opt in F3. destruct (7 <=? version); [dskip F3; inversion F3|inversion F3]; reflexivity. }
    rewrite Hc, Hm, Hl, !andb_true_r.
    destruct (kind =? K_liFE) eqn:KE.
    - (* external *)
      dres Em as x sx Ex. destruct x as [[[[lf0 ts0] fsz0] dt0] t20]. injection Em as <- <- <- <- <- <-.
      unfold r_ext in Ex. dres Ex as lfb v1 G1. dres Ex as tso v2 G2. dres Ex as fs v3 G3. dres Ex as dt v4 G4.
      injection Ex as <- <- <- <- <- <-. destruct lfb as [lb tlb]. cbn [fst snd odkeys is_some] in *.
      pose proof (read_dblock_s_wf _ _ _ _ _ _ G1 Hkl) as Hlf. rewrite Hlf. cbn [andb].
      assert (Hts : Bool.eqb (is_some tso) (3 <? version) = true).
      { unfold r_opt in G2. destruct (3 <? version); [dskip G2; inversion G2|inversion G2]; reflexivity. }
      rewrite Hts. cbn [andb].
      assert (KD : (kind =? K_liFD) = false).
      { apply Z.eqb_eq in KE. subst kind. reflexivity. }
      rewrite KD in Ed. inversion Ed; subst. clear Ed.
      destruct (version =? 2) eqn:V2; cbn [andb] in Ee.
      + dskip Ee. inversion Ee; subst. cbn [is_some]. apply Z.eqb_eq in V2. subst version. reflexivity.
      + inversion Ee; subst. unfold r_opt in G4. destruct (2 <? version) eqn:V3.
        * dskip G4. inversion G4; subst. cbn [is_some]. replace (2 <=? version) with true by lia. reflexivity.
        * inversion G4; subst. cbn [is_some]. replace (2 <=? version) with false by lia. reflexivity.
    - cbn [andb] in Ee. inversion Ee; subst. clear Ee.
      destruct (kind =? K_liFA) eqn:KA.
      + dres Em as z8 sx Ez. inversion Em; subst. cbn [is_some negb andb].
        assert (KD : (kind =? K_liFD) = false) by (apply Z.eqb_eq in KA; subst kind; reflexivity).
        rewrite KD in Ed |- *. inversion Ed; subst. reflexivity.
      + inversion Em; subst. cbn [is_some negb andb].
        destruct (kind =? K_liFD) eqn:KD.
        * dres Ed as d sx Edd. destruct (len d =? datasize); [|discriminate]. inversion Ed; subst. reflexivity.
        * inversion Ed; subst. reflexivity.
  Qed.

  Theorem linked_resave units t b l t' r pad s n tail :
    read_linked dec_s units t b = Ok (l, t', r) -> lguard t' l = true ->
    write_linked enc_s t' pad l = Ok (s, n) ->
    exists rest', read_linked dec_s units t' (s ++ tail) = Ok (l, t', rest').
  Proof.
    intros Hr Hg Hw. pose proof (read_linked_wf _ _ _ _ _ _ Hr Hg) as Hwf.
    unfold lguard in Hg. apply andb_prop in Hg as [Hg _]. apply andb_prop in Hg as [_ Ht].
    exact (linked_rt enc_s dec_s units t' pad l s n tail Ht Hwf Hw).
  Qed.
End LinkedWf.

(* ------------------------------------------------------------------ since /repo 708c13e the descriptor guards hold for every read:
   the theorems with the single hypothesis that the term table the read starts from is well formed *)
Theorem dval_resave_all units fuel t os b d t' r s n rest :
  read_dval units fuel t os b = Ok (d, t', r) -> wf_terms t = true ->
  write_dval t' d = Ok (s, n) -> read_dval units (S (length s)) t' os (s ++ rest) = Ok (d, t', rest).
Proof.
  intros Hr Ht Hw. destruct (read_dval_keys units _ _ _ _ _ _ _ Hr) as [Hk Ht'].
  exact (dval_resave units fuel t os b d t' r s n rest Hr Hk (Ht' Ht) Hw).
Qed.
Lemma read_dblock_guard units two t s blk t' :
  read_dblock units two t s = Ok (blk, t') -> wf_terms t = true -> dguard t' (dblock_val blk) = true.
Proof.
  unfold read_dblock, dguard. intros H Ht. destruct two.
  - dres H as ver s1 E1. dres H as dv s2 E2. dres H as r s3 E3. destruct (dv =? 16); [|discriminate]. inversion H; subst.
    destruct r as [d tr]. cbn [fst snd dblock_val] in *. destruct (read_dval_keys units _ _ _ _ _ _ _ E3) as [Hk Ht'].
    now rewrite Hk, (Ht' Ht).
  - dres H as ver s1 E1. dres H as r s3 E3. destruct (ver =? 16); [|discriminate]. inversion H; subst.
    destruct r as [d tr]. cbn [fst snd dblock_val] in *. destruct (read_dval_keys units _ _ _ _ _ _ _ E3) as [Hk Ht'].
    now rewrite Hk, (Ht' Ht).
Qed.
Theorem dblock_resave_all units two t b blk t' pad s n :
  0 < pad -> read_dblock units two t b = Ok (blk, t') -> wf_terms t = true ->
  write_dblock t' pad blk = Ok (s, n) -> read_dblock units two t' s = Ok (blk, t').
Proof. intros Hp Hr Ht Hw. exact (dblock_resave units two t b blk t' pad s n Hp Hr (read_dblock_guard _ _ _ _ _ _ Hr Ht) Hw). Qed.
Theorem color_lookup_resave_all units t b ver dv d t' pad s n :
  read_color_lookup units t b = Ok (ver, dv, d, t') -> wf_terms t = true ->
  write_color_lookup t' pad ver dv d = Ok (s, n) -> read_color_lookup units t' s = Ok (ver, dv, d, t').
Proof.
  intros Hr Ht Hw. apply (color_lookup_resave units t b ver dv d t' pad s n Hr); [|exact Hw].
  unfold read_color_lookup in Hr. dres Hr as ver0 s1 E1. dres Hr as dv0 s2 E2. dres Hr as r s3 E3.
  destruct (dv0 =? 16); [|discriminate]. inversion Hr; subst. destruct r as [d0 tr]. cbn [fst snd] in *.
  destruct (read_dval_keys units _ _ _ _ _ _ _ E3) as [Hk Ht']. unfold dguard. now rewrite Hk, (Ht' Ht).
Qed.
Theorem vscg_resave_all units t b key version d t' pad s n :
  read_vscg units t b = Ok (key, version, d, t') -> wf_terms t = true ->
  write_vscg t' pad key version d = Ok (s, n) -> read_vscg units t' s = Ok (key, version, d, t').
Proof.
  intros Hr Ht Hw. apply (vscg_resave units t b key version d t' pad s n Hr); [|exact Hw].
  unfold read_vscg in Hr. dres Hr as key0 s1 E1. dres Hr as ver0 s2 E2. dres Hr as r s3 E3.
  inversion Hr; subst. destruct r as [d0 tr]. cbn [fst snd] in *.
  destruct (read_dval_keys units _ _ _ _ _ _ _ E3) as [Hk Ht']. unfold dguard. now rewrite Hk, (Ht' Ht).
Qed.
