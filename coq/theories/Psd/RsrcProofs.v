(* Stage 3 (5): round trips of the typed image resources (Psd/Rsrc.v) *)
From PsdV Require Import Base.Prelude Psd.Codec Psd.Model Psd.Proofs Psd.DescriptorProofs Psd.Struct Psd.Rsrc.
From Coq Require Import ZArith List Bool Lia ZifyBool.
Import ListNotations.
Open Scope Z_scope.

Ltac wt :=
  repeat first [ apply wtruth_then_pad | apply wtruth_seq | apply wtruth_fmt | apply wtruth_bytes | apply wtruth_nil
               | apply wtruth_err | apply wtruth_length_block | apply wtruth_unicode
               | match goal with
                 | |- wtruth (if ?c then _ else _) => destruct c
                 | |- wtruth (match ?o with Some _ => _ | None => _ end) => destruct o
                 | |- wtruth (match ?l with [] => _ | _ :: _ => _ end) => destruct l
                 end ].

Lemma row_size_pos k rl : rt_row k = Some rl -> 0 < fields_size rl.
Proof. destruct k; intros H; inversion H; reflexivity. Qed.

Lemma wtruth_rtable k head rows : wtruth (write_rtable k head rows).
Proof. unfold write_rtable. wt. Qed.

Theorem rtable_rt k head rows bs n :
  wf_rtable k head rows = true -> write_rtable k head rows = Ok (bs, n) -> read_rtable k bs = Ok (head, rows).
Proof.
  unfold wf_rtable, write_rtable. intros Hwf H.
  apply andb_prop in Hwf as [Hwf Hrows]. apply andb_prop in Hwf as [Hhead Hchk].
  assert (Hc : match k with TPrintScale => negb (rt_check k head rows) | _ => false end = false).
  { destruct k; try reflexivity. now rewrite Hchk. }
  rewrite Hc in H. clear Hc.
  apply w_seq_inv in H as (a & na & b & nb & Ha & Hb & -> & ->). apply w_fmt_inv in Ha as [Ha _].
  unfold read_rtable. rewrite (fields_rt (rt_head k) head a b Hhead Ha). cbn [bind].
  destruct (rt_row k) as [rl|] eqn:Erl.
  - pose proof (row_size_pos k rl Erl) as Hpos.
    apply w_seq_inv in Hb as (c & nc & d & nd & Hcn & Hd & -> & ->). apply w_fmt_inv in Hd as [Hd _].
    pose proof (rows_len rl rows d Hd) as Hlen.
    pose proof (rows_rt rl rows d [] Hrows Hd) as Hrt. rewrite app_nil_r in Hrt.
    destruct (rt_count k) as [cw|].
    + apply w_fmt_inv in Hcn as [Hcn _]. steps.
      replace (Z.to_nat (Z.min (len rows) (len d + 1))) with (length rows).
      2:{ unfold len in *. assert (Z.of_nat (length rows) <= Z.of_nat (length rows) * fields_size rl) by nia. lia. }
      rewrite Hrt. cbn [bind]. now rewrite Hchk.
    + inversion Hcn; subst c nc. cbn [app].
      replace (Z.to_nat (len d / fields_size rl)) with (length rows).
      2:{ rewrite Hlen. rewrite Z.div_mul by lia. unfold len. lia. }
      rewrite Hrt. cbn [bind]. now rewrite Hchk.
  - destruct rows; [|discriminate]. cbn [bind]. now rewrite Hchk.
Qed.

(* ---- PrintFlags *)
Lemma wf_fields_bools n : forall vs, forallb (fun v => (v =? 0) || (v =? 1)) vs = true -> wf_fields (repeat FB n) vs = true.
Proof.
  induction n as [|n IH]; intros vs H; [reflexivity|]. cbn [repeat wf_fields]. destruct vs as [|v vs]; [reflexivity|].
  cbn [forallb] in H. apply andb_prop in H as [Hv Hvs]. rewrite Hv. now apply IH.
Qed.
Lemma wtruth_print_flags flags pf : wtruth (write_print_flags flags pf).
Proof. unfold write_print_flags. wt. Qed.
Theorem print_flags_rt flags pf bs n :
  wf_print_flags flags pf = true -> write_print_flags flags pf = Ok (bs, n) -> read_print_flags bs = Ok (flags, pf).
Proof.
  unfold wf_print_flags, write_print_flags. intros Hwf H. apply andb_prop in Hwf as [_ Hb].
  rewrite forallb_app in Hb. apply andb_prop in Hb as [Hf Hp].
  apply w_seq_inv in H as (a & na & b & nb & Ha & Hb & -> & ->). apply w_fmt_inv in Ha as [Ha _].
  unfold read_print_flags. rewrite (fields_rt (repeat FB 8) flags a b (wf_fields_bools 8 flags Hf) Ha). cbn [bind].
  destruct pf as [x|].
  - apply w_fmt_inv in Hb as [Hb _]. pose proof (fields_len _ _ _ Hb) as Hl. change (fields_size [FB]) with 1 in Hl.
    unfold is_readable. replace (1 <=? len b) with true by lia.
    rewrite <- (app_nil_r b). rewrite (fields_rt [FB] [x] b [] (wf_fields_bools 1 [x] Hp) Hb). reflexivity.
  - inversion Hb; subst b nb. reflexivity.
Qed.

(* ---- ThumbnailResource *)
Lemma wtruth_thumbnail vals data : wtruth (write_thumbnail vals data).
Proof.
  unfold write_thumbnail. wt.
Qed.
Theorem thumbnail_rt vals data bs n : write_thumbnail vals data = Ok (bs, n) -> read_thumbnail bs = Ok (vals, data).
Proof.
  unfold write_thumbnail. intros H.
  destruct vals as [|v1 [|v2 [|v3 [|v4 [|v5 [|v6 [|v7 [|v8 vals]]]]]]]]; try discriminate.
  apply w_seq_inv in H as (a & na & b & nb & Ha & Hb & -> & ->). apply w_fmt_inv in Ha as [Ha _]. apply w_bytes_inv in Hb as [-> _].
  unfold read_thumbnail. rewrite (fields_rt [FU 4; FU 4; FU 4; FU 4; FU 4; FU 4; FU 2; FU 2] _ a data (wf_fields_plain [FU 4; FU 4; FU 4; FU 4; FU 4; FU 4; FU 2; FU 2] eq_refl _) Ha). cbn [bind].
  pose proof (read_upto_app data []) as E. rewrite app_nil_r in E. rewrite E. reflexivity.
Qed.

(* ---- VersionInfo *)
Lemma wtruth_version_info v hc w r fv : wtruth (write_version_info v hc w r fv).
Proof. unfold write_version_info. wt. Qed.
Theorem version_info_rt v hc w r fv bs n :
  (hc =? 0) || (hc =? 1) = true -> write_version_info v hc w r fv = Ok (bs, n) -> read_version_info bs = Ok (v, hc, w, r, fv).
Proof.
  unfold write_version_info. intros Hwf H.
  apply w_seq_inv in H as (x3 & n3 & b4 & n4 & H & H4 & -> & ->).
  apply w_seq_inv in H as (x2 & n2 & b3 & n3' & H & H3 & -> & ->).
  apply w_seq_inv in H as (b1 & n1 & b2 & n2' & H1 & H2 & -> & ->).
  apply w_fmt_inv in H1 as [H1 _]. apply w_fmt_inv in H4 as [H4 _].
  unfold read_version_info. rewrite <- !app_assoc.
  rewrite (fields_rt [FU 4; FB] [v; hc] b1 _ ltac:(cbn [wf_fields]; now rewrite Hwf) H1). cbn [bind].
  rewrite (unicode1_rt w b2 n2' _ H2). cbn [bind]. rewrite (unicode1_rt r b3 n3' _ H3). cbn [bind].
  rewrite <- (app_nil_r b4). rewrite (read_u_pack _ _ _ _ H4). reflexivity.
Qed.

(* ---- URLList *)
Lemma wtruth_url_item u : wtruth (write_url_item u).
Proof. destruct u as [[a b] c]. unfold write_url_item. wt. Qed.
Lemma wtruth_url_list l : wtruth (write_url_list l).
Proof. unfold write_url_list. wt. apply wtruth_concat_map, wtruth_url_item. Qed.
Lemma url_item_rt u bs n rest : write_url_item u = Ok (bs, n) -> read_url_item (bs ++ rest) = Ok (u, rest) /\ 1 <= len bs.
Proof.
  destruct u as [[number id] name]. unfold write_url_item. intros H.
  apply w_seq_inv in H as (a & na & b & nb & Ha & Hb & -> & ->). apply w_fmt_inv in Ha as [Ha _]. open_pk Ha.
  split; [|len_lia].
  unfold read_url_item. rewrite <- !app_assoc. steps. rewrite (unicode1_rt name b nb rest Hb). reflexivity.
Qed.
Lemma concat_len_ge {A} (wr : A -> W) : (forall a bs n, wr a = Ok (bs, n) -> 1 <= len bs) ->
  forall l bs n, w_concat (map wr l) = Ok (bs, n) -> len l <= len bs.
Proof.
  intros Hone. induction l as [|a l IH]; intros bs n H.
  - apply w_concat_nil_inv in H as [-> _]. reflexivity.
  - apply w_concat_cons_inv in H as (b1 & n1 & b2 & n2 & Ha & Hl & -> & ->).
    specialize (IH _ _ Hl). specialize (Hone _ _ _ Ha). rewrite len_app. unfold len in *. cbn [length]. lia.
Qed.
Theorem url_list_rt l bs n : write_url_list l = Ok (bs, n) -> read_url_list bs = Ok l.
Proof.
  unfold write_url_list. intros H.
  apply w_seq_inv in H as (a & na & b & nb & Ha & Hb & -> & ->). apply w_fmt_inv in Ha as [Ha _].
  unfold read_url_list. steps.
  pose proof (concat_len_ge write_url_item (fun u bs0 n0 Hu => proj2 (url_item_rt u bs0 n0 [] Hu)) l b nb Hb) as Hlen.
  replace (Z.to_nat (Z.min (len l) (len b + 1))) with (length l) by (unfold len in *; lia).
  rewrite <- (app_nil_r b).
  rewrite (read_n_rt write_url_item read_url_item (fun _ => True)
             (fun u bs0 n0 rest0 _ Hu => proj1 (url_item_rt u bs0 n0 rest0 Hu)) l b nb []
             (proj2 (Forall_forall _ _) (fun _ _ => I)) Hb).
  reflexivity.
Qed.

(* ---- AlphaNamesUnicode *)
Lemma wtruth_unicodes l : wtruth (write_unicodes l).
Proof. unfold write_unicodes. apply wtruth_concat_map. intros u. apply wtruth_unicode. Qed.
Lemma unicode1_len u bs n : w_unicode u 1 = Ok (bs, n) -> 1 <= len bs.
Proof.
  unfold w_unicode. intros H. apply w_then_pad_inv in H as (x & nx & Hx & -> & _).
  apply w_seq_inv in Hx as (a & na & b & nb & Ha & _ & -> & _). apply w_fmt_inv in Ha as [Ha _]. len_lia.
Qed.
Theorem unicodes_rt : forall l bs n fuel, write_unicodes l = Ok (bs, n) -> (length bs < fuel)%nat -> read_unicodes fuel bs = Ok l.
Proof.
  unfold write_unicodes. induction l as [|u l IH]; intros bs n fuel H Hf.
  - apply w_concat_nil_inv in H as [-> _]. destruct fuel; [cbn in Hf; lia|]. reflexivity.
  - apply w_concat_cons_inv in H as (b1 & n1 & b2 & n2 & Hu & Hl & -> & ->).
    destruct fuel as [|f]; [cbn in Hf; lia|]. cbn [read_unicodes].
    pose proof (unicode1_len u b1 n1 Hu) as H1.
    unfold is_readable. replace (1 <=? len (b1 ++ b2)) with true by (rewrite len_app; pose_nonneg; lia).
    rewrite (unicode1_rt u b1 n1 b2 Hu). cbn [bind]. rewrite (IH b2 n2 f Hl); [reflexivity|].
    rewrite app_length in Hf. unfold len in H1. lia.
Qed.

Section RsrcProofs.
  Variable enc_s : list Z -> res (list Z).
  Variable dec_s : list Z -> res (list Z).

  Lemma wtruth_pascals l : wtruth (write_pascals enc_s l).
  Proof. unfold write_pascals. apply wtruth_concat_map. intros u. apply wtruth_pascal. Qed.
  Lemma pascal1_len name bs n : w_pascal enc_s name 1 = Ok (bs, n) -> 1 <= len bs.
  Proof.
    unfold w_pascal. destruct (enc_s name) as [data|]; [|discriminate]. cbn [bind]. intros H.
    apply w_then_pad_inv in H as (x & nx & Hx & -> & _).
    apply w_seq_inv in Hx as (a & na & b & nb & Ha & _ & -> & _). apply w_fmt_inv in Ha as [Ha _]. len_lia.
  Qed.
  Theorem pascals_rt : forall l bs n fuel, forallb (wf_name enc_s dec_s) l = true ->
    write_pascals enc_s l = Ok (bs, n) -> (length bs < fuel)%nat -> read_pascals dec_s fuel bs = Ok l.
  Proof.
    unfold write_pascals. induction l as [|u l IH]; intros bs n fuel Hwf H Hf.
    - apply w_concat_nil_inv in H as [-> _]. destruct fuel; [cbn in Hf; lia|]. reflexivity.
    - apply w_concat_cons_inv in H as (b1 & n1 & b2 & n2 & Hu & Hl & -> & ->).
      cbn [forallb] in Hwf. apply andb_prop in Hwf as [Hwu Hwl].
      destruct fuel as [|f]; [cbn in Hf; lia|]. cbn [read_pascals].
      pose proof (pascal1_len u b1 n1 Hu) as H1.
      unfold is_readable. replace (1 <=? len (b1 ++ b2)) with true by (rewrite len_app; pose_nonneg; lia).
      rewrite (pascal_rt enc_s dec_s u 1 b1 n1 b2 ltac:(lia) (wf_name_inv enc_s dec_s u Hwu) Hu). cbn [bind].
      rewrite (IH b2 n2 f Hwl Hl); [reflexivity|]. rewrite app_length in Hf. unfold len in H1. lia.
  Qed.
  Theorem pascal_string_rt name bs n : wf_name enc_s dec_s name = true ->
    write_pascal_string enc_s name = Ok (bs, n) -> read_pascal_string dec_s bs = Ok name.
  Proof.
    unfold write_pascal_string, read_pascal_string, w_pascal. intros Hwf.
    destruct (enc_s name) as [data|] eqn:Ed; [|discriminate]. cbn [bind]. intros H.
    apply w_then_pad_inv in H as (x & nx & Hx & -> & _). rewrite pad_count_1. cbn [Z.to_nat zeros repeat]. rewrite app_nil_r.
    apply w_seq_inv in Hx as (a & na & b & nb & Ha & Hb & -> & ->). apply w_fmt_inv in Ha as [Ha _]. apply w_bytes_inv in Hb as [-> _].
    unfold r_pascal. rewrite (read_u_pack _ _ _ _ Ha). cbn [bind fst snd].
    pose proof (read_upto_app data []) as E. rewrite app_nil_r in E. rewrite E. cbn [fst snd]. rewrite Z.eqb_refl.
    rewrite (wf_name_inv enc_s dec_s name Hwf data Ed). reflexivity.
  Qed.

  Lemma wtruth_rsrc a : wtruth (write_rsrc enc_s a).
  Proof.
    destruct a; cbn [write_rsrc].
    - apply wtruth_rtable. - apply wtruth_print_flags. - apply wtruth_thumbnail. - apply wtruth_version_info.
    - apply wtruth_url_list. - apply wtruth_unicodes. - apply wtruth_pascals. - apply wtruth_pascal.
  Qed.
  Theorem rsrc_rt a bs n : wf_rsrc enc_s dec_s a = true -> write_rsrc enc_s a = Ok (bs, n) -> reread_rsrc dec_s a bs = Ok a.
  Proof.
    destruct a; cbn [wf_rsrc write_rsrc reread_rsrc]; intros Hwf H.
    - now rewrite (rtable_rt _ _ _ _ _ Hwf H).
    - now rewrite (print_flags_rt _ _ _ _ Hwf H).
    - now rewrite (thumbnail_rt _ _ _ _ H).
    - now rewrite (version_info_rt _ _ _ _ _ _ _ Hwf H).
    - now rewrite (url_list_rt _ _ _ H).
    - now rewrite (unicodes_rt _ _ _ _ H (Nat.lt_succ_diag_r _)).
    - now rewrite (pascals_rt _ _ _ _ Hwf H (Nat.lt_succ_diag_r _)).
    - now rewrite (pascal_string_rt _ _ _ Hwf H).
  Qed.
End RsrcProofs.
