(* Shared definitions: bytes as Z, outcome enums, case-runner used by the
   correspondence check, 63-bit chained hash for enumerated shards. *)
From Coq Require Export ZArith List Bool Lia.
From Coq Require Import Uint63.
Export ListNotations.
Open Scope Z_scope.

Definition byte (x : Z) : Prop := 0 <= x < 256.
Definition byteb (x : Z) : bool := (0 <=? x) && (x <? 256).
Definition bytes (l : list Z) : Prop := Forall byte l.

Lemma byteb_spec x : byteb x = true <-> byte x.
Proof. unfold byteb, byte. rewrite andb_true_iff, Z.leb_le, Z.ltb_lt. tauto. Qed.

(* Python exception classes that the properties mention, as an error enum. *)
Inductive err :=
| ValueErr | IOErr | IndexErr | AssertErr | OverflowErr | StructErr
| TypeErr | RecursionErr | KeyErr | OutOfFuel | OOBWrite.

Definition err_code (e : err) : Z :=
  match e with
  | ValueErr => 1 | IOErr => 2 | IndexErr => 3 | AssertErr => 4
  | OverflowErr => 5 | StructErr => 6 | TypeErr => 7 | RecursionErr => 8
  | KeyErr => 9 | OutOfFuel => 10 | OOBWrite => 11
  end.

Inductive res (A : Type) := Ok (a : A) | Err (e : err).
Arguments Ok {A} a.
Arguments Err {A} e.

Definition bind {A B} (r : res A) (f : A -> res B) : res B :=
  match r with Ok a => f a | Err e => Err e end.
Notation "'do' x <- r ; k" := (bind r (fun x => k))
  (at level 200, x pattern, r at level 100, k at level 200).

Fixpoint list_eqb (a b : list Z) : bool :=
  match a, b with
  | [], [] => true
  | x :: a', y :: b' => (x =? y) && list_eqb a' b'
  | _, _ => false
  end.

Lemma list_eqb_eq a b : list_eqb a b = true <-> a = b.
Proof.
  revert b; induction a as [|x a IH]; intros [|y b]; simpl; split; intro H;
    try discriminate; try reflexivity.
  - apply andb_true_iff in H as [H1 H2]. apply Z.eqb_eq in H1. apply IH in H2. congruence.
  - inversion H; subst. rewrite Z.eqb_refl. simpl. apply IH. reflexivity.
Qed.

(* Canonical form of an outcome for comparison with the implementation:
   Ok bs  ->  0 :: bs ;   Err e  ->  [err_code e]  (never confused: code >= 1). *)
Definition canon (r : res (list Z)) : list Z :=
  match r with Ok l => 0 :: l | Err e => [err_code e] end.

(* The correspondence runner: [cases] pairs an input with the canonical output
   the implementation produced; the result lists the indices that differ. *)
Fixpoint mismatches_from {A} (f : A -> list Z) (n : nat) (cases : list (A * list Z)) : list nat :=
  match cases with
  | [] => []
  | (a, expect) :: cs =>
      if list_eqb (f a) expect then mismatches_from f (S n) cs
      else n :: mismatches_from f (S n) cs
  end.
Definition mismatches {A} (f : A -> list Z) cases := mismatches_from f 0%nat cases.

(* 63-bit chained hash (wraps mod 2^63), mirrored in harness/vh/core.py:hash63. *)
Definition h63_step (h : int) (x : Z) : int :=
  (h * 1000003 + of_Z x + 1)%uint63.
Definition h63_list (h : int) (l : list Z) : int :=
  fold_left h63_step l (h63_step h (Z.of_nat (length l))).
Definition h63_lists (h : int) (ls : list (list Z)) : int :=
  fold_left h63_list ls h.
