(* Engine data, part 7: reading text the library did not write.  A token sequence laid out with ANY
   amount of divider bytes ([ \n\t]) between the tokens -- none at all where the tokenizer needs none,
   i.e. at the start and after a string token -- tokenizes to the same tokens; so the tree read from
   Photoshop-formatted text is the tree read from the library's own layout.  Where a divider is
   required (after every token that is not a string) two tokens written without one are read as one. *)
From Coq Require Import ZArith List Bool Lia ZifyBool.
From PsdV Require Import Base.Prelude Engine.Model Engine.ProofsLex Engine.ProofsLeaf Engine.ProofsParse Engine.ProofsWrite.
Import ListNotations.
Open Scope Z_scope.

(* ====================================================================== tokens as they stand in a text *)
(* content of a string token between "(\xfe\xff" and the closing ")": plain bytes (neither ")" nor "\")
   and backslash pairs "\" + any byte -- what Photoshop or anyone may have written, not only [escape] *)
Fixpoint units (l : list Z) : bool :=
  match l with
  | [] => true
  | x :: t =>
      if x =? 41 then false
      else if x =? 92 then match t with [] => false | _ :: t' => units t' end
      else units t
  end.

Inductive ptok := PStr (c : list Z) | PTok (b : list Z).
Definition pbytes (t : ptok) : list Z := match t with PStr c => [40;254;255] ++ c ++ [41] | PTok b => b end.
Definition is_pstr (t : ptok) : bool := match t with PStr _ => true | PTok _ => false end.
Definition ptok_ok (t : ptok) : bool :=
  match t with
  | PStr c => units c
  | PTok b => clean b && negb (kind_eqb (classify b) KBad)
  end.
Definition tokof (t : ptok) : token := (classify (pbytes t), pbytes t).

(* a layout: the white space written before each token *)
Definition layout_t := list (list Z * ptok).
Definition render (ps : layout_t) : list Z := flat_map (fun p => fst p ++ pbytes (snd p)) ps.
(* [prev]: no divider is needed before this token (start of the data, or the previous token is a string) *)
Fixpoint ws_ok (prev : bool) (ps : layout_t) : bool :=
  match ps with
  | [] => true
  | (ws, t) :: r => forallb is_div ws && (prev || negb (is_nil ws)) && ws_ok (is_pstr t) r
  end.

(* ====================================================================== string tokens in general *)
Lemma scan_units : forall n c, (length c <= n)%nat -> units c = true ->
  forall rest, scan_end (c ++ 41 :: rest) = Some (c, rest).
Proof.
  induction n as [|n IH]; intros c Hn U rest.
  - destruct c; [reflexivity|cbn [length] in Hn; lia].
  - destruct c as [|x t]; [reflexivity|]. cbn [units] in U. cbn [app scan_end length] in *.
    destruct (x =? 41); [discriminate|]. destruct (x =? 92).
    + destruct t as [|y t']; [discriminate|]. cbn [app length] in *. rewrite (IH t') by (assumption || lia). reflexivity.
    + rewrite (IH t) by (assumption || lia). reflexivity.
Qed.

Lemma str_tail_units : forall n c, (length c <= n)%nat -> units c = true ->
  forall prev, str_tail prev (c ++ [41]) = true.
Proof.
  induction n as [|n IH]; intros c Hn U prev.
  - destruct c; [reflexivity|cbn [length] in Hn; lia].
  - destruct c as [|x t]; [reflexivity|]. cbn [units] in U. cbn [length] in Hn.
    destruct (x =? 41) eqn:E1; [discriminate|]. destruct (x =? 92) eqn:E2.
    + destruct t as [|y t']; [discriminate|]. cbn [length] in Hn.
      pose proof (IH t' ltac:(lia) U y) as H.
      cbn [app]. destruct (t' ++ [41]) as [|z r] eqn:ER; [apply app_eq_nil in ER; destruct ER; discriminate|].
      cbn [str_tail]. rewrite E1. cbn [andb]. assert (x = 92) by lia. subst x. change (92 =? 92) with true.
      destruct (y =? 41); cbn [andb]; exact H.
    + pose proof (IH t ltac:(lia) U x) as H.
      cbn [app]. destruct (t ++ [41]) as [|z r] eqn:ER; [apply app_eq_nil in ER; destruct ER; discriminate|].
      cbn [str_tail]. rewrite E1. cbn [andb]. exact H.
Qed.

Lemma classify_pstr c : units c = true -> classify ([40;254;255] ++ c ++ [41]) = KStr.
Proof.
  intros U. cbn [app]. rewrite classify_skip6 by lia.
  assert (re_num (40 :: 254 :: 255 :: c ++ [41]) = false) as -> by reflexivity.
  assert (re_dec (40 :: 254 :: 255 :: c ++ [41]) = false) as -> by reflexivity.
  assert (re_prop (40 :: 254 :: 255 :: c ++ [41]) = false) as -> by reflexivity.
  unfold re_str. cbn [skipn]. change (starts_str (40 :: 254 :: 255 :: c ++ [41])) with true.
  rewrite (str_tail_units (length c) c (le_n _) U). reflexivity.
Qed.

Lemma tokenize_pstr c rest : units c = true ->
  tokenize ([40;254;255] ++ c ++ [41] ++ rest) = (KStr, [40;254;255] ++ c ++ [41]) :: tokenize rest.
Proof.
  intros U. rewrite tokenize_eq. unfold tok_body. cbn [app].
  change (starts_str (40 :: 254 :: 255 :: c ++ 41 :: rest)) with true. cbv iota.
  cbn [skipn firstn]. rewrite (scan_units (length c) c (le_n _) U). cbn [app].
  apply emit_ok; [apply (classify_pstr c U)|discriminate].
Qed.

Lemma units_escape p : units (escape p) = true.
Proof.
  rewrite escape_flat. induction p as [|x t IH]; [reflexivity|]. cbn [flat_map].
  destruct (esc1_cases x) as [[S ->]|[S ->]]; cbn [app units].
  - exact IH.
  - unfold special in S. destruct (x =? 41) eqn:E1; [lia|]. destruct (x =? 92) eqn:E2; [lia|]. exact IH.
Qed.

(* ====================================================================== any layout gives the same tokens *)
Lemma sep_start_alldiv l : forallb is_div l = true -> sep_start l = true.
Proof. destruct l as [|d t]; [reflexivity|]. cbn [forallb sep_start]. intros H. apply andb_true_iff in H as [H _]. exact H. Qed.

Theorem tokenize_layout : forall ps prev trail,
  ws_ok prev ps = true -> forallb ptok_ok (map snd ps) = true -> forallb is_div trail = true ->
  tokenize (render ps ++ trail) = map tokof (map snd ps).
Proof.
  induction ps as [|[ws t] r IH]; intros prev trail WS OK TR.
  - cbn [render flat_map map app]. rewrite <- (app_nil_r trail). rewrite tokenize_divs by exact TR. reflexivity.
  - cbn [ws_ok] in WS. apply andb_true_iff in WS as [WS W3]. apply andb_true_iff in WS as [W1 W2].
    cbn [map snd forallb] in OK. apply andb_true_iff in OK as [OKt OKr].
    cbn [render flat_map fst snd map]. fold (render r). rewrite <- !app_assoc.
    rewrite tokenize_divs by exact W1.
    assert (SEP : is_pstr t = false -> sep_start (render r ++ trail) = true).
    { intros NS. destruct r as [|[ws' t'] r'].
      - cbn [render flat_map app]. apply sep_start_alldiv. exact TR.
      - cbn [ws_ok] in W3. rewrite NS in W3. cbn [orb] in W3.
        apply andb_true_iff in W3 as [W3 _]. apply andb_true_iff in W3 as [D NE].
        cbn [render flat_map fst]. rewrite <- !app_assoc.
        destruct ws' as [|d w]; [discriminate|]. cbn [forallb] in D. apply andb_true_iff in D as [D _]. exact D. }
    destruct t as [c|b]; cbn [ptok_ok pbytes is_pstr] in *.
    + rewrite <- !app_assoc. rewrite (tokenize_pstr c _ OKt). unfold tokof at 1. cbn [pbytes].
      rewrite (classify_pstr c OKt). f_equal. apply (IH true trail W3 OKr TR).
    + apply andb_true_iff in OKt as [CL NB].
      rewrite tokenize_tok by (try exact CL; apply SEP; reflexivity).
      unfold tokof at 1. cbn [pbytes]. rewrite (emit_ok b (classify b)); [|reflexivity|].
      * f_equal. apply (IH false trail W3 OKr TR).
      * intro E. rewrite E in NB. discriminate.
Qed.

(* reading does not depend on the layout: same tokens, two layouts (and any trailing white space) *)
Theorem parse_whitespace_insensitive : forall ps ps' trail trail',
  map snd ps = map snd ps' -> forallb ptok_ok (map snd ps) = true ->
  ws_ok true ps = true -> ws_ok true ps' = true ->
  forallb is_div trail = true -> forallb is_div trail' = true ->
  tokenize (render ps ++ trail) = tokenize (render ps' ++ trail') /\
  parse (render ps ++ trail) = parse (render ps' ++ trail').
Proof.
  intros ps ps' trail trail' E OK W W' T T'.
  assert (H : tokenize (render ps ++ trail) = tokenize (render ps' ++ trail')).
  { rewrite (tokenize_layout ps true trail W OK T).
    rewrite (tokenize_layout ps' true trail' W') by (try rewrite <- E; assumption). rewrite E. reflexivity. }
  split; [exact H|]. unfold parse. rewrite H. reflexivity.
Qed.

(* ====================================================================== the tokens of a tree *)
Fixpoint ptoks (t : tree) : list ptok :=
  match t with
  | TDict d =>
      PTok [60;60] ::
      (fix go (l : kvs) : list ptok :=
         match l with [] => [] | kv :: r => (PTok (47 :: fst kv) :: ptoks (snd kv)) ++ go r end) d ++
      [PTok [62;62]]
  | TList l =>
      PTok [91] ::
      (fix go (l : list tree) : list ptok := match l with [] => [] | x :: r => ptoks x ++ go r end) l ++
      [PTok [93]]
  | TStr p => [PStr (escape p)]
  | _ => [PTok (leaf_bytes t)]
  end.
Definition eptoks (d : kvs) : list ptok := flat_map (fun kv => PTok (47 :: fst kv) :: ptoks (snd kv)) d.
Definition lptoks (l : list tree) : list ptok := flat_map ptoks l.
Lemma ptoks_dict d : ptoks (TDict d) = PTok [60;60] :: eptoks d ++ [PTok [62;62]].
Proof. reflexivity. Qed.
Lemma ptoks_list l : ptoks (TList l) = PTok [91] :: lptoks l ++ [PTok [93]].
Proof. reflexivity. Qed.

Lemma leaf_clean t : is_leaf t = true -> wf_leaf t = true -> (forall p, t <> TStr p) ->
  clean (leaf_bytes t) = true /\ classify (leaf_bytes t) = leaf_kind t /\ leaf_kind t <> KBad.
Proof.
  intros L W NS. destruct t as [d|l|p|z|f|b|n|b]; try discriminate; cbn [leaf_bytes leaf_kind wf_leaf] in *.
  - exfalso. apply (NS p). reflexivity.
  - repeat split; [apply int_clean|apply int_classify|discriminate].
  - destruct (float_leaf f W) as (C & CL & _). repeat split; [exact CL|exact C|discriminate].
  - destruct b; repeat split; discriminate.
  - destruct (prop_classify n W) as (C & CL & _). repeat split; [exact CL|exact C|discriminate].
  - apply andb_true_iff in W as [W1 W2]. repeat split; [exact W2|].
    unfold kind_eqb in W1. intro E. rewrite E in W1. discriminate.
Qed.

Definition Ptoks_ok (t : tree) : Prop :=
  wf_tree t = true -> forallb ptok_ok (ptoks t) = true /\ map tokof (ptoks t) = vtoks t.

Lemma ptok_simple b k : clean b = true -> classify b = k -> k <> KBad ->
  ptok_ok (PTok b) = true /\ tokof (PTok b) = (k, b).
Proof.
  intros C K NB. split.
  - cbn [ptok_ok]. rewrite C. unfold kind_eqb. rewrite K. destruct k; try reflexivity. congruence.
  - unfold tokof. cbn [pbytes]. rewrite K. reflexivity.
Qed.

Lemma ptoks_all : forall t, Ptoks_ok t.
Proof.
  apply tree_ind2.
  - intros d H W. rewrite wf_dict in W. apply andb_true_iff in W as [_ WE].
    assert (E : forallb ptok_ok (eptoks d) = true /\ map tokof (eptoks d) = etoks d).
    { unfold eptoks, etoks. induction H as [|[k v] r Hv Hr IH]; [split; reflexivity|].
      cbn [wf_entries forallb fst snd] in WE. apply andb_true_iff in WE as [W1 W2]. apply andb_true_iff in W1 as [N Wv].
      destruct (IH W2) as [I1 I2]. destruct (Hv Wv) as [V1 V2]. cbn [snd] in V1, V2.
      destruct (prop_classify k N) as (C & CL & _).
      destruct (ptok_simple (47 :: k) KProp CL C ltac:(discriminate)) as [P1 P2].
      cbn [flat_map fst snd]. split.
      - cbn [app forallb]. rewrite P1. rewrite forallb_app, V1, I1. reflexivity.
      - cbn [app map]. rewrite P2. rewrite map_app, V2, I2. reflexivity. }
    destruct E as [E1 E2]. rewrite ptoks_dict, vtoks_dict. split.
    + cbn [forallb]. rewrite forallb_app, E1. reflexivity.
    + cbn [map]. rewrite map_app, E2. reflexivity.
  - intros l H W. rewrite wf_list in W.
    assert (E : forallb ptok_ok (lptoks l) = true /\ map tokof (lptoks l) = ltoks l).
    { unfold lptoks, ltoks. induction H as [|v r Hv Hr IH]; [split; reflexivity|].
      cbn [forallb] in W. apply andb_true_iff in W as [Wv W2].
      destruct (IH W2) as [I1 I2]. destruct (Hv Wv) as [V1 V2]. cbn [flat_map]. split.
      - rewrite forallb_app, V1, I1. reflexivity.
      - rewrite map_app, V2, I2. reflexivity. }
    destruct E as [E1 E2]. rewrite ptoks_list, vtoks_list. split.
    + cbn [forallb]. rewrite forallb_app, E1. reflexivity.
    + cbn [map]. rewrite map_app, E2. reflexivity.
  - intros t L W. rewrite wf_leaf_tree in W by exact L. rewrite vtoks_leaf by exact L.
    destruct t as [d|l|p|z|f|b|n|b]; try discriminate.
    + cbn [ptoks]. split.
      * cbn [forallb ptok_ok]. rewrite units_escape. reflexivity.
      * cbn [map]. unfold tokof. cbn [pbytes leaf_kind leaf_bytes]. rewrite classify_string. reflexivity.
    + destruct (leaf_clean (TInt z) L W ltac:(discriminate)) as (C & K & NB).
      destruct (ptok_simple _ _ C K NB) as [P1 P2]. cbn [ptoks]. split; [cbn [forallb]; rewrite P1; reflexivity|cbn [map]; rewrite P2; reflexivity].
    + destruct (leaf_clean (TFloat f) L W ltac:(discriminate)) as (C & K & NB).
      destruct (ptok_simple _ _ C K NB) as [P1 P2]. cbn [ptoks]. split; [cbn [forallb]; rewrite P1; reflexivity|cbn [map]; rewrite P2; reflexivity].
    + destruct (leaf_clean (TBool b) L W ltac:(discriminate)) as (C & K & NB).
      destruct (ptok_simple _ _ C K NB) as [P1 P2]. cbn [ptoks]. split; [cbn [forallb]; rewrite P1; reflexivity|cbn [map]; rewrite P2; reflexivity].
    + destruct (leaf_clean (TProp n) L W ltac:(discriminate)) as (C & K & NB).
      destruct (ptok_simple _ _ C K NB) as [P1 P2]. cbn [ptoks]. split; [cbn [forallb]; rewrite P1; reflexivity|cbn [map]; rewrite P2; reflexivity].
    + destruct (leaf_clean (TTag b) L W ltac:(discriminate)) as (C & K & NB).
      destruct (ptok_simple _ _ C K NB) as [P1 P2]. cbn [ptoks]. split; [cbn [forallb]; rewrite P1; reflexivity|cbn [map]; rewrite P2; reflexivity].
Qed.

(* ====================================================================== a tree in any layout *)
(* the tokens of the tree (with its container "<<" ">>"), ANY white space allowed by [ws_ok] before each, any
   trailing white space: the reader gives the tree.  Covers the indented layout of Photoshop's TySh data,
   CR-less or tab-less variants, everything on one line, no space after a string, ... *)
Theorem parse_any_layout : forall d ps trail,
  wf_tree (TDict d) = true -> map snd ps = ptoks (TDict d) -> ws_ok true ps = true ->
  forallb is_div trail = true -> parse (render ps ++ trail) = Ok (untiny_kvs d).
Proof.
  intros d ps trail W E WS TR. destruct (ptoks_all (TDict d) W) as [OK TK].
  unfold parse. rewrite (tokenize_layout ps true trail WS) by (try rewrite E; assumption).
  rewrite E, TK. apply parse_tokens_container. exact W.
Qed.

(* the same without the container (the Txt2 / EngineData2 form) *)
Theorem parse_any_layout_bare : forall d ps trail,
  wf_tree (TDict d) = true -> map snd ps = eptoks d -> ws_ok true ps = true ->
  forallb is_div trail = true -> parse (render ps ++ trail) = Ok (untiny_kvs d).
Proof.
  intros d ps trail W E WS TR. destruct (ptoks_all (TDict d) W) as [OK TK].
  rewrite ptoks_dict in OK, TK. rewrite vtoks_dict in TK.
  cbn [forallb] in OK. rewrite forallb_app in OK. apply andb_true_iff in OK as [_ OK]. apply andb_true_iff in OK as [OK _].
  cbn [map] in TK. rewrite map_app in TK. inversion TK as [[TK']]. apply app_inv_tail in TK'.
  unfold parse. rewrite (tokenize_layout ps true trail WS) by (try rewrite E; assumption).
  rewrite E, TK'. apply parse_tokens_bare. exact W.
Qed.

(* ====================================================================== where a divider is required *)
(* two tokens that are not strings, written without a divider between them, are read as ONE token
   (whatever it is: usually an unknown token, ValueError) -- so the layouts excluded by [ws_ok] are
   exactly those that change the token sequence *)
Theorem divider_required : forall a b rest,
  clean a = true -> clean b = true -> starts_str (a ++ b) = false -> sep_start rest = true ->
  tokenize (a ++ b ++ rest) = emit (a ++ b) (tokenize rest).
Proof.
  intros a b rest CA CB NS SR. rewrite app_assoc. apply tokenize_tok; [|exact SR].
  unfold clean in *. apply andb_true_iff in CA as [CA _]. apply andb_true_iff in CA as [A1 A2].
  apply andb_true_iff in CB as [CB _]. apply andb_true_iff in CB as [B1 B2].
  rewrite NS. rewrite forallb_app, A2, B2. destruct a; [discriminate|reflexivity].
Qed.
