(* Engine data, part 6: the count every write() returns is the number of bytes it emitted. *)
From Coq Require Import ZArith List Bool Lia ZifyBool.
From PsdV Require Import Base.Prelude Engine.Model Engine.ProofsLex Engine.ProofsLeaf Engine.ProofsParse Engine.ProofsWrite.
Import ListNotations.
Open Scope Z_scope.

Lemma Zlen_app {A} (a b : list A) : Zlen (a ++ b) = Zlen a + Zlen b.
Proof. unfold Zlen. rewrite app_length. lia. Qed.
Lemma Zlen_cons {A} (x : A) l : Zlen (x :: l) = 1 + Zlen l.
Proof. unfold Zlen. cbn [length]. lia. Qed.
Lemma Zlen_nil {A} : Zlen (@nil A) = 0.
Proof. reflexivity. Qed.

Definition cval (ind : option nat) (v : tree) : Z :=
  match v with
  | TDict _ => wc (inner ind) v
  | TList items => 1 + wc (list_ind ind items) v
  | _ => 1 + wc None v
  end.
Lemma centry_eq ind k v : centry ind (k, v) = Zlen (w_ind (inner ind)) + (1 + Zlen k) + cval ind v + Zlen (w_nl ind).
Proof. unfold centry, cval. destruct v; reflexivity. Qed.

Lemma wc_dict ind d : wc ind (TDict d) =
  ((match ind with Some O => 1 | _ => 0 end) + Zlen (w_nl ind) + Zlen (w_ind ind) + 2 + Zlen (w_nl ind)) +
  centries ind d + (Zlen (w_ind ind) + 2).
Proof.
  cbn [wc]. f_equal. f_equal. induction d as [|[k v] r IH]; [reflexivity|].
  cbn [centries map zsum]. rewrite IH. reflexivity.
Qed.

Definition citem (it : tree) : Z := match it with TDict _ => wc None it | _ => 1 + wc None it end.
Definition citem_s (k : nat) (it : tree) : Z :=
  match it with TDict _ => wc (Some k) it | _ => 1 + Z.of_nat k + wc None it end.
Lemma wc_list_none items : wc None (TList items) = 1 + (zsum (map citem items) + 1) + 1.
Proof.
  cbn [wc]. f_equal. f_equal. f_equal. induction items as [|it r IH]; [reflexivity|].
  cbn [map zsum]. rewrite <- IH. reflexivity.
Qed.
Lemma Zlen_repeat (x : Z) k : Zlen (repeat x k) = Z.of_nat k.
Proof. unfold Zlen. rewrite repeat_length. reflexivity. Qed.
Lemma wc_list_some k items : wc (Some k) (TList items) = 1 + (zsum (map (citem_s k) items) + 1 + Z.of_nat k) + 1.
Proof.
  cbn [wc w_nl w_ind]. rewrite Zlen_repeat. change (Zlen [10]) with 1.
  f_equal. f_equal. f_equal. f_equal. induction items as [|it r IH]; [reflexivity|].
  cbn [map zsum]. rewrite <- IH. unfold citem_s. destruct it; reflexivity.
Qed.

Lemma Zlen_flat_map {A} (f : A -> list Z) (g : A -> Z) l :
  Forall (fun x => g x = Zlen (f x)) l -> Zlen (flat_map f l) = zsum (map g l).
Proof.
  induction 1 as [|x r Hx Hr IH]; [reflexivity|]. cbn [flat_map map zsum]. rewrite Zlen_app, IH, Hx. reflexivity.
Qed.

Definition Counts (v : tree) : Prop := forall ind, wc ind v = Zlen (wv ind v).

Lemma counts_all : forall v, Counts v.
Proof.
  apply tree_ind2.
  - intros d H ind. rewrite wc_dict, wv_dict. rewrite !Zlen_app.
    assert (E : Zlen (wentries ind d) = centries ind d).
    { unfold wentries, centries. apply Zlen_flat_map. rewrite Forall_forall in *. intros [k v] Hin.
      specialize (H (k, v) Hin). cbn [snd] in H. rewrite centry_eq, wentry_eq. rewrite !Zlen_app, Zlen_cons.
      assert (cval ind v = Zlen (wval ind v)) as ->; [|lia].
      unfold cval, wval. destruct v; rewrite ?Zlen_cons; rewrite H; reflexivity. }
    rewrite E. unfold w_open, w_close. rewrite !Zlen_app.
    change (Zlen [60;60]) with 2. change (Zlen [62;62]) with 2.
    destruct ind as [[|k]|]; cbn [w_nl w_ind repeat]; unfold Zlen; cbn [length]; lia.
  - intros l H ind. destruct ind as [k|].
    + rewrite wc_list_some, wv_list_some. rewrite !Zlen_app, Zlen_repeat.
      rewrite (Zlen_flat_map (witem_s k) (citem_s k)).
      * change (Zlen [91]) with 1. change (Zlen [10]) with 1. change (Zlen [93]) with 1. lia.
      * rewrite Forall_forall in *. intros it Hin. specialize (H it Hin). unfold citem_s, witem_s.
        destruct it; rewrite ?Zlen_app, ?Zlen_repeat; rewrite H; change (Zlen [10]) with 1; lia.
    + rewrite wc_list_none, wv_list_none. rewrite !Zlen_app.
      rewrite (Zlen_flat_map witem citem).
      * change (Zlen [91]) with 1. change (Zlen [32]) with 1. change (Zlen [93]) with 1. lia.
      * rewrite Forall_forall in *. intros it Hin. specialize (H it Hin). unfold citem, witem.
        destruct it; rewrite ?Zlen_cons; rewrite H; reflexivity.
  - intros t L ind. destruct t; try discriminate; reflexivity.
Qed.

(* the count returned by EngineData / EngineData2 .write(fp) is the number of bytes written: every tree, both layouts *)
Theorem write_count_truthful ly d bs : write ly d = Ok bs -> write_count ly d = Zlen bs.
Proof.
  intros H. unfold write in H. destruct (wbig (TDict d)); [discriminate|].
  destruct ly; inversion H; subst bs; cbn [write_count].
  - apply counts_all.
  - unfold wentries, centries. symmetry. apply Zlen_flat_map. apply Forall_forall. intros [k v] _.
    rewrite centry_eq, wentry_eq. rewrite !Zlen_app, Zlen_cons.
    assert (cval None v = Zlen (wval None v)) as ->; [|lia].
    unfold cval, wval. destruct v; rewrite ?Zlen_cons; rewrite (counts_all _); reflexivity.
Qed.
