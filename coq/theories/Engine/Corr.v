(* Correspondence glue for C18 (mirrored in harness/vh/c18.py): canonical outcomes and digests. *)
From PsdV Require Import Base.Prelude Engine.Model.
From Coq Require Import Uint63.

Definition dig (l : list Z) : list Z := [to_Z (h63_list 0%uint63 l)].

(* tokenizer: kinds and bytes of all tokens; a KBad token is compared by kind only *)
Fixpoint ser_tokens_c (ts : list token) : list Z :=
  match ts with
  | [] => []
  | (KBad, _) :: r => 12 :: 0 :: ser_tokens_c r
  | (k, b) :: r => kind_code k :: Zlen b :: b ++ ser_tokens_c r
  end.
Definition tok_full (data : list Z) : list Z := ser_tokens_c (tokenize data).
Definition tok_dig (data : list Z) : list Z := dig (tok_full data).

(* reader: 0 :: canonical tree, or [error code] *)
Definition parse_full (data : list Z) : list Z :=
  match parse data with Ok d => 0 :: ser (TDict d) | Err e => [err_code e] end.
Definition parse_dig (data : list Z) : list Z := dig (parse_full data).

(* writer: layout 0 = EngineData (indented, container), 1 = EngineData2 (compact) *)
Definition ly_of (z : Z) : layout := if z =? 0 then Indented else Compact.
Definition write_full (a : Z * kvs) : list Z := canon (write (ly_of (fst a)) (snd a)).
(* digest of the written bytes, then the count the writer returns *)
Definition write_dig (a : Z * kvs) : list Z := dig (write_full a) ++ [write_count (ly_of (fst a)) (snd a)].

(* reader then writer on raw bytes (fixture blobs): parse, write in the given layout *)
Definition rewrite_full (a : Z * list Z) : list Z :=
  match parse (snd a) with
  | Ok d => canon (write (ly_of (fst a)) d)
  | Err e => [err_code e]
  end.
Definition rewrite_dig (a : Z * list Z) : list Z := dig (rewrite_full a).

(* element level *)
Definition string_full (p : list Z) : list Z := leaf_bytes (TStr p).
Definition unstring_full (b : list Z) : list Z :=
  match leaf_of KStr b with Ok (TStr p) => 0 :: p | Ok _ => [99] | Err e => [err_code e] end.
Definition float_text (a : Z * Z * Z) : list Z :=
  let '(n, m, t) := a in float_bytes (Fl (n =? 1) m (t =? 1)).
Definition float_parse (b : list Z) : list Z :=
  let f := float_of_bytes b in [b2z (fneg f); fmag f; b2z (ftiny f)].

(* tokenizer / reader applied to what the model's writer produced for the same tree (the writer
   stream checks that these bytes are the implementation's) *)
Definition tokw_dig (a : Z * kvs) : list Z :=
  match write (ly_of (fst a)) (snd a) with Ok b => tok_dig b | Err e => [err_code e] end.
Definition parsew_dig (a : Z * kvs) : list Z :=
  match write (ly_of (fst a)) (snd a) with Ok b => parse_dig b | Err e => [err_code e] end.

(* one-byte edits of a fixed text (white-space experiments on the fixture blobs): (0, pos, _) deletes the byte at pos,
   (1, pos, c) inserts c before pos *)
Definition edit_apply (blob : list Z) (a : Z * Z * Z) : list Z :=
  let '(op, pos, c) := a in
  let n := Z.to_nat pos in
  if op =? 0 then firstn n blob ++ skipn (S n) blob else firstn n blob ++ c :: skipn n blob.
Definition ws_edit_dig (blob : list Z) (a : Z * Z * Z) : list Z := parse_dig (edit_apply blob a).

(* the three views of one written tree in one pass: [bytes digest; returned count; tokens digest; parsed-tree digest] *)
Definition written_dig (a : Z * kvs) : list Z :=
  match write (ly_of (fst a)) (snd a) with
  | Ok b => dig (0 :: b) ++ [write_count (ly_of (fst a)) (snd a)] ++ tok_dig b ++ parse_dig b
  | Err e => [err_code e]
  end.
