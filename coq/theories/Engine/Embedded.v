(* Engine data, part 8: the embedded case.  TypeToolObjectSetting (psd/tagged_blocks.py:790-828) on top of the
   descriptor / length-block model of coq/theories/Psd (Codec.v, Descriptor.v, DescriptorProofs.v, Typed.v;
   used read-only).  Psd/ has no model of TypeToolObjectSetting itself, so the block is modelled here:
     H version, 6d transform (48 opaque bytes), H text_version, DescriptorBlock text_data (padding 1),
     H warp_version, DescriptorBlock warp (padding 1), 4i left top right bottom, padding to 4.
   The text descriptor holds the engine data as a raw-data ('tdta') item under the key "EngineData";
   read() replaces its bytes by the parsed EngineData object, RawData.write then calls that object's
   write() inside write_length_block and records the count it RETURNS as the length of the item. *)
From PsdV Require Import Base.Prelude Psd.Codec Psd.Model Psd.Proofs Psd.Descriptor Psd.DescriptorProofs Psd.Typed.
From PsdV Require Import Engine.Model Engine.ProofsLex Engine.ProofsLeaf Engine.ProofsParse Engine.ProofsWrite Engine.ProofsCount.
From Coq Require Import ZArith List Bool Lia.
Import ListNotations.
Open Scope Z_scope.

(* ====================================================================== the RawData item *)
(* value.write(f) of an EngineData / EngineData2 object: the bytes and the count it reports *)
Definition engine_w (ly : layout) (d : kvs) : W :=
  match write ly d with Ok bs => Ok (bs, write_count ly d) | Err e => Err e end.

Lemma engine_w_bytes ly d bs : write ly d = Ok bs -> engine_w ly d = w_bytes bs.
Proof.
  intros H. unfold engine_w, w_bytes. rewrite H. rewrite (write_count_truthful ly d bs H). reflexivity.
Qed.

Lemma engine_w_truthful ly d : wtruth (engine_w ly d).
Proof.
  unfold engine_w. destruct (write ly d) as [bs|e] eqn:E; [|apply wtruth_err].
  rewrite (write_count_truthful ly d bs E). apply (wtruth_bytes bs).
Qed.

(* RawData.write with the object as value = RawData.write with the bytes the object writes *)
Definition raw_obj_w (ly : layout) (d : kvs) : W := w_length_block 0 4 1 (engine_w ly d).
Theorem raw_object_writes_as_bytes : forall t ly d bs, write ly d = Ok bs ->
  raw_obj_w ly d = write_dval t (DRaw OS_tdta bs).
Proof. intros t ly d bs H. unfold raw_obj_w. rewrite (engine_w_bytes ly d bs H). reflexivity. Qed.

(* and, by the generic length-block lemma of Psd/Codec.v, the item is read back whole and parses to the tree *)
Theorem raw_item_roundtrip : forall d bs blk n rest, wf_tree (TDict d) = true ->
  raw_obj_w Indented d = Ok (blk, n) ->
  exists body, read_length_block 0 4 1 (blk ++ rest) = Ok (body, rest) /\ parse body = Ok (untiny_kvs d) /\
               (write Indented d = Ok bs -> body = bs).
Proof.
  intros d bs blk n rest W H.
  destruct (length_block_rt 0 4 1 (engine_w Indented d) blk n rest ltac:(lia) eq_refl (engine_w_truthful _ _) H)
    as (body & Hb & Hr).
  exists body. split; [exact Hr|].
  destruct (parse_write_indented d W) as (bs' & H1 & H2).
  rewrite (engine_w_bytes _ _ _ H1) in Hb. apply w_bytes_inv in Hb as [-> _].
  split; [exact H2|]. intros H3. rewrite H1 in H3. inversion H3. reflexivity.
Qed.

(* ====================================================================== TypeToolObjectSetting *)
Definition engine_key : key := [69;110;103;105;110;101;68;97;116;97].          (* b"EngineData" *)

Record tysh := mkTysh {
  ty_ver : Z; ty_xform : list Z; ty_tver : Z; ty_text : dblock;
  ty_wver : Z; ty_warp : dblock; ty_l : Z; ty_t : Z; ty_r : Z; ty_b : Z }.

Definition write_tysh (t : terms) (pad : Z) (x : tysh) : W :=
  w_then_pad
    (w_fmt (pk_cat [pack_u 2 (ty_ver x); Ok (ty_xform x)]) +++ w_fmt (pack_u 2 (ty_tver x)) +++
     write_dblock t 1 (ty_text x) +++ w_fmt (pack_u 2 (ty_wver x)) +++ write_dblock t 1 (ty_warp x) +++
     w_fmt (pk_cat [pack_s 4 (ty_l x); pack_s 4 (ty_t x); pack_s 4 (ty_r x); pack_s 4 (ty_b x)])) pad.

(* DescriptorBlock.read(fp) inside a larger structure: what follows stays in the stream *)
Definition read_dblock_s (units : list Z) (t : terms) (s : stream) : res (dblock * terms * stream) :=
  do (ver, s1) <- read_u 4 s;
  do (r, s2) <- read_dval units (S (length s1)) t OS_Objc s1;
  if ver =? 16 then Ok (DBlock ver (fst r), snd r, s2) else Err ValueErr.

Definition text_items (b : dblock) : list (key * Descriptor.dval) :=
  match b with DBlock _ (DDesc _ _ _ items) => items | _ => [] end.
Fixpoint find_raw (items : list (key * Descriptor.dval)) : option (list Z) :=
  match items with
  | [] => None
  | (k, v) :: r => if list_eqb k engine_key then match v with DRaw _ b => Some b | _ => None end else find_raw r
  end.
(* if b"EngineData" in text_data: try: value = EngineData.frombytes(value) except: (warning, bytes kept) *)
Definition expose (b : dblock) : option kvs :=
  match find_raw (text_items b) with
  | Some bs => match parse bs with Ok d => Some d | Err _ => None end
  | None => None
  end.

Definition read_tysh (units : list Z) (t : terms) (s : stream) : res (tysh * option kvs) :=
  do (ver, s1) <- read_u 2 s;
  do (xf, s2) <- take 48 s1;
  do (tv, s3) <- read_u 2 s2;
  do (tb, s4) <- read_dblock_s units t s3;
  do (wv, s5) <- read_u 2 s4;
  do (wb, s6) <- read_dblock_s units (snd tb) s5;
  do (l, s7) <- read_s 4 s6;
  do (tp, s8) <- read_s 4 s7;
  do (r, s9) <- read_s 4 s8;
  do (b, _) <- read_s 4 s9;
  if (tv =? 50) && (wv =? 1)                                   (* attr validators in_((50,)) / in_((1,)) *)
  then Ok (mkTysh ver xf tv (fst tb) wv (fst wb) l tp r b, expose (fst tb))
  else Err ValueErr.

Definition is_dblock1 (b : dblock) : bool := match b with DBlock _ _ => true | _ => false end.
Definition wf_tysh (units : list Z) (x : tysh) : bool :=
  (len (ty_xform x) =? 48) && (ty_tver x =? 50) && (ty_wver x =? 1) &&
  is_dblock1 (ty_text x) && wf_dblock units (ty_text x) && is_dblock1 (ty_warp x) && wf_dblock units (ty_warp x).

Lemma dblock_s_rt units t b bs n rest : wf_terms t = true -> is_dblock1 b = true -> wf_dblock units b = true ->
  write_dblock t 1 b = Ok (bs, n) -> read_dblock_s units t (bs ++ rest) = Ok (b, t, rest).
Proof.
  intros Ht H1 Hwf H. destruct b as [ver d|]; [|discriminate]. cbn [write_dblock wf_dblock] in *.
  apply andb_prop in Hwf as [Hwf Hd]. apply andb_prop in Hwf as [Hver Hos].
  destruct d; try discriminate. apply Z.eqb_eq in Hos. subst os.
  apply w_then_pad_inv in H as (x & nx & Hx & -> & _). rewrite pad_count_1. cbn [Z.to_nat zeros repeat]. rewrite app_nil_r.
  apply w_seq_inv in Hx as (a & na & b & nb & Ha & Hb & -> & ->). apply w_fmt_inv in Ha as [Ha ->].
  unfold read_dblock_s. rewrite <- !app_assoc. rewrite (read_u_pack _ _ _ _ Ha). cbn [bind].
  pose proof (dsize_le t _ _ _ Hb) as Hsz.
  rewrite (dval_rt units t Ht _ Hd b nb _ _ Hb) by (rewrite app_length; lia).
  cbn [bind fst snd]. rewrite Hver. reflexivity.
Qed.

Theorem tysh_roundtrip : forall units t pad x blk n rest,
  wf_terms t = true -> wf_tysh units x = true -> write_tysh t pad x = Ok (blk, n) ->
  read_tysh units t (blk ++ rest) = Ok (x, expose (ty_text x)).
Proof.
  intros units t pad x blk n rest Ht Hwf H. destruct x as [ver xf tv tb wv wb l tp r b].
  unfold wf_tysh in Hwf. cbn [ty_ver ty_xform ty_tver ty_text ty_wver ty_warp ty_l ty_t ty_r ty_b] in *.
  repeat (apply andb_prop in Hwf as [Hwf ?]).
  unfold write_tysh in H. cbn [ty_ver ty_xform ty_tver ty_text ty_wver ty_warp ty_l ty_t ty_r ty_b] in H.
  apply w_then_pad_inv in H as (y & ny & Hy & -> & _).
  apply w_seq_inv in Hy as (y5 & n5 & b6 & n6 & Hy & K6 & -> & ->).
  apply w_seq_inv in Hy as (y4 & n4 & b5 & n5' & Hy & K5 & -> & ->).
  apply w_seq_inv in Hy as (y3 & n3 & b4 & n4' & Hy & K4 & -> & ->).
  apply w_seq_inv in Hy as (y2 & n2 & b3 & n3' & Hy & K3 & -> & ->).
  apply w_seq_inv in Hy as (b1 & n1 & b2 & n2' & K1 & K2 & -> & ->).
  apply w_fmt_inv in K1 as [K1 _]. apply w_fmt_inv in K2 as [K2 _]. apply w_fmt_inv in K4 as [K4 _].
  apply w_fmt_inv in K6 as [K6 _].
  apply pk_cat_cons_inv in K1 as (v1 & v2 & Hv1 & Hv2 & ->).
  apply pk_cat_cons_inv in Hv2 as (xf' & e & Hxf & He & ->). inversion Hxf; subst xf'. apply pk_cat_nil_inv in He. subst e.
  apply pk_cat_cons_inv in K6 as (c1 & c' & Hc1 & K6 & ->).
  apply pk_cat_cons_inv in K6 as (c2 & c'' & Hc2 & K6 & ->).
  apply pk_cat_cons_inv in K6 as (c3 & c''' & Hc3 & K6 & ->).
  apply pk_cat_cons_inv in K6 as (c4 & e & Hc4 & He & ->). apply pk_cat_nil_inv in He. subst e.
  unfold read_tysh. rewrite <- !app_assoc. cbn [app].
  rewrite (read_u_pack _ _ _ _ Hv1). cbn [bind app].
  rewrite (take_app_n 48 xf) by (apply Z.eqb_eq; assumption). cbn [bind app].
  rewrite (read_u_pack _ _ _ _ K2). cbn [bind app].
  rewrite (dblock_s_rt units t tb b3 n3' _ Ht) by assumption. cbn [bind fst snd].
  rewrite (read_u_pack _ _ _ _ K4). cbn [bind app].
  rewrite (dblock_s_rt units t wb b5 n5' _ Ht) by assumption. cbn [bind fst snd].
  rewrite (read_s_pack 4 _ _ _ ltac:(lia) Hc1). cbn [bind app].
  rewrite (read_s_pack 4 _ _ _ ltac:(lia) Hc2). cbn [bind app].
  rewrite (read_s_pack 4 _ _ _ ltac:(lia) Hc3). cbn [bind app].
  rewrite (read_s_pack 4 _ _ _ ltac:(lia) Hc4). cbn [bind app].
  repeat match goal with H : (_ =? _) = true |- _ => rewrite H end. reflexivity.
Qed.

Lemma wtruth_tysh t pad x : wtruth (write_tysh t pad x).
Proof.
  unfold write_tysh. apply wtruth_then_pad.
  repeat first [apply wtruth_seq | apply wtruth_fmt | apply wtruth_dblock].
Qed.

(* ====================================================================== the theorem *)
(* A type-tool block whose text descriptor holds, under "EngineData", the bytes written for a well-formed tree d
   (indented layout):  - re-reading the written block gives the same block, with the engine data parsed and exposed
   as exactly d (decimals to 8 places: [untiny_kvs d], which is d when no decimal is tiny);  - the object exposed writes, inside RawData, the very item the bytes would write
   (raw_object_writes_as_bytes), so writing the re-read block again gives the same block bytes. *)
Theorem type_tool_engine_data_roundtrip : forall units t pad x d bs blk n rest,
  wf_terms t = true -> wf_tysh units x = true ->
  wf_tree (TDict d) = true -> write Indented d = Ok bs -> find_raw (text_items (ty_text x)) = Some bs ->
  write_tysh t pad x = Ok (blk, n) ->
  read_tysh units t (blk ++ rest) = Ok (x, Some (untiny_kvs d)) /\
  raw_obj_w Indented d = write_dval t (DRaw OS_tdta bs) /\
  (forall x' e, read_tysh units t (blk ++ rest) = Ok (x', e) -> write_tysh t pad x' = Ok (blk, n)).
Proof.
  intros units t pad x d bs blk n rest Ht Hwf W HW HF H.
  assert (R : read_tysh units t (blk ++ rest) = Ok (x, Some (untiny_kvs d))).
  { rewrite (tysh_roundtrip units t pad x blk n rest Ht Hwf H). unfold expose. rewrite HF.
    destruct (parse_write_indented d W) as (bs' & H1 & H2). rewrite HW in H1. inversion H1; subst bs'.
    rewrite H2. reflexivity. }
  split; [exact R|]. split; [apply raw_object_writes_as_bytes; exact HW|].
  intros x' e R'. rewrite R in R'. inversion R'; subst. exact H.
Qed.

(* ... and inside its tagged block (Psd/Typed.v payload_block_rt: signature, key, length field, padding) *)
Theorem type_tool_block_roundtrip : forall units t v pad sg key x d bs blk n rest,
  (pad = 1 \/ pad = 2 \/ pad = 4) -> memz sg model_tb_sigs = true ->
  wf_terms t = true -> wf_tysh units x = true ->
  wf_tree (TDict d) = true -> write Indented d = Ok bs -> find_raw (text_items (ty_text x)) = Some bs ->
  write_payload_block v pad sg key (write_tysh t 4 x) = Ok (blk, n) ->
  read_payload_block (read_tysh units t) v pad (blk ++ rest) = Ok (Some (sg, key, (x, Some (untiny_kvs d)), rest)).
Proof.
  intros units t v pad sg key x d bs blk n rest Hpad Hsg Ht Hwf W HW HF H.
  apply (payload_block_rt v pad sg key (write_tysh t 4 x) (read_tysh units t) (x, Some (untiny_kvs d)) blk n rest Hpad Hsg
           (wtruth_tysh t 4 x)); [|exact H].
  intros body m Hb. rewrite <- (app_nil_r body).
  apply (type_tool_engine_data_roundtrip units t 4 x d bs body m [] Ht Hwf W HW HF Hb).
Qed.

(* ====================================================================== the Txt2 block *)
(* TEXT_ENGINE_DATA ('Txt2') tagged block: its payload IS an EngineData2 object (tagged_blocks.TYPES): TaggedBlock.write
   serialises it into the length block with the count its write() returns, TaggedBlock.read hands the bytes to
   EngineData2.frombytes.  Round trip of the whole block, for every well-formed tree. *)
Theorem text_engine_data_block_roundtrip : forall v pad sg key d blk n rest,
  (pad = 1 \/ pad = 2 \/ pad = 4) -> memz sg model_tb_sigs = true -> wf_tree (TDict d) = true ->
  write_payload_block v pad sg key (engine_w Compact d) = Ok (blk, n) ->
  read_payload_block parse v pad (blk ++ rest) = Ok (Some (sg, key, untiny_kvs d, rest)).
Proof.
  intros v pad sg key d blk n rest Hpad Hsg W H.
  apply (payload_block_rt v pad sg key (engine_w Compact d) parse (untiny_kvs d) blk n rest Hpad Hsg
           (engine_w_truthful Compact d)); [|exact H].
  intros body m Hb. destruct (parse_write_compact d W) as (bs & H1 & H2).
  rewrite (engine_w_bytes _ _ _ H1) in Hb. apply w_bytes_inv in Hb as [-> _]. exact H2.
Qed.
