(* Engine data, part 11: every text the tokenizer accepts IS a layout in the sense of ProofsSpace ([ws_ok]): the
   tokens with the white space that stood before them reconstruct the text.  With tokenize_layout this makes
   [ws_ok] exact: a text tokenizes to a given sequence of known tokens iff it is a [ws_ok] layout of it. *)
From Coq Require Import ZArith List Bool Lia ZifyBool.
From PsdV Require Import Base.Prelude Engine.Model Engine.ProofsLex Engine.ProofsLeaf Engine.ProofsParse Engine.ProofsWrite
  Engine.ProofsSpace Engine.ProofsReparse.
Import ListNotations.
Open Scope Z_scope.

Lemma scan_end_spec : forall n l c r, (length l <= n)%nat -> scan_end l = Some (c, r) -> l = c ++ 41 :: r /\ units c = true.
Proof.
  induction n as [|n IH]; intros l c r Hn H.
  - destruct l; [discriminate|cbn [length] in Hn; lia].
  - destruct l as [|x t]; [discriminate|]. cbn [scan_end] in H. cbn [length] in Hn.
    destruct (x =? 41) eqn:E1.
    + inversion H; subst. assert (x = 41) by lia. subst x. split; reflexivity.
    + destruct (x =? 92) eqn:E2.
      * destruct t as [|y t']; [discriminate|]. destruct (scan_end t') as [[c' r']|] eqn:E; [|discriminate].
        inversion H; subst. cbn [length] in Hn. destruct (IH t' c' r ltac:(lia) E) as [-> U].
        split; [reflexivity|]. cbn [units]. rewrite E1, E2. exact U.
      * destruct (scan_end t) as [[c' r']|] eqn:E; [|discriminate].
        inversion H; subst. destruct (IH t c' r ltac:(lia) E) as [-> U].
        split; [reflexivity|]. cbn [units]. rewrite E1, E2. exact U.
Qed.

Lemma dropwhile_decomp l : exists ws, forallb is_div ws = true /\ l = ws ++ dropwhile is_div l /\
  sep_start (dropwhile is_div l) = negb (negb (is_nil (dropwhile is_div l))) .
Proof.
  induction l as [|x t (ws & A & E & S)].
  - exists []. repeat split.
  - cbn [dropwhile]. destruct (is_div x) eqn:D.
    + exists (x :: ws). cbn [forallb]. rewrite D, A. repeat split; [cbn [app]; f_equal; exact E|exact S].
    + exists []. repeat split. cbn [sep_start is_nil negb]. exact D.
Qed.

(* the token before the first divider, the dividers after it, the rest (which does not begin with a divider) *)
Lemma split_div_spec : forall l tok r, split_div l = (tok, r) ->
  nodiv tok = true /\ exists ws, forallb is_div ws = true /\ l = tok ++ ws ++ r /\ (ws = [] -> r = []).
Proof.
  induction l as [|x t IH]; intros tok r H.
  - inversion H. split; [reflexivity|]. exists []. repeat split.
  - cbn [split_div] in H. destruct (is_div x) eqn:D.
    + inversion H; subst. split; [reflexivity|]. destruct (dropwhile_decomp t) as (ws & A & E & _).
      exists (x :: ws). cbn [forallb app]. rewrite D, A. repeat split; [f_equal; exact E|discriminate].
    + destruct (split_div t) as [a b] eqn:SD. inversion H; subst. destruct (IH a r eq_refl) as [N (ws & A & E & Z)].
      split; [unfold nodiv in *; cbn [forallb]; rewrite D, N; reflexivity|].
      exists ws. repeat split; [exact A|cbn [app]; f_equal; exact E|exact Z].
Qed.

Definition nobad (ts : list token) : bool := forallb (fun t => negb (kind_eqb (fst t) KBad)) ts.
Definition is_layout (l : list Z) (ps : layout_t) (trail : list Z) : Prop :=
  l = render ps ++ trail /\ forallb ptok_ok (map snd ps) = true /\ forallb is_div trail = true.

(* white space put in front of a layout *)
Lemma prepend_ws ws l ps trail (b : bool) : forallb is_div ws = true -> (b = true \/ ws <> []) ->
  is_layout l ps trail -> ws_ok true ps = true ->
  exists ps' trail', is_layout (ws ++ l) ps' trail' /\ ws_ok b ps' = true /\ map snd ps' = map snd ps.
Proof.
  intros A B (E & OK & TR) W. destruct ps as [|[w t] r].
  - exists [], (ws ++ trail). unfold is_layout. rewrite E. cbn [render flat_map app map snd forallb ws_ok].
    rewrite forallb_app, A, TR. repeat split.
  - cbn [ws_ok] in W. apply andb_true_iff in W as [W W3]. apply andb_true_iff in W as [W1 _].
    exists ((ws ++ w, t) :: r), trail. repeat split.
    + rewrite E. cbn [render flat_map fst snd]. rewrite <- !app_assoc. reflexivity.
    + exact OK.
    + exact TR.
    + cbn [ws_ok]. rewrite forallb_app, A, W1, W3. cbn [andb]. rewrite andb_true_r.
      destruct B as [->|NE]; [reflexivity|]. destruct ws; [congruence|]. cbn [app is_nil negb]. apply orb_true_r.
Qed.

Lemma emit_nobad tok rest : nobad (emit tok rest) = true ->
  classify tok <> KBad /\ emit tok rest = (classify tok, tok) :: rest /\ nobad rest = true.
Proof.
  unfold emit. intros H. destruct (classify tok) eqn:E; cbn [nobad forallb fst] in H; try discriminate;
    (split; [discriminate|split; [reflexivity|]]); apply andb_true_iff in H as [_ H]; exact H.
Qed.

Theorem tokenized_is_layout : forall n l, (length l <= n)%nat -> nobad (tokenize l) = true ->
  exists ps trail, is_layout l ps trail /\ ws_ok true ps = true /\ tokenize l = map tokof (map snd ps).
Proof.
  induction n as [|n IH]; intros l Hn NB.
  - destruct l; [|cbn [length] in Hn; lia]. exists [], []. repeat split.
  - destruct l as [|x t]; [exists [], []; repeat split|].
    pose proof NB as NB0. rewrite tokenize_eq in NB. unfold tok_body in NB.
    destruct (starts_str (x :: t)) eqn:S.
    + destruct (scan_end (skipn 3 (x :: t))) as [[c r]|] eqn:E; [|discriminate].
      pose proof (scan_end_len _ _ _ _ (le_n _) E) as L1. pose proof (skipn_len 3 (x :: t)) as L2.
      destruct (scan_end_spec _ _ _ _ (le_n _) E) as [SK U].
      destruct (emit_nobad _ _ NB) as (CB & EM & NR).
      assert (TKL : tokenize (x :: t) = emit (firstn 3 (x :: t) ++ c ++ [41]) (tokenize r))
        by (rewrite tokenize_eq; unfold tok_body; rewrite S, E; reflexivity).
      rewrite EM in TKL.
      destruct (IH r ltac:(cbn [length] in *; lia) NR) as (ps & trail & (E1 & OK & TR) & W & TK).
      destruct t as [|b [|c' t']]; try discriminate. unfold starts_str in S.
      assert (x = 40 /\ b = 254 /\ c' = 255) as (-> & -> & ->) by lia. cbn [skipn] in SK. subst t'.
      exists (([], PStr c) :: ps), trail. repeat split.
      * cbn [render flat_map fst snd pbytes app]. fold (render ps). rewrite E1. rewrite <- !app_assoc. reflexivity.
      * cbn [map snd forallb ptok_ok]. rewrite U, OK. reflexivity.
      * exact TR.
      * cbn [ws_ok forallb is_pstr orb andb]. exact W.
      * rewrite TKL. cbn [firstn app map snd]. unfold tokof at 1. cbn [pbytes app]. rewrite TK. reflexivity.
    + pose proof (split_div_lt (x :: t) ltac:(discriminate)) as LT.
      destruct (split_div (x :: t)) as [tok r] eqn:SD. cbn [snd] in LT.
      destruct (split_div_spec _ _ _ SD) as [ND (ws & A & EL & Z)].
      destruct tok as [|y tk].
      * (* the text begins with dividers *)
        destruct (IH r ltac:(cbn [length] in *; lia) NB) as (ps & trail & LY & W & TK).
        assert (WN : ws <> []). { intro H. subst ws. rewrite (Z eq_refl) in EL. discriminate. }
        destruct (prepend_ws ws r ps trail true A (or_introl eq_refl) LY W) as (ps' & trail' & LY' & W' & MS).
        exists ps', trail'. cbn [app] in EL. rewrite EL. repeat split; try apply LY'; [exact W'|].
        rewrite MS, <- TK. rewrite tokenize_divs by exact A. reflexivity.
      * destruct (emit_nobad _ _ NB) as (CB & EM & NR).
        assert (CL : clean (y :: tk) = true).
        { unfold clean. fold (nodiv (y :: tk)). rewrite ND. cbn [is_nil negb andb].
          destruct (starts_str (y :: tk)) eqn:ST; [|reflexivity].
          rewrite EL in S. rewrite (starts_str_prefix _ (ws ++ r) ST) in S. discriminate. }
        assert (PK : ptok_ok (PTok (y :: tk)) = true).
        { cbn [ptok_ok]. rewrite CL. unfold kind_eqb. destruct (classify (y :: tk)); try reflexivity. congruence. }
        assert (TKL : tokenize (x :: t) = (classify (y :: tk), y :: tk) :: tokenize r).
        { rewrite tokenize_eq. unfold tok_body. rewrite S, SD. exact EM. }
        destruct r as [|r0 rr].
        -- exists [([], PTok (y :: tk))], ws. repeat split.
           ++ rewrite EL. cbn [render flat_map fst snd pbytes app]. rewrite !app_nil_r. reflexivity.
           ++ cbn [map snd forallb]. rewrite PK. reflexivity.
           ++ exact A.
           ++ rewrite TKL. reflexivity.
        -- destruct (IH (r0 :: rr) ltac:(cbn [length] in *; lia) NR) as (ps & trail & LY & W & TK).
           assert (WN : ws <> []). { intro H. subst ws. discriminate (Z eq_refl). }
           destruct (prepend_ws ws (r0 :: rr) ps trail false A (or_intror WN) LY W) as (ps' & trail' & (E' & OK' & TR') & W' & MS).
           exists (([], PTok (y :: tk)) :: ps'), trail'. repeat split.
           ++ rewrite EL. cbn [render flat_map fst snd pbytes]. fold (render ps'). rewrite E'. rewrite <- !app_assoc. reflexivity.
           ++ cbn [map snd forallb]. rewrite PK, OK'. reflexivity.
           ++ exact TR'.
           ++ cbn [ws_ok forallb is_pstr orb andb]. exact W'.
           ++ rewrite TKL. cbn [map snd]. rewrite MS, <- TK. reflexivity.
Qed.

(* a text tokenizes to known tokens  iff  it is a ws_ok layout of them: [ws_ok] is exact *)
Theorem layout_iff : forall l ts, nobad ts = true ->
  (tokenize l = ts <->
   exists ps trail, is_layout l ps trail /\ ws_ok true ps = true /\ map tokof (map snd ps) = ts).
Proof.
  intros l ts NB. split.
  - intros <-. destruct (tokenized_is_layout _ l (le_n _) NB) as (ps & trail & LY & W & TK).
    exists ps, trail. repeat split; try apply LY; [exact W|symmetry; exact TK].
  - intros (ps & trail & (E & OK & TR) & W & <-). rewrite E. apply (tokenize_layout ps true trail W OK TR).
Qed.
