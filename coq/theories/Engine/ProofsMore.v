(* Engine data, part 10: failure classes of the reader, data after the closing ">>", number formatting. *)
From Coq Require Import ZArith List Bool Lia ZifyBool.
From PsdV Require Import Base.Prelude Engine.Model Engine.ProofsLex Engine.ProofsLeaf Engine.ProofsParse Engine.ProofsWrite
  Engine.ProofsFuel.
Import ListNotations.
Open Scope Z_scope.

(* ====================================================================== how the reader can fail *)
(* ValueError (unknown token, unterminated string, bad UTF-16, digit limit, a closing token where a value is due),
   StopIteration (IndexErr: the data ends after a key), AttributeError (AssertErr: ">>" inside a List) - nothing else *)
Definition read_err (e : err) : bool :=
  match e with ValueErr | IndexErr | AssertErr | OutOfFuel => true | _ => false end.

Lemma leaf_of_errs k b e : leaf_of k b = Err e -> read_err e = true.
Proof.
  unfold leaf_of. destruct k; intros H; try (inversion H; reflexivity); try discriminate.
  - destruct (_ <? _)%nat; inversion H. reflexivity.
  - destruct (utf16_ok _); inversion H. reflexivity.
Qed.

Lemma p_errs : forall n,
  (forall acc ts e, pdict n acc ts = Err e -> read_err e = true) /\
  (forall acc ts e, plist n acc ts = Err e -> read_err e = true).
Proof.
  induction n as [|n [IHd IHl]]; split; intros acc ts e H; try (inversion H; reflexivity).
  - cbn [pdict] in H. destruct ts as [|[k b] ts']; [discriminate|].
    destruct k; try (inversion H; reflexivity); try (apply (IHd _ _ _ H)).
    destruct ts' as [|[vk vb] ts'']; [inversion H; reflexivity|].
    destruct vk; try (inversion H; reflexivity);
      try (destruct (leaf_of _ vb) eqn:EL; [apply (IHd _ _ _ H)|inversion H; subst; apply (leaf_of_errs _ _ _ EL)]).
    + destruct (plist n [] ts'') as [[l r]|e'] eqn:E; [apply (IHd _ _ _ H)|inversion H; subst; apply (IHl _ _ _ E)].
    + destruct (pdict n [] ts'') as [[d r]|e'] eqn:E; [apply (IHd _ _ _ H)|inversion H; subst; apply (IHd _ _ _ E)].
  - cbn [plist] in H. destruct ts as [|[k b] ts']; [discriminate|].
    destruct k; try (inversion H; reflexivity);
      try (destruct (leaf_of _ b) eqn:EL; [apply (IHl _ _ _ H)|inversion H; subst; apply (leaf_of_errs _ _ _ EL)]).
    + destruct (plist n [] ts') as [[l r]|e'] eqn:E; [apply (IHl _ _ _ H)|inversion H; subst; apply (IHl _ _ _ E)].
    + destruct (pdict n [] ts') as [[d r]|e'] eqn:E; [apply (IHl _ _ _ H)|inversion H; subst; apply (IHd _ _ _ E)].
Qed.

Theorem parse_errors : forall data e, parse data = Err e -> e = ValueErr \/ e = IndexErr \/ e = AssertErr.
Proof.
  intros data e H. pose proof (parse_total data) as NF.
  unfold parse, parse_tokens in H.
  destruct (pdict (S (length (tokenize data))) [] (tokenize data)) as [[d r]|e'] eqn:E; [discriminate|].
  inversion H; subst e'. pose proof (proj1 (p_errs _) _ _ _ E) as R.
  destruct e; try discriminate; try tauto. exfalso. apply NF. unfold parse, parse_tokens. rewrite E. reflexivity.
Qed.

(* ====================================================================== what follows the closing ">>" is not read *)
Theorem parse_ignores_trailer : forall d rest, wf_tree (TDict d) = true -> sep_start rest = true ->
  parse (wv (Some O) (TDict d) ++ rest) = Ok (untiny_kvs d).
Proof.
  intros d rest W SR. unfold parse. rewrite (lexes_all (TDict d) (Some O) rest W SR).
  pose proof W as W'. rewrite wf_dict in W'. apply andb_true_iff in W' as [ND WE].
  rewrite parse_tokens_PD, vtoks_dict. cbn [app]. rewrite PD_skip_start. rewrite <- app_assoc.
  rewrite (reads_entries d). 2: { apply Forall_forall. intros kv _. apply reads_all. } 2: exact WE.
  rewrite add_all_nodup by (rewrite untiny_keys; exact ND). cbn [app]. rewrite PD_end. reflexivity.
Qed.

(* ====================================================================== number formatting does not matter *)
(* leading zeros of the integer part and trailing zeros of the fraction (up to 8 places) do not change the decimal
   that is read: "0.333", "00.3330" and ".333" are the same value (Photoshop writes the first, the library the last) *)
Lemma dval_zeros_app k l : dval (repeat 48 k ++ l) = dval l.
Proof. rewrite dval_app, dval_zeros. lia. Qed.

Lemma takewhile_digits_app a x b : forallb is_digit a = true -> is_digit x = false -> takewhile is_digit (a ++ x :: b) = a.
Proof. intros. apply takewhile_app_stop; assumption. Qed.

Lemma repeat48_digits k : forallb is_digit (repeat 48 k) = true.
Proof. induction k; [reflexivity|]. cbn [repeat forallb]. rewrite IHk. reflexivity. Qed.

Theorem float_format_insensitive : forall (neg : bool) ip fr z1 z2,
  forallb is_digit ip = true -> forallb is_digit fr = true -> (length fr + z2 <= 8)%nat ->
  let s := if neg then [45] else [] in
  fmag (float_of_bytes (s ++ repeat 48 z1 ++ ip ++ 46 :: fr ++ repeat 48 z2)) = fmag (float_of_bytes (s ++ ip ++ 46 :: fr)) /\
  fneg (float_of_bytes (s ++ repeat 48 z1 ++ ip ++ 46 :: fr ++ repeat 48 z2)) = fneg (float_of_bytes (s ++ ip ++ 46 :: fr)).
Proof.
  intros neg ip fr z1 z2 DI DF L s.
  assert (SM : forall body, (exists x t, body = x :: t /\ x <> 45) ->
             strip_minus (s ++ body) = body /\ (match s ++ body with x :: _ => x =? 45 | [] => false end) = neg).
  { intros body (x & t & -> & NX). subst s. destruct neg; cbn [app].
    - unfold strip_minus. change (45 =? 45) with true. split; reflexivity.
    - unfold strip_minus. destruct (x =? 45) eqn:E; [lia|]. split; reflexivity. }
  assert (HD : forall a b, forallb is_digit a = true -> exists x t, a ++ 46 :: b = x :: t /\ x <> 45).
  { intros a b D. destruct a as [|y r]; cbn [app]; [exists 46, b; split; [reflexivity|lia]|].
    exists y, (r ++ 46 :: b). split; [reflexivity|]. cbn [forallb] in D. apply andb_true_iff in D as [D1 _].
    destruct (digit_facts y D1) as (_ & N & _). exact N. }
  assert (D1 : forallb is_digit (repeat 48 z1 ++ ip) = true) by (rewrite forallb_app, repeat48_digits, DI; reflexivity).
  destruct (SM ((repeat 48 z1 ++ ip) ++ 46 :: fr ++ repeat 48 z2) (HD _ _ D1)) as [S1 N1].
  destruct (SM (ip ++ 46 :: fr) (HD _ _ DI)) as [S2 N2].
  unfold float_of_bytes. rewrite <- app_assoc in S1, N1. rewrite S1, N1, S2, N2. cbn [fmag fneg].
  rewrite (app_assoc (repeat 48 z1) ip).
  rewrite !takewhile_app_stop, !dropwhile_app_stop by (assumption || reflexivity). cbn [tl].
  split; [|reflexivity]. rewrite dval_zeros_app. f_equal.
  rewrite !frac8_short by (rewrite ?app_length, ?repeat_length; lia).
  rewrite dval_app, dval_zeros, app_length, !repeat_length. unfold pow10.
  replace (Z.of_nat (8 - length fr)) with (Z.of_nat z2 + Z.of_nat (8 - (length fr + z2))) by lia.
  rewrite Z.pow_add_r by lia. lia.
Qed.

(* leading zeros of an Integer token do not matter either: "007" is 7, "-00" is 0 *)
Theorem int_format_insensitive : forall (neg : bool) z1 ds, forallb is_digit ds = true -> ds <> [] ->
  let s := if neg then [45] else [] in
  int_of_bytes (s ++ repeat 48 z1 ++ ds) = int_of_bytes (s ++ ds).
Proof.
  intros neg z1 ds D NE s. subst s. destruct neg; cbn [app].
  - unfold int_of_bytes. change (45 =? 45) with true. cbv iota. rewrite dval_zeros_app. reflexivity.
  - assert (HD : forall l, forallb is_digit l = true -> l <> [] -> int_of_bytes l = dval l).
    { intros l Dl NEl. destruct l as [|x t]; [congruence|]. unfold int_of_bytes.
      cbn [forallb] in Dl. apply andb_true_iff in Dl as [D1 _]. destruct (digit_facts x D1) as (_ & N & _).
      destruct (x =? 45) eqn:E; [lia|reflexivity]. }
    rewrite (HD ds D NE). rewrite HD.
    + apply dval_zeros_app.
    + rewrite forallb_app, repeat48_digits, D. reflexivity.
    + intro H. apply app_eq_nil in H. tauto.
Qed.

(* ====================================================================== a repeated key: OrderedDict semantics *)
Fixpoint lookup (k : list Z) (d : kvs) : option tree :=
  match d with [] => None | (k', v) :: r => if list_eqb k k' then Some v else lookup k r end.

Lemma list_eqb_refl a : list_eqb a a = true.
Proof. apply list_eqb_eq. reflexivity. Qed.

Theorem set_kv_semantics : forall k v d,
  lookup k (set_kv k v d) = Some v /\
  (forall k', list_eqb k' k = false -> lookup k' (set_kv k v d) = lookup k' d) /\
  (existsb (list_eqb k) (map fst d) = true -> map fst (set_kv k v d) = map fst d) /\
  (existsb (list_eqb k) (map fst d) = false -> set_kv k v d = d ++ [(k, v)]).
Proof.
  intros k v d. repeat split.
  - induction d as [|[k' v'] r IH]; cbn [set_kv lookup]; [rewrite list_eqb_refl; reflexivity|].
    destruct (list_eqb k k') eqn:E; cbn [lookup]; rewrite E; [reflexivity|exact IH].
  - intros k0 NE. induction d as [|[k' v'] r IH]; cbn [set_kv lookup]; [rewrite NE; reflexivity|].
    destruct (list_eqb k k') eqn:E; cbn [lookup].
    + apply list_eqb_eq in E. subst k'. rewrite NE. reflexivity.
    + destruct (list_eqb k0 k'); [reflexivity|exact IH].
  - intros H. induction d as [|[k' v'] r IH]; [discriminate|]. cbn [set_kv map fst existsb] in *.
    destruct (list_eqb k k') eqn:E; [reflexivity|]. cbn [orb map fst] in *. rewrite (IH H). reflexivity.
  - apply set_kv_fresh.
Qed.
