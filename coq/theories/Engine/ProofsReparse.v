(* Engine data, part 9: ANY data the reader accepts.  Whatever bytes parse reads without error (Photoshop's text, a
   fixture, anything), the tree it returns is well-formed; so it can be written in either layout and what was
   written reads back as the same tree (to the 8 decimal places).  This is the "read, expose, write back" of the
   embedded engine data for every accepted input, not only for text the library wrote. *)
From Coq Require Import ZArith List Bool Lia ZifyBool.
From PsdV Require Import Base.Prelude Engine.Model Engine.ProofsLex Engine.ProofsLeaf Engine.ProofsParse Engine.ProofsWrite.
Import ListNotations.
Open Scope Z_scope.

(* ====================================================================== the digit limit in arithmetic terms *)
Lemma digs_lower : forall f n, 0 < n < 10 ^ Z.of_nat (S f) ->
  10 ^ (Z.of_nat (length (digs (S f) n)) - 1) <= n.
Proof.
  induction f as [|f IH]; intros n Hn; rewrite digs_S.
  - change (10 ^ Z.of_nat 1) with 10 in Hn. destruct (n <? 10) eqn:E; [|lia]. cbn [length]. cbn. lia.
  - destruct (n <? 10) eqn:E; [cbn [length]; cbn; lia|].
    assert (H10 : 0 < n / 10 < 10 ^ Z.of_nat (S f)).
    { rewrite (Nat2Z.inj_succ (S f)), Z.pow_succ_r in Hn by lia. split.
      - apply Z.div_str_pos. lia.
      - apply Z.div_lt_upper_bound; lia. }
    specialize (IH (n / 10) H10). rewrite app_length. cbn [length].
    replace (Z.of_nat (length (digs (S f) (n / 10)) + 1) - 1) with (Z.succ (Z.of_nat (length (digs (S f) (n / 10))) - 1)) by lia.
    assert (0 <= Z.of_nat (length (digs (S f) (n / 10))) - 1).
    { destruct (digs_spec f (n / 10) ltac:(lia)) as (_ & _ & NE). destruct (digs (S f) (n / 10)); [congruence|cbn [length]; lia]. }
    rewrite Z.pow_succ_r by assumption. pose proof (Z.div_mod n 10). pose proof (Z.mod_pos_bound n 10). lia.
Qed.

Lemma digits_few n k : 0 <= n < 10 ^ Z.of_nat k -> (0 < k)%nat -> (length (dec_digits n) <= k)%nat.
Proof.
  intros Hn Hk. destruct (Z.eq_dec n 0) as [->|NZ]; [rewrite dec_digits_0; cbn; lia|].
  unfold dec_digits.
  assert (B : 0 < n < 10 ^ Z.of_nat (S (Z.to_nat (Z.log2 n)))).
  { split; [lia|]. rewrite Nat2Z.inj_succ, Z2Nat.id by apply Z.log2_nonneg.
    destruct (Z.log2_spec n ltac:(lia)) as [_ H]. eapply Z.lt_le_trans; [exact H|]. apply Z.pow_le_mono_l. lia. }
  pose proof (digs_lower _ n B) as L.
  set (len := length (digs (S (Z.to_nat (Z.log2 n))) n)) in *.
  assert (10 ^ (Z.of_nat len - 1) < 10 ^ Z.of_nat k) by lia.
  destruct (Z.le_gt_cases 0 (Z.of_nat len - 1)) as [P|P].
  - apply Z.pow_lt_mono_r_iff in H; lia.
  - lia.
Qed.

(* the guard of Integer elements is exactly |z| < 10^4300 *)
Theorem int_ok_iff z : int_ok z = true <-> Z.abs z < 10 ^ 4300.
Proof.
  (* no [lia] on goals mentioning 10 ^ 4300: it would put the 4301-digit constant into its certificate *)
  split.
  - intros H. destruct (Z.lt_ge_cases (Z.abs z) (10 ^ 4300)) as [L|G]; [exact L|].
    rewrite (int_ok_limit z G) in H. discriminate.
  - intros H. unfold int_ok. apply Nat.leb_le. apply digits_few; [|apply Nat.ltb_lt; reflexivity].
    split; [apply Z.abs_nonneg|exact H].
Qed.

(* ====================================================================== what the tokenizer hands to the reader *)
Definition tok_good (t : token) : bool :=
  let '(k, b) := t in
  match k with
  | KBad | KFuel => true
  | _ => kind_eqb (classify b) k && (kind_eqb k KStr || clean b)
  end.

Lemma split_div_prefix l : nodiv (fst (split_div l)) = true /\ exists suf, l = fst (split_div l) ++ suf.
Proof.
  induction l as [|x t [IH1 [suf IH2]]]; [split; [reflexivity|exists []; reflexivity]|].
  cbn [split_div]. destruct (is_div x) eqn:D.
  - split; [reflexivity|exists (x :: t); reflexivity].
  - destruct (split_div t) as [a b]. cbn [fst] in *. split.
    + unfold nodiv in *. cbn [forallb]. rewrite D, IH1. reflexivity.
    + exists suf. cbn [app]. f_equal. exact IH2.
Qed.

Lemma starts_str_prefix tok suf : starts_str tok = true -> starts_str (tok ++ suf) = true.
Proof. destruct tok as [|a [|b [|c t]]]; try discriminate. intros H. exact H. Qed.

Lemma classify_not_fuel tok : classify tok <> KFuel.
Proof.
  unfold classify. repeat match goal with |- (if ?b then _ else _) <> _ => destruct b; try discriminate end.
Qed.

Lemma emit_good tok rest :
  (classify tok <> KBad -> (kind_eqb (classify tok) KStr || clean tok) = true) ->
  forallb tok_good rest = true -> forallb tok_good (emit tok rest) = true.
Proof.
  intros H R. unfold emit. pose proof (classify_not_fuel tok) as NF.
  destruct (classify tok) eqn:E; try reflexivity; try congruence;
    cbn [forallb tok_good]; rewrite R, andb_true_r; rewrite E; unfold kind_eqb at 1; rewrite Z.eqb_refl; cbn [andb];
    apply H; discriminate.
Qed.

Lemma classify_strpath c : classify (40 :: 254 :: 255 :: c ++ [41]) =
  if re_str (40 :: 254 :: 255 :: c ++ [41]) then KStr else KBad.
Proof.
  rewrite classify_skip6 by lia.
  assert (re_num (40 :: 254 :: 255 :: c ++ [41]) = false) as -> by reflexivity.
  assert (re_dec (40 :: 254 :: 255 :: c ++ [41]) = false) as -> by reflexivity.
  assert (re_prop (40 :: 254 :: 255 :: c ++ [41]) = false) as -> by reflexivity.
  destruct (re_str (40 :: 254 :: 255 :: c ++ [41])); [reflexivity|].
  assert (re_tag (40 :: 254 :: 255 :: c ++ [41]) = false) as ->.
  { unfold re_tag. cbn [tag_tail]. destruct (255 :: c ++ [41]) eqn:E; [discriminate|]. reflexivity. }
  reflexivity.
Qed.

Lemma tokenize_good : forall n l, (length l <= n)%nat -> forallb tok_good (tokenize l) = true.
Proof.
  induction n as [|n IH]; intros l Hn.
  - destruct l; [reflexivity|cbn [length] in Hn; lia].
  - rewrite tokenize_eq. unfold tok_body. destruct l as [|x t]; [reflexivity|].
    destruct (starts_str (x :: t)) eqn:S.
    + destruct (scan_end (skipn 3 (x :: t))) as [[c r]|] eqn:E; [|reflexivity].
      pose proof (scan_end_len _ _ _ _ (le_n _) E). pose proof (skipn_len 3 (x :: t)).
      apply emit_good; [|apply IH; cbn [length] in *; lia].
      destruct t as [|b [|c' t']]; try discriminate. unfold starts_str in S.
      assert (x = 40 /\ b = 254 /\ c' = 255) as (-> & -> & ->) by lia.
      cbn [firstn app]. rewrite classify_strpath.
      destruct (re_str (40 :: 254 :: 255 :: c ++ [41])); [reflexivity|congruence].
    + pose proof (split_div_lt (x :: t) ltac:(discriminate)) as LT.
      destruct (split_div_prefix (x :: t)) as [ND [suf PF]].
      destruct (split_div (x :: t)) as [tok r] eqn:SD. cbn [fst snd] in *.
      destruct tok as [|y tk]; [apply IH; cbn [length] in *; lia|].
      apply emit_good; [|apply IH; cbn [length] in *; lia].
      intros _. apply orb_true_iff. right. unfold clean. fold (nodiv (y :: tk)). rewrite ND. cbn [is_nil negb andb].
      destruct (starts_str (y :: tk)) eqn:ST; [|reflexivity].
      rewrite PF in S. rewrite (starts_str_prefix _ suf ST) in S. discriminate.
Qed.

(* ====================================================================== what the element readers return is well-formed *)
Lemma classify_inv l k : classify l = k ->
  match k with
  | KNum => re_num l = true
  | KDec => re_dec l = true
  | KProp => re_prop l = true
  | _ => True
  end.
Proof.
  intros <-. unfold classify.
  repeat match goal with |- context [if ?b then _ else _] => destruct b eqn:? end; cbv beta iota; try exact I; reflexivity.
Qed.

Lemma takewhile_all p l : forallb p (takewhile p l) = true.
Proof. induction l as [|x t IH]; [reflexivity|]. cbn [takewhile]. destruct (p x) eqn:E; [cbn [forallb]; rewrite E, IH; reflexivity|reflexivity]. Qed.

Lemma dval_nonneg l : forallb is_digit l = true -> 0 <= dval l.
Proof. intros D. pose proof (dval_lt l D). lia. Qed.

Lemma frac8_nonneg fr : forallb is_digit fr = true -> 0 <= frac8 fr.
Proof.
  intros D. pose proof (dval_nonneg fr D) as V. unfold frac8.
  destruct (length fr <=? 8)%nat.
  - unfold pow10. pose proof (Z.pow_nonneg 10 (Z.of_nat (8 - length fr)) ltac:(lia)). nia.
  - set (d := pow10 (length fr - 8)). assert (0 < d) by (unfold d, pow10; apply Z.pow_pos_nonneg; lia).
    pose proof (Z.div_pos (dval fr) d V ltac:(lia)).
    destruct (2 * (dval fr mod d) <? d); [lia|]. destruct (d <? 2 * (dval fr mod d)); [lia|].
    destruct (Z.even (dval fr / d)); lia.
Qed.

Lemma leaf_of_wf k b v : tok_good (k, b) = true -> leaf_of k b = Ok v -> wf_tree v = true.
Proof.
  intros G H. unfold tok_good in G. destruct k; cbn [leaf_of] in H; try discriminate;
    apply andb_true_iff in G as [GC GS]; unfold kind_eqb in GC;
    match type of GC with (kind_code (classify b) =? kind_code ?K) = true =>
      assert (C : classify b = K) by (destruct (classify b); try discriminate; reflexivity) end;
    pose proof (classify_inv b _ C) as R; cbn beta iota in R.
  - (* Bool *) inversion H. reflexivity.
  - (* Number *)
    destruct (MAX_STR_DIGITS <? length (strip_minus b))%nat eqn:E; [discriminate|]. inversion H; subst v.
    cbn [wf_tree wf_leaf]. apply int_ok_iff. apply Nat.ltb_ge in E.
    unfold re_num in R. apply andb_true_iff in R as [_ D].
    assert (A : Z.abs (int_of_bytes b) = dval (strip_minus b)).
    { pose proof (dval_nonneg _ D). unfold int_of_bytes, strip_minus in *. destruct b as [|x t]; [reflexivity|].
      destruct (x =? 45); lia. }
    rewrite A. pose proof (dval_lt _ D) as [_ B]. eapply Z.lt_le_trans; [exact B|].
    apply Z.pow_le_mono_r; [lia|]. unfold MAX_STR_DIGITS in E. lia.
  - (* Decimal *)
    inversion H; subst v. cbn [wf_tree wf_leaf]. unfold float_of_bytes. cbn [fmag ftiny].
    unfold re_dec in R. destruct (dropwhile is_digit (strip_minus b)) as [|y fp] eqn:ED; [discriminate|].
    apply andb_true_iff in R as [R FD]. cbn [tl].
    pose proof (dval_nonneg _ (takewhile_all is_digit (strip_minus b))). pose proof (frac8_nonneg fp FD).
    assert (0 <= E8) by (unfold E8; lia).
    set (mag := dval (takewhile is_digit (strip_minus b)) * E8 + frac8 fp) in *.
    assert (0 <= mag) by (unfold mag; nia).
    destruct (mag =? 0) eqn:M0; cbn [andb negb orb].
    + rewrite orb_true_r. apply andb_true_iff. split; [lia|reflexivity].
    + apply andb_true_iff. split; [lia|reflexivity].
  - (* Property as a value *)
    inversion H; subst v. cbn [wf_tree wf_leaf]. unfold re_prop in R. destruct b as [|x n]; [discriminate|].
    apply andb_true_iff in R as [R NC]. apply andb_true_iff in R as [X NE]. assert (x = 47) by lia. subst x.
    assert (N : name_ok n = true) by (unfold name_ok; rewrite NE, NC; reflexivity).
    destruct (prop_classify n N) as (_ & _ & F). rewrite F. exact N.
  - (* String *)
    destruct (utf16_ok _) eqn:U; [|discriminate]. inversion H; subst v. exact U.
  - (* Tag *) inversion H; subst v. cbn [wf_tree wf_leaf]. rewrite C. cbn [orb] in GS. cbn [kind_eqb kind_code Z.eqb orb andb]. exact GS.
  - (* Tag2 *) inversion H; subst v. cbn [wf_tree wf_leaf]. rewrite C. cbn [orb] in GS.
    unfold kind_eqb. cbn [kind_code]. cbn [Z.eqb Pos.eqb orb andb]. exact GS.
Qed.

Lemma key_good kb : tok_good (KProp, kb) = true -> name_ok (key_of kb) = true.
Proof.
  intros G. assert (H : leaf_of KProp kb = Ok (TProp (key_of kb))) by reflexivity.
  apply (leaf_of_wf _ _ _ G) in H. exact H.
Qed.

(* ====================================================================== dictionaries stay well-formed *)
Lemma set_kv_keys k v acc :
  map fst (set_kv k v acc) = if existsb (list_eqb k) (map fst acc) then map fst acc else map fst acc ++ [k].
Proof.
  induction acc as [|[k' v'] t IH]; [reflexivity|]. cbn [set_kv map fst existsb].
  destruct (list_eqb k k') eqn:E; [reflexivity|]. cbn [map fst orb]. rewrite IH.
  destruct (existsb (list_eqb k) (map fst t)); reflexivity.
Qed.

Lemma keys_nodup_snoc a k : keys_nodup a = true -> existsb (list_eqb k) a = false -> keys_nodup (a ++ [k]) = true.
Proof.
  induction a as [|x a IH]; intros N F; [reflexivity|].
  cbn [keys_nodup app] in *. apply andb_true_iff in N as [N1 N2]. cbn [existsb] in F. apply orb_false_iff in F as [F1 F2].
  rewrite (IH N2 F2), andb_true_r. apply negb_true_iff. rewrite existsb_app. apply negb_true_iff in N1. rewrite N1.
  cbn [existsb orb]. rewrite orb_false_r. rewrite list_eqb_sym. exact F1.
Qed.

Lemma set_kv_entries k v acc : name_ok k = true -> wf_tree v = true -> wf_entries acc = true ->
  wf_entries (set_kv k v acc) = true.
Proof.
  intros N W. induction acc as [|[k' v'] t IH]; intros A.
  - cbn [set_kv wf_entries forallb fst snd]. rewrite N, W. reflexivity.
  - cbn [wf_entries forallb fst snd] in A. apply andb_true_iff in A as [A1 A2]. apply andb_true_iff in A1 as [N' W'].
    cbn [set_kv]. destruct (list_eqb k k'); cbn [wf_entries forallb fst snd].
    + rewrite N', W. exact A2.
    + rewrite N', W'. apply IH. exact A2.
Qed.

Definition dict_ok (d : kvs) : bool := wf_tree (TDict d).
Lemma set_kv_ok k v acc : name_ok k = true -> wf_tree v = true -> dict_ok acc = true -> dict_ok (set_kv k v acc) = true.
Proof.
  unfold dict_ok. intros N W A. rewrite wf_dict in *. apply andb_true_iff in A as [ND WE].
  rewrite (set_kv_entries k v acc N W WE), andb_true_r. rewrite set_kv_keys.
  destruct (existsb (list_eqb k) (map fst acc)) eqn:E; [exact ND|apply keys_nodup_snoc; assumption].
Qed.

Lemma list_ok_snoc l v : forallb wf_tree l = true -> wf_tree v = true -> forallb wf_tree (l ++ [v]) = true.
Proof. intros A W. rewrite forallb_app, A. cbn [forallb]. rewrite W. reflexivity. Qed.

(* ====================================================================== the reader returns well-formed trees *)
Definition toks_good (ts : list token) : bool := forallb tok_good ts.

Lemma p_wf : forall n,
  (forall acc ts d r, pdict n acc ts = Ok (d, r) -> toks_good ts = true -> dict_ok acc = true ->
     dict_ok d = true /\ toks_good r = true) /\
  (forall acc ts l r, plist n acc ts = Ok (l, r) -> toks_good ts = true -> forallb wf_tree acc = true ->
     forallb wf_tree l = true /\ toks_good r = true).
Proof.
  induction n as [|n [IHd IHl]]; split; intros acc ts x r H G A; try discriminate.
  - cbn [pdict] in H. destruct ts as [|[k b] ts']; [inversion H; subst; split; [exact A|reflexivity]|].
    cbn [toks_good forallb] in G. apply andb_true_iff in G as [Gk G]. fold (toks_good ts') in G.
    destruct k; try discriminate; try (apply (IHd _ _ _ _ H G A)).
    + inversion H; subst. split; assumption.
    + destruct ts' as [|[vk vb] ts'']; [discriminate|].
      cbn [toks_good forallb] in G. apply andb_true_iff in G as [Gv G]. fold (toks_good ts'') in G.
      pose proof (key_good b Gk) as NK. fold (key_of b) in H.
      destruct vk; try discriminate;
        try (destruct (leaf_of _ vb) as [v|] eqn:EL; [|discriminate];
             apply (IHd _ _ _ _ H G); apply set_kv_ok; [exact NK|apply (leaf_of_wf _ _ _ Gv EL)|exact A]).
      * destruct (plist n [] ts'') as [[l r']|] eqn:E; [|discriminate].
        destruct (IHl _ _ _ _ E G eq_refl) as [WL GR].
        apply (IHd _ _ _ _ H GR). apply set_kv_ok; [exact NK| |exact A]. rewrite wf_list. exact WL.
      * destruct (pdict n [] ts'') as [[d' r']|] eqn:E; [|discriminate].
        destruct (IHd _ _ _ _ E G eq_refl) as [WD GR].
        apply (IHd _ _ _ _ H GR). apply set_kv_ok; [exact NK|exact WD|exact A].
  - cbn [plist] in H. destruct ts as [|[k b] ts']; [inversion H; subst; split; [exact A|reflexivity]|].
    cbn [toks_good forallb] in G. apply andb_true_iff in G as [Gk G]. fold (toks_good ts') in G.
    destruct k; try discriminate;
      try (destruct (leaf_of _ b) as [v|] eqn:EL; [|discriminate];
           apply (IHl _ _ _ _ H G); apply list_ok_snoc; [exact A|apply (leaf_of_wf _ _ _ Gk EL)]).
    + inversion H; subst. split; assumption.
    + destruct (plist n [] ts') as [[l r']|] eqn:E; [|discriminate].
      destruct (IHl _ _ _ _ E G eq_refl) as [WL GR].
      apply (IHl _ _ _ _ H GR). apply list_ok_snoc; [exact A|]. rewrite wf_list. exact WL.
    + destruct (pdict n [] ts') as [[d' r']|] eqn:E; [|discriminate].
      destruct (IHd _ _ _ _ E G eq_refl) as [WD GR].
      apply (IHl _ _ _ _ H GR). apply list_ok_snoc; [exact A|exact WD].
Qed.

(* 1. whatever parse accepts, the tree it returns is well-formed *)
Theorem parse_wf : forall data d, parse data = Ok d -> wf_tree (TDict d) = true.
Proof.
  intros data d H. unfold parse, parse_tokens in H.
  destruct (pdict (S (length (tokenize data))) [] (tokenize data)) as [[d' r]|] eqn:E; [|discriminate].
  inversion H; subst d'.
  destruct (proj1 (p_wf _) _ _ _ _ E (tokenize_good _ data (le_n _)) eq_refl) as [W _]. exact W.
Qed.

(* 2. ... so it can be written in either layout, and what was written reads back as the same tree to 8 places;
      exactly the same tree when the data held no non-zero decimal below 5e-9 *)
Theorem reparse_any_input : forall data d ly, parse data = Ok d ->
  exists bs, write ly d = Ok bs /\ parse bs = Ok (untiny_kvs d) /\
             (notiny (TDict d) = true -> parse bs = Ok d).
Proof.
  intros data d ly H. pose proof (parse_wf data d H) as W.
  destruct (parse_write ly d W) as (bs & H1 & H2). exists bs. repeat split; try assumption.
  intros N. rewrite (notiny_kvs d N) in H2. exact H2.
Qed.

(* 3. the writers are injective on well-formed trees without tiny decimals: different trees, different texts *)
Theorem write_injective : forall ly d1 d2 bs,
  wf_tree (TDict d1) = true -> wf_tree (TDict d2) = true -> notiny (TDict d1) = true -> notiny (TDict d2) = true ->
  write ly d1 = Ok bs -> write ly d2 = Ok bs -> d1 = d2.
Proof.
  intros ly d1 d2 bs W1 W2 N1 N2 H1 H2.
  destruct (parse_write_exact ly d1 W1 N1) as (b1 & A1 & P1). destruct (parse_write_exact ly d2 W2 N2) as (b2 & A2 & P2).
  rewrite H1 in A1. rewrite H2 in A2. inversion A1; inversion A2; subst. rewrite P1 in P2. inversion P2. reflexivity.
Qed.
