(* Engine data, part 4: the writers.  The text written for a well-formed tree, in either layout,
   tokenizes to exactly the token sequence of the tree; with part 3 this gives
   parse (write layout d) = Ok d  at any depth.  (Before commit 073f171 the indented layout needed
   the guard "a List written with an indent holds Dicts only": finding F-C18-2.) *)
From Coq Require Import ZArith List Bool Lia ZifyBool.
From PsdV Require Import Base.Prelude Engine.Model Engine.ProofsLex Engine.ProofsLeaf Engine.ProofsParse.
Import ListNotations.
Open Scope Z_scope.

(* ====================================================================== the writer, unfolded *)
Definition wval (ind : option nat) (v : tree) : list Z :=
  match v with
  | TDict _ => wv (inner ind) v
  | TList items => 32 :: wv (list_ind ind items) v
  | _ => 32 :: wv None v
  end.
Lemma wentry_eq ind k v : wentry ind (k, v) = w_ind (inner ind) ++ (47 :: k) ++ wval ind v ++ w_nl ind.
Proof. unfold wentry, wval. destruct v; reflexivity. Qed.

Lemma wv_dict ind d : wv ind (TDict d) = w_open ind ++ wentries ind d ++ w_close ind.
Proof.
  cbn [wv]. f_equal. f_equal.
  induction d as [|[k v] r IH]; [reflexivity|]. cbn [wentries flat_map]. rewrite IH. reflexivity.
Qed.

Definition witem (it : tree) : list Z := match it with TDict _ => wv None it | _ => 32 :: wv None it end.
Lemma wv_list_none items : wv None (TList items) = [91] ++ flat_map witem items ++ [32] ++ [93].
Proof.
  cbn [wv app]. f_equal. rewrite <- app_assoc. reflexivity.
Qed.
Definition witem_s (k : nat) (it : tree) : list Z :=
  match it with TDict _ => wv (Some k) it | _ => [10] ++ repeat 9 k ++ wv None it end.
Lemma wv_list_some k items :
  wv (Some k) (TList items) = [91] ++ flat_map (witem_s k) items ++ ([10] ++ repeat 9 k) ++ [93].
Proof.
  cbn [wv app w_nl w_ind]. f_equal. rewrite <- !app_assoc. reflexivity.
Qed.
Lemma wv_leaf ind t : is_leaf t = true -> wv ind t = leaf_bytes t.
Proof. destruct t; try discriminate; reflexivity. Qed.

(* ====================================================================== white space *)
Lemma div_repeat9 k : forallb is_div (repeat 9 k) = true.
Proof. induction k; [reflexivity|]. cbn [repeat forallb]. rewrite IHk. reflexivity. Qed.
Lemma div_w_ind ind : forallb is_div (w_ind ind) = true.
Proof. destruct ind; [apply div_repeat9|reflexivity]. Qed.
Lemma div_w_nl ind : forallb is_div (w_nl ind) = true.
Proof. destruct ind; reflexivity. Qed.

Lemma sep_start_divs ws x : forallb is_div ws = true -> sep_start x = true -> sep_start (ws ++ x) = true.
Proof. intros H S. destruct ws as [|d t]; [exact S|]. cbn [forallb] in H. apply andb_true_iff in H as [H _]. exact H. Qed.

(* the text of a container value starts with a divider *)
Lemma sep_w_open_inner ind x : sep_start (w_open (inner ind) ++ x) = true.
Proof. destruct ind as [k|]; reflexivity. Qed.
Lemma sep_w_open_some k x : sep_start (w_open (Some k) ++ x) = true.
Proof. destruct k; reflexivity. Qed.
Lemma sep_w_close_none x : sep_start (w_close None ++ x) = true.
Proof. reflexivity. Qed.

Lemma sep_wval ind v x : sep_start (wval ind v ++ x) = true.
Proof.
  destruct v as [d|l|p|z|f|b|n|b]; try reflexivity.
  unfold wval. rewrite wv_dict. rewrite <- app_assoc. apply sep_w_open_inner.
Qed.

Lemma sep_entries_none d R : sep_start R = true -> sep_start (wentries None d ++ R) = true.
Proof. intros S. destruct d as [|[k v] r]; [exact S|]. reflexivity. Qed.

Lemma sep_nl_rest ind REST : (ind = None -> sep_start REST = true) -> sep_start (w_nl ind ++ REST) = true.
Proof. intros H. destruct ind; [reflexivity|]. apply H. reflexivity. Qed.

Lemma witem_hd it x : sep_start (witem it ++ x) = true.
Proof. destruct it as [d|l|p|z|f|b|n|b]; reflexivity. Qed.
Lemma sep_items_none items R : sep_start R = true -> sep_start (flat_map witem items ++ R) = true.
Proof. intros S. destruct items as [|it r]; [exact S|]. cbn [flat_map]. rewrite <- app_assoc. apply witem_hd. Qed.
Lemma witem_s_hd k it x : sep_start (witem_s k it ++ x) = true.
Proof.
  destruct it as [d|l|p|z|f|b|n|b]; try reflexivity.
  unfold witem_s. rewrite wv_dict. rewrite <- !app_assoc. apply sep_w_open_some.
Qed.
Lemma sep_items_some k items R : sep_start R = true -> sep_start (flat_map (witem_s k) items ++ R) = true.
Proof. intros S. destruct items as [|it r]; [exact S|]. cbn [flat_map]. rewrite <- app_assoc. apply witem_s_hd. Qed.

(* ====================================================================== single structural tokens *)
Lemma tok_simple ws tok k rest : forallb is_div ws = true -> clean tok = true -> classify tok = k -> k <> KBad ->
  sep_start rest = true -> tokenize (ws ++ tok ++ rest) = (k, tok) :: tokenize rest.
Proof.
  intros W C K NB S. rewrite tokenize_divs by exact W. rewrite tokenize_tok by assumption.
  apply emit_ok; assumption.
Qed.

Lemma tok_simple0 tok k rest : clean tok = true -> classify tok = k -> k <> KBad ->
  sep_start rest = true -> tokenize (tok ++ rest) = (k, tok) :: tokenize rest.
Proof. intros. apply (tok_simple [] tok k rest); try assumption. reflexivity. Qed.

(* ====================================================================== the main lexing lemma *)
Definition Lexes (v : tree) : Prop :=
  forall ind rest, wf_tree v = true -> sep_start rest = true ->
    tokenize (wv ind v ++ rest) = vtoks v ++ tokenize rest.

Lemma lex_entries ind d : Forall (fun kv => Lexes (snd kv)) d -> wf_entries d = true ->
  forall R, (ind = None -> sep_start R = true) -> tokenize (wentries ind d ++ R) = etoks d ++ tokenize R.
Proof.
  induction 1 as [|[k v] r Hv Hr IH]; intros W R HR; [reflexivity|].
  cbn [wf_entries forallb fst snd] in W. apply andb_true_iff in W as [W1 W2]. apply andb_true_iff in W1 as [N Wv].
  specialize (IH W2 R HR). cbn [snd] in Hv.
  cbn [wentries flat_map etoks fst snd]. fold (wentries ind r). fold (etoks r).
  rewrite wentry_eq. rewrite <- !app_assoc.
  set (REST := wentries ind r ++ R) in *.
  assert (SR : sep_start (w_nl ind ++ REST) = true).
  { apply sep_nl_rest. intros ->. apply sep_entries_none. apply HR. reflexivity. }
  destruct (prop_classify k N) as (C & CL & _).
  rewrite (tok_simple (w_ind (inner ind)) (47 :: k) KProp) by
    (try apply div_w_ind; try exact CL; try exact C; try discriminate; apply sep_wval).
  cbn [app]. f_equal.
  assert (TV : tokenize (wval ind v ++ w_nl ind ++ REST) = vtoks v ++ tokenize (w_nl ind ++ REST)).
  { unfold wval. destruct v as [d'|l|p|z|f|b|n|b];
      try (cbn [app]; rewrite tokenize_div by reflexivity); apply Hv; assumption. }
  rewrite TV. rewrite tokenize_divs by apply div_w_nl. rewrite IH. rewrite <- ?app_assoc. reflexivity.
Qed.

Lemma lex_items_none items : Forall Lexes items -> forallb wf_tree items = true ->
  forall R, sep_start R = true -> tokenize (flat_map witem items ++ R) = ltoks items ++ tokenize R.
Proof.
  induction 1 as [|it r Hv Hr IH]; intros W R SR; [reflexivity|].
  cbn [forallb] in W. apply andb_true_iff in W as [Wv W2]. specialize (IH W2 R SR).
  cbn [flat_map ltoks]. fold (ltoks r). rewrite <- !app_assoc.
  assert (S2 : sep_start (flat_map witem r ++ R) = true) by (apply sep_items_none; exact SR).
  assert (TV : tokenize (witem it ++ flat_map witem r ++ R) = vtoks it ++ tokenize (flat_map witem r ++ R)).
  { unfold witem. destruct it as [d'|l|p|z|f|b|n|b];
      try (cbn [app]; rewrite tokenize_div by reflexivity);
      apply Hv; assumption. }
  rewrite TV, IH. reflexivity.
Qed.

Lemma lex_items_some k items : Forall Lexes items -> forallb wf_tree items = true ->
  forall R, sep_start R = true -> tokenize (flat_map (witem_s k) items ++ R) = ltoks items ++ tokenize R.
Proof.
  induction 1 as [|it r Hv Hr IH]; intros W R SR; [reflexivity|].
  cbn [forallb] in W. apply andb_true_iff in W as [Wv W2]. specialize (IH W2 R SR).
  cbn [flat_map ltoks]. fold (ltoks r). rewrite <- !app_assoc.
  assert (S2 : sep_start (flat_map (witem_s k) r ++ R) = true) by (apply sep_items_some; exact SR).
  assert (TV : tokenize (witem_s k it ++ flat_map (witem_s k) r ++ R) = vtoks it ++ tokenize (flat_map (witem_s k) r ++ R)).
  { assert (WS : forallb is_div ([10] ++ repeat 9 k) = true) by (cbn [app forallb]; rewrite div_repeat9; reflexivity).
    unfold witem_s. destruct it as [d'|l|p|z|f|b|n|b];
      try (rewrite <- !app_assoc; rewrite (app_assoc [10] (repeat 9 k)); rewrite tokenize_divs by exact WS);
      apply Hv; assumption. }
  rewrite TV, IH. reflexivity.
Qed.

Lemma lexes_all : forall v, Lexes v.
Proof.
  apply tree_ind2.
  - (* Dict *)
    intros d Hd ind rest W SR. rewrite wf_dict in W. apply andb_true_iff in W as [ND WE].
    rewrite wv_dict, vtoks_dict. unfold w_open, w_close. rewrite <- !app_assoc.
    set (pre := match ind with Some O => [10] | _ => [] end).
    assert (SX : sep_start (w_nl ind ++ wentries ind d ++ w_ind ind ++ [62;62] ++ rest) = true).
    { apply sep_nl_rest. intros ->. apply sep_entries_none. reflexivity. }
    assert (PRE : forallb is_div (pre ++ w_nl ind ++ w_ind ind) = true).
    { rewrite !forallb_app, div_w_nl, div_w_ind. unfold pre. destruct ind as [[|]|]; reflexivity. }
    rewrite (app_assoc pre), (app_assoc (pre ++ w_nl ind)), <- (app_assoc pre).
    rewrite (tok_simple (pre ++ w_nl ind ++ w_ind ind) [60;60] KDictStart) by
      (try exact PRE; try reflexivity; try discriminate; exact SX).
    cbn [app]. f_equal. rewrite tokenize_divs by apply div_w_nl.
    rewrite (lex_entries ind d Hd WE) by (intros ->; reflexivity).
    rewrite <- app_assoc. f_equal.
    change (62 :: 62 :: rest) with ([62;62] ++ rest).
    rewrite (tok_simple (w_ind ind) [62;62] KDictEnd) by
      (try apply div_w_ind; try reflexivity; try discriminate; exact SR).
    reflexivity.
  - (* List *)
    intros l Hl ind rest W SR. rewrite wf_list in W. rewrite vtoks_list. destruct ind as [k|].
    + rewrite wv_list_some. rewrite <- !app_assoc.
      rewrite (tok_simple0 [91] KArrStart) by
        (first [reflexivity | discriminate | (apply sep_items_some; reflexivity)]).
      cbn [app]. f_equal.
      rewrite (lex_items_some k l Hl W) by reflexivity. rewrite <- app_assoc. f_equal.
      change (10 :: repeat 9 k ++ 93 :: rest) with ((10 :: repeat 9 k) ++ [93] ++ rest).
      rewrite (tok_simple (10 :: repeat 9 k) [93] KArrEnd) by
        (try (cbn [forallb]; rewrite div_repeat9; reflexivity); try reflexivity; try discriminate; exact SR).
      reflexivity.
    + rewrite wv_list_none. rewrite <- !app_assoc.
      rewrite (tok_simple0 [91] KArrStart) by
        (try reflexivity; try discriminate; apply sep_items_none; reflexivity).
      cbn [app]. f_equal.
      rewrite (lex_items_none l Hl W) by reflexivity. rewrite <- app_assoc. f_equal.
      change (32 :: 93 :: rest) with ([32] ++ [93] ++ rest).
      rewrite (tok_simple [32] [93] KArrEnd) by (try reflexivity; try discriminate; exact SR).
      reflexivity.
  - (* leaves *)
    intros t L ind rest W SR. rewrite wf_leaf_tree in W by exact L.
    rewrite wv_leaf, vtoks_leaf by exact L. cbn [app]. apply leaf_lex; assumption.
Qed.

(* ====================================================================== tokens of the written text *)
Theorem tokens_of_indented d : wf_tree (TDict d) = true -> tokenize (wv (Some O) (TDict d)) = vtoks (TDict d).
Proof.
  intros W. pose proof (lexes_all (TDict d) (Some O) [] W eq_refl) as H.
  rewrite !app_nil_r in H. exact H.
Qed.

Theorem tokens_of_compact d : wf_tree (TDict d) = true -> tokenize (wentries None d) = etoks d.
Proof.
  intros W. rewrite wf_dict in W. apply andb_true_iff in W as [ND WE].
  pose proof (lex_entries None d) as H.
  rewrite <- (app_nil_r (wentries None d)). rewrite H; [apply app_nil_r| |exact WE|reflexivity].
  apply Forall_forall. intros kv _. apply lexes_all.
Qed.

(* ====================================================================== no Integer beyond the digit limit *)
Lemma wbig_dict d : wbig (TDict d) = existsb (fun kv => wbig (snd kv)) d.
Proof. reflexivity. Qed.
Lemma wbig_list l : wbig (TList l) = existsb wbig l.
Proof. reflexivity. Qed.

Lemma wf_not_big : forall t, wf_tree t = true -> wbig t = false.
Proof.
  apply (tree_ind2 (fun t => wf_tree t = true -> wbig t = false)).
  - intros d H W. rewrite wf_dict in W. apply andb_true_iff in W as [_ WE]. rewrite wbig_dict.
    apply not_true_is_false. intro E. apply existsb_exists in E as (kv & Hin & B).
    rewrite Forall_forall in H. unfold wf_entries in WE. rewrite forallb_forall in WE.
    specialize (WE kv Hin). apply andb_true_iff in WE as [_ Wv]. rewrite (H kv Hin Wv) in B. discriminate.
  - intros l H W. rewrite wf_list in W. rewrite wbig_list.
    apply not_true_is_false. intro E. apply existsb_exists in E as (it & Hin & B).
    rewrite Forall_forall in H. rewrite forallb_forall in W. rewrite (H it Hin (W it Hin)) in B. discriminate.
  - intros t L W. destruct t; try discriminate; try reflexivity. cbn [wf_tree wf_leaf] in W. cbn [wbig]. rewrite W. reflexivity.
Qed.

(* ====================================================================== the round trip *)
Theorem parse_write_indented d : wf_tree (TDict d) = true ->
  exists bs, write Indented d = Ok bs /\ parse bs = Ok (untiny_kvs d).
Proof.
  intros W. exists (wv (Some O) (TDict d)). split; [unfold write; rewrite (wf_not_big _ W); reflexivity|].
  unfold parse. rewrite tokens_of_indented by assumption. apply parse_tokens_container. exact W.
Qed.

Theorem parse_write_compact d : wf_tree (TDict d) = true ->
  exists bs, write Compact d = Ok bs /\ parse bs = Ok (untiny_kvs d).
Proof.
  intros W. exists (wentries None d). split; [unfold write; rewrite (wf_not_big _ W); reflexivity|].
  unfold parse. rewrite tokens_of_compact by assumption. apply parse_tokens_bare. exact W.
Qed.

Lemma parse_write ly d : wf_tree (TDict d) = true -> exists bs, write ly d = Ok bs /\ parse bs = Ok (untiny_kvs d).
Proof. destruct ly; [apply parse_write_indented|apply parse_write_compact]. Qed.

Lemma notiny_kvs d : notiny (TDict d) = true -> untiny_kvs d = d.
Proof. intros N. pose proof (notiny_untiny (TDict d) N) as H. rewrite untiny_dict in H. inversion H as [E]. rewrite E. exact E. Qed.

(* without a tiny decimal the tree comes back exactly *)
Theorem parse_write_exact ly d : wf_tree (TDict d) = true -> notiny (TDict d) = true ->
  exists bs, write ly d = Ok bs /\ parse bs = Ok d.
Proof. intros W N. destruct (parse_write ly d W) as (bs & H1 & H2). exists bs. rewrite (notiny_kvs d N) in H2. auto. Qed.

(* what was written is rewritten unchanged after being read (fixture blobs, the embedded engine data of a type layer) *)
Theorem rewrite_unchanged ly d bs : wf_tree (TDict d) = true -> notiny (TDict d) = true ->
  write ly d = Ok bs ->
  match parse bs with Ok d' => write ly d' | Err e => Err e end = Ok bs.
Proof.
  intros W N HW. destruct (parse_write_exact ly d W N) as (bs' & H1 & H2).
  rewrite HW in H1. inversion H1; subst bs'. rewrite H2. exact HW.
Qed.

(* with tiny decimals the text changes once (".0" becomes "0.0") and is stable from the second generation on *)
Theorem rewrite_stable ly d : wf_tree (TDict d) = true ->
  exists bs d' bs', write ly d = Ok bs /\ parse bs = Ok d' /\ write ly d' = Ok bs' /\ parse bs' = Ok d' /\
                    d' = untiny_kvs d.
Proof.
  intros W. destruct (parse_write ly d W) as (bs & H1 & H2).
  assert (W' : wf_tree (TDict (untiny_kvs d)) = true) by (rewrite <- untiny_dict; apply wf_untiny; exact W).
  destruct (parse_write ly (untiny_kvs d) W') as (bs' & H3 & H4).
  exists bs, (untiny_kvs d), bs'. repeat split; try assumption.
  rewrite H4. f_equal. pose proof (untiny_idem (TDict d)) as I. rewrite !untiny_dict in I. inversion I as [E]. rewrite E. exact E.
Qed.

(* the writers fail only for an Integer beyond CPython's digit limit *)
Theorem write_total ly d : wbig (TDict d) = false -> exists bs, write ly d = Ok bs.
Proof. intros H. unfold write. rewrite H. destruct ly; eexists; reflexivity. Qed.
Theorem write_fails_only_big ly d e : write ly d = Err e -> e = ValueErr /\ wbig (TDict d) = true.
Proof. unfold write. destruct (wbig (TDict d)); [intros H; inversion H; split; reflexivity|destruct ly; discriminate]. Qed.

(* the string token is found whole, whatever follows it *)
Theorem string_token_found p rest :
  tokenize ([40;254;255] ++ escape p ++ [41] ++ rest) = (KStr, [40;254;255] ++ escape p ++ [41]) :: tokenize rest.
Proof. rewrite tokenize_str. apply emit_ok; [apply classify_string|discriminate]. Qed.
