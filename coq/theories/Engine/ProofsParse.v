(* Engine data, part 3: the recursive-descent reader.  Fuel-free equations for pdict / plist
   (the fuel [S (length tokens)] is always enough), and: reading the token sequence of a
   well-formed tree gives the tree back, at any depth. *)
From Coq Require Import ZArith List Bool Lia ZifyBool.
From PsdV Require Import Base.Prelude Engine.Model Engine.ProofsLex Engine.ProofsLeaf.
Import ListNotations.
Open Scope Z_scope.

(* ====================================================================== induction over trees *)
Section TreeInd.
  Variable P : tree -> Prop.
  Hypothesis HD : forall d, Forall (fun kv => P (snd kv)) d -> P (TDict d).
  Hypothesis HL : forall l, Forall P l -> P (TList l).
  Hypothesis HF : forall t, is_leaf t = true -> P t.
  Fixpoint tree_ind2 (t : tree) : P t :=
    match t with
    | TDict d =>
        HD d ((fix go (l : kvs) : Forall (fun kv => P (snd kv)) l :=
                 match l with
                 | [] => Forall_nil _
                 | kv :: r => Forall_cons kv (tree_ind2 (snd kv)) (go r)
                 end) d)
    | TList l =>
        HL l ((fix go (l : list tree) : Forall P l :=
                 match l with [] => Forall_nil _ | x :: r => Forall_cons x (tree_ind2 x) (go r) end) l)
    | TStr p => HF (TStr p) eq_refl
    | TInt z => HF (TInt z) eq_refl
    | TFloat f => HF (TFloat f) eq_refl
    | TBool b => HF (TBool b) eq_refl
    | TProp n => HF (TProp n) eq_refl
    | TTag b => HF (TTag b) eq_refl
    end.
End TreeInd.

(* ====================================================================== remaining tokens get shorter *)
Ltac break_match H :=
  repeat match type of H with
         | context [match ?x with _ => _ end] => destruct x eqn:?; try discriminate
         end.

Lemma p_len : forall n,
  (forall acc ts d r, pdict n acc ts = Ok (d, r) -> (length r <= length ts)%nat) /\
  (forall acc ts l r, plist n acc ts = Ok (l, r) -> (length r <= length ts)%nat).
Proof.
  induction n as [|n [IHd IHl]]; split; intros acc ts x r H; try discriminate.
  - cbn [pdict] in H. break_match H; subst; cbn [length];
      repeat match goal with
             | E : pdict n _ _ = Ok _ |- _ => apply IHd in E
             | E : plist n _ _ = Ok _ |- _ => apply IHl in E
             end; try (inversion H; subst); cbn [length] in *; try lia.
  - cbn [plist] in H. break_match H; subst; cbn [length];
      repeat match goal with
             | E : pdict n _ _ = Ok _ |- _ => apply IHd in E
             | E : plist n _ _ = Ok _ |- _ => apply IHl in E
             end; try (inversion H; subst); cbn [length] in *; try lia.
Qed.

Lemma pdict_len n acc ts d r : pdict n acc ts = Ok (d, r) -> (length r <= length ts)%nat.
Proof. apply (p_len n). Qed.
Lemma plist_len n acc ts l r : plist n acc ts = Ok (l, r) -> (length r <= length ts)%nat.
Proof. apply (p_len n). Qed.

(* ====================================================================== fuel irrelevance *)
Lemma p_fuel : forall n,
  (forall m acc ts, (length ts < n)%nat -> (length ts < m)%nat -> pdict n acc ts = pdict m acc ts) /\
  (forall m acc ts, (length ts < n)%nat -> (length ts < m)%nat -> plist n acc ts = plist m acc ts).
Proof.
  induction n as [|n [IHd IHl]]; split; intros m acc ts Hn Hm; try lia; (destruct m as [|m]; [lia|]).
  - cbn [pdict]. destruct ts as [|[k b] ts']; [reflexivity|]. cbn [length] in *.
    destruct k; try reflexivity; try (apply IHd; lia).
    destruct ts' as [|[vk vb] ts'']; [reflexivity|]. cbn [length] in *.
    destruct vk; try reflexivity;
      try (destruct (leaf_of _ vb); [apply IHd; lia|reflexivity]).
    + rewrite (IHl m [] ts'') by lia. destruct (plist m [] ts'') as [[l r]|] eqn:E; [|reflexivity].
      apply plist_len in E. apply IHd; lia.
    + rewrite (IHd m [] ts'') by lia. destruct (pdict m [] ts'') as [[d r]|] eqn:E; [|reflexivity].
      apply pdict_len in E. apply IHd; lia.
  - cbn [plist]. destruct ts as [|[k b] ts']; [reflexivity|]. cbn [length] in *.
    destruct k; try reflexivity;
      try (destruct (leaf_of _ b); [apply IHl; lia|reflexivity]).
    + rewrite (IHl m [] ts') by lia. destruct (plist m [] ts') as [[l r]|] eqn:E; [|reflexivity].
      apply plist_len in E. apply IHl; lia.
    + rewrite (IHd m [] ts') by lia. destruct (pdict m [] ts') as [[d r]|] eqn:E; [|reflexivity].
      apply pdict_len in E. apply IHl; lia.
Qed.

(* ====================================================================== fuel-free reader *)
Definition PD (acc : kvs) (ts : list token) := pdict (S (length ts)) acc ts.
Definition PL (acc : list tree) (ts : list token) := plist (S (length ts)) acc ts.
Definition key_of (kb : list Z) : list Z := filter (fun x => negb (x =? 47)) kb.

Lemma PD_fuel n acc ts : (length ts < n)%nat -> pdict n acc ts = PD acc ts.
Proof. intros H. unfold PD. apply (p_fuel n); lia. Qed.
Lemma PL_fuel n acc ts : (length ts < n)%nat -> plist n acc ts = PL acc ts.
Proof. intros H. unfold PL. apply (p_fuel n); lia. Qed.

Lemma PD_nil acc : PD acc [] = Ok (acc, []).
Proof. reflexivity. Qed.
Lemma PL_nil acc : PL acc [] = Ok (acc, []).
Proof. reflexivity. Qed.
Lemma PD_end acc b ts : PD acc ((KDictEnd, b) :: ts) = Ok (acc, ts).
Proof. reflexivity. Qed.
Lemma PL_end acc b ts : PL acc ((KArrEnd, b) :: ts) = Ok (acc, ts).
Proof. reflexivity. Qed.
Lemma PD_skip_start acc b ts : PD acc ((KDictStart, b) :: ts) = PD acc ts.
Proof. reflexivity. Qed.

Lemma PD_dict acc kb b ts :
  PD acc ((KProp, kb) :: (KDictStart, b) :: ts) =
  match PD [] ts with Ok (d, r) => PD (set_kv (key_of kb) (TDict d) acc) r | Err e => Err e end.
Proof.
  change (PD acc ((KProp, kb) :: (KDictStart, b) :: ts)) with
    (match pdict (S (S (length ts))) [] ts with
     | Ok (d, r) => pdict (S (S (length ts))) (set_kv (key_of kb) (TDict d) acc) r
     | Err e => Err e end).
  rewrite PD_fuel by (unfold token in *; lia).
  destruct (PD [] ts) as [[d r]|] eqn:E; [|reflexivity].
  unfold PD in E. apply pdict_len in E. apply PD_fuel. unfold token in *; lia.
Qed.
Lemma PD_list acc kb b ts :
  PD acc ((KProp, kb) :: (KArrStart, b) :: ts) =
  match PL [] ts with Ok (l, r) => PD (set_kv (key_of kb) (TList l) acc) r | Err e => Err e end.
Proof.
  change (PD acc ((KProp, kb) :: (KArrStart, b) :: ts)) with
    (match plist (S (S (length ts))) [] ts with
     | Ok (l, r) => pdict (S (S (length ts))) (set_kv (key_of kb) (TList l) acc) r
     | Err e => Err e end).
  rewrite PL_fuel by (unfold token in *; lia).
  destruct (PL [] ts) as [[l r]|] eqn:E; [|reflexivity].
  unfold PL in E. apply plist_len in E. apply PD_fuel. unfold token in *; lia.
Qed.

Definition leafk (k : kind) : bool :=
  match k with KStr | KNum | KDec | KBool | KProp | KTag | KTag2 => true | _ => false end.

Lemma PD_leaf acc kb vk vb ts : leafk vk = true ->
  PD acc ((KProp, kb) :: (vk, vb) :: ts) =
  match leaf_of vk vb with Ok v => PD (set_kv (key_of kb) v acc) ts | Err e => Err e end.
Proof.
  intros L.
  assert (H : PD acc ((KProp, kb) :: (vk, vb) :: ts) =
              match leaf_of vk vb with
              | Ok v => pdict (S (S (length ts))) (set_kv (key_of kb) v acc) ts
              | Err e => Err e end) by (destruct vk; try discriminate; reflexivity).
  rewrite H. destruct (leaf_of vk vb); [apply PD_fuel; unfold token in *; cbn [length]; lia|reflexivity].
Qed.

Lemma PL_dict acc b ts :
  PL acc ((KDictStart, b) :: ts) =
  match PD [] ts with Ok (d, r) => PL (acc ++ [TDict d]) r | Err e => Err e end.
Proof.
  change (PL acc ((KDictStart, b) :: ts)) with
    (match PD [] ts with
     | Ok (d, r) => plist (S (length ts)) (acc ++ [TDict d]) r
     | Err e => Err e end).
  destruct (PD [] ts) as [[d r]|] eqn:E; [|reflexivity].
  unfold PD in E. apply pdict_len in E. apply PL_fuel. unfold token in *; lia.
Qed.
Lemma PL_list acc b ts :
  PL acc ((KArrStart, b) :: ts) =
  match PL [] ts with Ok (l, r) => PL (acc ++ [TList l]) r | Err e => Err e end.
Proof.
  change (PL acc ((KArrStart, b) :: ts)) with
    (match PL [] ts with
     | Ok (l, r) => plist (S (length ts)) (acc ++ [TList l]) r
     | Err e => Err e end).
  destruct (PL [] ts) as [[l r]|] eqn:E; [|reflexivity].
  unfold PL in E. apply plist_len in E. apply PL_fuel. unfold token in *; lia.
Qed.
Lemma PL_leaf acc k b ts : leafk k = true ->
  PL acc ((k, b) :: ts) = match leaf_of k b with Ok v => PL (acc ++ [v]) ts | Err e => Err e end.
Proof.
  intros L.
  assert (H : PL acc ((k, b) :: ts) =
              match leaf_of k b with
              | Ok v => plist (S (length ts)) (acc ++ [v]) ts
              | Err e => Err e end) by (destruct k; try discriminate; reflexivity).
  rewrite H. reflexivity.
Qed.

Lemma parse_tokens_PD ts : parse_tokens ts = match PD [] ts with Ok (d, _) => Ok d | Err e => Err e end.
Proof. reflexivity. Qed.

(* ====================================================================== token sequence of a tree *)
Fixpoint vtoks (t : tree) : list token :=
  match t with
  | TDict d =>
      (KDictStart, [60;60]) ::
      (fix go (l : kvs) : list token :=
         match l with [] => [] | kv :: r => ((KProp, 47 :: fst kv) :: vtoks (snd kv)) ++ go r end) d ++
      [(KDictEnd, [62;62])]
  | TList l =>
      (KArrStart, [91]) ::
      (fix go (l : list tree) : list token := match l with [] => [] | x :: r => vtoks x ++ go r end) l ++
      [(KArrEnd, [93])]
  | _ => [(leaf_kind t, leaf_bytes t)]
  end.
Definition etoks (d : kvs) : list token := flat_map (fun kv => (KProp, 47 :: fst kv) :: vtoks (snd kv)) d.
Definition ltoks (l : list tree) : list token := flat_map vtoks l.

Lemma vtoks_dict d : vtoks (TDict d) = (KDictStart, [60;60]) :: etoks d ++ [(KDictEnd, [62;62])].
Proof. reflexivity. Qed.
Lemma vtoks_list l : vtoks (TList l) = (KArrStart, [91]) :: ltoks l ++ [(KArrEnd, [93])].
Proof. reflexivity. Qed.
Lemma vtoks_leaf t : is_leaf t = true -> vtoks t = [(leaf_kind t, leaf_bytes t)].
Proof. destruct t; try discriminate; reflexivity. Qed.

(* ====================================================================== wf_tree, unfolded *)
Definition wf_entries (d : kvs) : bool := forallb (fun kv => name_ok (fst kv) && wf_tree (snd kv)) d.
Lemma wf_dict d : wf_tree (TDict d) = keys_nodup (map fst d) && wf_entries d.
Proof.
  cbn [wf_tree]. f_equal. induction d as [|[k v] r IH]; [reflexivity|].
  cbn [wf_entries forallb fst snd]. rewrite IH. reflexivity.
Qed.
Lemma wf_list l : wf_tree (TList l) = forallb wf_tree l.
Proof. cbn [wf_tree]. induction l as [|x r IH]; [reflexivity|]. cbn [forallb]. rewrite IH. reflexivity. Qed.
Lemma wf_leaf_tree t : is_leaf t = true -> wf_tree t = wf_leaf t.
Proof. destruct t; try discriminate; reflexivity. Qed.

(* ====================================================================== dictionaries: keys *)
Definition add_all (acc d : kvs) : kvs := fold_left (fun a kv => set_kv (fst kv) (snd kv) a) d acc.

Lemma list_eqb_sym a b : list_eqb a b = list_eqb b a.
Proof.
  destruct (list_eqb a b) eqn:E1, (list_eqb b a) eqn:E2; try reflexivity.
  - apply list_eqb_eq in E1. subst. assert (list_eqb b b = true) by (apply list_eqb_eq; reflexivity). congruence.
  - apply list_eqb_eq in E2. subst. assert (list_eqb a a = true) by (apply list_eqb_eq; reflexivity). congruence.
Qed.

Lemma set_kv_fresh k v acc : existsb (list_eqb k) (map fst acc) = false -> set_kv k v acc = acc ++ [(k, v)].
Proof.
  induction acc as [|[k' v'] t IH]; intros H; [reflexivity|].
  cbn [map fst existsb] in H. apply orb_false_iff in H as [H1 H2].
  cbn [set_kv app]. rewrite H1. f_equal. apply IH. exact H2.
Qed.

Lemma keys_nodup_app_fresh a k r : keys_nodup (a ++ k :: r) = true -> existsb (list_eqb k) a = false.
Proof.
  induction a as [|x a IH]; intros H; [reflexivity|].
  cbn [app keys_nodup] in H. apply andb_true_iff in H as [H1 H2].
  cbn [existsb]. rewrite (IH H2), orb_false_r.
  apply negb_true_iff in H1. rewrite existsb_app in H1. apply orb_false_iff in H1 as [_ H1].
  cbn [existsb] in H1. apply orb_false_iff in H1 as [H1 _]. rewrite list_eqb_sym. exact H1.
Qed.

Lemma add_all_nodup : forall d acc, keys_nodup (map fst acc ++ map fst d) = true -> add_all acc d = acc ++ d.
Proof.
  induction d as [|[k v] r IH]; intros acc H.
  - cbn. rewrite app_nil_r. reflexivity.
  - cbn [map fst] in H. cbn [add_all fold_left fst snd].
    rewrite set_kv_fresh by (apply (keys_nodup_app_fresh _ _ _ H)).
    fold (add_all (acc ++ [(k, v)]) r). rewrite IH.
    + rewrite <- app_assoc. reflexivity.
    + rewrite map_app. cbn [map fst]. rewrite <- app_assoc. exact H.
Qed.

(* ====================================================================== reading the tokens of a tree *)
Lemma untiny_dict d : untiny (TDict d) = TDict (untiny_kvs d).
Proof. reflexivity. Qed.
Lemma untiny_list l : untiny (TList l) = TList (map untiny l).
Proof. reflexivity. Qed.
Lemma untiny_keys d : map fst (untiny_kvs d) = map fst d.
Proof. unfold untiny_kvs. rewrite map_map. reflexivity. Qed.

(* what is read is the tree with its decimals to 8 places ([untiny]: identity unless a non-zero decimal below 5e-9 occurs) *)
Definition Reads (v : tree) : Prop :=
  wf_tree v = true ->
  (forall acc k more, name_ok k = true ->
     PD acc ((KProp, 47 :: k) :: vtoks v ++ more) = PD (set_kv k (untiny v) acc) more) /\
  (forall acc more, PL acc (vtoks v ++ more) = PL (acc ++ [untiny v]) more).

Lemma key_of_name k : name_ok k = true -> key_of (47 :: k) = k.
Proof. intros H. destruct (prop_classify k H) as (_ & _ & F). exact F. Qed.

Lemma leafk_leaf t : is_leaf t = true -> wf_leaf t = true -> leafk (leaf_kind t) = true.
Proof.
  intros L W. destruct (leaf_kind_cases t L W) as [E|[E|[E|[E|[E|[E|E]]]]]]; rewrite E; reflexivity.
Qed.

Lemma reads_entries d : Forall (fun kv => Reads (snd kv)) d -> wf_entries d = true ->
  forall acc more, PD acc (etoks d ++ more) = PD (add_all acc (untiny_kvs d)) more.
Proof.
  induction 1 as [|[k v] r Hv Hr IH]; intros W acc more; [reflexivity|].
  cbn [wf_entries forallb fst snd] in W. apply andb_true_iff in W as [W1 W2]. apply andb_true_iff in W1 as [N Wv].
  cbn [etoks flat_map fst snd]. cbn [app]. rewrite <- app_assoc.
  destruct (Hv Wv) as [Hd _]. cbn [snd] in Hd. rewrite (Hd acc k _ N).
  fold (etoks r). rewrite IH by exact W2. reflexivity.
Qed.

Lemma reads_items l : Forall Reads l -> forallb wf_tree l = true ->
  forall acc more, PL acc (ltoks l ++ more) = PL (acc ++ map untiny l) more.
Proof.
  induction 1 as [|v r Hv Hr IH]; intros W acc more; [cbn; rewrite app_nil_r; reflexivity|].
  cbn [forallb] in W. apply andb_true_iff in W as [Wv W2].
  cbn [ltoks flat_map]. rewrite <- app_assoc. destruct (Hv Wv) as [_ Hl]. rewrite Hl.
  fold (ltoks r). rewrite IH by exact W2. rewrite <- app_assoc. reflexivity.
Qed.

Lemma reads_all : forall v, Reads v.
Proof.
  apply tree_ind2.
  - (* Dict *)
    intros d Hd W. rewrite wf_dict in W. apply andb_true_iff in W as [ND WE].
    assert (INNER : forall more, PD [] (etoks d ++ (KDictEnd, [62;62]) :: more) = Ok (untiny_kvs d, more)).
    { intros more. rewrite (reads_entries d Hd WE). rewrite add_all_nodup by (rewrite untiny_keys; exact ND). apply PD_end. }
    rewrite vtoks_dict, untiny_dict. split.
    + intros acc k more N. cbn [app]. rewrite PD_dict. rewrite <- app_assoc. cbn [app]. rewrite INNER.
      rewrite key_of_name by exact N. reflexivity.
    + intros acc more. cbn [app]. rewrite PL_dict. rewrite <- app_assoc. cbn [app]. rewrite INNER. reflexivity.
  - (* List *)
    intros l Hl W. rewrite wf_list in W.
    assert (INNER : forall more, PL [] (ltoks l ++ (KArrEnd, [93]) :: more) = Ok (map untiny l, more)).
    { intros more. rewrite (reads_items l Hl W). apply PL_end. }
    rewrite vtoks_list, untiny_list. split.
    + intros acc k more N. cbn [app]. rewrite PD_list. rewrite <- app_assoc. cbn [app]. rewrite INNER.
      rewrite key_of_name by exact N. reflexivity.
    + intros acc more. cbn [app]. rewrite PL_list. rewrite <- app_assoc. cbn [app]. rewrite INNER. reflexivity.
  - (* leaves *)
    intros t L W. rewrite wf_leaf_tree in W by exact L. rewrite vtoks_leaf by exact L. split.
    + intros acc k more N. cbn [app]. rewrite PD_leaf by (apply leafk_leaf; assumption).
      rewrite leaf_read by assumption. rewrite key_of_name by exact N. reflexivity.
    + intros acc more. cbn [app]. rewrite PL_leaf by (apply leafk_leaf; assumption).
      rewrite leaf_read by assumption. reflexivity.
Qed.

(* reading the token sequence of a whole engine-data dictionary, with or without its container *)
Theorem parse_tokens_container d : wf_tree (TDict d) = true -> parse_tokens (vtoks (TDict d)) = Ok (untiny_kvs d).
Proof.
  intros W. pose proof W as W'. rewrite wf_dict in W'. apply andb_true_iff in W' as [ND WE].
  rewrite parse_tokens_PD, vtoks_dict, PD_skip_start.
  rewrite (reads_entries d). 2: { apply Forall_forall. intros kv _. apply reads_all. } 2: exact WE.
  rewrite add_all_nodup by (rewrite untiny_keys; exact ND). rewrite PD_end. reflexivity.
Qed.

Theorem parse_tokens_bare d : wf_tree (TDict d) = true -> parse_tokens (etoks d) = Ok (untiny_kvs d).
Proof.
  intros W. pose proof W as W'. rewrite wf_dict in W'. apply andb_true_iff in W' as [ND WE].
  rewrite parse_tokens_PD. rewrite <- (app_nil_r (etoks d)).
  rewrite (reads_entries d). 2: { apply Forall_forall. intros kv _. apply reads_all. } 2: exact WE.
  rewrite add_all_nodup by (rewrite untiny_keys; exact ND). rewrite PD_nil. reflexivity.
Qed.

(* ====================================================================== untiny: well-formed, idempotent, often the identity *)
Lemma wf_untiny : forall t, wf_tree t = true -> wf_tree (untiny t) = true.
Proof.
  apply (tree_ind2 (fun t => wf_tree t = true -> wf_tree (untiny t) = true)).
  - intros d H W. rewrite untiny_dict. rewrite wf_dict in *. apply andb_true_iff in W as [ND WE].
    rewrite untiny_keys, ND. cbn [andb]. unfold wf_entries, untiny_kvs in *. rewrite forallb_forall in *.
    intros kv' Hin. apply in_map_iff in Hin as (kv & <- & Hin). cbn [fst snd].
    specialize (WE kv Hin). apply andb_true_iff in WE as [N Wv]. rewrite N. cbn [andb].
    rewrite Forall_forall in H. apply (H kv Hin Wv).
  - intros l H W. rewrite untiny_list. rewrite wf_list in *. rewrite forallb_forall in *.
    intros x' Hin. apply in_map_iff in Hin as (x & <- & Hin). rewrite Forall_forall in H. apply (H x Hin (W x Hin)).
  - intros t L W. destruct t; try discriminate; try exact W.
    cbn [untiny wf_tree wf_leaf fmag ftiny] in *. apply andb_true_iff in W as [W1 _]. rewrite W1. reflexivity.
Qed.

Lemma untiny_idem : forall t, untiny (untiny t) = untiny t.
Proof.
  apply (tree_ind2 (fun t => untiny (untiny t) = untiny t)).
  - intros d H. rewrite !untiny_dict. f_equal. unfold untiny_kvs. rewrite map_map. apply map_ext_in.
    intros kv Hin. cbn [fst snd]. rewrite Forall_forall in H. rewrite (H kv Hin). reflexivity.
  - intros l H. rewrite !untiny_list. f_equal. rewrite map_map. apply map_ext_in.
    intros x Hin. rewrite Forall_forall in H. apply (H x Hin).
  - intros t L. destruct t; try discriminate; reflexivity.
Qed.

(* no tiny decimal anywhere: [untiny] is the identity *)
Fixpoint notiny (t : tree) : bool :=
  match t with
  | TDict d => (fix go (l : kvs) : bool := match l with [] => true | kv :: r => notiny (snd kv) && go r end) d
  | TList l => (fix go (l : list tree) : bool := match l with [] => true | x :: r => notiny x && go r end) l
  | TFloat f => negb (ftiny f)
  | _ => true
  end.
Lemma notiny_untiny : forall t, notiny t = true -> untiny t = t.
Proof.
  apply (tree_ind2 (fun t => notiny t = true -> untiny t = t)).
  - intros d H N. rewrite untiny_dict. f_equal. change (forallb (fun kv => notiny (snd kv)) d = true) in N.
    unfold untiny_kvs. rewrite <- (map_id d) at 2. apply map_ext_in. intros [k v] Hin. cbn [fst snd].
    rewrite Forall_forall in H. rewrite forallb_forall in N. pose proof (H (k, v) Hin (N (k, v) Hin)) as E.
    cbn [snd] in E. rewrite E. reflexivity.
  - intros l H N. rewrite untiny_list. f_equal. change (forallb notiny l = true) in N.
    rewrite <- (map_id l) at 2. apply map_ext_in. intros x Hin.
    rewrite Forall_forall in H. rewrite forallb_forall in N. apply (H x Hin (N x Hin)).
  - intros t L N. destruct t; try discriminate; try reflexivity.
    destruct f as [n m ti]. cbn [notiny ftiny] in N. destruct ti; [discriminate|reflexivity].
Qed.
