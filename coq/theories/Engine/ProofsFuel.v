(* Engine data, part 5: the fuel the reader is given is always enough:
   parse never answers OutOfFuel, whatever the data. *)
From Coq Require Import ZArith List Bool Lia ZifyBool.
From PsdV Require Import Base.Prelude Engine.Model Engine.ProofsLex Engine.ProofsLeaf Engine.ProofsParse.
Import ListNotations.
Open Scope Z_scope.

Definition isfuel (k : kind) : bool := match k with KFuel => true | _ => false end.
Definition nofuel (ts : list token) : bool := forallb (fun t => negb (isfuel (fst t))) ts.

Lemma nofuel_cons k b ts : nofuel ((k, b) :: ts) = negb (isfuel k) && nofuel ts.
Proof. reflexivity. Qed.

Ltac use_nofuel IHd IHl n :=
  repeat match goal with
         | F : nofuel (_ :: _) = true |- _ => rewrite nofuel_cons in F; apply andb_true_iff in F as [? F]
         end;
  repeat match goal with
         | E : pdict n _ ?x = Ok (_, _), F : nofuel ?x = true |- _ => pose proof (IHd _ _ _ _ E F); clear E
         | E : plist n _ ?x = Ok (_, _), F : nofuel ?x = true |- _ => pose proof (IHl _ _ _ _ E F); clear E
         end.

Lemma p_nofuel : forall n,
  (forall acc ts d r, pdict n acc ts = Ok (d, r) -> nofuel ts = true -> nofuel r = true) /\
  (forall acc ts l r, plist n acc ts = Ok (l, r) -> nofuel ts = true -> nofuel r = true).
Proof.
  induction n as [|n [IHd IHl]]; split; intros acc ts x r H NF; try discriminate.
  - cbn [pdict] in H. break_match H; subst; use_nofuel IHd IHl n;
      try (inversion H; subst); try assumption; try reflexivity;
      try (eapply IHd; eassumption).
  - cbn [plist] in H. break_match H; subst; use_nofuel IHd IHl n;
      try (inversion H; subst); try assumption; try reflexivity;
      try (eapply IHl; eassumption).
Qed.

Lemma leaf_of_err k b e : leaf_of k b = Err e -> isfuel k = false -> e <> OutOfFuel.
Proof.
  unfold leaf_of. destruct k; intros H F; try discriminate; try (inversion H; discriminate).
  - destruct (_ <? _)%nat; inversion H. discriminate.
  - destruct (utf16_ok _); inversion H. discriminate.
Qed.

Lemma p_total : forall n,
  (forall acc ts, (length ts < n)%nat -> nofuel ts = true -> pdict n acc ts <> Err OutOfFuel) /\
  (forall acc ts, (length ts < n)%nat -> nofuel ts = true -> plist n acc ts <> Err OutOfFuel).
Proof.
  induction n as [|n [IHd IHl]]; split; intros acc ts Hn NF; try lia.
  - cbn [pdict]. destruct ts as [|[k b] ts']; [discriminate|]. cbn [length] in Hn.
    rewrite nofuel_cons in NF. apply andb_true_iff in NF as [NK NF].
    destruct k; try discriminate; try (apply IHd; [lia|exact NF]).
    destruct ts' as [|[vk vb] ts'']; [discriminate|]. cbn [length] in Hn.
    rewrite nofuel_cons in NF. apply andb_true_iff in NF as [NV NF].
    destruct vk; try discriminate;
      try (destruct (leaf_of _ vb) eqn:EL;
           [apply IHd; [lia|exact NF]
           |intro HH; inversion HH; subst; eapply leaf_of_err; [exact EL|reflexivity|reflexivity]]).
    + destruct (plist n [] ts'') as [[l r]|e] eqn:E.
      * pose proof (plist_len _ _ _ _ _ E). apply IHd; [lia|]. eapply (proj2 (p_nofuel n)); eassumption.
      * intro HH. inversion HH; subst. eapply IHl; [|exact NF|exact E]. lia.
    + destruct (pdict n [] ts'') as [[d r]|e] eqn:E.
      * pose proof (pdict_len _ _ _ _ _ E). apply IHd; [lia|]. eapply (proj1 (p_nofuel n)); eassumption.
      * intro HH. inversion HH; subst. eapply IHd; [|exact NF|exact E]. lia.
  - cbn [plist]. destruct ts as [|[k b] ts']; [discriminate|]. cbn [length] in Hn.
    rewrite nofuel_cons in NF. apply andb_true_iff in NF as [NK NF].
    destruct k; try discriminate;
      try (destruct (leaf_of _ b) eqn:EL;
           [apply IHl; [lia|exact NF]
           |intro HH; inversion HH; subst; eapply leaf_of_err; [exact EL|reflexivity|reflexivity]]).
    + destruct (plist n [] ts') as [[l r]|e] eqn:E.
      * pose proof (plist_len _ _ _ _ _ E). apply IHl; [lia|]. eapply (proj2 (p_nofuel n)); eassumption.
      * intro HH. inversion HH; subst. eapply IHl; [|exact NF|exact E]. lia.
    + destruct (pdict n [] ts') as [[d r]|e] eqn:E.
      * pose proof (pdict_len _ _ _ _ _ E). apply IHl; [lia|]. eapply (proj1 (p_nofuel n)); eassumption.
      * intro HH. inversion HH; subst. eapply IHd; [|exact NF|exact E]. lia.
Qed.

Lemma tokenize_nofuel l : nofuel (tokenize l) = true.
Proof.
  unfold nofuel. apply forallb_forall. intros [k b] Hin.
  destruct k; try reflexivity. exfalso. apply (tokenize_no_fuel l).
  apply in_map_iff. exists (KFuel, b). split; [reflexivity|exact Hin].
Qed.

Theorem parse_total : forall data, parse data <> Err OutOfFuel.
Proof.
  intros data. unfold parse, parse_tokens.
  destruct (pdict (S (length (tokenize data))) [] (tokenize data)) as [[d r]|e] eqn:E; [discriminate|].
  intro H. inversion H; subst.
  eapply (proj1 (p_total (S (length (tokenize data))))); [|apply tokenize_nofuel|exact E]. lia.
Qed.
