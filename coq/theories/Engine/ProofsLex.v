(* Engine data, part 1: String escape/unescape, the string-end scan, the fuel-free tokenizer
   equation, and the lemmas that let a printed text be tokenized piece by piece. *)
From Coq Require Import ZArith List Bool Lia ZifyBool.
From PsdV Require Import Base.Prelude Engine.Model.
Import ListNotations.
Open Scope Z_scope.

(* ====================================================================== escape as a per-byte map *)
Definition special (x : Z) : bool := (x =? 92) || (x =? 40) || (x =? 41).
Definition esc1 (x : Z) : list Z := if special x then [92; x] else [x].

Lemma rep12_ne a x t : x <> a -> rep12 a (x :: t) = x :: rep12 a t.
Proof. intros H. cbn [rep12]. destruct (x =? a) eqn:E; [lia|reflexivity]. Qed.
Lemma rep12_eq a t : rep12 a (a :: t) = 92 :: a :: rep12 a t.
Proof. cbn [rep12]. rewrite Z.eqb_refl. reflexivity. Qed.

Lemma escape_cons x t : escape (x :: t) = esc1 x ++ escape t.
Proof.
  unfold escape, esc1, special.
  destruct (x =? 92) eqn:E1; [assert (x = 92) by lia; subst x|].
  { rewrite rep12_eq. rewrite !(rep12_ne 40 92) by lia. rewrite !(rep12_ne 41 92) by lia. reflexivity. }
  rewrite (rep12_ne 92 x) by lia.
  destruct (x =? 40) eqn:E2; [assert (x = 40) by lia; subst x|].
  { rewrite rep12_eq. rewrite (rep12_ne 41 92) by lia. rewrite (rep12_ne 41 40) by lia. reflexivity. }
  rewrite (rep12_ne 40 x) by lia.
  destruct (x =? 41) eqn:E3; [assert (x = 41) by lia; subst x|].
  { rewrite rep12_eq. reflexivity. }
  rewrite (rep12_ne 41 x) by lia. reflexivity.
Qed.

Lemma escape_flat l : escape l = flat_map esc1 l.
Proof.
  induction l as [|x t IH]; [reflexivity|]. rewrite escape_cons, IH. reflexivity.
Qed.

(* ====================================================================== rep21 facts *)
Lemma rep21_hit a b c l : rep21 a b c (a :: b :: l) = c :: rep21 a b c l.
Proof. cbn [rep21]. rewrite !Z.eqb_refl. reflexivity. Qed.
Lemma rep21_ne1 a b c x l : x <> a -> rep21 a b c (x :: l) = x :: rep21 a b c l.
Proof.
  intros H. destruct l as [|y t]; [reflexivity|]. cbn [rep21].
  destruct (x =? a) eqn:E; [lia|]. reflexivity.
Qed.
Lemma rep21_ne2 a b c x l : hd 0 l <> b \/ l = [] -> rep21 a b c (x :: l) = x :: rep21 a b c l.
Proof.
  intros H. destruct l as [|y t]; [reflexivity|]. cbn [rep21].
  destruct H as [H|H]; [|discriminate]. cbn [hd] in H.
  destruct (y =? b) eqn:E; [lia|]. rewrite andb_false_r. reflexivity.
Qed.

(* ====================================================================== unescape (escape l) = l *)
Definition e1 (x : Z) : list Z := if (x =? 40) || (x =? 41) then [92; x] else [x].
Definition e2 (x : Z) : list Z := if x =? 41 then [92; x] else [x].

Lemma hd_e1 l : hd 0 (flat_map e1 l) <> 40.
Proof.
  destruct l as [|x t]; cbn [flat_map hd]; [lia|]. unfold e1.
  destruct ((x =? 40) || (x =? 41)) eqn:E; cbn [app hd]; lia.
Qed.
Lemma hd_e2 l : hd 0 (flat_map e2 l) <> 41.
Proof.
  destruct l as [|x t]; cbn [flat_map hd]; [lia|]. unfold e2.
  destruct (x =? 41) eqn:E; cbn [app hd]; lia.
Qed.

Lemma pass1 l : rep21 92 92 92 (flat_map esc1 l) = flat_map e1 l.
Proof.
  induction l as [|x t IH]; [reflexivity|]. cbn [flat_map].
  destruct (x =? 92) eqn:E1; [assert (x = 92) by lia; subst x|].
  { change (esc1 92) with [92;92]. change (e1 92) with [92]. cbn [app]. rewrite rep21_hit, IH. reflexivity. }
  destruct ((x =? 40) || (x =? 41)) eqn:E2.
  - assert (esc1 x = [92; x]) as -> by (unfold esc1, special; rewrite E1; destruct (x =? 40), (x =? 41); cbn in *; congruence).
    assert (e1 x = [92; x]) as -> by (unfold e1; rewrite E2; reflexivity). cbn [app].
    rewrite (rep21_ne2 92 92 92 92) by (left; cbn [hd]; lia).
    rewrite (rep21_ne1 92 92 92 x) by lia. rewrite IH. reflexivity.
  - assert (esc1 x = [x]) as -> by (unfold esc1, special; rewrite E1; destruct (x =? 40), (x =? 41); cbn in *; congruence).
    assert (e1 x = [x]) as -> by (unfold e1; rewrite E2; reflexivity). cbn [app].
    rewrite (rep21_ne1 92 92 92 x) by lia. rewrite IH. reflexivity.
Qed.

Lemma pass2 l : rep21 92 40 40 (flat_map e1 l) = flat_map e2 l.
Proof.
  induction l as [|x t IH]; [reflexivity|]. cbn [flat_map].
  destruct (x =? 40) eqn:E1; [assert (x = 40) by lia; subst x|].
  { change (e1 40) with [92;40]. change (e2 40) with [40]. cbn [app]. rewrite rep21_hit, IH. reflexivity. }
  destruct (x =? 41) eqn:E2.
  - assert (e1 x = [92; x]) as -> by (unfold e1; rewrite E1, E2; reflexivity).
    assert (e2 x = [92; x]) as -> by (unfold e2; rewrite E2; reflexivity). cbn [app].
    rewrite (rep21_ne2 92 40 40 92) by (left; cbn [hd]; lia).
    rewrite (rep21_ne1 92 40 40 x) by lia. rewrite IH. reflexivity.
  - assert (e1 x = [x]) as -> by (unfold e1; rewrite E1, E2; reflexivity).
    assert (e2 x = [x]) as -> by (unfold e2; rewrite E2; reflexivity). cbn [app].
    destruct (x =? 92) eqn:E3.
    + rewrite (rep21_ne2 92 40 40 x) by (left; apply hd_e1). rewrite IH. reflexivity.
    + rewrite (rep21_ne1 92 40 40 x) by lia. rewrite IH. reflexivity.
Qed.

Lemma pass3 l : rep21 92 41 41 (flat_map e2 l) = l.
Proof.
  induction l as [|x t IH]; [reflexivity|]. cbn [flat_map].
  destruct (x =? 41) eqn:E1; [assert (x = 41) by lia; subst x|].
  { change (e2 41) with [92;41]. cbn [app]. rewrite rep21_hit, IH. reflexivity. }
  assert (e2 x = [x]) as -> by (unfold e2; rewrite E1; reflexivity). cbn [app].
  destruct (x =? 92) eqn:E3.
  - rewrite (rep21_ne2 92 41 41 x) by (left; apply hd_e2). rewrite IH. reflexivity.
  - rewrite (rep21_ne1 92 41 41 x) by lia. rewrite IH. reflexivity.
Qed.

Theorem unescape_escape : forall l, unescape (escape l) = l.
Proof.
  intros l. unfold unescape. rewrite escape_flat, pass1, pass2, pass3. reflexivity.
Qed.

(* ====================================================================== the end of a string is found *)
Lemma esc1_cases x : (special x = true /\ esc1 x = [92; x]) \/ (special x = false /\ esc1 x = [x]).
Proof. unfold esc1. destruct (special x); [left|right]; split; reflexivity. Qed.

Lemma scan_end_esc p rest : scan_end (flat_map esc1 p ++ 41 :: rest) = Some (flat_map esc1 p, rest).
Proof.
  induction p as [|x t IH]; cbn [flat_map app].
  - cbn [scan_end]. reflexivity.
  - destruct (esc1_cases x) as [[S ->]|[S ->]]; cbn [app].
    + cbn [scan_end]. change (92 =? 41) with false. change (92 =? 92) with true. cbv iota.
      rewrite IH. reflexivity.
    + unfold special in S. cbn [scan_end].
      destruct (x =? 41) eqn:E1; [lia|]. destruct (x =? 92) eqn:E2; [lia|].
      rewrite IH. reflexivity.
Qed.

Theorem scan_end_escape : forall p rest, scan_end (escape p ++ 41 :: rest) = Some (escape p, rest).
Proof. intros. rewrite escape_flat. apply scan_end_esc. Qed.

Lemma str_tail_esc p : forall prev, str_tail prev (flat_map esc1 p ++ [41]) = true.
Proof.
  induction p as [|x t IH]; intros prev; cbn [flat_map app].
  - reflexivity.
  - assert (NE : flat_map esc1 t ++ [41] <> []) by (intro H; apply app_eq_nil in H; destruct H; discriminate).
    specialize (IH x). destruct (flat_map esc1 t ++ [41]) as [|y r] eqn:ER; [contradiction|].
    destruct (esc1_cases x) as [[S ->]|[S ->]]; cbn [app]; rewrite ER.
    + cbn [str_tail]. change (92 =? 41) with false. cbv iota. cbn [andb].
      cbn [str_tail] in IH. change (92 =? 92) with true.
      destruct (x =? 41); exact IH.
    + unfold special in S. cbn [str_tail]. destruct (x =? 41) eqn:E1; [lia|]. cbn [andb].
      cbn [str_tail] in IH. exact IH.
Qed.

(* ====================================================================== tokenizer equation *)
Lemma dropwhile_len p l : (length (dropwhile p l) <= length l)%nat.
Proof. induction l as [|x t IH]; cbn [dropwhile]; [lia|]. destruct (p x); cbn [length]; lia. Qed.

Lemma split_div_len l : (length (snd (split_div l)) <= length l)%nat.
Proof.
  induction l as [|x t IH]; cbn [split_div]; [cbn; lia|].
  destruct (is_div x).
  - cbn [snd length]. pose proof (dropwhile_len is_div t). lia.
  - destruct (split_div t) as [a b]. cbn [snd length] in *. lia.
Qed.

Lemma split_div_lt l : l <> [] -> (length (snd (split_div l)) < length l)%nat.
Proof.
  destruct l as [|x t]; [congruence|]. intros _. cbn [split_div].
  destruct (is_div x).
  - cbn [snd length]. pose proof (dropwhile_len is_div t). lia.
  - pose proof (split_div_len t). destruct (split_div t) as [a b]. cbn [snd length] in *. lia.
Qed.

Lemma scan_end_len : forall n l c r, (length l <= n)%nat -> scan_end l = Some (c, r) -> (length r < length l)%nat.
Proof.
  induction n as [|n IH]; intros l c r Hn H.
  - destruct l; [discriminate|cbn [length] in Hn; lia].
  - destruct l as [|x t]; [discriminate|]. cbn [scan_end] in H. cbn [length] in *.
    destruct (x =? 41).
    + inversion H; subst. lia.
    + destruct (x =? 92).
      * destruct t as [|y t']; [discriminate|].
        destruct (scan_end t') as [[c' r']|] eqn:E; [|discriminate].
        inversion H; subst. cbn [length] in *. apply IH in E; lia.
      * destruct (scan_end t) as [[c' r']|] eqn:E; [|discriminate].
        inversion H; subst. apply IH in E; lia.
Qed.

Lemma skipn_len {A} n (l : list A) : (length (skipn n l) <= length l)%nat.
Proof. rewrite skipn_length. lia. Qed.

Lemma tokenize_fuel : forall n m l, (length l < n)%nat -> (length l < m)%nat -> tokenize_f n l = tokenize_f m l.
Proof.
  induction n as [|n IH]; intros m l Hn Hm; [lia|]. destruct m as [|m]; [lia|].
  cbn [tokenize_f]. destruct l as [|x t]; [reflexivity|].
  destruct (starts_str (x :: t)).
  - destruct (scan_end (skipn 3 (x :: t))) as [[c r]|] eqn:E; [|reflexivity].
    pose proof (scan_end_len _ _ _ _ (le_n _) E). pose proof (skipn_len 3 (x :: t)).
    rewrite (IH m r) by lia. reflexivity.
  - pose proof (split_div_lt (x :: t) ltac:(discriminate)).
    destruct (split_div (x :: t)) as [tok r]. cbn [snd] in H.
    destruct tok; rewrite (IH m r) by lia; reflexivity.
Qed.

Definition tok_body (rec : list Z -> list token) (l : list Z) : list token :=
  match l with
  | [] => []
  | _ =>
      if starts_str l then
        match scan_end (skipn 3 l) with
        | None => [(KBad, l)]
        | Some (c, r) => emit (firstn 3 l ++ c ++ [41]) (rec r)
        end
      else
        let '(tok, r) := split_div l in
        match tok with
        | [] => rec r
        | _ => emit tok (rec r)
        end
  end.

Lemma tokenize_eq l : tokenize l = tok_body tokenize l.
Proof.
  unfold tokenize at 1. cbn [tokenize_f]. destruct l as [|x t]; [reflexivity|].
  unfold tok_body. destruct (starts_str (x :: t)).
  - destruct (scan_end (skipn 3 (x :: t))) as [[c r]|] eqn:E; [|reflexivity].
    pose proof (scan_end_len _ _ _ _ (le_n _) E). pose proof (skipn_len 3 (x :: t)).
    unfold tokenize. rewrite (tokenize_fuel (length (x :: t)) (S (length r)) r) by lia. reflexivity.
  - pose proof (split_div_lt (x :: t) ltac:(discriminate)).
    destruct (split_div (x :: t)) as [tok r]. cbn [snd] in H.
    unfold tokenize. destruct tok; rewrite (tokenize_fuel (length (x :: t)) (S (length r)) r) by lia; reflexivity.
Qed.

(* the fuel given by [tokenize] is never exhausted *)
Lemma tokenize_f_no_fuel : forall n l, (length l < n)%nat -> ~ In KFuel (map fst (tokenize_f n l)).
Proof.
  induction n as [|n IH]; intros l Hn; [lia|]. cbn [tokenize_f]. destruct l as [|x t]; [cbn; tauto|].
  assert (EM : forall tok r, ~ In KFuel (map fst r) -> ~ In KFuel (map fst (emit tok r))).
  { intros tok r Hr. unfold emit. destruct (classify tok) eqn:C; cbn [map fst In]; intros [H|H];
      try discriminate; try contradiction; try (apply Hr; exact H).
    (* classify never answers KFuel *)
    unfold classify in C.
    repeat match type of C with (if ?b then _ else _) = _ => destruct b; try discriminate end. }
  destruct (starts_str (x :: t)).
  - destruct (scan_end (skipn 3 (x :: t))) as [[c r]|] eqn:E.
    + pose proof (scan_end_len _ _ _ _ (le_n _) E). pose proof (skipn_len 3 (x :: t)).
      apply EM. apply IH. lia.
    + cbn. intros [H|[]]. discriminate.
  - pose proof (split_div_lt (x :: t) ltac:(discriminate)).
    destruct (split_div (x :: t)) as [tok r]. cbn [snd] in H.
    destruct tok; [apply IH; lia|apply EM; apply IH; lia].
Qed.

Theorem tokenize_no_fuel : forall l, ~ In KFuel (map fst (tokenize l)).
Proof. intros l. apply tokenize_f_no_fuel. lia. Qed.

(* ====================================================================== piecewise tokenization *)
Definition sep_start (rest : list Z) : bool := match rest with [] => true | d :: _ => is_div d end.
Definition nodiv (tok : list Z) : bool := forallb (fun x => negb (is_div x)) tok.

Lemma div_not_paren d : is_div d = true -> (d =? 40) = false /\ (d =? 254) = false /\ (d =? 255) = false.
Proof. unfold is_div. lia. Qed.

Lemma tokenize_nil : tokenize [] = [].
Proof. reflexivity. Qed.

Lemma tokenize_dropdiv x : tokenize (dropwhile is_div x) = tokenize x.
Proof.
  destruct x as [|d x']; [reflexivity|]. cbn [dropwhile]. destruct (is_div d) eqn:D; [|reflexivity].
  rewrite (tokenize_eq (d :: x')). unfold tok_body.
  assert (S : starts_str (d :: x') = false).
  { destruct (div_not_paren d D) as [H _]. unfold starts_str. destruct x' as [|b [|c r]]; try reflexivity.
    rewrite H. reflexivity. }
  rewrite S. cbn [split_div]. rewrite D. reflexivity.
Qed.

Lemma tokenize_div d x : is_div d = true -> tokenize (d :: x) = tokenize x.
Proof.
  intros D. rewrite <- (tokenize_dropdiv (d :: x)). cbn [dropwhile]. rewrite D. apply tokenize_dropdiv.
Qed.

Lemma tokenize_divs ws x : forallb is_div ws = true -> tokenize (ws ++ x) = tokenize x.
Proof.
  induction ws as [|d t IH]; intros H; [reflexivity|]. cbn [forallb] in H. apply andb_true_iff in H as [H1 H2].
  cbn [app]. rewrite tokenize_div by exact H1. apply IH. exact H2.
Qed.

Lemma split_div_app tok rest : nodiv tok = true -> sep_start rest = true ->
  split_div (tok ++ rest) = (tok, dropwhile is_div rest).
Proof.
  induction tok as [|x t IH]; intros N S.
  - cbn [app]. destruct rest as [|d r]; [reflexivity|]. cbn [sep_start] in S. cbn [split_div dropwhile]. rewrite S. reflexivity.
  - cbn [nodiv forallb] in N. apply andb_true_iff in N as [N1 N2]. cbn [app split_div].
    destruct (is_div x); [discriminate|]. rewrite (IH N2 S). reflexivity.
Qed.

Lemma starts_str_app tok rest : tok <> [] -> nodiv tok = true -> sep_start rest = true ->
  starts_str (tok ++ rest) = starts_str tok.
Proof.
  intros NE N S. destruct tok as [|a [|b [|c t]]]; [congruence| | |reflexivity].
  - cbn [app]. destruct rest as [|d [|e r]]; try reflexivity. cbn [sep_start] in S.
    destruct (div_not_paren d S) as (_ & H & _). unfold starts_str. rewrite H, andb_false_r. reflexivity.
  - cbn [app]. destruct rest as [|d r]; try reflexivity. cbn [sep_start] in S.
    destruct (div_not_paren d S) as (_ & _ & H). unfold starts_str. rewrite H, andb_false_r. reflexivity.
Qed.

(* a token that is not a string, followed by a divider or the end of the data *)
Lemma tokenize_tok tok rest : clean tok = true -> sep_start rest = true ->
  tokenize (tok ++ rest) = emit tok (tokenize rest).
Proof.
  unfold clean. intros C S. apply andb_true_iff in C as [C C3]. apply andb_true_iff in C as [C1 C2].
  assert (NE : tok <> []) by (destruct tok; [discriminate|congruence]).
  rewrite tokenize_eq. unfold tok_body.
  destruct (tok ++ rest) as [|x t] eqn:E; [apply app_eq_nil in E; tauto|]. rewrite <- E.
  rewrite starts_str_app by assumption. destruct (starts_str tok); [discriminate|].
  rewrite split_div_app by assumption. rewrite tokenize_dropdiv.
  destruct tok; [congruence|reflexivity].
Qed.

(* a string token, followed by anything *)
Lemma tokenize_str p rest :
  tokenize ([40;254;255] ++ escape p ++ [41] ++ rest) =
  emit ([40;254;255] ++ escape p ++ [41]) (tokenize rest).
Proof.
  rewrite tokenize_eq. unfold tok_body. cbn [app].
  change (starts_str (40 :: 254 :: 255 :: escape p ++ 41 :: rest)) with true. cbv iota.
  cbn [skipn firstn]. rewrite scan_end_escape. cbn [app]. reflexivity.
Qed.
