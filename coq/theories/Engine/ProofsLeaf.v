(* Engine data, part 2: the value elements.  Each leaf is printed as one clean token, recognised as
   its own token class, and read back to the same value: decimal digits, Integer, Float (8 places),
   String, Bool, Property, Tag. *)
From Coq Require Import ZArith List Bool Lia ZifyBool.
From PsdV Require Import Base.Prelude Engine.Model Engine.ProofsLex.
Import ListNotations.
Open Scope Z_scope.

(* ====================================================================== classify by first byte *)
Lemma classify_skip6 x t : x <> 93 -> x <> 91 -> x <> 116 -> x <> 102 -> x <> 62 -> x <> 60 ->
  classify (x :: t) =
    if re_num (x :: t) then KNum else if re_dec (x :: t) then KDec else if re_prop (x :: t) then KProp
    else if re_str (x :: t) then KStr else if re_tag (x :: t) then KTag
    else if list_eqb (x :: t) [45;45;40;46;45;48] then KTag2 else KBad.
Proof.
  intros. unfold classify. cbn [list_eqb is_nil].
  replace (x =? 93) with false by lia. replace (x =? 91) with false by lia.
  replace (x =? 116) with false by lia. replace (x =? 102) with false by lia.
  replace (x =? 60) with false by lia. cbn [andb orb].
  assert (re_dictend (x :: t) = false) as ->.
  { unfold re_dictend. destruct t; [reflexivity|]. replace (x =? 62) with false by lia. reflexivity. }
  reflexivity.
Qed.

Lemma forallb_app_false {A} (f : A -> bool) a x b : f x = false -> forallb f (a ++ x :: b) = false.
Proof. intros H. rewrite forallb_app. cbn [forallb]. rewrite H. rewrite andb_false_r. reflexivity. Qed.

Lemma dropwhile_app_stop p a x b : forallb p a = true -> p x = false -> dropwhile p (a ++ x :: b) = x :: b.
Proof.
  induction a as [|y a IH]; intros H1 H2; cbn [app dropwhile forallb] in *.
  - rewrite H2. reflexivity.
  - apply andb_true_iff in H1 as [H H1]. rewrite H. apply IH; assumption.
Qed.
Lemma takewhile_app_stop p a x b : forallb p a = true -> p x = false -> takewhile p (a ++ x :: b) = a.
Proof.
  induction a as [|y a IH]; intros H1 H2; cbn [app takewhile forallb] in *.
  - rewrite H2. reflexivity.
  - apply andb_true_iff in H1 as [H H1]. rewrite H. f_equal. apply IH; assumption.
Qed.

(* ====================================================================== decimal digits *)
Lemma dval_snoc l d : dval (l ++ [d]) = dval l * 10 + (d - 48).
Proof. unfold dval. rewrite fold_left_app. reflexivity. Qed.

Lemma fold_dval b : forall a, fold_left (fun a d => a * 10 + (d - 48)) b a = a * 10 ^ Z.of_nat (length b) + dval b.
Proof.
  unfold dval. induction b as [|d b IH]; intros a.
  - cbn. lia.
  - cbn [fold_left length]. rewrite IH. rewrite (IH (0 * 10 + (d - 48))).
    rewrite Nat2Z.inj_succ, Z.pow_succ_r by lia. lia.
Qed.
Lemma dval_app a b : dval (a ++ b) = dval a * 10 ^ Z.of_nat (length b) + dval b.
Proof. unfold dval at 1. rewrite fold_left_app. apply fold_dval. Qed.

Lemma digit_of_small n : 0 <= n < 10 -> is_digit (48 + n) = true.
Proof. unfold is_digit. lia. Qed.

Lemma digs_S f n : digs (S f) n = if n <? 10 then [48 + n] else digs f (n / 10) ++ [48 + n mod 10].
Proof. reflexivity. Qed.

Lemma digs_spec : forall f n, 0 <= n < 10 ^ Z.of_nat (S f) ->
  dval (digs (S f) n) = n /\ forallb is_digit (digs (S f) n) = true /\ digs (S f) n <> [].
Proof.
  induction f as [|f IH]; intros n Hn.
  - rewrite digs_S. change (10 ^ Z.of_nat 1) with 10 in Hn. destruct (n <? 10) eqn:E; [|lia].
    unfold dval. cbn [fold_left forallb]. rewrite digit_of_small by lia. repeat split; [lia|discriminate].
  - rewrite digs_S. destruct (n <? 10) eqn:E.
    + unfold dval. cbn [fold_left forallb]. rewrite digit_of_small by lia. repeat split; [lia|discriminate].
    + assert (H10 : 0 <= n / 10 < 10 ^ Z.of_nat (S f)).
      { rewrite (Nat2Z.inj_succ (S f)), Z.pow_succ_r in Hn by lia. split; [apply Z.div_pos; lia|].
        apply Z.div_lt_upper_bound; lia. }
      destruct (IH (n / 10) H10) as (V & D & NE). repeat split.
      * rewrite dval_snoc, V. pose proof (Z.div_mod n 10). lia.
      * rewrite forallb_app, D. cbn [forallb andb]. rewrite digit_of_small; [reflexivity|]. apply Z.mod_pos_bound. lia.
      * intro H. apply app_eq_nil in H. destruct H. discriminate.
Qed.

Lemma dec_digits_spec n : 0 <= n ->
  dval (dec_digits n) = n /\ forallb is_digit (dec_digits n) = true /\ dec_digits n <> [].
Proof.
  intros Hn. unfold dec_digits. apply digs_spec. split; [lia|].
  rewrite Nat2Z.inj_succ, Z2Nat.id by apply Z.log2_nonneg.
  destruct (Z.eq_dec n 0) as [->|NZ]; [cbn; lia|].
  destruct (Z.log2_spec n ltac:(lia)) as [_ H].
  eapply Z.lt_le_trans; [exact H|]. apply Z.pow_le_mono_l. lia.
Qed.

Lemma dec_digits_0 : dec_digits 0 = [48].
Proof. reflexivity. Qed.

Lemma fixd_spec : forall k n, length (fixd k n) = k /\ forallb is_digit (fixd k n) = true /\
  dval (fixd k n) = n mod 10 ^ Z.of_nat k.
Proof.
  induction k as [|k IH]; intros n.
  - cbn. rewrite Z.mod_1_r. repeat split.
  - cbn [fixd]. destruct (IH (n / 10)) as (L & D & V). repeat split.
    + rewrite app_length, L. cbn. lia.
    + rewrite forallb_app, D. cbn [forallb andb]. rewrite digit_of_small; [reflexivity|]. apply Z.mod_pos_bound. lia.
    + rewrite dval_snoc, V. rewrite Nat2Z.inj_succ, Z.pow_succ_r by lia.
      rewrite (Z.rem_mul_r n 10 (10 ^ Z.of_nat k)) by lia. lia.
Qed.

Lemma digit_facts x : is_digit x = true ->
  is_div x = false /\ x <> 45 /\ x <> 46 /\ x <> 40 /\ x <> 93 /\ x <> 91 /\ x <> 116 /\ x <> 102 /\ x <> 62 /\ x <> 60.
Proof. unfold is_digit, is_div. lia. Qed.

Lemma digits_nodiv l : forallb is_digit l = true -> nodiv l = true.
Proof.
  unfold nodiv. induction l as [|x t IH]; cbn [forallb]; [reflexivity|]. intros H.
  apply andb_true_iff in H as [H1 H2]. destruct (digit_facts x H1) as [-> _]. cbn. apply IH. exact H2.
Qed.

Lemma clean_intro tok : tok <> [] -> nodiv tok = true -> starts_str tok = false -> clean tok = true.
Proof.
  intros NE N S. unfold clean. fold (nodiv tok). rewrite N, S. destruct tok; [congruence|reflexivity].
Qed.
Lemma nodiv_cons x t : is_div x = false -> nodiv t = true -> nodiv (x :: t) = true.
Proof. intros H1 H2. unfold nodiv in *. cbn [forallb]. rewrite H1, H2. reflexivity. Qed.
Lemma starts_str_hd x t : x <> 40 -> starts_str (x :: t) = false.
Proof. intros H. unfold starts_str. destruct t as [|b [|c r]]; try reflexivity. replace (x =? 40) with false by lia. reflexivity. Qed.

(* ====================================================================== Integer *)
Lemma re_num_digits l : l <> [] -> forallb is_digit l = true -> re_num l = true.
Proof.
  intros NE D. destruct l as [|x t]; [congruence|]. unfold re_num, strip_minus.
  cbn [forallb] in D. apply andb_true_iff in D as [D1 D2]. destruct (digit_facts x D1) as (_ & N & _).
  destruct (x =? 45) eqn:E; [lia|]. cbn [is_nil negb andb forallb]. rewrite D1, D2. reflexivity.
Qed.
Lemma re_num_minus l : l <> [] -> forallb is_digit l = true -> re_num (45 :: l) = true.
Proof.
  intros NE D. unfold re_num, strip_minus. change (45 =? 45) with true. cbv iota.
  destruct l; [congruence|]. cbn [is_nil negb andb]. exact D.
Qed.

Lemma int_bytes_form z : exists s d, int_bytes z = s ++ d /\ (s = [] \/ s = [45]) /\ d <> [] /\
  forallb is_digit d = true /\ int_of_bytes (s ++ d) = z.
Proof.
  unfold int_bytes. destruct (z <? 0) eqn:E.
  - destruct (dec_digits_spec (- z) ltac:(lia)) as (V & D & NE).
    exists [45], (dec_digits (- z)). repeat split; auto.
    cbn [app int_of_bytes]. change (45 =? 45) with true. cbv iota. lia.
  - destruct (dec_digits_spec z ltac:(lia)) as (V & D & NE).
    exists [], (dec_digits z). repeat split; auto. cbn [app].
    destruct (dec_digits z) as [|x t] eqn:ED; [congruence|]. cbn [int_of_bytes].
    cbn [forallb] in D. apply andb_true_iff in D as [D1 _]. destruct (digit_facts x D1) as (_ & N & _).
    destruct (x =? 45) eqn:E5; [lia|]. exact V.
Qed.

Lemma int_roundtrip z : int_of_bytes (int_bytes z) = z.
Proof. destruct (int_bytes_form z) as (s & d & -> & _ & _ & _ & H). exact H. Qed.

Lemma int_classify z : classify (int_bytes z) = KNum.
Proof.
  destruct (int_bytes_form z) as (s & d & -> & [->| ->] & NE & D & _).
  - cbn [app]. destruct d as [|x t] eqn:Ed; [congruence|].
    pose proof D as D'. cbn [forallb] in D'. apply andb_true_iff in D' as [D1 _].
    destruct (digit_facts x D1) as (_ & _ & _ & _ & ? & ? & ? & ? & ? & ?).
    rewrite classify_skip6 by assumption. rewrite re_num_digits; [reflexivity|discriminate|exact D].
  - cbn [app]. rewrite classify_skip6 by lia. rewrite re_num_minus by assumption. reflexivity.
Qed.

Lemma int_strip z : strip_minus (int_bytes z) = dec_digits (Z.abs z).
Proof.
  unfold int_bytes. destruct (z <? 0) eqn:E.
  - unfold strip_minus. change (45 =? 45) with true. cbv iota. f_equal. lia.
  - destruct (dec_digits_spec z ltac:(lia)) as (_ & D & NE). replace (Z.abs z) with z by lia.
    destruct (dec_digits z) as [|x t] eqn:ED; [congruence|]. unfold strip_minus.
    cbn [forallb] in D. apply andb_true_iff in D as [D1 _]. destruct (digit_facts x D1) as (_ & N & _).
    destruct (x =? 45) eqn:E5; [lia|reflexivity].
Qed.

Lemma int_read z : int_ok z = true -> leaf_of KNum (int_bytes z) = Ok (TInt z).
Proof.
  intros H. unfold leaf_of. rewrite int_strip, int_roundtrip. unfold int_ok in H.
  destruct (MAX_STR_DIGITS <? length (dec_digits (Z.abs z)))%nat eqn:E; [|reflexivity].
  apply Nat.ltb_lt in E. apply Nat.leb_le in H. lia.
Qed.

Lemma dval_cons x t : dval (x :: t) = (x - 48) * 10 ^ Z.of_nat (length t) + dval t.
Proof. change (x :: t) with ([x] ++ t). rewrite dval_app. unfold dval at 1. cbn [fold_left]. lia. Qed.

Lemma dval_lt l : forallb is_digit l = true -> 0 <= dval l < 10 ^ Z.of_nat (length l).
Proof.
  induction l as [|x t IH]; intros D; [cbn; lia|].
  cbn [forallb] in D. apply andb_true_iff in D as [D1 D2]. specialize (IH D2).
  rewrite dval_cons. cbn [length]. rewrite Nat2Z.inj_succ, Z.pow_succ_r by lia.
  unfold is_digit in D1. assert (0 <= x - 48 <= 9) by lia. nia.
Qed.

(* a number of at least 10^k has more than k decimal digits *)
Lemma digits_many n k : 10 ^ Z.of_nat k <= n -> (k < length (dec_digits n))%nat.
Proof.
  intros H. assert (0 <= n) by (pose proof (Z.pow_pos_nonneg 10 (Z.of_nat k)); lia).
  destruct (dec_digits_spec n ltac:(lia)) as (V & D & _).
  pose proof (dval_lt _ D) as B. rewrite V in B.
  assert (L : 10 ^ Z.of_nat k < 10 ^ Z.of_nat (length (dec_digits n))) by lia.
  apply Z.pow_lt_mono_r_iff in L; lia.
Qed.

Lemma int_ok_limit z : 10 ^ Z.of_nat MAX_STR_DIGITS <= Z.abs z -> int_ok z = false.
Proof.
  intros H. unfold int_ok. apply Nat.leb_gt. apply digits_many. exact H.
Qed.

Lemma int_clean z : clean (int_bytes z) = true.
Proof.
  destruct (int_bytes_form z) as (s & d & -> & [->| ->] & NE & D & _).
  - cbn [app]. destruct d as [|x t] eqn:Ed; [congruence|]. rewrite <- Ed in *.
    apply clean_intro; [exact NE|apply digits_nodiv; exact D|]. subst d.
    cbn [forallb] in D. apply andb_true_iff in D as [D1 _]. destruct (digit_facts x D1) as (_ & _ & _ & N & _).
    apply starts_str_hd. exact N.
  - cbn [app]. apply clean_intro; [discriminate|apply nodiv_cons; [reflexivity|apply digits_nodiv; exact D]|].
    apply starts_str_hd. lia.
Qed.

(* ====================================================================== Float *)
Lemma rstrip0_app_nz a b : rstrip0 b <> [] -> rstrip0 (a ++ b) = a ++ rstrip0 b.
Proof.
  intros NZ. induction a as [|x a IH]; [reflexivity|]. cbn [app rstrip0]. rewrite IH.
  destruct (a ++ rstrip0 b) as [|y r] eqn:E.
  - apply app_eq_nil in E. tauto.
  - cbn [is_nil]. rewrite andb_false_r. reflexivity.
Qed.

Lemma rstrip0_split l : forallb is_digit l = true ->
  exists k, l = rstrip0 l ++ repeat 48 k /\ forallb is_digit (rstrip0 l) = true.
Proof.
  induction l as [|x t IH]; intros D.
  - exists 0%nat. split; reflexivity.
  - cbn [forallb] in D. apply andb_true_iff in D as [D1 D2]. destruct (IH D2) as (k & E & D').
    cbn [rstrip0]. destruct ((x =? 48) && is_nil (rstrip0 t)) eqn:C.
    + apply andb_true_iff in C as [C1 C2]. destruct (rstrip0 t); [|discriminate].
      exists (S k). cbn [app repeat]. cbn [app] in E. split; [f_equal; [lia|exact E]|reflexivity].
    + exists k. cbn [app forallb]. rewrite D1, D'. split; [f_equal; exact E|reflexivity].
Qed.

Lemma dval_zeros k : dval (repeat 48 k) = 0.
Proof.
  induction k as [|k IH]; [reflexivity|].
  replace (repeat 48 (S k)) with (repeat 48 k ++ [48]).
  - rewrite dval_snoc, IH. lia.
  - clear. induction k; cbn [repeat app]; [reflexivity|]. f_equal. exact IHk.
Qed.

Lemma last_app_cons {A} (a : list A) b c d : last (a ++ b :: c) d = last (b :: c) d.
Proof.
  induction a as [|x a IH]; [reflexivity|]. rewrite <- IH. cbn [app].
  destruct (a ++ b :: c) eqn:E; [apply app_eq_nil in E; destruct E; discriminate|]. reflexivity.
Qed.

Lemma last_digits l d : l <> [] -> forallb is_digit l = true -> is_digit (last l d) = true.
Proof.
  induction l as [|x t IH]; intros NE D; [congruence|].
  cbn [forallb] in D. apply andb_true_iff in D as [D1 D2].
  destruct t as [|y r]; [exact D1|]. change (last (x :: y :: r) d) with (last (y :: r) d).
  apply IH; [discriminate|exact D2].
Qed.

Lemma rep21_nob a b c l : forallb (fun x => negb (x =? b)) l = true -> rep21 a b c l = l.
Proof.
  induction l as [|x t IH]; intros H; [reflexivity|].
  cbn [forallb] in H. apply andb_true_iff in H as [H1 H2].
  destruct t as [|y r]; [reflexivity|]. cbn [rep21].
  pose proof H2 as H2'. cbn [forallb] in H2'. apply andb_true_iff in H2' as [Hy _].
  destruct (y =? b); [discriminate|]. rewrite andb_false_r. f_equal. apply IH. exact H2.
Qed.

Lemma digits_no46 l : forallb is_digit l = true -> forallb (fun x => negb (x =? 46)) l = true.
Proof.
  induction l as [|x t IH]; cbn [forallb]; [reflexivity|]. intros H.
  apply andb_true_iff in H as [H1 H2]. rewrite IH by exact H2.
  destruct (digit_facts x H1) as (_ & _ & N & _). replace (x =? 46) with false by lia. reflexivity.
Qed.

(* the text of a Float: sign, integer digits (dropped for 0 < |v| < 1), ".", 1..8 fraction digits *)
Lemma float_bytes_form neg mag : 0 <= mag ->
  exists s ip fr, float_bytes (Fl neg mag false) = s ++ ip ++ 46 :: fr /\
    s = (if neg then [45] else []) /\
    forallb is_digit ip = true /\ forallb is_digit fr = true /\ fr <> [] /\ (length fr <= 8)%nat /\
    dval ip = mag / E8 /\ dval fr * pow10 (8 - length fr) = mag mod E8 /\
    (mag = 0 -> forallb (fun x => x =? 48) (ip ++ fr) = true).
Proof.
  intros Hm. set (s := if neg then [45] else [] : list Z).
  set (D := dec_digits (mag / E8)). set (F := fixd 8 (mag mod E8)).
  assert (HE : 0 < E8) by (unfold E8; lia).
  destruct (dec_digits_spec (mag / E8) ltac:(apply Z.div_pos; lia)) as (DV & DD & DNE). fold D in DV, DD, DNE.
  destruct (fixd_spec 8 (mag mod E8)) as (FL & FD & FV). fold F in FL, FD, FV.
  assert (FV' : dval F = mag mod E8).
  { rewrite FV. change (10 ^ Z.of_nat 8) with E8. apply Z.mod_small. apply Z.mod_pos_bound. exact HE. }
  destruct (rstrip0_split F FD) as (k & FE & FD').
  assert (FLk : (8 = length (rstrip0 F) + k)%nat).
  { rewrite <- FL. rewrite FE at 1. rewrite app_length, repeat_length. reflexivity. }
  set (F' := rstrip0 F) in *.
  set (F'' := if is_nil F' then [48] else F').
  assert (S1 : rstrip0 (fmt8 (Fl neg mag false)) = s ++ D ++ 46 :: F').
  { unfold fmt8. cbn [fneg fmag]. fold s D F.
    assert (R46 : rstrip0 (46 :: F) = 46 :: F').
    { cbn [rstrip0]. change (46 =? 48) with false. reflexivity. }
    rewrite (rstrip0_app_nz s) by (rewrite (rstrip0_app_nz D) by (cbn [app]; rewrite R46; discriminate);
                                    intro H; apply app_eq_nil in H; destruct H; congruence).
    rewrite (rstrip0_app_nz D) by (cbn [app]; rewrite R46; discriminate).
    cbn [app]. rewrite R46. reflexivity. }
  assert (S2 : (let s1 := rstrip0 (fmt8 (Fl neg mag false)) in if last s1 0 =? 46 then s1 ++ [48] else s1)
               = s ++ D ++ 46 :: F'').
  { cbv zeta. rewrite S1. rewrite app_assoc, last_app_cons. unfold F''.
    destruct F' as [|y r] eqn:EF'.
    - cbn [last is_nil]. change (46 =? 46) with true. cbv iota. rewrite <- !app_assoc. cbn [app]. reflexivity.
    - cbn [is_nil]. change (last (46 :: y :: r) 0) with (last (y :: r) 0).
      pose proof (last_digits (y :: r) 0 ltac:(discriminate) FD') as LD.
      destruct (digit_facts _ LD) as (_ & _ & N & _).
      destruct (last (y :: r) 0 =? 46) eqn:E; [lia|]. rewrite <- app_assoc. reflexivity. }
  assert (F''D : forallb is_digit F'' = true) by (unfold F''; destruct F'; [reflexivity|exact FD']).
  assert (F''NE : F'' <> []) by (unfold F''; destruct F'; discriminate).
  assert (F''L : (length F'' <= 8)%nat).
  { unfold F''. destruct F' as [|y r] eqn:EF'; [cbn; lia|]. cbn [is_nil]. lia. }
  assert (F''V : dval F'' * pow10 (8 - length F'') = mag mod E8).
  { rewrite <- FV'. unfold F''. destruct F' as [|y r] eqn:EF'.
    - cbn [is_nil]. rewrite FE. cbn [app]. rewrite dval_zeros. reflexivity.
    - cbn [is_nil]. rewrite FE. rewrite dval_app, dval_zeros, repeat_length.
      assert (k = 8 - length (y :: r))%nat as -> by lia.
      unfold pow10. lia. }
  unfold float_bytes. cbv zeta in S2. rewrite S2.
  unfold fsmall. cbn [ftiny fmag orb].
  destruct ((0 <? mag) && (mag <? E8)) eqn:SM.
  - (* 0 < |v| < 1: "0." -> "." *)
    assert (M0 : mag / E8 = 0) by (apply Z.div_small; lia).
    assert (D0 : D = [48]) by (unfold D; rewrite M0; reflexivity).
    exists s, [], F''. rewrite D0. cbn [app]. repeat split; auto; try (cbn; lia).
    unfold s. destruct neg; cbn [app].
    + rewrite (rep21_ne1 48 46 46 45) by lia. rewrite rep21_hit. rewrite rep21_nob by (apply digits_no46; exact F''D). reflexivity.
    + rewrite rep21_hit. rewrite rep21_nob by (apply digits_no46; exact F''D). reflexivity.
  - exists s, D, F''. repeat split; auto.
    intros ->. unfold D, F'', F', F. reflexivity.
Qed.

Lemma frac8_short fr : (length fr <= 8)%nat -> frac8 fr = dval fr * pow10 (8 - length fr).
Proof. intros H. unfold frac8. destruct (length fr <=? 8)%nat eqn:E; [reflexivity|]. apply Nat.leb_gt in E. lia. Qed.

Lemma hd_digits_or_dot ip fr x t : forallb is_digit ip = true -> ip ++ 46 :: fr = x :: t -> x <> 45 /\ is_div x = false /\
  x <> 40 /\ x <> 93 /\ x <> 91 /\ x <> 116 /\ x <> 102 /\ x <> 62 /\ x <> 60.
Proof.
  intros D E. destruct ip as [|y r]; cbn [app] in E; inversion E; subst.
  - unfold is_div. lia.
  - cbn [forallb] in D. apply andb_true_iff in D as [D1 _]. pose proof (digit_facts x D1). tauto.
Qed.

Lemma float_roundtrip neg mag : 0 <= mag ->
  float_of_bytes (float_bytes (Fl neg mag false)) = Fl neg mag false.
Proof.
  intros Hm. destruct (float_bytes_form neg mag Hm) as (s & ip & fr & -> & Hs & IPD & FRD & FNE & FL & IV & FV & Z0).
  assert (SM : strip_minus (s ++ ip ++ 46 :: fr) = ip ++ 46 :: fr /\
               (match s ++ ip ++ 46 :: fr with x :: _ => x =? 45 | [] => false end) = neg).
  { subst s. destruct neg; cbn [app].
    - unfold strip_minus. change (45 =? 45) with true. split; reflexivity.
    - destruct (ip ++ 46 :: fr) as [|x t] eqn:E; [apply app_eq_nil in E; destruct E; discriminate|].
      destruct (hd_digits_or_dot ip fr x t IPD E) as (N & _). unfold strip_minus.
      destruct (x =? 45) eqn:E5; [lia|]. split; reflexivity. }
  destruct SM as [SM NG]. unfold float_of_bytes. rewrite SM, NG.
  rewrite takewhile_app_stop, dropwhile_app_stop by (assumption || reflexivity). cbn [tl].
  rewrite frac8_short by exact FL. rewrite IV, FV.
  assert (HE : 0 < E8) by (unfold E8; lia).
  replace (mag / E8 * E8 + mag mod E8) with mag by (pose proof (Z.div_mod mag E8); lia).
  f_equal. destruct (mag =? 0) eqn:E0; [|reflexivity].
  rewrite Z0 by lia. reflexivity.
Qed.

Lemma float_tiny_roundtrip neg : float_of_bytes (float_bytes (Fl neg 0 true)) = Fl neg 0 false.
Proof. destruct neg; vm_compute; reflexivity. Qed.
Lemma float_tiny_token neg :
  classify (float_bytes (Fl neg 0 true)) = KDec /\ clean (float_bytes (Fl neg 0 true)) = true.
Proof. destruct neg; split; vm_compute; reflexivity. Qed.


Lemma float_re_dec neg mag : 0 <= mag ->
  classify (float_bytes (Fl neg mag false)) = KDec /\ clean (float_bytes (Fl neg mag false)) = true.
Proof.
  intros Hm. destruct (float_bytes_form neg mag Hm) as (s & ip & fr & -> & Hs & IPD & FRD & FNE & FL & _).
  assert (ND : nodiv (ip ++ 46 :: fr) = true).
  { unfold nodiv. rewrite forallb_app. fold (nodiv ip). rewrite (digits_nodiv ip IPD). cbn [forallb andb].
    fold (nodiv fr). rewrite (digits_nodiv fr FRD). reflexivity. }
  assert (RD : forall l, strip_minus l = ip ++ 46 :: fr -> re_num l = false /\ re_dec l = true).
  { intros l E. unfold re_num, re_dec. rewrite E. split.
    - rewrite forallb_app_false by reflexivity. apply andb_false_r.
    - rewrite dropwhile_app_stop by (assumption || reflexivity). change (46 =? 46) with true.
      destruct fr; [congruence|]. cbn [is_nil negb andb]. exact FRD. }
  destruct (ip ++ 46 :: fr) as [|x t] eqn:E; [apply app_eq_nil in E; destruct E; discriminate|].
  destruct (hd_digits_or_dot ip fr x t IPD E) as (N45 & NDV & N40 & ? & ? & ? & ? & ? & ?).
  subst s. destruct neg; cbn [app].
  - destruct (RD (45 :: x :: t)) as [R1 R2]; [unfold strip_minus; change (45 =? 45) with true; reflexivity|].
    split.
    + rewrite classify_skip6 by lia. rewrite R1, R2. reflexivity.
    + apply clean_intro; [discriminate|apply nodiv_cons; [reflexivity|exact ND]|apply starts_str_hd; lia].
  - destruct (RD (x :: t)) as [R1 R2]; [unfold strip_minus; destruct (x =? 45) eqn:E5; [lia|reflexivity]|].
    split.
    + rewrite classify_skip6 by assumption. rewrite R1, R2. reflexivity.
    + apply clean_intro; [discriminate|exact ND|apply starts_str_hd; lia].
Qed.

(* a well-formed Float: printed as a clean decimal token, read back to the same 8 places *)
Lemma float_leaf f : wf_leaf (TFloat f) = true ->
  classify (float_bytes f) = KDec /\ clean (float_bytes f) = true /\
  float_of_bytes (float_bytes f) = Fl (fneg f) (fmag f) false.
Proof.
  destruct f as [neg mag tiny]. cbn [wf_leaf fmag ftiny fneg]. intros W. apply andb_true_iff in W as [W1 W2].
  destruct tiny.
  - cbn [negb orb] in W2. assert (mag = 0) by lia. subst mag.
    destruct (float_tiny_token neg) as [C CL]. repeat split; [exact C|exact CL|apply float_tiny_roundtrip].
  - destruct (float_re_dec neg mag ltac:(lia)) as [C CL]. repeat split; [exact C|exact CL|apply float_roundtrip; lia].
Qed.

(* ====================================================================== String *)
Lemma classify_string p : classify ([40;254;255] ++ escape p ++ [41]) = KStr.
Proof.
  cbn [app]. rewrite classify_skip6 by lia.
  assert (re_num (40 :: 254 :: 255 :: escape p ++ [41]) = false) as -> by reflexivity.
  assert (re_dec (40 :: 254 :: 255 :: escape p ++ [41]) = false) as -> by reflexivity.
  assert (re_prop (40 :: 254 :: 255 :: escape p ++ [41]) = false) as -> by reflexivity.
  unfold re_str. cbn [skipn]. change (starts_str (40 :: 254 :: 255 :: escape p ++ [41])) with true.
  rewrite escape_flat, str_tail_esc. reflexivity.
Qed.

Lemma unescape_bom l : unescape (254 :: 255 :: l) = 254 :: 255 :: unescape l.
Proof.
  unfold unescape.
  rewrite !(rep21_ne1 92 92 92) by lia. rewrite !(rep21_ne1 92 40 40) by lia. rewrite !(rep21_ne1 92 41 41) by lia.
  reflexivity.
Qed.

Lemma string_read p : utf16_ok p = true -> leaf_of KStr ([40;254;255] ++ escape p ++ [41]) = Ok (TStr p).
Proof.
  intros U. unfold leaf_of. cbn [app tl].
  change (254 :: 255 :: escape p ++ [41]) with ((254 :: 255 :: escape p) ++ [41]).
  rewrite removelast_last. rewrite unescape_bom, unescape_escape. cbn [skipn]. rewrite U. reflexivity.
Qed.

(* ====================================================================== Property *)
Lemma namech_facts x : is_namech x = true -> is_div x = false /\ x <> 47.
Proof. unfold is_namech, is_alnum, is_digit, is_div. lia. Qed.

Lemma prop_classify n : name_ok n = true -> classify (47 :: n) = KProp /\ clean (47 :: n) = true /\
  filter (fun x => negb (x =? 47)) (47 :: n) = n.
Proof.
  unfold name_ok. intros H. apply andb_true_iff in H as [NE NC].
  repeat split.
  - rewrite classify_skip6 by lia.
    assert (re_num (47 :: n) = false) as -> by reflexivity.
    assert (re_dec (47 :: n) = false) as -> by reflexivity.
    unfold re_prop. change (47 =? 47) with true. rewrite NE, NC. reflexivity.
  - apply clean_intro; [discriminate| |apply starts_str_hd; lia]. apply nodiv_cons; [reflexivity|].
    clear NE. induction n as [|x t IH]; [reflexivity|]. cbn [forallb] in NC. apply andb_true_iff in NC as [C1 C2].
    destruct (namech_facts x C1) as [D _]. apply nodiv_cons; [exact D|apply IH; exact C2].
  - cbn [filter]. change (negb (47 =? 47)) with false. cbv iota.
    clear NE. induction n as [|x t IH]; [reflexivity|]. cbn [forallb] in NC. apply andb_true_iff in NC as [C1 C2].
    cbn [filter]. destruct (namech_facts x C1) as [_ N]. replace (x =? 47) with false by lia. cbn [negb].
    f_equal. apply IH. exact C2.
Qed.

(* ====================================================================== the leaves together *)
Definition is_leaf (t : tree) : bool := match t with TDict _ | TList _ => false | _ => true end.
Definition leaf_kind (t : tree) : kind :=
  match t with
  | TStr _ => KStr | TInt _ => KNum | TFloat _ => KDec | TBool _ => KBool | TProp _ => KProp
  | TTag b => classify b
  | _ => KBad
  end.

Lemma emit_ok tok k rest : classify tok = k -> k <> KBad -> emit tok rest = (k, tok) :: rest.
Proof. intros <- H. unfold emit. destruct (classify tok); try reflexivity. congruence. Qed.

(* 1. a leaf is printed as exactly one token of its class *)
Lemma leaf_lex t rest : is_leaf t = true -> wf_leaf t = true -> sep_start rest = true ->
  tokenize (leaf_bytes t ++ rest) = (leaf_kind t, leaf_bytes t) :: tokenize rest.
Proof.
  intros L W S. destruct t as [d|l|p|z|f|b|n|b]; try discriminate; cbn [leaf_bytes leaf_kind wf_leaf] in *.
  - rewrite <- !app_assoc. rewrite tokenize_str. apply emit_ok; [apply classify_string|discriminate].
  - rewrite tokenize_tok by (apply int_clean || exact S). apply emit_ok; [apply int_classify|discriminate].
  - destruct (float_leaf f W) as (C & CL & _).
    rewrite tokenize_tok by assumption. apply emit_ok; [exact C|discriminate].
  - destruct b; (rewrite tokenize_tok by (reflexivity || exact S)); reflexivity.
  - destruct (prop_classify n W) as (C & CL & _).
    rewrite tokenize_tok by assumption. apply emit_ok; [exact C|discriminate].
  - apply andb_true_iff in W as [W1 W2]. rewrite tokenize_tok by assumption.
    apply emit_ok; [reflexivity|]. unfold kind_eqb in W1. intro E. rewrite E in W1. discriminate.
Qed.

(* 2. ... which the element reader turns back into the value *)
Lemma leaf_read t : is_leaf t = true -> wf_leaf t = true -> leaf_of (leaf_kind t) (leaf_bytes t) = Ok (untiny t).
Proof.
  intros L W. destruct t as [d|l|p|z|f|b|n|b]; try discriminate; cbn [leaf_bytes leaf_kind wf_leaf] in *.
  - apply string_read. exact W.
  - apply int_read. exact W.
  - destruct (float_leaf f W) as (_ & _ & R). cbn [leaf_of untiny]. rewrite R. reflexivity.
  - destruct b; reflexivity.
  - destruct (prop_classify n W) as (_ & _ & F). cbn [leaf_of]. rewrite F. reflexivity.
  - apply andb_true_iff in W as [W1 W2]. unfold kind_eqb in W1.
    destruct (classify b); try discriminate; reflexivity.
Qed.

Lemma leaf_kind_cases t : is_leaf t = true -> wf_leaf t = true ->
  leaf_kind t = KStr \/ leaf_kind t = KNum \/ leaf_kind t = KDec \/ leaf_kind t = KBool \/
  leaf_kind t = KProp \/ leaf_kind t = KTag \/ leaf_kind t = KTag2.
Proof.
  intros L W. destruct t; try discriminate; cbn [leaf_kind]; try tauto.
  cbn [wf_leaf] in W. apply andb_true_iff in W as [W1 _]. unfold kind_eqb in W1.
  destruct (classify b); try discriminate; tauto.
Qed.

Lemma leaf_bytes_sep t : is_leaf t = true -> wf_leaf t = true -> leaf_bytes t <> [].
Proof.
  intros L W. destruct t as [d|l|p|z|f|b|n|b]; try discriminate; cbn [leaf_bytes wf_leaf] in *; try discriminate.
  - pose proof (int_clean z) as C. unfold clean in C. destruct (int_bytes z); [discriminate|discriminate].
  - destruct (float_leaf f W) as (_ & C & _).
    unfold clean in C. destruct (float_bytes _); discriminate.
  - destruct b; discriminate.
  - apply andb_true_iff in W as [_ C]. unfold clean in C. destruct b; discriminate.
Qed.
