(* Model of psd_tools/psd/engine_data.py (definitions only): tokenizer, token classes,
   recursive-descent parser (Dict / List), the element readers and writers, both layouts
   (EngineData: indented with container; EngineData2: compact without container).
   Bytes are Z in [0,256).  The model mirrors the code as it is (commit aadd31f: the end of a
   string is found by the anchored regex  ^\(\xfe\xff(?:[^\\\)]|\\.)*\)  used with .match). *)
From PsdV Require Import Base.Prelude.

(* ====================================================================== bytes and classes *)
Definition is_div (x : Z) : bool := (x =? 32) || (x =? 10) || (x =? 9).      (* DIVIDER = [ \n\t]+ *)
Definition is_digit (x : Z) : bool := (48 <=? x) && (x <=? 57).              (* \d on bytes *)
Definition is_alnum (x : Z) : bool :=
  is_digit x || ((65 <=? x) && (x <=? 90)) || ((97 <=? x) && (x <=? 122)).
Definition is_namech (x : Z) : bool := is_alnum x || (x =? 95).              (* [a-zA-Z0-9_] *)
Definition is_nil {A} (l : list A) : bool := match l with [] => true | _ => false end.

Fixpoint dropwhile (p : Z -> bool) (l : list Z) : list Z :=
  match l with x :: t => if p x then dropwhile p t else l | [] => [] end.
Fixpoint takewhile (p : Z -> bool) (l : list Z) : list Z :=
  match l with x :: t => if p x then x :: takewhile p t else [] | [] => [] end.

(* bytes.replace(a+b, c) for a two-byte pattern and a one-byte replacement: leftmost,
   non-overlapping, one pass (CPython's semantics of bytes.replace) *)
Fixpoint rep21 (a b c : Z) (l : list Z) : list Z :=
  match l with
  | x :: ((y :: t) as t') => if (x =? a) && (y =? b) then c :: rep21 a b c t else x :: rep21 a b c t'
  | _ => l
  end.

(* ====================================================================== String escape / unescape *)
(* String.write: value.replace('\\','\\\\').replace('(','\\(').replace(')','\\)')  -- each replace
   substitutes one byte by two; done sequentially the later ones never touch a backslash, so the
   composition is the per-byte map below (the sequential form [escape_seq] is kept and proved equal) *)
Fixpoint rep12 (a : Z) (l : list Z) : list Z :=        (* replace(a, '\\' + a) *)
  match l with [] => [] | x :: t => if x =? a then 92 :: x :: rep12 a t else x :: rep12 a t end.
Definition escape (l : list Z) : list Z := rep12 41 (rep12 40 (rep12 92 l)).

(* String.frombytes: for c in ('\\','(',')'): value = value.replace('\\'+c, c)   -- sequential *)
Definition unescape (l : list Z) : list Z := rep21 92 41 41 (rep21 92 40 40 (rep21 92 92 92 l)).

(* ====================================================================== tokenizer *)
Inductive kind :=
| KArrEnd | KArrStart | KBool | KDictEnd | KDictStart | KNoop | KNum | KDec | KProp | KStr | KTag | KTag2
| KBad      (* the tokenizer raised ValueError here (unknown token / no string end) *)
| KFuel.    (* model artefact: never produced (Proofs.tokenize_no_fuel) *)

Definition kind_code (k : kind) : Z :=
  match k with
  | KArrEnd => 0 | KArrStart => 1 | KBool => 2 | KDictEnd => 3 | KDictStart => 4 | KNoop => 5 | KNum => 6
  | KDec => 7 | KProp => 8 | KStr => 9 | KTag => 10 | KTag2 => 11 | KBad => 12 | KFuel => 13
  end.
Definition kind_eqb (a b : kind) : bool := kind_code a =? kind_code b.

Definition token := (kind * list Z)%type.

Definition strip_minus (l : list Z) : list Z :=
  match l with x :: t => if x =? 45 then t else l | [] => [] end.

(* the EngineToken regexes, each anchored ^...$ *)
Definition re_num (l : list Z) : bool :=                         (* ^-?\d+$ *)
  let d := strip_minus l in negb (is_nil d) && forallb is_digit d.
Definition re_dec (l : list Z) : bool :=                         (* ^-?\d*\.\d+$ *)
  match dropwhile is_digit (strip_minus l) with
  | x :: fp => (x =? 46) && negb (is_nil fp) && forallb is_digit fp
  | [] => false
  end.
Definition re_prop (l : list Z) : bool :=                        (* ^\/[a-zA-Z0-9_]+$ *)
  match l with x :: t => (x =? 47) && negb (is_nil t) && forallb is_namech t | [] => false end.
Definition re_dictend (l : list Z) : bool :=                     (* ^>>(\x00)*$ *)
  match l with a :: b :: t => (a =? 62) && (b =? 62) && forallb (fun x => x =? 0) t | _ => false end.
(* after "(\xfe\xff": ([^\)]|\\\))* then ")" at the end: every ")" but the last is preceded by "\" *)
Fixpoint str_tail (prev : Z) (l : list Z) : bool :=
  match l with
  | [] => false
  | x :: t => match t with
              | [] => x =? 41
              | _ => (if x =? 41 then prev =? 92 else true) && str_tail x t
              end
  end.
Definition starts_str (l : list Z) : bool :=                     (* startswith(b"(\xfe\xff") *)
  match l with a :: b :: c :: _ => (a =? 40) && (b =? 254) && (c =? 255) | _ => false end.
Definition re_str (l : list Z) : bool := starts_str l && str_tail 255 (skipn 3 l).
Fixpoint tag_tail (l : list Z) : bool :=
  match l with
  | [] => false
  | x :: t => match t with [] => x =? 41 | _ => is_alnum x && tag_tail t end
  end.
Definition re_tag (l : list Z) : bool :=                         (* ^\([a-zA-Z0-9]*\)$ *)
  match l with a :: t => (a =? 40) && tag_tail t | [] => false end.

Definition classify (l : list Z) : kind :=                       (* first match in EngineToken order *)
  if list_eqb l [93] then KArrEnd
  else if list_eqb l [91] then KArrStart
  else if list_eqb l [116;114;117;101] || list_eqb l [102;97;108;115;101] then KBool
  else if re_dictend l then KDictEnd
  else if list_eqb l [60;60] then KDictStart
  else if is_nil l then KNoop
  else if re_num l then KNum
  else if re_dec l then KDec
  else if re_prop l then KProp
  else if re_str l then KStr
  else if re_tag l then KTag
  else if list_eqb l [45;45;40;46;45;48] then KTag2                (* ^--\(\.-0$ *)
  else KBad.

(* DIVIDER.search: the token before the first divider run and the data after that run;
   no divider: the whole rest is the token *)
Fixpoint split_div (l : list Z) : list Z * list Z :=
  match l with
  | [] => ([], [])
  | x :: t => if is_div x then ([], dropwhile is_div t)
              else let '(a, b) := split_div t in (x :: a, b)
  end.

(* UTF16_END.match on the data after "(\xfe\xff": (?:[^\\\)]|\\.)*\)  -- the alternatives are
   disjoint on their first byte, so the backtracking matcher is this deterministic scan.
   Result: the escaped content (without the closing parenthesis) and the data after it. *)
Fixpoint scan_end (l : list Z) : option (list Z * list Z) :=
  match l with
  | [] => None
  | x :: t =>
      if x =? 41 then Some ([], t)
      else if x =? 92 then
        match t with
        | [] => None
        | y :: t' => match scan_end t' with Some (c, r) => Some (x :: y :: c, r) | None => None end
        end
      else match scan_end t with Some (c, r) => Some (x :: c, r) | None => None end
  end.

Definition emit (tok : list Z) (rest : list token) : list token :=
  match classify tok with KBad => [(KBad, tok)] | k => (k, tok) :: rest end.

Fixpoint tokenize_f (n : nat) (l : list Z) : list token :=
  match n with
  | O => [(KFuel, [])]
  | S n' =>
      match l with
      | [] => []
      | _ =>
          if starts_str l then
            match scan_end (skipn 3 l) with
            | None => [(KBad, l)]
            | Some (c, r) => emit (firstn 3 l ++ c ++ [41]) (tokenize_f n' r)
            end
          else
            let '(tok, r) := split_div l in
            match tok with
            | [] => tokenize_f n' r                  (* token == b"": return self.__next__() *)
            | _ => emit tok (tokenize_f n' r)
            end
      end
  end.
Definition tokenize (l : list Z) : list token := tokenize_f (S (length l)) l.

(* ====================================================================== values *)
(* A Float is modelled by what '%.8f' makes of it: sign bit, magnitude in units of 10^-8, and
   [tiny] = the value is non-zero but rounds to 0 (0 < |v| < 5e-9).  Which double has which
   rounding is Python's business and is tested, not modelled. *)
Record fl := Fl { fneg : bool; fmag : Z; ftiny : bool }.

Inductive tree :=
| TDict (kvs : list (list Z * tree))     (* keys: Property names as mac-roman bytes, in order *)
| TList (items : list tree)
| TStr (p : list Z)                      (* UTF-16BE bytes, no BOM *)
| TInt (z : Z)
| TFloat (f : fl)
| TBool (b : bool)
| TProp (n : list Z)
| TTag (b : list Z).

(* what a tree is read back as: decimals to the 8 places the text keeps (a non-zero value below 5e-9 comes back as zero) *)
Fixpoint untiny (t : tree) : tree :=
  match t with
  | TDict d => TDict ((fix go (l : list (list Z * tree)) : list (list Z * tree) :=
                         match l with [] => [] | kv :: r => (fst kv, untiny (snd kv)) :: go r end) d)
  | TList l => TList ((fix go (l : list tree) : list tree := match l with [] => [] | x :: r => untiny x :: go r end) l)
  | TFloat f => TFloat (Fl (fneg f) (fmag f) false)
  | _ => t
  end.
Definition untiny_kvs (d : list (list Z * tree)) : list (list Z * tree) := map (fun kv => (fst kv, untiny (snd kv))) d.

Definition is_dict (t : tree) : bool := match t with TDict _ => true | _ => false end.

(* ---------- decimal digits *)
Fixpoint digs (fuel : nat) (n : Z) : list Z :=
  match fuel with
  | O => []
  | S f => if n <? 10 then [48 + n] else digs f (n / 10) ++ [48 + n mod 10]
  end.
Definition dec_digits (n : Z) : list Z := digs (S (Z.to_nat (Z.log2 n))) n.     (* "%d" % n, n >= 0 *)
Fixpoint fixd (k : nat) (n : Z) : list Z :=                                      (* k digits, zero padded *)
  match k with O => [] | S k' => fixd k' (n / 10) ++ [48 + n mod 10] end.
Definition dval (l : list Z) : Z := fold_left (fun a d => a * 10 + (d - 48)) l 0.

Definition int_bytes (z : Z) : list Z :=                                         (* b"%d" % z *)
  if z <? 0 then 45 :: dec_digits (- z) else dec_digits z.
Definition int_of_bytes (l : list Z) : Z :=                                      (* int(token), token ~ -?\d+ *)
  match l with
  | x :: t => if x =? 45 then - dval t else dval l
  | [] => 0
  end.

(* ---------- Float.write *)
Fixpoint rstrip0 (l : list Z) : list Z :=                                        (* .rstrip(b"0") *)
  match l with
  | [] => []
  | x :: t => let t' := rstrip0 t in if (x =? 48) && is_nil t' then [] else x :: t'
  end.
Definition E8 : Z := 100000000.
Definition fmt8 (f : fl) : list Z :=                                             (* b"%.8f" % v *)
  (if fneg f then [45] else []) ++ dec_digits (fmag f / E8) ++ [46] ++ fixd 8 (fmag f mod E8).
Definition fsmall (f : fl) : bool :=                                             (* 0.0 < abs(v) < 1.0 *)
  ftiny f || ((0 <? fmag f) && (fmag f <? E8)).
Definition float_bytes (f : fl) : list Z :=
  let s1 := rstrip0 (fmt8 f) in
  let s2 := if last s1 0 =? 46 then s1 ++ [48] else s1 in
  if fsmall f then rep21 48 46 46 s2 else s2.

(* ---------- Float.frombytes: float(token), token ~ -?\d*\.\d+ , as an exact decimal rounded
   half-even to 8 places (for <= 8 fractional digits there is no rounding) *)
Definition pow10 (k : nat) : Z := Z.pow 10 (Z.of_nat k).
Definition frac8 (fr : list Z) : Z :=
  let k := length fr in
  if (k <=? 8)%nat then dval fr * pow10 (8 - k)
  else let d := pow10 (k - 8) in
       let q := dval fr / d in let r := dval fr mod d in
       if 2 * r <? d then q else if d <? 2 * r then q + 1 else if Z.even q then q else q + 1.
Definition float_of_bytes (l : list Z) : fl :=
  let neg := match l with x :: _ => x =? 45 | [] => false end in
  let d := strip_minus l in
  let ip := takewhile is_digit d in
  let fr := tl (dropwhile is_digit d) in
  let mag := dval ip * E8 + frac8 fr in
  Fl neg mag ((mag =? 0) && negb (forallb (fun x => x =? 48) (ip ++ fr))).

(* ---------- String.frombytes: decode("utf-16") after the BOM: big endian, strict *)
Fixpoint utf16_ok (l : list Z) : bool :=
  match l with
  | [] => true
  | h :: t =>
      match t with
      | [] => false
      | _ :: t1 =>
          if (216 <=? h) && (h <=? 219) then
            match t1 with
            | h2 :: _ :: t2 => (220 <=? h2) && (h2 <=? 223) && utf16_ok t2
            | _ => false
            end
          else if (220 <=? h) && (h <=? 223) then false
          else utf16_ok t1
      end
  end.

(* CPython's sys.get_int_max_str_digits(): int(text) and "%d" % v raise ValueError beyond it
   (digits counted without the sign, leading zeros included) *)
Definition MAX_STR_DIGITS : nat := 4300.
Definition int_ok (z : Z) : bool := (length (dec_digits (Z.abs z)) <=? MAX_STR_DIGITS)%nat.

(* kls.frombytes(token) for the token classes with a registered class *)
Definition leaf_of (k : kind) (b : list Z) : res tree :=
  match k with
  | KBool => Ok (TBool (list_eqb b [116;114;117;101]))
  | KNum => if (MAX_STR_DIGITS <? length (strip_minus b))%nat then Err ValueErr      (* int(): digit limit *)
            else Ok (TInt (int_of_bytes b))
  | KDec => Ok (TFloat (float_of_bytes b))
  | KProp => Ok (TProp (filter (fun x => negb (x =? 47)) b))                 (* data.replace(b"/", b"") *)
  | KStr => let p := skipn 2 (unescape (removelast (tl b))) in                (* data[1:-1], BOM consumed *)
            if utf16_ok p then Ok (TStr p) else Err ValueErr                 (* UnicodeDecodeError *)
  | KTag | KTag2 => Ok (TTag b)
  | KFuel => Err OutOfFuel
  | _ => Err ValueErr
  end.

(* ====================================================================== parser *)
Definition kvs := list (list Z * tree).

Fixpoint set_kv (k : list Z) (v : tree) (d : kvs) : kvs :=                    (* self[key] = value *)
  match d with
  | [] => [(k, v)]
  | (k', v') :: t => if list_eqb k k' then (k', v) :: t else (k', v') :: set_kv k v t
  end.

(* Error conventions beyond ValueErr/TypeErr (harness/vh/c18.py canonicalises the same way):
   IndexErr  = StopIteration escaping from next(tokenizer) after a key at the end of the data;
   AssertErr = AttributeError ('NoneType' has no 'frombytes': a ">>" inside a List). *)
Fixpoint pdict (n : nat) (acc : kvs) (ts : list token) {struct n} : res (kvs * list token) :=
  match n with
  | O => Err OutOfFuel
  | S n' =>
      match ts with
      | [] => Ok (acc, [])
      | (KBad, _) :: _ => Err ValueErr
      | (KFuel, _) :: _ => Err OutOfFuel
      | (KDictEnd, _) :: ts' => Ok (acc, ts')
      | (KProp, kb) :: ts' =>
          let key := filter (fun x => negb (x =? 47)) kb in
          match ts' with
          | [] => Err IndexErr
          | (KBad, _) :: _ => Err ValueErr
          | (KFuel, _) :: _ => Err OutOfFuel
          | (KDictStart, _) :: ts'' =>
              match pdict n' [] ts'' with
              | Ok (d, r) => pdict n' (set_kv key (TDict d) acc) r
              | Err e => Err e
              end
          | (KArrStart, _) :: ts'' =>
              match plist n' [] ts'' with
              | Ok (l, r) => pdict n' (set_kv key (TList l) acc) r
              | Err e => Err e
              end
          | (vk, vb) :: ts'' =>
              match leaf_of vk vb with
              | Ok v => pdict n' (set_kv key v acc) ts''
              | Err e => Err e
              end
          end
      | _ :: ts' => pdict n' acc ts'
      end
  end
with plist (n : nat) (acc : list tree) (ts : list token) {struct n} : res (list tree * list token) :=
  match n with
  | O => Err OutOfFuel
  | S n' =>
      match ts with
      | [] => Ok (acc, [])
      | (KBad, _) :: _ => Err ValueErr
      | (KFuel, _) :: _ => Err OutOfFuel
      | (KArrEnd, _) :: ts' => Ok (acc, ts')
      | (KDictStart, _) :: ts' =>
          match pdict n' [] ts' with
          | Ok (d, r) => plist n' (acc ++ [TDict d]) r
          | Err e => Err e
          end
      | (KArrStart, _) :: ts' =>
          match plist n' [] ts' with
          | Ok (l, r) => plist n' (acc ++ [TList l]) r
          | Err e => Err e
          end
      | (KDictEnd, _) :: _ => Err AssertErr
      | (KNoop, _) :: _ => Err AssertErr
      | (k, b) :: ts' =>
          match leaf_of k b with
          | Ok v => plist n' (acc ++ [v]) ts'
          | Err e => Err e
          end
      end
  end.

Definition parse_tokens (ts : list token) : res kvs :=
  match pdict (S (length ts)) [] ts with Ok (d, _) => Ok d | Err e => Err e end.
(* EngineData.frombytes / EngineData2.frombytes (the same reader) *)
Definition parse (data : list Z) : res kvs := parse_tokens (tokenize data).

(* ====================================================================== writers *)
Definition w_ind (ind : option nat) : list Z := match ind with None => [32] | Some k => repeat 9 k end.
Definition w_nl (ind : option nat) : list Z := match ind with None => [] | Some _ => [10] end.
Definition inner (ind : option nat) : option nat := option_map S ind.
Definition w_open (ind : option nat) : list Z :=
  (match ind with Some O => [10] | _ => [] end) ++ w_nl ind ++ w_ind ind ++ [60;60] ++ w_nl ind.
Definition w_close (ind : option nat) : list Z := w_ind ind ++ [62;62].

Definition leaf_bytes (t : tree) : list Z :=
  match t with
  | TStr p => [40;254;255] ++ escape p ++ [41]
  | TInt z => int_bytes z
  | TFloat f => float_bytes f
  | TBool b => if b then [116;114;117;101] else [102;97;108;115;101]
  | TProp n => 47 :: n
  | TTag b => b
  | _ => []
  end.

(* indent used for a List value of a Dict: the Dict's inner indent when the first item is a Dict *)
Definition list_ind (ind : option nat) (items : list tree) : option nat :=
  match items with TDict _ :: _ => inner ind | _ => None end.

(* wv ind t = bytes written by t.write(fp, indent=ind) for Dict (with container) and List;
   by t.write(fp) for the other elements.  Since commit 073f171 (finding F-C18-2) a List written
   with an indent passes the indent to its Dict items only; any other item goes on its own
   indented line and is written by item.write(fp) (compact), so no write() can raise TypeError. *)
Fixpoint wv (ind : option nat) (t : tree) {struct t} : list Z :=
  match t with
  | TDict d =>
      w_open ind ++
      (fix go (l : kvs) : list Z :=
         match l with
         | [] => []
         | (k, v) :: r =>
             (w_ind (inner ind) ++ 47 :: k ++
              match v with
              | TDict _ => wv (inner ind) v
              | TList items => 32 :: wv (list_ind ind items) v
              | _ => 32 :: wv None v
              end ++ w_nl ind) ++ go r
         end) d ++
      w_close ind
  | TList items =>
      91 ::
      match ind with
      | None =>
          (fix go (l : list tree) : list Z :=
             match l with
             | [] => []
             | it :: r => (match it with TDict _ => wv None it | _ => 32 :: wv None it end) ++ go r
             end) items ++ [32]
      | Some _ =>
          (fix go (l : list tree) : list Z :=
             match l with
             | [] => []
             | it :: r => (match it with
                           | TDict _ => wv ind it
                           | _ => w_nl ind ++ w_ind ind ++ wv None it
                           end) ++ go r
             end) items ++ w_nl ind ++ w_ind ind
      end ++ [93]
  | _ => leaf_bytes t
  end.

Definition wentry (ind : option nat) (kv : list Z * tree) : list Z :=
  let '(k, v) := kv in
  w_ind (inner ind) ++ 47 :: k ++
  match v with
  | TDict _ => wv (inner ind) v
  | TList items => 32 :: wv (list_ind ind items) v
  | _ => 32 :: wv None v
  end ++ w_nl ind.
Definition wentries (ind : option nat) (d : kvs) : list Z := flat_map (wentry ind) d.

(* The number every write() RETURNS, accumulated as the code accumulates it (`written += ...` for each
   piece, in the code's order).  RawData / write_length_block store this number as the length marker of
   the engine data embedded in a type-tool block, so it must equal the number of bytes emitted
   (theorem write_count_truthful); [Zlen] of a literal piece is the value write_bytes returns for it. *)
Definition Zlen {A} (l : list A) : Z := Z.of_nat (length l).
Fixpoint wc (ind : option nat) (t : tree) {struct t} : Z :=
  match t with
  | TDict d =>
      ((match ind with Some O => 1 | _ => 0 end) + Zlen (w_nl ind) + Zlen (w_ind ind) + 2 + Zlen (w_nl ind)) +
      (fix go (l : kvs) : Z :=
         match l with
         | [] => 0
         | (k, v) :: r =>
             (Zlen (w_ind (inner ind)) + (1 + Zlen k) +
              match v with
              | TDict _ => wc (inner ind) v
              | TList items => 1 + wc (list_ind ind items) v
              | _ => 1 + wc None v
              end + Zlen (w_nl ind)) + go r
         end) d +
      (Zlen (w_ind ind) + 2)
  | TList items =>
      1 +
      match ind with
      | None =>
          (fix go (l : list tree) : Z :=
             match l with
             | [] => 0
             | it :: r => (match it with TDict _ => wc None it | _ => 1 + wc None it end) + go r
             end) items + 1
      | Some _ =>
          (fix go (l : list tree) : Z :=
             match l with
             | [] => 0
             | it :: r => (match it with
                           | TDict _ => wc ind it
                           | _ => Zlen (w_nl ind) + Zlen (w_ind ind) + wc None it
                           end) + go r
             end) items + Zlen (w_nl ind) + Zlen (w_ind ind)
      end + 1
  | _ => Zlen (leaf_bytes t)
  end.
Definition centry (ind : option nat) (kv : list Z * tree) : Z :=
  let '(k, v) := kv in
  Zlen (w_ind (inner ind)) + (1 + Zlen k) +
  match v with
  | TDict _ => wc (inner ind) v
  | TList items => 1 + wc (list_ind ind items) v
  | _ => 1 + wc None v
  end + Zlen (w_nl ind).
Fixpoint zsum (l : list Z) : Z := match l with [] => 0 | x :: r => x + zsum r end.
Definition centries (ind : option nat) (d : kvs) : Z := zsum (map (centry ind) d).

(* ValueError of  b"%d" % value  for an Integer of more than 4300 digits, anywhere in the tree *)
Fixpoint wbig (t : tree) : bool :=
  match t with
  | TDict d => (fix go (l : kvs) : bool := match l with [] => false | kv :: r => wbig (snd kv) || go r end) d
  | TList items => (fix go (l : list tree) : bool := match l with [] => false | it :: r => wbig it || go r end) items
  | TInt z => negb (int_ok z)
  | _ => false
  end.

Inductive layout := Indented | Compact.
(* EngineData(d).tobytes()  = Dict.write(fp, indent=0, write_container=True)
   EngineData2(d).tobytes() = Dict.write(fp, indent=None, write_container=False) *)
Definition write (ly : layout) (d : kvs) : res (list Z) :=
  if wbig (TDict d) then Err ValueErr else
  match ly with
  | Indented => Ok (wv (Some O) (TDict d))
  | Compact => Ok (wentries None d)
  end.
(* the value returned by EngineData(d).write(fp) / EngineData2(d).write(fp) *)
Definition write_count (ly : layout) (d : kvs) : Z :=
  match ly with
  | Indented => wc (Some O) (TDict d)
  | Compact => centries None d
  end.

(* ====================================================================== guards of the theorems *)
Definition name_ok (n : list Z) : bool := negb (is_nil n) && forallb is_namech n.
Definition clean (tok : list Z) : bool :=
  negb (is_nil tok) && forallb (fun x => negb (is_div x)) tok && negb (starts_str tok).
Definition wf_leaf (t : tree) : bool :=
  match t with
  | TStr p => utf16_ok p
  | TInt z => int_ok z
  | TBool _ => true
  | TFloat f => (0 <=? fmag f) && (negb (ftiny f) || (fmag f =? 0))     (* tiny: non-zero, rounds to 0 *)
  | TProp n => name_ok n
  | TTag b => (kind_eqb (classify b) KTag || kind_eqb (classify b) KTag2) && clean b
  | _ => true
  end.
Fixpoint keys_nodup (ks : list (list Z)) : bool :=
  match ks with [] => true | k :: t => negb (existsb (list_eqb k) t) && keys_nodup t end.
Fixpoint wf_tree (t : tree) : bool :=
  match t with
  | TDict d =>
      keys_nodup (map fst d) &&
      (fix go (l : kvs) : bool :=
         match l with [] => true | (k, v) :: r => name_ok k && wf_tree v && go r end) d
  | TList items =>
      (fix go (l : list tree) : bool := match l with [] => true | it :: r => wf_tree it && go r end) items
  | _ => wf_leaf t
  end.
(* ====================================================================== canonical serialisation *)
(* used by the correspondence check to compare a parsed tree with the implementation's *)
Definition b2z (b : bool) : Z := if b then 1 else 0.
Fixpoint ser (t : tree) : list Z :=
  match t with
  | TDict d => 1 :: Zlen d ::
      (fix go (l : kvs) : list Z :=
         match l with [] => [] | (k, v) :: r => (Zlen k :: k) ++ ser v ++ go r end) d
  | TList items => 2 :: Zlen items ::
      (fix go (l : list tree) : list Z := match l with [] => [] | it :: r => ser it ++ go r end) items
  | TStr p => 3 :: Zlen p :: p
  | TInt z => [4; b2z (z <? 0); Z.abs z]
  | TFloat f => [5; b2z (fneg f); fmag f; b2z (ftiny f)]
  | TBool b => [6; b2z b]
  | TProp n => 7 :: Zlen n :: n
  | TTag b => 8 :: Zlen b :: b
  end.
Fixpoint ser_tokens (ts : list token) : list Z :=
  match ts with [] => [] | (k, b) :: r => kind_code k :: Zlen b :: b ++ ser_tokens r end.

(* ====================================================================== history (finding F-C18-1, fixed by aadd31f) *)
(* the end search before the fix: UTF16_END = [^\\]\) used with .search on the data from the "("
   on: the first ")" whose previous byte is not a backslash.  Result: (token, data after it). *)
Fixpoint scan_old (l : list Z) : option (list Z * list Z) :=
  match l with
  | x :: ((y :: t) as t') =>
      if negb (x =? 92) && (y =? 41) then Some ([x; y], t)
      else match scan_old t' with Some (c, r) => Some (x :: c, r) | None => None end
  | _ => None
  end.
