theories/Base/Prelude.vo theories/Base/Prelude.glob theories/Base/Prelude.v.beautified theories/Base/Prelude.required_vo: theories/Base/Prelude.v 
theories/Base/Prelude.vio: theories/Base/Prelude.v 
theories/Base/Prelude.vos theories/Base/Prelude.vok theories/Base/Prelude.required_vos: theories/Base/Prelude.v 
theories/Properties/C05.vo theories/Properties/C05.glob theories/Properties/C05.v.beautified theories/Properties/C05.required_vo: theories/Properties/C05.v theories/Base/Prelude.vo theories/Rle/Model.vo
theories/Properties/C05.vio: theories/Properties/C05.v theories/Base/Prelude.vio theories/Rle/Model.vio
theories/Properties/C05.vos theories/Properties/C05.vok theories/Properties/C05.required_vos: theories/Properties/C05.v theories/Base/Prelude.vos theories/Rle/Model.vos
theories/Rle/Corr.vo theories/Rle/Corr.glob theories/Rle/Corr.v.beautified theories/Rle/Corr.required_vo: theories/Rle/Corr.v theories/Base/Prelude.vo theories/Rle/Model.vo
theories/Rle/Corr.vio: theories/Rle/Corr.v theories/Base/Prelude.vio theories/Rle/Model.vio
theories/Rle/Corr.vos theories/Rle/Corr.vok theories/Rle/Corr.required_vos: theories/Rle/Corr.v theories/Base/Prelude.vos theories/Rle/Model.vos
theories/Rle/Model.vo theories/Rle/Model.glob theories/Rle/Model.v.beautified theories/Rle/Model.required_vo: theories/Rle/Model.v theories/Base/Prelude.vo
theories/Rle/Model.vio: theories/Rle/Model.v theories/Base/Prelude.vio
theories/Rle/Model.vos theories/Rle/Model.vok theories/Rle/Model.required_vos: theories/Rle/Model.v theories/Base/Prelude.vos
